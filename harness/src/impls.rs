//! The trait-implementation table, read from rustc: `probe!(Type: Bound)` is `true` iff the bound
//! holds (an inherent associated const, available only under the bound, shadows a blanket trait const).
#![allow(dead_code)]
use crate::be::*;
use paseto_core::key::{HasKey, Key, SealingKey};
use paseto_core::paserk::{IdVersion, KeyText, PasswordWrappedKey, PieWrapVersion, PieWrappedKey, PkeSealingVersion, PkeUnsealingVersion, PwWrapVersion, SealedKey};
use paseto_core::tokens::{SealedToken, UnsealedToken};
use paseto_core::version::{Local, PkePublic, PkeSecret, Public, Purpose, SealingVersion, Secret, UnsealingVersion};
use std::fmt::{Debug, Display};
use std::io::Write;
use std::marker::PhantomData;

pub struct W<T: ?Sized>(PhantomData<T>);
pub trait Fallback {
    const V: bool = false;
}
impl<T: ?Sized> Fallback for W<T> {}

macro_rules! probe {
    ($ty:ty : $($bound:tt)+) => {{
        #[allow(non_local_definitions)]
        mod m {}
        struct P<T: ?Sized>(PhantomData<T>);
        trait F { const V: bool = false; }
        impl<T: ?Sized> F for P<T> {}
        #[allow(dead_code)]
        impl<T: ?Sized + $($bound)+> P<T> { const V: bool = true; }
        <P<$ty>>::V
    }};
}

fn b(x: bool) -> &'static str {
    if x { "true" } else { "false" }
}

macro_rules! per_backend {
    ($w:expr, $name:literal, |$V:ident| $e:expr) => {{
        writeln!($w, "def {} : Backend → Bool", $name).unwrap();
        { type $V = TV1; writeln!($w, "  | .v1 => {}", b($e)).unwrap(); }
        { type $V = TV2; writeln!($w, "  | .v2 => {}", b($e)).unwrap(); }
        { type $V = TV3; writeln!($w, "  | .v3 => {}", b($e)).unwrap(); }
        { type $V = TV3Lc; writeln!($w, "  | .v3lc => {}", b($e)).unwrap(); }
        { type $V = TV4; writeln!($w, "  | .v4 => {}", b($e)).unwrap(); }
        { type $V = TV4S; writeln!($w, "  | .v4s => {}", b($e)).unwrap(); }
    }};
}

macro_rules! per_backend_kind {
    ($w:expr, $name:literal, |$V:ident, $K:ident| $e:expr) => {{
        writeln!($w, "def {} : Backend → Kind → Bool", $name).unwrap();
        macro_rules! row { ($bn:literal, $VT:ty) => {{
            type $V = $VT;
            { type $K = Local; writeln!($w, "  | .{}, .localK => {}", $bn, b($e)).unwrap(); }
            { type $K = Public; writeln!($w, "  | .{}, .publicK => {}", $bn, b($e)).unwrap(); }
            { type $K = Secret; writeln!($w, "  | .{}, .secretK => {}", $bn, b($e)).unwrap(); }
            { type $K = PkePublic; writeln!($w, "  | .{}, .pkePublic => {}", $bn, b($e)).unwrap(); }
            { type $K = PkeSecret; writeln!($w, "  | .{}, .pkeSecret => {}", $bn, b($e)).unwrap(); }
        }}; }
        row!("v1", TV1); row!("v2", TV2); row!("v3", TV3); row!("v3lc", TV3Lc); row!("v4", TV4); row!("v4s", TV4S);
    }};
}

/// `Key<V, K>` only exists when `V: HasKey<K>`; every back end implements all five kinds today, which the
/// first table records — the key-level tables below are only well-formed because of it.
pub fn print_impls(w: &mut impl Write) {
    writeln!(w, "import PasetoModel.Names").unwrap();
    writeln!(w, "/-! GENERATED on every run by `pm impls`: the trait-implementation table as rustc sees it. Do not edit. -/").unwrap();
    writeln!(w, "namespace PM.Extracted.Impls").unwrap();
    writeln!(w, "open PM").unwrap();
    per_backend_kind!(w, "hasKey", |V, K| probe!(V: HasKey<K>));
    // markers
    writeln!(w, "def purposeMarker : Kind → Bool").unwrap();
    writeln!(w, "  | .localK => {}", b(probe!(Local: Purpose))).unwrap();
    writeln!(w, "  | .publicK => {}", b(probe!(Public: Purpose))).unwrap();
    writeln!(w, "  | .secretK => {}", b(probe!(Secret: Purpose))).unwrap();
    writeln!(w, "  | .pkePublic => {}", b(probe!(PkePublic: Purpose))).unwrap();
    writeln!(w, "  | .pkeSecret => {}", b(probe!(PkeSecret: Purpose))).unwrap();
    writeln!(w, "def sealingKeyMarker : Kind → Bool").unwrap();
    writeln!(w, "  | .localK => {}", b(probe!(Local: SealingKey))).unwrap();
    writeln!(w, "  | .publicK => {}", b(probe!(Public: SealingKey))).unwrap();
    writeln!(w, "  | .secretK => {}", b(probe!(Secret: SealingKey))).unwrap();
    writeln!(w, "  | .pkePublic => {}", b(probe!(PkePublic: SealingKey))).unwrap();
    writeln!(w, "  | .pkeSecret => {}", b(probe!(PkeSecret: SealingKey))).unwrap();
    per_backend!(w, "unsealingLocal", |V| probe!(V: UnsealingVersion<Local>));
    per_backend!(w, "unsealingPublic", |V| probe!(V: UnsealingVersion<Public>));
    per_backend!(w, "sealingLocal", |V| probe!(V: SealingVersion<Local>));
    per_backend!(w, "sealingPublic", |V| probe!(V: SealingVersion<Public>));
    per_backend!(w, "pieWrap", |V| probe!(V: PieWrapVersion));
    per_backend!(w, "pwWrap", |V| probe!(V: PwWrapVersion));
    per_backend!(w, "pkeSealing", |V| probe!(V: PkeSealingVersion));
    per_backend!(w, "pkeUnsealing", |V| probe!(V: PkeUnsealingVersion));
    per_backend!(w, "idVersion", |V| probe!(V: IdVersion));
    per_backend_kind!(w, "keyDisplay", |V, K| probe!(Key<V, K>: Display));
    per_backend_kind!(w, "keyDebug", |V, K| probe!(Key<V, K>: Debug));
    per_backend_kind!(w, "keyClone", |V, K| probe!(Key<V, K>: Clone));
    per_backend_kind!(w, "keySerialize", |V, K| probe!(Key<V, K>: serde_core::Serialize));
    per_backend_kind!(w, "keyTextDisplay", |V, K| probe!(KeyText<V, K>: Display));
    per_backend_kind!(w, "keyTextDebug", |V, K| probe!(KeyText<V, K>: Debug));
    per_backend!(w, "sealedLocalDisplay", |V| probe!(SealedToken<V, Local, Rich, Rich>: Display));
    per_backend!(w, "sealedPublicDisplay", |V| probe!(SealedToken<V, Public, Rich, Rich>: Display));
    per_backend!(w, "sealedLocalSerialize", |V| probe!(SealedToken<V, Local, Rich, Rich>: serde_core::Serialize));
    per_backend!(w, "unsealedLocalDisplay", |V| probe!(UnsealedToken<V, Local, Rich, Rich>: Display));
    per_backend!(w, "unsealedPublicDisplay", |V| probe!(UnsealedToken<V, Public, Rich, Rich>: Display));
    per_backend!(w, "unsealedLocalSerialize", |V| probe!(UnsealedToken<V, Local, Rich, Rich>: serde_core::Serialize));
    per_backend!(w, "unsealedPublicSerialize", |V| probe!(UnsealedToken<V, Public, Rich, Rich>: serde_core::Serialize));
    per_backend!(w, "unsealedLocalDebug", |V| probe!(UnsealedToken<V, Local, Rich, Rich>: Debug));
    per_backend!(w, "pieWrappedDisplay", |V| probe!(PieWrappedKey<V, Local>: Display));
    per_backend!(w, "pwWrappedDisplay", |V| probe!(PasswordWrappedKey<V, Secret>: Display));
    per_backend!(w, "sealedKeyDisplay", |V| probe!(SealedKey<V>: Display));
    per_backend!(w, "pieWrappedDebug", |V| probe!(PieWrappedKey<V, Local>: Debug));
    // trait impls that must NOT exist: ways to get at secret key material or at an unsealed / unverified value without the
    // explicit calls (`expose_key`, `unverified_footer`).  One row per (type, bound); the Lean side demands `false` everywhere.
    writeln!(w, "def forbiddenImpls : List (String × Bool) := [").unwrap();
    let mut rows: Vec<(String, bool)> = vec![];
    macro_rules! forb {
        ($bn:literal, $VT:ty) => {{
            type V = $VT;
            macro_rules! key_rows { ($kn:literal, $K:ty) => {{
                rows.push((format!("Key<{},{}>: Into<[u8;32]>", $bn, $kn), probe!(Key<V, $K>: Into<[u8; 32]>)));
                rows.push((format!("Key<{},{}>: Into<[u8;48]>", $bn, $kn), probe!(Key<V, $K>: Into<[u8; 48]>)));
                rows.push((format!("Key<{},{}>: Into<[u8;64]>", $bn, $kn), probe!(Key<V, $K>: Into<[u8; 64]>)));
                rows.push((format!("Key<{},{}>: Into<Vec<u8>>", $bn, $kn), probe!(Key<V, $K>: Into<Vec<u8>>)));
                rows.push((format!("Key<{},{}>: Into<Box<[u8]>>", $bn, $kn), probe!(Key<V, $K>: Into<Box<[u8]>>)));
                rows.push((format!("Key<{},{}>: Into<String>", $bn, $kn), probe!(Key<V, $K>: Into<String>)));
                rows.push((format!("Key<{},{}>: AsRef<[u8]>", $bn, $kn), probe!(Key<V, $K>: AsRef<[u8]>)));
                rows.push((format!("Key<{},{}>: Borrow<[u8]>", $bn, $kn), probe!(Key<V, $K>: std::borrow::Borrow<[u8]>)));
                rows.push((format!("Key<{},{}>: Deref", $bn, $kn), probe!(Key<V, $K>: std::ops::Deref)));
                rows.push((format!("Key<{},{}>: ToString", $bn, $kn), probe!(Key<V, $K>: ToString)));
                rows.push((format!("Key<{},{}>: Hash", $bn, $kn), probe!(Key<V, $K>: std::hash::Hash)));
                rows.push((format!("Key<{},{}>: LowerHex", $bn, $kn), probe!(Key<V, $K>: std::fmt::LowerHex)));
                rows.push((format!("&Key<{},{}>: Into<Vec<u8>>", $bn, $kn), probe!(&'static Key<V, $K>: Into<Vec<u8>>)));
                rows.push((format!("&Key<{},{}>: IntoIterator", $bn, $kn), probe!(&'static Key<V, $K>: IntoIterator)));
            }}; }
            key_rows!("Local", Local);
            key_rows!("Secret", Secret);
            key_rows!("PkeSecret", PkeSecret);
            rows.push((format!("SealedToken<{},Local>: Deref", $bn), probe!(SealedToken<V, Local, Rich, Rich>: std::ops::Deref)));
            rows.push((format!("SealedToken<{},Public>: Deref", $bn), probe!(SealedToken<V, Public, Rich, Rich>: std::ops::Deref)));
            rows.push((format!("SealedToken<{},Local>: AsRef<Rich>", $bn), probe!(SealedToken<V, Local, Rich, Rich>: AsRef<Rich>)));
            rows.push((format!("SealedToken<{},Public>: AsRef<Rich>", $bn), probe!(SealedToken<V, Public, Rich, Rich>: AsRef<Rich>)));
            rows.push((format!("SealedToken<{},Public>: Borrow<Rich>", $bn), probe!(SealedToken<V, Public, Rich, Rich>: std::borrow::Borrow<Rich>)));
            rows.push((format!("SealedToken<{},Public>: Into<Rich>", $bn), probe!(SealedToken<V, Public, Rich, Rich>: Into<Rich>)));
            rows.push((format!("UnsealedToken<{},Local>: ToString", $bn), probe!(UnsealedToken<V, Local, Rich, Rich>: ToString)));
            rows.push((format!("UnsealedToken<{},Public>: Into<String>", $bn), probe!(UnsealedToken<V, Public, Rich, Rich>: Into<String>)));
            rows.push((format!("UnsealedToken<{},Local>: Into<Vec<u8>>", $bn), probe!(UnsealedToken<V, Local, Rich, Rich>: Into<Vec<u8>>)));
        }};
    }
    forb!("v1", TV1); forb!("v2", TV2); forb!("v3", TV3); forb!("v3lc", TV3Lc); forb!("v4", TV4); forb!("v4s", TV4S);
    for (i, (n, v)) in rows.iter().enumerate() {
        writeln!(w, "  (\"{}\", {}){}", n, b(*v), if i + 1 < rows.len() { "," } else { "" }).unwrap();
    }
    writeln!(w, "]").unwrap();
    writeln!(w, "end PM.Extracted.Impls").unwrap();
}
