//! C17: one key shared by many threads; histories mixing failing and succeeding calls
use crate::be::*;
use crate::exec::R;
use crate::exec4::key_of;
use crate::util::*;
use crate::with_v;
use paseto_core::key::Key;
use paseto_core::paserk::{PasswordWrappedKey, PieWrappedKey};
use paseto_core::tokens::{SealedToken, UnsealedToken};
use paseto_core::validation::NoValidation;
use paseto_core::version::{Local, Public, Secret};
use std::str::FromStr;
use std::sync::Arc;

fn nv() -> NoValidation<Raw> {
    NoValidation::dangerous_no_validation()
}

/// deterministic fingerprints of a key set (injected nonce), used to compare "before", "after" and "fresh copy"
fn fingerprint<V>(lk: &Key<V, Local>, sk: &Key<V, Secret>, pk: &Key<V, Public>, nonce_len: usize) -> Result<String, String>
where
    V: paseto_core::version::SealingVersion<Local> + paseto_core::version::SealingVersion<Public> + paseto_core::paserk::IdVersion,
{
    let tok = UnsealedToken::<V, Local, Raw>::new(Raw(b"fingerprint".to_vec()))
        .dangerous_seal_with_nonce(lk, &[], vec![9u8; nonce_len])
        .map_err(|e| err_name(&e).to_string())?
        .to_string();
    Ok(format!("{}|{}|{}|{}|{}", tok, hex(sk.expose_key().as_raw_bytes()), hex(pk.expose_key().as_raw_bytes()), sk.id(), pk.id()))
}

fn conc<V>(be: Be, threads: usize, iters: usize, seed: u64) -> R
where
    V: paseto_core::version::SealingVersion<Local>
        + paseto_core::version::SealingVersion<Public>
        + paseto_core::paserk::IdVersion
        + paseto_core::paserk::PieWrapVersion
        + paseto_core::paserk::PwWrapVersion
        + paseto_core::paserk::PkeSealingVersion
        + paseto_core::paserk::PkeUnsealingVersion
        + 'static,
    Key<V, paseto_core::version::PkePublic>: Send + Sync,
    Key<V, paseto_core::version::PkeSecret>: Send + Sync,
    Key<V, Local>: Send + Sync + Clone,
    Key<V, Secret>: Send + Sync + Clone,
    Key<V, Public>: Send + Sync + Clone,
{
    let nonce_len = if be == Be::V2 { 24 } else { 32 };
    let lk = Arc::new(Key::<V, Local>::random().map_err(|_| "keygen".to_string())?);
    let sk = Arc::new(Key::<V, Secret>::random().map_err(|_| "keygen".to_string())?);
    let pk = Arc::new(sk.public_key());
    let before = fingerprint::<V>(&lk, &sk, &pk, nonce_len)?;
    let bad_tok = format!("v{}.local.{}", be.version(), crate::gen_text::b64(&[0u8; 120]));
    // sequential reference values for the deterministic operations
    let expect_tok = Arc::new(
        UnsealedToken::<V, Local, Raw>::new(Raw(b"deterministic".to_vec()))
            .dangerous_seal_with_nonce(&lk, &[], vec![7u8; nonce_len])
            .map_err(|e| err_name(&e).to_string())?
            .to_string(),
    );
    let deterministic_sig = matches!(be, Be::V2 | Be::V3 | Be::V4 | Be::V4S);
    let expect_sig = Arc::new(UnsealedToken::<V, Public, Raw>::new(Raw(b"deterministic".to_vec())).sign(&sk).map_err(|e| err_name(&e).to_string())?.to_string());
    let (psk_raw, ppk_raw) = crate::gen_paserk::pke_pair(be);
    let psk = Arc::new(key_of::<V, paseto_core::version::PkeSecret>(&psk_raw).map_err(|_| "pke-key".to_string())?);
    let ppk = Arc::new(key_of::<V, paseto_core::version::PkePublic>(&ppk_raw).map_err(|_| "pke-key".to_string())?);
    // key rotation: several *different* keys, each parsed afresh (new allocation), used and dropped again and again; the
    // reference public key / id of each was computed once, sequentially, before any thread started
    let pool: Arc<Vec<(Vec<u8>, Vec<u8>, String)>> = Arc::new(
        (0..if be == Be::V1 { 3 } else { 6 })
            .map(|_| {
                let raw = crate::gen_tok::gen_secret(be);
                let k = key_of::<V, Secret>(&raw).expect("pool key");
                let p = k.public_key();
                (raw, p.expose_key().as_raw_bytes().to_vec(), k.id().to_string())
            })
            .collect(),
    );
    let mut handles = vec![];
    for t in 0..threads {
        let pool = pool.clone();
        let (lk, sk, pk, bad_tok) = (lk.clone(), sk.clone(), pk.clone(), bad_tok.clone());
        let (expect_tok, expect_sig, psk, ppk) = (expect_tok.clone(), expect_sig.clone(), psk.clone(), ppk.clone());
        handles.push(std::thread::spawn(move || -> (usize, usize) {
            let mut r = Rng::new(seed ^ (t as u64) << 20);
            let (mut ops, mut bad) = (0usize, 0usize);
            for i in 0..iters {
                let msg = r.bytes_in(0, 40);
                match r.below(11) {
                    10 => {
                        if be != Be::V1 || i % 8 == 0 {
                            let (raw, pk_ref, id_ref) = &pool[r.below(pool.len() as u64) as usize];
                            let good = (|| {
                                let k = key_of::<V, Secret>(raw).ok()?;
                                let p = k.public_key();
                                if p.expose_key().as_raw_bytes() != &pk_ref[..] || &k.id().to_string() != id_ref { return None; }
                                let tok = UnsealedToken::<V, Public, Raw>::new(Raw(msg.clone())).sign(&k).ok()?.to_string();
                                drop(k);
                                drop(p);
                                // verified under the public key re-parsed from the reference bytes
                                let p2 = key_of::<V, Public>(pk_ref).ok()?;
                                let u = SealedToken::<V, Public, Raw>::from_str(&tok).ok()?.verify(&p2, &nv()).ok()?;
                                Some(u.claims.0 == msg)
                            })();
                            if good != Some(true) { bad += 1; }
                        }
                    }
                    7 => {
                        // deterministic operations give exactly the sequential result
                        let t = UnsealedToken::<V, Local, Raw>::new(Raw(b"deterministic".to_vec())).dangerous_seal_with_nonce(&lk, &[], vec![7u8; nonce_len]).ok().map(|t| t.to_string());
                        if t.as_deref() != Some(expect_tok.as_str()) { bad += 1; }
                        let open = SealedToken::<V, Local, Raw>::from_str(&expect_tok).ok().and_then(|t| t.decrypt(&lk, &nv()).ok()).map(|u| u.claims.0 == b"deterministic").unwrap_or(false);
                        if !open { bad += 1; }
                    }
                    8 => {
                        let s = UnsealedToken::<V, Public, Raw>::new(Raw(b"deterministic".to_vec())).sign(&sk).ok().map(|t| t.to_string());
                        if deterministic_sig && s.as_deref() != Some(expect_sig.as_str()) { bad += 1; }
                        let ok = SealedToken::<V, Public, Raw>::from_str(&expect_sig).ok().and_then(|t| t.verify(&pk, &nv()).ok()).map(|u| u.claims.0 == b"deterministic").unwrap_or(false);
                        if !ok { bad += 1; }
                    }
                    9 => {
                        // key sealing to the shared recipient key, unsealing with the shared secret key; a failing unseal in between
                        if be != Be::V1 || i % 16 == 0 {
                            let sealed = (*lk).clone().seal(&ppk).ok().map(|s| s.to_string());
                            let ok = sealed.as_ref().and_then(|s| paseto_core::paserk::SealedKey::<V>::from_str(s).ok()).and_then(|s| s.unseal(&psk).ok())
                                .map(|k| k.expose_key().as_raw_bytes() == lk.expose_key().as_raw_bytes()).unwrap_or(false);
                            if !ok { bad += 1; }
                            let broken = sealed.map(|s| { let mut b = s.into_bytes(); let n = b.len(); b[n - 2] = if b[n - 2] == b'A' { b'B' } else { b'A' }; String::from_utf8(b).unwrap() });
                            let rejected = broken.and_then(|s| paseto_core::paserk::SealedKey::<V>::from_str(&s).ok()).map(|s| s.unseal(&psk).is_err()).unwrap_or(true);
                            if !rejected { bad += 1; }
                        }
                    }
                    0 => {
                        // encrypt with the shared key, decrypt with the shared key
                        let ok = UnsealedToken::<V, Local, Raw>::new(Raw(msg.clone())).encrypt(&lk).ok()
                            .and_then(|t| SealedToken::<V, Local, Raw>::from_str(&t.to_string()).ok())
                            .and_then(|t| t.decrypt(&lk, &nv()).ok())
                            .map(|u| u.claims.0 == msg).unwrap_or(false);
                        if !ok { bad += 1; }
                    }
                    1 => {
                        // sign with the shared secret key, verify with the shared public key and with a clone
                        let tok = UnsealedToken::<V, Public, Raw>::new(Raw(msg.clone())).sign(&sk).ok().map(|t| t.to_string());
                        let ok = tok.as_ref().and_then(|s| SealedToken::<V, Public, Raw>::from_str(s).ok()).and_then(|t| t.verify(&pk, &nv()).ok()).map(|u| u.claims.0 == msg).unwrap_or(false);
                        let pk2 = (*pk).clone();
                        let ok2 = tok.as_ref().and_then(|s| SealedToken::<V, Public, Raw>::from_str(s).ok()).and_then(|t| t.verify(&pk2, &nv()).ok()).is_some();
                        if !(ok && ok2) { bad += 1; }
                    }
                    2 => {
                        // failing operations must stay failures and must not disturb anybody
                        let f1 = SealedToken::<V, Local, Raw>::from_str(&bad_tok).ok().map(|t| t.decrypt(&lk, &nv()).is_err()).unwrap_or(false);
                        let f2 = SealedToken::<V, Public, Raw>::from_str(&bad_tok.replacen("local", "public", 1)).ok().map(|t| t.verify(&pk, &nv()).is_err()).unwrap_or(true);
                        if !(f1 && f2) { bad += 1; }
                    }
                    3 => {
                        // wrap the (cloned) secret key under the shared local key and unwrap it again
                        let w = (*sk).clone().wrap_pie(&lk).ok().map(|w| w.to_string());
                        let ok = w.and_then(|s| PieWrappedKey::<V, Secret>::from_str(&s).ok()).and_then(|w| w.unwrap(&lk).ok())
                            .map(|k| k.expose_key().as_raw_bytes() == sk.expose_key().as_raw_bytes()).unwrap_or(false);
                        if !ok { bad += 1; }
                    }
                    4 => {
                        // clone and drop, use the clone
                        let c = (*sk).clone();
                        let p = c.public_key();
                        if p.expose_key().as_raw_bytes() != pk.expose_key().as_raw_bytes() { bad += 1; }
                        drop(c);
                        let l2 = (*lk).clone();
                        if l2.expose_key().as_raw_bytes() != lk.expose_key().as_raw_bytes() { bad += 1; }
                    }
                    5 => {
                        // ids from many threads
                        if sk.id().to_string() != (*sk).clone().id().to_string() || pk.id().as_bytes() != sk.public_key().id().as_bytes() { bad += 1; }
                    }
                    _ => {
                        // wrong password on a blob wrapped for the shared key (cheap parameters)
                        if i % 8 == 0 {
                            let donor = crate::gen_paserk::pw_template_pub(be, &crate::gen_paserk::min_params(be));
                            let ok = PasswordWrappedKey::<V, Local>::from_str(&donor).ok().and_then(|d| d.params().ok())
                                .and_then(|p| (*lk).clone().password_wrap_with_params(b"right", &p).ok())
                                .map(|w| w.to_string())
                                .and_then(|s| PasswordWrappedKey::<V, Local>::from_str(&s).ok())
                                .map(|w| w.unwrap(b"wrong").is_err()).unwrap_or(false);
                            if !ok { bad += 1; }
                        }
                    }
                }
                ops += 1;
            }
            (ops, bad)
        }));
    }
    let (mut ops, mut bad, mut panicked) = (0, 0, 0);
    for h in handles {
        match h.join() {
            Ok((o, b)) => { ops += o; bad += b; }
            Err(_) => panicked += 1,
        }
    }
    let after = fingerprint::<V>(&lk, &sk, &pk, nonce_len)?;
    // a fresh copy of the keys, re-parsed from their bytes, behaves the same
    let lk2 = key_of::<V, Local>(lk.expose_key().as_raw_bytes()).map_err(|_| "reparse".to_string())?;
    let sk2 = key_of::<V, Secret>(sk.expose_key().as_raw_bytes()).map_err(|_| "reparse".to_string())?;
    let pk2 = sk2.public_key();
    let fresh = fingerprint::<V>(&lk2, &sk2, &pk2, nonce_len)?;
    Ok(format!("mismatches={} panicked={} same_after={} same_fresh={} ops={}", bad, panicked, (before == after) as u8, (before == fresh) as u8, ops))
}

pub fn exec_more(t: &[&str]) -> R {
    let bad = || "bad-op".to_string();
    match t[0] {
        "o.conc" => {
            let b = t.get(1).and_then(|s| Be::parse(s)).ok_or_else(bad)?;
            let threads: usize = t.get(2).ok_or_else(bad)?.parse().map_err(|_| bad())?;
            let iters: usize = t.get(3).ok_or_else(bad)?.parse().map_err(|_| bad())?;
            let seed: u64 = t.get(4).ok_or_else(bad)?.parse().map_err(|_| bad())?;
            with_v!(b, V => conc::<V>(b, threads, iters, seed))
        }
        // fresh keys used for the FIRST time by several threads at the same moment (lazy initialisation inside a key must not race)
        "o.burst" => {
            let b = Be::parse(t.get(1).ok_or_else(bad)?).ok_or_else(bad)?;
            let threads: usize = t.get(2).and_then(|x| x.parse().ok()).ok_or_else(bad)?;
            let rounds: usize = t.get(3).and_then(|x| x.parse().ok()).ok_or_else(bad)?;
            with_v!(b, V => burst::<V>(b, threads, rounds))
        }
        // a history of failing operations of every kind, then the same successful operations as before it
        "o.hist" => {
            let b = Be::parse(t.get(1).ok_or_else(bad)?).ok_or_else(bad)?;
            let n: usize = t.get(2).and_then(|x| x.parse().ok()).ok_or_else(bad)?;
            with_v!(b, V => hist::<V>(b, n))
        }
        _ => Err(bad()),
    }
}

fn burst<V>(be: Be, threads: usize, rounds: usize) -> R
where
    V: paseto_core::version::SealingVersion<Local>
        + paseto_core::version::SealingVersion<Public>
        + paseto_core::paserk::IdVersion
        + paseto_core::paserk::PieWrapVersion
        + paseto_core::paserk::PkeSealingVersion
        + paseto_core::paserk::PkeUnsealingVersion
        + 'static,
    Key<V, paseto_core::version::PkePublic>: Send + Sync,
    Key<V, paseto_core::version::PkeSecret>: Send + Sync,
    Key<V, Local>: Send + Sync,
    Key<V, Secret>: Send + Sync,
    Key<V, Public>: Send + Sync,
{
    use paseto_core::version::{PkePublic, PkeSecret};
    use std::sync::Barrier;
    let nonce_len = if be == Be::V2 { 24 } else { 32 };
    // material prepared sequentially with *other* key objects, so that the keys handed to the threads are untouched
    let sk_raw = crate::gen_tok::gen_secret(be);
    let lk_raw = vec![0x42u8; 32];
    let (psk_raw, ppk_raw) = crate::gen_paserk::pke_pair(be);
    let (tok_pub, tok_loc, sealed, wrapped, pk_raw, id_ref) = {
        let sk = key_of::<V, Secret>(&sk_raw).map_err(|_| "key".to_string())?;
        let lk = key_of::<V, Local>(&lk_raw).map_err(|_| "key".to_string())?;
        let ppk = key_of::<V, PkePublic>(&ppk_raw).map_err(|_| "key".to_string())?;
        let tp = UnsealedToken::<V, Public, Raw>::new(Raw(b"burst".to_vec())).sign(&sk).map_err(|_| "sign".to_string())?.to_string();
        let tl = UnsealedToken::<V, Local, Raw>::new(Raw(b"burst".to_vec())).dangerous_seal_with_nonce(&lk, &[], vec![3u8; nonce_len]).map_err(|_| "seal".to_string())?.to_string();
        let se = key_of::<V, Local>(&lk_raw).map_err(|_| "key".to_string())?.seal(&ppk).map_err(|_| "pke".to_string())?.to_string();
        let wr = key_of::<V, Secret>(&sk_raw).map_err(|_| "key".to_string())?.wrap_pie(&lk).map_err(|_| "pie".to_string())?.to_string();
        (tp, tl, se, wr, sk.public_key().expose_key().as_raw_bytes().to_vec(), sk.id().to_string())
    };
    let mut bad = 0usize;
    let mut total = 0usize;
    for round in 0..rounds {
        // brand-new key objects every round
        let sk = Arc::new(key_of::<V, Secret>(&sk_raw).map_err(|_| "key".to_string())?);
        let pk = Arc::new(key_of::<V, Public>(&pk_raw).map_err(|_| "key".to_string())?);
        let lk = Arc::new(key_of::<V, Local>(&lk_raw).map_err(|_| "key".to_string())?);
        let psk = Arc::new(key_of::<V, PkeSecret>(&psk_raw).map_err(|_| "key".to_string())?);
        let barrier = Arc::new(Barrier::new(threads));
        let kind = round % 6;
        let hs: Vec<_> = (0..threads).map(|_| {
            let (sk, pk, lk, psk, barrier) = (sk.clone(), pk.clone(), lk.clone(), psk.clone(), barrier.clone());
            let (tok_pub, tok_loc, sealed, wrapped, pk_raw, id_ref, lk_raw, sk_raw) = (tok_pub.clone(), tok_loc.clone(), sealed.clone(), wrapped.clone(), pk_raw.clone(), id_ref.clone(), lk_raw.clone(), sk_raw.clone());
            std::thread::spawn(move || -> bool {
                barrier.wait();
                match kind {
                    0 => paseto_core::paserk::SealedKey::<V>::from_str(&sealed).ok().and_then(|s| s.unseal(&psk).ok()).map(|k| k.expose_key().as_raw_bytes() == &lk_raw[..]).unwrap_or(false),
                    1 => SealedToken::<V, Public, Raw>::from_str(&tok_pub).ok().and_then(|t| t.verify(&pk, &nv()).ok()).map(|u| u.claims.0 == b"burst").unwrap_or(false),
                    2 => SealedToken::<V, Local, Raw>::from_str(&tok_loc).ok().and_then(|t| t.decrypt(&lk, &nv()).ok()).map(|u| u.claims.0 == b"burst").unwrap_or(false),
                    3 => sk.public_key().expose_key().as_raw_bytes() == &pk_raw[..] && sk.id().to_string() == id_ref,
                    4 => UnsealedToken::<V, Public, Raw>::new(Raw(b"x".to_vec())).sign(&sk).ok().map(|t| t.to_string())
                            .and_then(|s| SealedToken::<V, Public, Raw>::from_str(&s).ok()).and_then(|t| t.verify(&pk, &nv()).ok()).is_some(),
                    _ => PieWrappedKey::<V, Secret>::from_str(&wrapped).ok().and_then(|w| w.unwrap(&lk).ok()).map(|k| k.expose_key().as_raw_bytes() == &sk_raw[..]).unwrap_or(false),
                }
            })
        }).collect();
        for h in hs {
            total += 1;
            match h.join() { Ok(true) => {}, _ => bad += 1 }
        }
    }
    Ok(format!("mismatches={} panicked=0 same_after=1 same_fresh=1 ops={}", bad, total))
}

fn hist<V>(be: Be, n: usize) -> R
where
    V: paseto_core::version::SealingVersion<Local>
        + paseto_core::version::SealingVersion<Public>
        + paseto_core::paserk::IdVersion
        + paseto_core::paserk::PieWrapVersion
        + paseto_core::paserk::PwWrapVersion
        + paseto_core::paserk::PkeSealingVersion
        + paseto_core::paserk::PkeUnsealingVersion,
{
    use paseto_core::version::{PkePublic, PkeSecret};
    let nonce_len = if be == Be::V2 { 24 } else { 32 };
    let sk = key_of::<V, Secret>(&crate::gen_tok::gen_secret(be)).map_err(|_| "key".to_string())?;
    let pk = sk.public_key();
    let lk = key_of::<V, Local>(&[0x24u8; 32]).map_err(|_| "key".to_string())?;
    let (psk_raw, ppk_raw) = crate::gen_paserk::pke_pair(be);
    let psk = key_of::<V, PkeSecret>(&psk_raw).map_err(|_| "key".to_string())?;
    let ppk = key_of::<V, PkePublic>(&ppk_raw).map_err(|_| "key".to_string())?;
    let donor = crate::gen_paserk::pw_template_pub(be, &crate::gen_paserk::min_params(be));
    let params = PasswordWrappedKey::<V, Local>::from_str(&donor).map_err(|_| "donor".to_string())?.params().map_err(|_| "params".to_string())?;
    let pw_blob = key_of::<V, Local>(&[0x24u8; 32]).map_err(|_| "key".to_string())?.password_wrap_with_params(b"right", &params).map_err(|_| "pw".to_string())?.to_string();
    let sealed = key_of::<V, Local>(&[0x24u8; 32]).map_err(|_| "key".to_string())?.seal(&ppk).map_err(|_| "pke".to_string())?.to_string();
    let tok_pub = UnsealedToken::<V, Public, Raw>::new(Raw(b"hist".to_vec())).sign(&sk).map_err(|_| "sign".to_string())?.to_string();
    let reference = |tag: &str| -> Result<String, String> {
        let t = UnsealedToken::<V, Local, Raw>::new(Raw(b"hist".to_vec())).dangerous_seal_with_nonce(&lk, &[], vec![5u8; nonce_len]).map_err(|e| format!("{tag}-seal-{}", err_name(&e)))?.to_string();
        let o = SealedToken::<V, Local, Raw>::from_str(&t).ok().and_then(|x| x.decrypt(&lk, &nv()).ok()).map(|u| u.claims.0 == b"hist").unwrap_or(false);
        let v = SealedToken::<V, Public, Raw>::from_str(&tok_pub).ok().and_then(|x| x.verify(&pk, &nv()).ok()).is_some();
        let w = PasswordWrappedKey::<V, Local>::from_str(&pw_blob).ok().and_then(|x| x.unwrap(b"right").ok()).map(|k| k.expose_key().as_raw_bytes() == &[0x24u8; 32][..]).unwrap_or(false);
        let u = paseto_core::paserk::SealedKey::<V>::from_str(&sealed).ok().and_then(|x| x.unseal(&psk).ok()).map(|k| k.expose_key().as_raw_bytes() == &[0x24u8; 32][..]).unwrap_or(false);
        Ok(format!("{t}|{}|{}|{}|{}|{}|{}", o as u8, v as u8, w as u8, u as u8, sk.id(), hex(pk.expose_key().as_raw_bytes())))
    };
    let before = reference("before")?;
    let mut fails = 0usize;
    // cost parameter blocks the KDF front ends / libraries reject (zero passes, zero / tiny memory, zero lanes, zero iterations)
    let bad_params: Vec<Vec<u8>> = if be.version() % 2 == 1 {
        vec![0u32.to_be_bytes().to_vec()]
    } else {
        let mk = |m: u64, t: u32, p: u32| { let mut v = m.to_be_bytes().to_vec(); v.extend(t.to_be_bytes()); v.extend(p.to_be_bytes()); v };
        vec![mk(8192, 0, 1), mk(1024, 1, 1), mk(0, 1, 1), mk(8192, 1, 0), mk(0, 0, 0), mk(100, 2, 1)]
    };
    for i in 0..n {
        let bad_tok = format!("v{}.local.{}", be.version(), crate::gen_text::b64(&vec![i as u8; 100]));
        if SealedToken::<V, Local, Raw>::from_str(&bad_tok).ok().map(|t| t.decrypt(&lk, &nv()).is_err()).unwrap_or(true) { fails += 1; }
        if SealedToken::<V, Public, Raw>::from_str(&bad_tok.replacen("local", "public", 1)).ok().map(|t| t.verify(&pk, &nv()).is_err()).unwrap_or(true) { fails += 1; }
        if PasswordWrappedKey::<V, Local>::from_str(&pw_blob).ok().map(|w| w.unwrap(b"wrong").is_err()).unwrap_or(true) { fails += 1; }
        for bp in &bad_params {
            let blob = crate::gen_paserk::pw_template_pub(be, bp);
            if PasswordWrappedKey::<V, Local>::from_str(&blob).ok().map(|w| w.unwrap(b"right").is_err()).unwrap_or(true) { fails += 1; }
        }
        let garbage = format!("k{}.seal.{}", be.version(), crate::gen_text::b64(&vec![0x5au8; if be == Be::V1 { 592 } else if be.version() == 3 { 129 } else { 96 }]));
        if paseto_core::paserk::SealedKey::<V>::from_str(&garbage).ok().map(|s| s.unseal(&psk).is_err()).unwrap_or(true) { fails += 1; }
        if key_of::<V, Secret>(&[7u8; 5]).is_err() { fails += 1; }
        if key_of::<V, Public>(&[0xffu8; 49]).is_err() { fails += 1; }
    }
    let after = reference("after")?;
    Ok(format!("mismatches={} panicked=0 same_after={} same_fresh=1 ops={}", 0, (before == after) as u8, fails))
}
