//! Executes one operation line on the real library, in-process, under catch_unwind.
use crate::be::*;
use crate::util::*;
use crate::{with_kind, with_purpose, with_sealing_kind, with_v};
use paseto_core::paserk::{KeyId, KeyText, PasswordWrappedKey, PieWrappedKey, SealedKey};
use paseto_core::tokens::SealedToken;
use std::panic::{AssertUnwindSafe, catch_unwind};
use std::str::FromStr;

pub type R = Result<String, String>; // Ok("a b") -> "ok a b"; Err("variant") -> "err variant"

fn e(x: paseto_core::PasetoError) -> String {
    err_name(&x).to_string()
}

fn utf8(b: Vec<u8>) -> Result<String, String> {
    // op lines carry strings as hex of their UTF-8; the generators only emit valid UTF-8
    String::from_utf8(b).map_err(|_| "bad-utf8".to_string())
}

pub fn pae_vec(pieces: &[Vec<Vec<u8>>]) -> Option<Vec<u8>> {
    use paseto_core::pae::pre_auth_encode;
    let frs: Vec<Vec<&[u8]>> = pieces.iter().map(|p| p.iter().map(|f| &f[..]).collect()).collect();
    let ps: Vec<&[&[u8]]> = frs.iter().map(|p| &p[..]).collect();
    let mut out = Vec::new();
    macro_rules! go {
        ($($n:literal),*) => {
            match ps.len() {
                $( $n => { let a: [&[&[u8]]; $n] = ps[..].try_into().unwrap(); pre_auth_encode(a, &mut out); } )*
                _ => return None,
            }
        };
    }
    go!(0, 1, 2, 3, 4, 5, 6, 7, 8, 9, 10);
    Some(out)
}

/// pieces separated by '/', fragments by ','; "_" = piece with zero fragments; "-" = empty fragment
pub fn parse_pieces(s: &str) -> Option<Vec<Vec<Vec<u8>>>> {
    if s == "." {
        return Some(vec![]);
    }
    s.split('/')
        .map(|p| if p == "_" { Some(vec![]) } else { p.split(',').map(unhex).collect::<Option<Vec<_>>>() })
        .collect()
}
pub fn show_pieces(ps: &[Vec<Vec<u8>>]) -> String {
    if ps.is_empty() {
        return ".".into();
    }
    ps.iter()
        .map(|p| if p.is_empty() { "_".to_string() } else { p.iter().map(|f| hex(f)).collect::<Vec<_>>().join(",") })
        .collect::<Vec<_>>()
        .join("/")
}

fn tok_rt<V: paseto_core::version::Version, P: paseto_core::version::Purpose>(fk: &str, s: &str) -> R {
    match fk {
        "unit" => {
            let t = SealedToken::<V, P, Raw, ()>::from_str(s).map_err(e)?;
            Ok(format!("{} -", hex(t.to_string().as_bytes())))
        }
        "vec" => {
            let t = SealedToken::<V, P, Raw, Vec<u8>>::from_str(s).map_err(e)?;
            let f = t.unverified_footer().clone();
            Ok(format!("{} {}", hex(t.to_string().as_bytes()), hex(&f)))
        }
        _ => Err("bad-op".into()),
    }
}

fn tokc_rt<V: paseto_core::version::Version, P: paseto_core::version::Purpose>(fk: &str, s: &str) -> R {
    use crate::be::RawC;
    match fk {
        "unit" => {
            let t = SealedToken::<V, P, RawC, ()>::from_str(s).map_err(e)?;
            Ok(format!("{} -", hex(t.to_string().as_bytes())))
        }
        "vec" => {
            let t = SealedToken::<V, P, RawC, Vec<u8>>::from_str(s).map_err(e)?;
            let f = t.unverified_footer().clone();
            Ok(format!("{} {}", hex(t.to_string().as_bytes()), hex(&f)))
        }
        _ => Err("bad-op".into()),
    }
}

fn sd_tok_rt<V: paseto_core::version::Version, P: paseto_core::version::Purpose>(fk: &str, s: &str) -> R {
    let v = serde_json::Value::String(s.to_string());
    match fk {
        "unit" => {
            let t: SealedToken<V, P, Raw, ()> = serde_json::from_value(v).map_err(|_| "serde".to_string())?;
            let o = serde_json::to_value(&t).map_err(|_| "serde".to_string())?;
            match o {
                serde_json::Value::String(x) => Ok(format!("{} -", hex(x.as_bytes()))),
                _ => Err("not-a-string".into()),
            }
        }
        "vec" => {
            let t: SealedToken<V, P, Raw, Vec<u8>> = serde_json::from_value(v).map_err(|_| "serde".to_string())?;
            let f = t.unverified_footer().clone();
            let o = serde_json::to_value(&t).map_err(|_| "serde".to_string())?;
            match o {
                serde_json::Value::String(x) => Ok(format!("{} {}", hex(x.as_bytes()), hex(&f))),
                _ => Err("not-a-string".into()),
            }
        }
        _ => Err("bad-op".into()),
    }
}

/// FromStr + Display (+ serde with `sd`) of the simple PASERK text forms
fn txt_rt(be: Be, form: &str, kind: Kind, s: &str, sd: bool) -> R {
    macro_rules! rt {
        ($T:ty, $extra:expr) => {{
            let t: $T = if sd {
                serde_json::from_value(serde_json::Value::String(s.to_string())).map_err(|_| "serde".to_string())?
            } else {
                <$T>::from_str(s).map_err(e)?
            };
            let shown = if sd {
                match serde_json::to_value(&t).map_err(|_| "serde".to_string())? {
                    serde_json::Value::String(x) => x,
                    _ => return Err("not-a-string".into()),
                }
            } else {
                t.to_string()
            };
            let extra: Option<Vec<u8>> = $extra(&t);
            match extra {
                Some(x) => Ok(format!("{} {}", hex(shown.as_bytes()), hex(&x))),
                None => Ok(hex(shown.as_bytes())),
            }
        }};
    }
    with_v!(be, V => match form {
        "key" => with_kind!(kind, K => rt!(KeyText<V, K>, |t: &KeyText<V, K>| Some(t.as_raw_bytes().to_vec()))),
        "id" => with_kind!(kind, K => rt!(KeyId<V, K>, |t: &KeyId<V, K>| Some(t.as_bytes().to_vec()))),
        "pie" => with_sealing_kind!(kind, K => rt!(PieWrappedKey<V, K>, |_t: &PieWrappedKey<V, K>| None), else Err("bad-op".into())),
        // every accessor of a parsed value is exercised too (a panic in one of them is caught by the caller's catch_unwind)
        "pw" => with_sealing_kind!(kind, K => rt!(PasswordWrappedKey<V, K>, |t: &PasswordWrappedKey<V, K>| { let _ = t.params(); None }), else Err("bad-op".into())),
        "seal" => rt!(SealedKey<V>, |_t: &SealedKey<V>| None),
        _ => Err("bad-op".into()),
    })
}

fn key_show(be: Be, kind: Kind, raw: &[u8]) -> R {
    with_v!(be, V => with_kind!(kind, K => Ok(hex(KeyText::<V, K>::from_raw_bytes(raw).to_string().as_bytes()))))
}

fn leak(s: &str) -> &'static str {
    match s {
        "tok" => "tok",
        "key" => "key",
        "id" => "id",
        "pie" => "pie",
        "pw" => "pw",
        "seal" => "seal",
        _ => "bad",
    }
}

pub fn exec_inner(line: &str) -> R {
    let t: Vec<&str> = line.split(' ').collect();
    let bad = || "bad-op".to_string();
    let hx = |i: usize| -> Result<Vec<u8>, String> { t.get(i).and_then(|s| unhex(s)).ok_or_else(bad) };
    let be = |i: usize| -> Result<Be, String> { t.get(i).and_then(|s| Be::parse(s)).ok_or_else(bad) };
    let kd = |i: usize| -> Result<Kind, String> { t.get(i).and_then(|s| Kind::parse(s)).ok_or_else(bad) };
    match t[0] {
        "pae" => {
            let ps = parse_pieces(t.get(1).ok_or_else(bad)?).ok_or_else(bad)?;
            pae_vec(&ps).map(|v| hex(&v)).ok_or_else(bad)
        }
        // base64 is private in paseto-core; it is observed through KeyText<V4, Local>
        "b64.enc" => {
            let s = KeyText::<TV4, paseto_core::version::Local>::from_raw_bytes(&hx(1)?).to_string();
            Ok(hex(s.strip_prefix("k4.local.").ok_or_else(bad)?.as_bytes()))
        }
        "b64.dec" => {
            let s = format!("k4.local.{}", utf8(hx(1)?)?);
            let k = KeyText::<TV4, paseto_core::version::Local>::from_str(&s).map_err(e)?;
            Ok(hex(k.as_raw_bytes()))
        }
        "tok.rt" | "sd.tok.rt" => {
            let (b, p, fk, s) = (be(1)?, kd(2)?, *t.get(3).ok_or_else(bad)?, utf8(hx(4)?)?);
            let sd = t[0].starts_with("sd.");
            with_v!(b, V => with_purpose!(p, P => if sd { sd_tok_rt::<V, P>(fk, &s) } else { tok_rt::<V, P>(fk, &s) }, else Err(bad())))
        }
        // the same text round trip for a payload type whose `SUFFIX` is "c"
        "tokc.rt" => {
            let (b, p, fk, s) = (be(1)?, kd(2)?, *t.get(3).ok_or_else(bad)?, utf8(hx(4)?)?);
            with_v!(b, V => with_purpose!(p, P => tokc_rt::<V, P>(fk, &s), else Err(bad())))
        }
        "txt.rt" | "sd.txt.rt" => {
            let (b, form, k, s) = (be(1)?, *t.get(2).ok_or_else(bad)?, kd(3)?, utf8(hx(4)?)?);
            txt_rt(b, form, k, &s, t[0].starts_with("sd."))
        }
        "key.show" => key_show(be(1)?, kd(2)?, &hx(3)?),
        // cross acceptance: a value serialised as (sbe, sform, skind) offered to the parser (pbe, pform, pkind)
        "x.rt" => {
            use crate::gen_text::{Form, full_header};
            let sf = Form { form: leak(t.get(2).ok_or_else(bad)?), kind: kd(3)? };
            let pf = Form { form: leak(t.get(5).ok_or_else(bad)?), kind: kd(6)? };
            let (sbe, pbe) = (be(1)?, be(4)?);
            let s = utf8(hx(7)?)?;
            let same = full_header(sbe, &sf) == full_header(pbe, &pf);
            let acc = if pf.form == "tok" {
                with_v!(pbe, V => with_purpose!(pf.kind, P => tok_rt::<V, P>("vec", &s), else Err(bad()))).is_ok()
            } else {
                txt_rt(pbe, pf.form, pf.kind, &s, false).is_ok()
            };
            Ok(format!("acc={} same={}", acc as u8, same as u8))
        }
        _ => crate::exec2::exec_more(&t),
    }
}

pub fn exec_line(line: &str) -> String {
    let r = catch_unwind(AssertUnwindSafe(|| exec_inner(line)));
    match r {
        Ok(Ok(s)) => format!("ok {s}"),
        Ok(Err(s)) => {
            if s == "bad-op" { "bad-op".to_string() } else { format!("err {s}") }
        }
        Err(_) => "panic".to_string(),
    }
}
