//! hex, PRNG, small helpers
pub fn hex(b: &[u8]) -> String {
    if b.is_empty() {
        return "-".to_string();
    }
    let mut s = String::with_capacity(b.len() * 2);
    for x in b {
        s.push(char::from_digit((x >> 4) as u32, 16).unwrap());
        s.push(char::from_digit((x & 15) as u32, 16).unwrap());
    }
    s
}

pub fn unhex(s: &str) -> Option<Vec<u8>> {
    if s == "-" {
        return Some(vec![]);
    }
    let b = s.as_bytes();
    if b.len() % 2 != 0 {
        return None;
    }
    let mut out = Vec::with_capacity(b.len() / 2);
    for c in b.chunks(2) {
        let h = (c[0] as char).to_digit(16)?;
        let l = (c[1] as char).to_digit(16)?;
        out.push((h * 16 + l) as u8);
    }
    Some(out)
}

/// SplitMix64: every random choice of every generator derives from one state.
#[derive(Clone)]
pub struct Rng(pub u64);
impl Rng {
    pub fn new(seed: u64) -> Self {
        Rng(seed ^ 0x9E37_79B9_7F4A_7C15)
    }
    pub fn next(&mut self) -> u64 {
        self.0 = self.0.wrapping_add(0x9E37_79B9_7F4A_7C15);
        let mut z = self.0;
        z = (z ^ (z >> 30)).wrapping_mul(0xBF58_476D_1CE4_E5B9);
        z = (z ^ (z >> 27)).wrapping_mul(0x94D0_49BB_1331_11EB);
        z ^ (z >> 31)
    }
    pub fn below(&mut self, n: u64) -> u64 {
        if n == 0 { 0 } else { self.next() % n }
    }
    pub fn range(&mut self, lo: usize, hi: usize) -> usize {
        lo + self.below((hi - lo + 1) as u64) as usize
    }
    pub fn bytes(&mut self, n: usize) -> Vec<u8> {
        let mut v = Vec::with_capacity(n);
        while v.len() < n {
            let x = self.next().to_le_bytes();
            let k = (n - v.len()).min(8);
            v.extend_from_slice(&x[..k]);
        }
        v
    }
    pub fn bytes_in(&mut self, lo: usize, hi: usize) -> Vec<u8> {
        let n = self.range(lo, hi);
        self.bytes(n)
    }
    pub fn pick<'a, T>(&mut self, xs: &'a [T]) -> &'a T {
        &xs[self.below(xs.len() as u64) as usize]
    }
    pub fn chance(&mut self, num: u64, den: u64) -> bool {
        self.below(den) < num
    }
    /// byte pattern classes: random, zeros, ones, ascii
    pub fn pattern(&mut self, n: usize) -> Vec<u8> {
        match self.below(8) {
            0 => vec![0u8; n],
            1 => vec![0xffu8; n],
            2 => (0..n).map(|i| b"{\"a\":1,\"b\":[true,null]} "[i % 24]).collect(),
            _ => self.bytes(n),
        }
    }
}

pub fn seed_from_env() -> u64 {
    std::env::var("VERIF_SEED")
        .ok()
        .and_then(|s| s.parse::<u64>().ok())
        .unwrap_or(1)
}
