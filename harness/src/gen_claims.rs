//! generators: c11 (validators), c12pipe (generic pipeline), c14 (claims wire form)
use crate::util::*;
use paseto_json::jiff::Timestamp;
use std::io::Write;

fn ts_min() -> i128 {
    Timestamp::MIN.as_nanosecond()
}
fn ts_max() -> i128 {
    Timestamp::MAX.as_nanosecond()
}

fn strings() -> Vec<String> {
    let mut v: Vec<String> = ["", "a", "conradludgate", "https://paseto.conrad.cafe/", "é", "\u{0}", "a\u{0}b", "\"quoted\"\\", "\u{10000}x", "line\nbreak\ttab", "A", "aa", " a"]
        .iter().map(|s| s.to_string()).collect();
    v.extend(long_strings().into_iter().take(0));
    v
}

fn long_strings() -> Vec<String> {
    let mut v: Vec<String> = vec![];
    // long values: a serialiser / writer adapter may treat long fragments differently (buffer sizes are powers of two and
    // their neighbours); plain runs, and runs interrupted by a character that has to be escaped
    for n in [63usize, 64, 65, 127, 128, 129, 255, 256, 257, 1000, 4096, 8191, 8192, 8193] {
        v.push("x".repeat(n));
    }
    v.push(format!("{}\"{}", "a".repeat(128), "b".repeat(200)));
    v.push(format!("{}\n{}é{}", "k".repeat(127), "l".repeat(129), "m".repeat(300)));
    v.push("\u{1f600}".repeat(64));
    v
}

fn gen_claims(r: &mut Rng, now: i128, l: i128) -> String {
    let strs = strings();
    let mut s = |r: &mut Rng| -> String {
        if r.chance(2, 5) { "~".into() } else { hex(r.pick(&strs).as_bytes()) }
    };
    let cand = [now, now - 1, now + 1, now - l, now + l, now - l - 1, now - l + 1, now + l - 1, now + l + 1, ts_min(), ts_max(), 0, now - 1_000_000_000_000, now + 1_000_000_000_000];
    let mut t = |r: &mut Rng| -> String {
        if r.chance(1, 4) {
            "~".into()
        } else {
            let mut x = *r.pick(&cand);
            if x < ts_min() { x = ts_min(); }
            if x > ts_max() { x = ts_max(); }
            x.to_string()
        }
    };
    let iss = s(r); let sub = s(r); let aud = s(r);
    let exp = t(r); let nbf = t(r); let iat = t(r);
    let jti = s(r);
    format!("{iss},{sub},{aud},{exp},{nbf},{iat},{jti}")
}

fn gen_v(r: &mut Rng, depth: usize, now: i128, l: i128) -> String {
    let strs = strings();
    let atom = |r: &mut Rng| -> String {
        match r.below(9) {
            0 => format!("T{now}"),
            1 | 2 => format!("L{now}:{l}"),
            3 => "E".into(),
            4 => format!("S{}", hex(r.pick(&strs).as_bytes())),
            5 => format!("I{}", hex(r.pick(&strs).as_bytes())),
            6 => format!("A{}", hex(r.pick(&strs).as_bytes())),
            7 => format!("T{}", (now + r.below(3) as i128 - 1).clamp(ts_min(), ts_max())),
            _ => "N".into(),
        }
    };
    if depth == 0 || r.chance(1, 4) {
        return atom(r);
    }
    match r.below(8) {
        0 | 1 => format!("and({},{})", gen_v(r, depth - 1, now, l), gen_v(r, depth - 1, now, l)),
        2 => {
            let n = r.range(0, 3);
            format!("all({})", (0..n).map(|_| gen_v(r, depth - 1, now, l)).collect::<Vec<_>>().join(";"))
        }
        3 => {
            let n = r.range(0, 3);
            format!("sl({})", (0..n).map(|_| gen_v(r, depth - 1, now, l)).collect::<Vec<_>>().join(";"))
        }
        4 => format!("box({})", gen_v(r, depth - 1, now, l)),
        5 => format!("rc({})", gen_v(r, depth - 1, now, l)),
        6 => format!("arc({})", gen_v(r, depth - 1, now, l)),
        _ => format!("map({})", gen_v(r, depth - 1, now, l)),
    }
}

pub fn gen_c11(out: &mut impl Write, seed: u64, thorough: bool) {
    let mut r = Rng::new(seed ^ 0xC11);
    let nows: [i128; 7] = [0, 1_700_000_000_123_456_789, ts_min() + 5, ts_max() - 5, -1, 1, 4_102_444_800_000_000_000];
    let ls: [i128; 8] = [0, 1, 2, 999_999_999, 1_000_000_000, 60_000_000_000, 3_600_000_000_000, 10];
    // systematic: every atom x every boundary timestamp
    for &now in &nows {
        for &l in &ls {
            for v in [format!("T{now}"), format!("L{now}:{l}"), "E".to_string()] {
                for d in [-l - 1, -l, -l + 1, -1, 0, 1, l - 1, l, l + 1] {
                    let x = now + d;
                    if x < ts_min() || x > ts_max() { continue; }
                    writeln!(out, "val {v} ~,~,~,{x},~,~,~").unwrap();
                    writeln!(out, "val {v} ~,~,~,~,{x},~,~").unwrap();
                    writeln!(out, "val {v} ~,~,~,{x},{x},~,~").unwrap();
                }
                writeln!(out, "val {v} ~,~,~,~,~,~,~").unwrap();
            }
        }
    }
    for s in strings() {
        for t in strings() {
            let (hs, ht) = (hex(s.as_bytes()), hex(t.as_bytes()));
            writeln!(out, "val S{hs} ~,{ht},~,~,~,~,~").unwrap();
            writeln!(out, "val I{hs} {ht},~,~,~,~,~,~").unwrap();
            writeln!(out, "val A{hs} ~,~,{ht},~,~,~,~").unwrap();
            writeln!(out, "val S{hs} {ht},~,{ht},~,~,~,{ht}").unwrap();
        }
        let hs = hex(s.as_bytes());
        writeln!(out, "val S{hs} ~,~,~,~,~,~,~").unwrap();
        writeln!(out, "val I{hs} ~,~,~,~,~,~,~").unwrap();
        writeln!(out, "val A{hs} ~,~,~,~,~,~,~").unwrap();
    }
    // leeway outside the representable range: the code panics there (outside the property's guard); ties the panic model
    for (now, l) in [(ts_min() + 5, 6i128), (ts_max() - 5, 6), (ts_min(), 1), (ts_max(), 1), (0, 400_000_000_000_000_000_000i128)] {
        for c in ["~,~,~,0,~,~,~", "~,~,~,~,0,~,~", "~,~,~,0,0,~,~", "~,~,~,~,~,~,~"] {
            writeln!(out, "val L{now}:{l} {c}").unwrap();
            writeln!(out, "val and(E,L{now}:{l}) {c}").unwrap();
            writeln!(out, "val all(L{now}:{l};E) {c}").unwrap();
        }
    }
    // random expressions to depth 3
    let n = if thorough { 60000 } else { 6000 };
    for i in 0..n {
        let now = *r.pick(&nows) + if r.chance(1, 3) { r.below(1000) as i128 } else { 0 };
        let now = now.clamp(ts_min(), ts_max());
        let mut l = *r.pick(&ls);
        if now - l < ts_min() || now + l > ts_max() { l = 0; }
        let v = gen_v(&mut r, 3, now, l);
        let c = gen_claims(&mut r, now, l);
        writeln!(out, "val {v} {c}").unwrap();
        if i % 40 == 0 {
            let be = ["v1", "v2", "v3", "v3lc", "v4", "v4s"][(i / 40) % 6];
            writeln!(out, "unseal.val {be} {v} {c}").unwrap();
        }
        if i % 200 == 0 {
            let be = ["v1", "v2", "v3", "v3lc", "v4", "v4s"][(i / 200) % 6];
            writeln!(out, "o.zst {be} {c}").unwrap();
        }
    }
}

pub fn gen_c12pipe(out: &mut impl Write, seed: u64, thorough: bool) {
    let mut r = Rng::new(seed ^ 0xC12);
    // every unseal outcome x decode outcome x validator outcome
    for u in 0u8..=5 {
        for d in [0u8, 1, 7] {
            for v in [0u8, 1, 2, 7] {
                for extra in [0usize, 5] {
                    let mut p = vec![u, d, v];
                    p.extend(r.bytes(extra));
                    writeln!(out, "pipe {}", hex(&p)).unwrap();
                }
            }
        }
        writeln!(out, "pipe {}", hex(&[u])).unwrap();
        writeln!(out, "pipe {}", hex(&[u, 1])).unwrap();
        writeln!(out, "pipe {}", hex(&[u, 0])).unwrap();
    }
    writeln!(out, "pipe -").unwrap();
    for _ in 0..(if thorough { 5000 } else { 300 }) {
        let n = r.range(0, 6);
        let mut p = r.bytes(n);
        for b in p.iter_mut().take(3) { *b %= 4; }
        writeln!(out, "pipe {}", hex(&p)).unwrap();
    }
    for n in 0u8..=2 {
        for s in 0u8..=2 {
            for c in [vec![], vec![9u8], vec![1, 2, 3], vec![9, 9]] {
                for f in [vec![], vec![9u8], vec![1u8, 2]] {
                    writeln!(out, "pipe.seal {n} {s} {} {}", hex(&c), hex(&f)).unwrap();
                }
            }
        }
    }
}

fn annot(s: &str) -> String {
    match s.parse::<Timestamp>() {
        Ok(t) => t.as_nanosecond().to_string(),
        Err(_) => "!".into(),
    }
}

pub fn gen_c14(out: &mut impl Write, seed: u64, thorough: bool) {
    let mut r = Rng::new(seed ^ 0xC14);
    let tsamples: Vec<i128> = vec![ts_min(), ts_max(), 0, 1, -1, 999_999_999, 1_000_000_000, -999_999_999, 1_700_000_000_123_456_789, 1_700_000_000_000_000_000, 1_700_000_000_120_000_000, 951_782_400_000_000_000, -62_135_596_800_000_000_000, -62_135_596_800_000_000_001, 253_402_207_200_000_000_000];
    // claims.enc over every absent/present combination and timestamps across the range at ns resolution
    let mut strs = strings();
    let longs = long_strings();
    // every long value once in each string field (the rest absent), then mixed in below at a low rate
    for l in &longs {
        for i in [0usize, 1, 2, 6] {
            let c = (0..7).map(|k| if k == i { hex(l.as_bytes()) } else if k == 6 { hex(b"id") } else { "~".to_string() }).collect::<Vec<_>>().join(",");
            writeln!(out, "claims.enc {c}").unwrap(); writeln!(out, "claims.json {c}").unwrap();
        }
    }
    strs.push(longs[3].clone()); strs.push(longs[4].clone()); strs.push(longs[14].clone());
    for mask in 0u32..128 {
        let f = |i: u32, r: &mut Rng| -> String {
            if mask >> i & 1 == 0 { return "~".into(); }
            if (3..=5).contains(&i) { r.pick(&tsamples).to_string() } else { hex(r.pick(&strs).as_bytes()) }
        };
        let c = (0..7).map(|i| f(i, &mut r)).collect::<Vec<_>>().join(",");
        writeln!(out, "claims.enc {c}").unwrap(); writeln!(out, "claims.json {c}").unwrap();
    }
    // the Json<T> wrapper and the claims decoder against plain serde_json on raw texts: complete values followed by more bytes,
    // surrounding whitespace, truncations, non-object values, empty input, deep nesting, big numbers
    {
        let bases: Vec<&[u8]> = vec![b"{}", b"{\"sub\":\"alice\"}", b"{\"iss\":\"a\",\"x\":[1,2,{\"y\":null}]}", b"[]", b"[1,2]", b"1", b"\"s\"", b"null", b"true", b"1e400", b"-0", b"{\"exp\":\"2024-01-01T00:00:00Z\"}"];
        let long1 = format!("{{\"k\":\"{}\"}}", "v".repeat(128)).into_bytes();
        let long2 = format!("{{\"{}\":[\"{}\",\"s\",\"{}\"]}}", "key".repeat(50), "a".repeat(127), "b".repeat(300)).into_bytes();
        let long3 = format!("[\"{}\",{{\"n\":1}},\"{}\"]", "c".repeat(4096), "d".repeat(129)).into_bytes();
        let mut bases = bases;
        bases.push(&long1); bases.push(&long2); bases.push(&long3);
        // strings whose last character is an escape (a scanner that looks one byte back mistakes `\\"` for `\"`), escapes of
        // every kind, brackets and quotes inside strings, and nesting depths around the usual limits
        let esc: Vec<&[u8]> = vec![br#"{"kid":"C:\\keys\\"}"#, br#""a\\""#, br#"["\\\\","x"]"#, br#"{"a":"\"","b":"]}"}"#, br#"{"a\\":"\u005c"}"#, br#"{"k":"\u00e9\ud83d\ude00\n\t\/"}"#, br#"["[","{","\"]"]"#];
        for e in &esc { bases.push(e); }
        let deeps: Vec<Vec<u8>> = [16usize, 32, 33, 64, 100, 127, 128, 129].iter().map(|&d| {
            let mut v: Vec<u8> = std::iter::repeat(b'[').take(d).collect(); v.extend(std::iter::repeat(b']').take(d)); v
        }).collect();
        for d in &deeps { bases.push(d); }
        let deepo: Vec<Vec<u8>> = [31usize, 33, 90].iter().map(|&d| {
            let mut v: Vec<u8> = vec![]; for _ in 0..d { v.extend_from_slice(b"{\"a\":"); } v.push(b'1'); v.extend(std::iter::repeat(b'}').take(d)); v
        }).collect();
        for d in &deepo { bases.push(d); }
        let tails: Vec<&[u8]> = vec![b"", b" ", b"\n", b"\t\r\n ", b"x", b"{}", b",", b"\0", b"\0\0\0\0", b"}", b"]", b" {}", b"\xef\xbb\xbf", b"//c", b"garbage"];
        let heads: Vec<&[u8]> = vec![b"", b" ", b"\n\t", b"\xef\xbb\xbf", b"x", b","];
        for b in &bases {
            for tl in &tails {
                for h in &heads {
                    if !h.is_empty() && !tl.is_empty() && r.below(3) != 0 { continue; }
                    let mut v = h.to_vec(); v.extend_from_slice(b); v.extend_from_slice(tl);
                    writeln!(out, "o.json {}", hex(&v)).unwrap();
                }
            }
            let step = if b.len() > 200 { b.len() / 37 } else { 1 };
            for cut in (1..b.len()).step_by(step) {
                writeln!(out, "o.json {}", hex(&b[..cut])).unwrap();
            }
        }
        writeln!(out, "o.json -").unwrap();
        let deep: Vec<u8> = std::iter::repeat(b'[').take(200).chain(std::iter::repeat(b']').take(200)).collect();
        writeln!(out, "o.json {}", hex(&deep)).unwrap();
        writeln!(out, "o.json {}", hex(b"{\"a\":1,\"a\":2}")).unwrap();
    }
    let n = if thorough { 20000 } else { 1500 };
    for _ in 0..n {
        let t = |r: &mut Rng| -> String {
            match r.below(4) {
                0 => "~".into(),
                1 => r.pick(&tsamples).to_string(),
                _ => {
                    let span = (ts_max() - ts_min()) as u128;
                    let x = ts_min() + ((r.next() as u128 * (u64::MAX as u128) + r.next() as u128) % span) as i128;
                    x.to_string()
                }
            }
        };
        let s = |r: &mut Rng| -> String {
            match r.below(4) {
                0 => "~".into(),
                1 => hex(r.pick(&strs).as_bytes()),
                _ => {
                    // random unicode string
                    let n = r.range(0, 12);
                    let st: String = (0..n).map(|_| char::from_u32(*r.pick(&[0u32, 0x22, 0x5c, 0x41, 0x7f, 0xe9, 0x2028, 0xffff, 0x10000, 0x1f600, 0x0a, 0x7b, 0x3a])).unwrap()).collect();
                    hex(st.as_bytes())
                }
            }
        };
        let c = format!("{},{},{},{},{},{},{}", s(&mut r), s(&mut r), s(&mut r), t(&mut r), t(&mut r), t(&mut r), s(&mut r));
        writeln!(out, "claims.enc {c}").unwrap(); writeln!(out, "claims.json {c}").unwrap();
    }
    // claims.dec: member lists
    let keys = ["iss", "sub", "aud", "exp", "nbf", "iat", "jti", "x", "Iss", "iss ", "is", "issx", "", "exp\u{0}", "\u{e9}", "ISS", "custom-claim"];
    let tstrings: Vec<String> = {
        let mut v: Vec<String> = tsamples.iter().map(|&n| Timestamp::from_nanosecond(n).unwrap().to_string()).collect();
        v.extend(["2020-01-01T00:00:00+02:00", "2020-01-01t00:00:00z", "2020-01-01 00:00:00Z", "2020-13-01T00:00:00Z", "2020-01-01T00:00:00", "2020-01-01", "abc", "", "1700000000", "2020-01-01T00:00:00.123456789123Z", "2020-02-30T00:00:00Z", "2016-12-31T23:59:60Z", " 2020-01-01T00:00:00Z", "-009999-01-02T01:59:59Z", "9999-12-30T22:00:00.999999999Z", "9999-12-31T00:00:00Z"].iter().map(|s| s.to_string()));
        v
    };
    let mut val = |r: &mut Rng, timeish: bool| -> String {
        match r.below(12) {
            0 | 1 => "n".into(),
            2 => "i".into(),
            3 => "b".into(),
            4 => "a".into(),
            5 => "o".into(),
            6 | 7 | 8 if timeish => {
                let s = r.pick(&tstrings);
                format!("s{}:{}", hex(s.as_bytes()), annot(s))
            }
            9 if !timeish => {
                let s = r.pick(&tstrings);
                format!("s{}:{}", hex(s.as_bytes()), annot(s))
            }
            _ => {
                let s = r.pick(&strs);
                format!("s{}:{}", hex(s.as_bytes()), annot(s))
            }
        }
    };
    let n = if thorough { 60000 } else { 6000 };
    for i in 0..n {
        let k = match r.below(10) { 0 => 0, 1 => 1, 2 | 3 => r.range(2, 4), _ => r.range(3, 10) };
        let mut ms: Vec<String> = vec![];
        for _ in 0..k {
            let key = if r.chance(3, 4) { keys[r.below(7) as usize] } else { *r.pick(&keys) };
            let timeish = matches!(key, "exp" | "nbf" | "iat");
            // mostly well-typed values so that decoding often succeeds
            let v = if r.chance(3, 5) {
                if timeish {
                    let s = &tstrings[r.below(tsamples.len() as u64) as usize];
                    format!("s{}:{}", hex(s.as_bytes()), annot(s))
                } else if r.chance(1, 5) { "n".to_string() } else {
                    let s = r.pick(&strs);
                    format!("s{}:{}", hex(s.as_bytes()), annot(s))
                }
            } else { val(&mut r, timeish) };
            ms.push(format!("{}={}", hex(key.as_bytes()), v));
        }
        // duplicates: null-then-value and value-then-null corners
        if i % 9 == 0 && !ms.is_empty() {
            let j = r.below(ms.len() as u64) as usize;
            let key = ms[j].split('=').next().unwrap().to_string();
            let dup = format!("{key}=n");
            if r.chance(1, 2) { ms.insert(0, dup); } else { ms.push(dup); }
        }
        let esc = i % 3;
        writeln!(out, "claims.dec {esc} O:{}", ms.join(";")).unwrap();
        // the same members in another order
        if i % 4 == 0 && ms.len() > 1 {
            let mut p = ms.clone();
            for a in (1..p.len()).rev() {
                let b = r.below(a as u64 + 1) as usize;
                p.swap(a, b);
            }
            writeln!(out, "claims.dec {esc} O:{}", p.join(";")).unwrap();
        }
    }
    for raw in ["[]", "[\"a\",\"b\",\"c\",null,null,null,\"j\"]", "null", "\"iss\"", "1", "true", "", "{", "{\"iss\":\"a\"", "{\"iss\":\"a\"}x", "{\"iss\":\"a\",}", "{iss:1}", "\u{feff}{}"] {
        writeln!(out, "claims.dec 0 X:{}", hex(raw.as_bytes())).unwrap();
    }
}
