mod be;
mod exec;
mod exec2;
mod exec3;
mod exec4;
mod exec5;
mod exec6;
mod exec7;
mod gen_paserk;
mod gen_tok;
mod gen_claims;
mod facts;
mod gen_text;
mod impls;
mod rsa_pool;
mod rsa4k_pool;
mod util;

use std::io::{BufRead, Write};

fn main() {
    // panics are outcomes, not noise
    std::panic::set_hook(Box::new(|_| {}));
    let args: Vec<String> = std::env::args().collect();
    let out = std::io::stdout();
    let mut out = std::io::BufWriter::new(out.lock());
    match args.get(1).map(|s| s.as_str()) {
        Some("facts") => facts::print_facts(&mut out),
        Some("impls") => impls::print_impls(&mut out),
        Some("exec") => {
            // stdin: op lines; stdout: one result per line
            for line in std::io::stdin().lock().lines() {
                let line = line.unwrap();
                let l = line.trim_end();
                if l.is_empty() || l.starts_with('#') {
                    writeln!(out, "{l}").unwrap();
                    continue;
                }
                writeln!(out, "{}", exec::exec_line(l)).unwrap();
            }
        }
        Some("rsapool") => {
            // one-off tool: generate RSA keys with the library and print `<der length> <hex>` (used to build rsa_pool.rs)
            let n: usize = args.get(2).and_then(|s| s.parse().ok()).unwrap_or(64);
            let hs: Vec<_> = (0..16).map(|_| std::thread::spawn(move || {
                (0..n.div_ceil(16)).map(|_| gen_tok::gen_secret_random(be::Be::V1)).collect::<Vec<_>>()
            })).collect();
            for h in hs {
                for k in h.join().unwrap() {
                    writeln!(out, "{} {}", k.len(), util::hex(&k)).unwrap();
                }
            }
        }
        Some("gen") => {
            let stream = args.get(2).expect("stream");
            let tier = args.get(3).map(|s| s.as_str()).unwrap_or("quick");
            let seed = util::seed_from_env();
            let thorough = tier == "thorough";
            match stream.as_str() {
                "c15" => gen_text::gen_c15(&mut out, seed, thorough),
                "c09" => gen_text::gen_c09(&mut out, seed, thorough),
                "c10" => gen_text::gen_c10(&mut out, seed, thorough),
                "c01" => gen_tok::gen_c01(&mut out, seed, thorough),
                "c02" => gen_tok::gen_c02(&mut out, seed, thorough),
                "c03" => gen_tok::gen_c03(&mut out, seed, thorough),
                "c15w" => gen_tok::gen_c15w(&mut out, seed, thorough),
                "c04" => gen_paserk::gen_c04(&mut out, seed, thorough),
                "c16" => gen_paserk::gen_c16(&mut out, seed, thorough, false),
                "c16rng" => gen_paserk::gen_c16(&mut out, seed, thorough, true),
                "c17" => gen_paserk::gen_c17(&mut out, seed, thorough),
                "c05" => gen_paserk::gen_c05(&mut out, seed, thorough),
                "c06" => gen_paserk::gen_c06(&mut out, seed, thorough),
                "c07" => gen_paserk::gen_c07(&mut out, seed, thorough),
                "c08" => gen_paserk::gen_c08(&mut out, seed, thorough),
                "c13" => gen_paserk::gen_c13(&mut out, seed, thorough),
                "c19smoke" => gen_paserk::gen_c19smoke(&mut out, seed, thorough),
                "c11" => gen_claims::gen_c11(&mut out, seed, thorough),
                "c12pipe" => gen_claims::gen_c12pipe(&mut out, seed, thorough),
                "c14" => gen_claims::gen_c14(&mut out, seed, thorough),
                _ => {
                    eprintln!("unknown stream");
                    std::process::exit(2)
                }
            }
        }
        _ => {
            eprintln!("usage: pm facts | exec | gen <stream> [quick|thorough]");
            std::process::exit(2)
        }
    }
}
