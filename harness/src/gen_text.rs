//! generators for the crypto-free streams: c15 (PAE), c09 (text forms), c10 (cross acceptance)
use crate::be::*;
use crate::exec::show_pieces;
use crate::util::*;
use crate::with_v;
use paseto_core::key::{KeyType, SealingKey};
use paseto_core::version::{Local, PkePublic, PkeSecret, Public, Secret, Version};
use std::io::Write;

/// independent base64url (no padding) encoder used to build inputs
pub fn b64(b: &[u8]) -> String {
    const AL: &[u8; 64] = b"ABCDEFGHIJKLMNOPQRSTUVWXYZabcdefghijklmnopqrstuvwxyz0123456789-_";
    let mut s = String::new();
    for c in b.chunks(3) {
        let b0 = c[0] as usize;
        let b1 = *c.get(1).unwrap_or(&0) as usize;
        let b2 = *c.get(2).unwrap_or(&0) as usize;
        s.push(AL[b0 >> 2] as char);
        s.push(AL[((b0 & 3) << 4) | (b1 >> 4)] as char);
        if c.len() > 1 {
            s.push(AL[((b1 & 15) << 2) | (b2 >> 6)] as char);
        }
        if c.len() > 2 {
            s.push(AL[b2 & 63] as char);
        }
    }
    s
}

pub fn gen_c15(out: &mut impl Write, seed: u64, thorough: bool) {
    let mut r = Rng::new(seed ^ 0xC15);
    let mut emit = |ps: &Vec<Vec<Vec<u8>>>| writeln!(out, "pae {}", show_pieces(ps)).unwrap();
    // every piece count 0..=8 (and 9, 10) x every fragment count 0..=4, small contents
    for n in 0..=10usize {
        for k in 0..=4usize {
            let ps: Vec<Vec<Vec<u8>>> = (0..n).map(|i| (0..k).map(|j| r.bytes((i + j) % 5)).collect()).collect();
            emit(&ps);
        }
    }
    // boundary shifts: same bytes, different piece boundaries / fragmentations
    for _ in 0..(if thorough { 400 } else { 60 }) {
        let total = r.range(0, 40);
        let data = r.bytes(total);
        let cut1 = r.range(0, total);
        let cut2 = r.range(cut1, total);
        let a = data[..cut1].to_vec();
        let b = data[cut1..cut2].to_vec();
        let c = data[cut2..].to_vec();
        emit(&vec![vec![a.clone()], vec![b.clone()], vec![c.clone()]]);
        emit(&vec![vec![a.clone(), b.clone()], vec![c.clone()]]);
        emit(&vec![vec![a.clone()], vec![b.clone(), c.clone()]]);
        emit(&vec![vec![a, b, c]]);
    }
    // random shapes, fragment lengths 0..600
    let cases = if thorough { 20000 } else { 1500 };
    for _ in 0..cases {
        let n = r.range(0, 8);
        let ps: Vec<Vec<Vec<u8>>> = (0..n)
            .map(|_| {
                let k = r.range(0, 4);
                (0..k)
                    .map(|_| {
                        let len = match r.below(6) {
                            0 => 0,
                            1 => r.range(0, 3),
                            2 => r.range(250, 260),
                            3 => r.range(0, 600),
                            _ => r.range(0, 40),
                        };
                        r.pattern(len)
                    })
                    .collect()
            })
            .collect();
        emit(&ps);
    }
    // the shapes the back ends actually use: header as three fragments
    for be in ALL_BE {
        let h = with_v!(be, V => <V as Version>::HEADER);
        for ph in [<Local as KeyType>::HEADER, <Public as KeyType>::HEADER] {
            let m = r.bytes_in(0, 100);
            let f = r.bytes_in(0, 20);
            let a = r.bytes_in(0, 20);
            let hdr = vec![h.as_bytes().to_vec(), vec![], ph.as_bytes().to_vec()];
            emit(&vec![hdr.clone(), vec![r.bytes(32)], vec![m.clone()], vec![f.clone()], vec![a.clone()]]);
            emit(&vec![hdr.clone(), vec![m.clone()], vec![f.clone()]]);
            emit(&vec![vec![r.bytes(49)], hdr, vec![m], vec![f], vec![a]]);
        }
    }
}

pub struct Form {
    pub form: &'static str, // tok key id pie pw seal
    pub kind: Kind,
}
pub fn all_forms() -> Vec<Form> {
    let mut v = vec![];
    for k in [Kind::Local, Kind::Public] {
        v.push(Form { form: "tok", kind: k });
    }
    for k in ALL_KIND {
        v.push(Form { form: "key", kind: k });
    }
    for k in ALL_KIND {
        v.push(Form { form: "id", kind: k });
    }
    for k in [Kind::Local, Kind::Secret] {
        v.push(Form { form: "pie", kind: k });
        v.push(Form { form: "pw", kind: k });
    }
    v.push(Form { form: "seal", kind: Kind::Local });
    v
}

pub fn kind_headers(k: Kind) -> (&'static str, &'static str) {
    match k {
        Kind::Local => (<Local as KeyType>::HEADER, <Local as KeyType>::ID_HEADER),
        Kind::Public => (<Public as KeyType>::HEADER, <Public as KeyType>::ID_HEADER),
        Kind::Secret => (<Secret as KeyType>::HEADER, <Secret as KeyType>::ID_HEADER),
        Kind::PkePublic => (<PkePublic as KeyType>::HEADER, <PkePublic as KeyType>::ID_HEADER),
        Kind::PkeSecret => (<PkeSecret as KeyType>::HEADER, <PkeSecret as KeyType>::ID_HEADER),
    }
}

/// the full text header of a form, from the library's own constants
pub fn full_header(be: Be, f: &Form) -> String {
    let (vh, kh) = with_v!(be, V => (<V as Version>::HEADER, <V as Version>::PASERK_HEADER));
    match f.form {
        "tok" => format!("{}{}", vh, kind_headers(f.kind).0),
        "key" => format!("{}{}", kh, kind_headers(f.kind).0),
        "id" => format!("{}{}", kh, kind_headers(f.kind).1),
        "pie" => format!("{}{}", kh, if f.kind == Kind::Local { <Local as SealingKey>::PIE_WRAP_HEADER } else { <Secret as SealingKey>::PIE_WRAP_HEADER }),
        "pw" => format!("{}{}", kh, if f.kind == Kind::Local { <Local as SealingKey>::PW_WRAP_HEADER } else { <Secret as SealingKey>::PW_WRAP_HEADER }),
        "seal" => format!("{}.seal.", kh),
        _ => unreachable!(),
    }
}

fn op_rt(be: Be, f: &Form, s: &str, sd: bool) -> String {
    let p = if sd { "sd." } else { "" };
    if f.form == "tok" {
        format!("{p}tok.rt {} {} vec {}", be.name(), f.kind.name(), hex(s.as_bytes()))
    } else {
        format!("{p}txt.rt {} {} {} {}", be.name(), f.form, f.kind.name(), hex(s.as_bytes()))
    }
}

pub fn gen_c09(out: &mut impl Write, seed: u64, thorough: bool) {
    let mut r = Rng::new(seed ^ 0xC09);
    let forms = all_forms();
    // (1) exhaustive over the finite decoder core: every ASCII byte value at each of the four block
    // positions, for each tail length and with 0 or 1 preceding full block; plus every non-ASCII byte
    // value that can occur in valid UTF-8, inside 2-, 3- and 4-byte characters.
    for pre in ["", "QUJD"] {
        for tail in 1..=4usize {
            for pos in 0..tail {
                for c in 0u8..128 {
                    let mut blk: Vec<u8> = b"AQAA"[..tail].to_vec(); // 'AQAA' keeps trailing bits canonical for some tails
                    blk[pos] = c;
                    let s = format!("{pre}{}", String::from_utf8(blk).unwrap());
                    writeln!(out, "b64.dec {}", hex(s.as_bytes())).unwrap();
                }
            }
        }
    }
    for cp in (0x80u32..0x800).step_by(if thorough { 1 } else { 7 }).chain((0x800u32..0x10000).step_by(if thorough { 61 } else { 997 })).chain((0x10000u32..0x110000).step_by(if thorough { 4099 } else { 65521 })) {
        if let Some(ch) = char::from_u32(cp) {
            for pre in ["", "AA", "AAA"] {
                let s = format!("{pre}{ch}");
                writeln!(out, "b64.dec {}", hex(s.as_bytes())).unwrap();
            }
        }
    }
    // every 2-char and 3-char and 4-char canonicality case: all 64 alphabet chars in the last position of each tail
    const AL: &[u8; 64] = b"ABCDEFGHIJKLMNOPQRSTUVWXYZabcdefghijklmnopqrstuvwxyz0123456789-_";
    for &a in AL.iter() {
        for &b in AL.iter() {
            writeln!(out, "b64.dec {}", hex(&[a, b])).unwrap();
            writeln!(out, "b64.dec {}", hex(&[b'Q', a, b])).unwrap();
        }
    }
    // (2) all strings of length <= 3 over a class alphabet, after the header of each form (v4; length<=2 for the others)
    let classes: [&str; 14] = ["A", "a", "0", "-", "_", "+", "/", "=", ".", " ", "\n", "\u{7f}", "é", "\u{10000}"];
    let mut strings: Vec<String> = vec![String::new()];
    let mut layer = vec![String::new()];
    for _ in 0..3 {
        let mut next = vec![];
        for s in &layer {
            for c in classes {
                next.push(format!("{s}{c}"));
            }
        }
        strings.extend(next.iter().cloned());
        layer = next;
    }
    for f in &forms {
        for be in ALL_BE {
            let h = full_header(be, f);
            let maxlen = if be == Be::V4 || thorough { 3 } else { 2 };
            for s in &strings {
                if s.chars().count() <= maxlen {
                    writeln!(out, "{}", op_rt(be, f, &format!("{h}{s}"), false)).unwrap();
                }
            }
        }
    }
    // (3) every byte sequence length 0..300 (random content + zeros + ones) through Display then FromStr
    for len in 0..=300usize {
        for data in [r.bytes(len), vec![0u8; len], vec![0xffu8; len]] {
            writeln!(out, "b64.enc {}", hex(&data)).unwrap();
            writeln!(out, "b64.dec {}", hex(b64(&data).as_bytes())).unwrap();
            writeln!(out, "key.show v4 local {}", hex(&data)).unwrap();
        }
    }
    // (4) random strings up to 400 chars: valid base64 bodies with point mutations, per form and back end
    let n = if thorough { 40000 } else { 4000 };
    for i in 0..n {
        let f = &forms[i % forms.len()];
        let be = ALL_BE[(i / forms.len()) % 6];
        let h = full_header(be, f);
        let len = match r.below(5) {
            0 => 33,
            1 => r.range(0, 5),
            2 => r.range(28, 36),
            _ => r.range(0, 300),
        };
        let mut body = b64(&r.bytes(len));
        let mut footer: Option<String> = None;
        if f.form == "tok" && r.chance(2, 3) {
            footer = Some(b64(&r.bytes_in(0, 40)));
        }
        // mutation
        let m = r.below(12);
        let mutate = |r: &mut Rng, s: &mut String| {
            let junk = ["=", "==", "+", "/", " ", "\n", ".", "..", "é", "A", "B", "\t", "%3D", "\u{0}"];
            let mut cs: Vec<char> = s.chars().collect();
            match r.below(5) {
                0 => { let j = r.pick(&junk); s.push_str(j); return; }
                1 => { if !cs.is_empty() { let i = r.below(cs.len() as u64) as usize; cs.remove(i); } }
                2 => { let i = r.range(0, cs.len()); let j: Vec<char> = r.pick(&junk).chars().collect(); for (k, c) in j.into_iter().enumerate() { cs.insert(i + k, c); } }
                3 => { if !cs.is_empty() { let i = cs.len() - 1; cs[i] = *r.pick(&['B', 'C', 'D', 'Q', 'g', 'w', '_', '-', '1']); } }
                _ => { if !cs.is_empty() { let i = r.below(cs.len() as u64) as usize; cs[i] = *r.pick(&['+', '/', '=', 'A', '_', '-', ' ', '.']); } }
            }
            *s = cs.into_iter().collect();
        };
        if m < 5 {
            mutate(&mut r, &mut body);
        } else if m < 7 {
            if let Some(ft) = footer.as_mut() { mutate(&mut r, ft); }
        }
        let mut s = format!("{h}{body}");
        if let Some(ft) = &footer {
            s.push('.');
            s.push_str(ft);
        }
        if m == 7 { s.push('.'); }
        if m == 8 { s.push_str(".AAAA"); }
        if m == 9 { s = format!(" {s}"); }
        if m == 10 { s = s.replacen('.', "", 1); }
        let sd = i % 5 == 0;
        writeln!(out, "{}", op_rt(be, f, &s, sd)).unwrap();
        if f.form == "tok" && i % 3 == 0 {
            writeln!(out, "tok.rt {} {} unit {}", be.name(), f.kind.name(), hex(s.as_bytes())).unwrap();
        }
        // a payload type with a non-empty suffix: the same string, the string with the suffix where `Display` puts it
        // (after the version) and where it must *not* be accepted (after the purpose, before the version's dot, doubled)
        if f.form == "tok" && i % 2 == 0 {
            let vh = with_v!(be, V => <V as Version>::HEADER);
            let kh = kind_headers(f.kind).0;
            let fk = if i % 6 == 0 { "unit" } else { "vec" };
            let mut vars = vec![s.clone()];
            if let Some(rest) = s.strip_prefix(vh).and_then(|x| x.strip_prefix(kh)) {
                vars.push(format!("{vh}c{kh}{rest}"));
                vars.push(format!("{vh}{kh}c{rest}"));
                vars.push(format!("c{vh}{kh}{rest}"));
                vars.push(format!("{vh}cc{kh}{rest}"));
                vars.push(format!("{vh}C{kh}{rest}"));
            }
            for v in vars {
                writeln!(out, "tokc.rt {} {} {fk} {}", be.name(), f.kind.name(), hex(v.as_bytes())).unwrap();
            }
        }
    }
}

/// every serialised (back end, form, kind) value offered to every (back end, form, kind) parser
pub fn gen_c10(out: &mut impl Write, seed: u64, thorough: bool) {
    let mut r = Rng::new(seed ^ 0xC10);
    let forms = all_forms();
    let lens = |f: &Form, r: &mut Rng| -> Vec<usize> {
        match f.form {
            // 33 is the only id length; the others are the lengths of keys (a key body under an id header must not pass)
            "id" => vec![33, 32, 64, 0, 34],
            "tok" => vec![r.range(64, 200), 0],
            _ => vec![32, 64, r.range(0, 200)],
        }
    };
    let reps = if thorough { 4 } else { 1 };
    for sbe in ALL_BE {
        for sf in &forms {
            let h = full_header(sbe, sf);
            for _ in 0..reps {
                for len in lens(sf, &mut r) {
                    let mut s = format!("{h}{}", b64(&r.bytes(len)));
                    if sf.form == "tok" && r.chance(1, 2) {
                        s.push('.');
                        s.push_str(&b64(&r.bytes_in(1, 20)));
                    }
                    for pbe in ALL_BE {
                        for pf in &forms {
                            writeln!(out, "x.rt {} {} {} {} {} {} {}", sbe.name(), sf.form, sf.kind.name(), pbe.name(), pf.form, pf.kind.name(), hex(s.as_bytes())).unwrap();
                        }
                    }
                }
            }
        }
    }
}
