//! back-end and kind dispatch
use paseto_core::encodings::{Payload, WriteBytes};
use std::error::Error;

#[derive(Clone, Copy, PartialEq, Eq, Debug)]
pub enum Be {
    V1,
    V2,
    V3,
    V3Lc,
    V4,
    V4S,
}
pub const ALL_BE: [Be; 6] = [Be::V1, Be::V2, Be::V3, Be::V3Lc, Be::V4, Be::V4S];
impl Be {
    pub fn name(self) -> &'static str {
        match self {
            Be::V1 => "v1",
            Be::V2 => "v2",
            Be::V3 => "v3",
            Be::V3Lc => "v3lc",
            Be::V4 => "v4",
            Be::V4S => "v4s",
        }
    }
    pub fn parse(s: &str) -> Option<Be> {
        ALL_BE.iter().copied().find(|b| b.name() == s)
    }
    pub fn version(self) -> u8 {
        match self {
            Be::V1 => 1,
            Be::V2 => 2,
            Be::V3 | Be::V3Lc => 3,
            Be::V4 | Be::V4S => 4,
        }
    }
    pub fn has_aad(self) -> bool {
        self.version() >= 3
    }
}

#[derive(Clone, Copy, PartialEq, Eq, Debug)]
pub enum Kind {
    Local,
    Public,
    Secret,
    PkePublic,
    PkeSecret,
}
pub const ALL_KIND: [Kind; 5] = [Kind::Local, Kind::Public, Kind::Secret, Kind::PkePublic, Kind::PkeSecret];
impl Kind {
    pub fn name(self) -> &'static str {
        match self {
            Kind::Local => "local",
            Kind::Public => "public",
            Kind::Secret => "secret",
            Kind::PkePublic => "pkepublic",
            Kind::PkeSecret => "pkesecret",
        }
    }
    pub fn parse(s: &str) -> Option<Kind> {
        ALL_KIND.iter().copied().find(|b| b.name() == s)
    }
}

pub type TV1 = paseto_v1::core::V1;
pub type TV2 = paseto_v2::core::V2;
pub type TV3 = paseto_v3::core::V3;
pub type TV3Lc = paseto_v3_aws_lc::core::V3;
pub type TV4 = paseto_v4::core::V4;
pub type TV4S = paseto_v4_sodium::core::V4;

#[macro_export]
macro_rules! with_v {
    ($be:expr, $V:ident => $body:expr) => {
        match $be {
            $crate::be::Be::V1 => { type $V = $crate::be::TV1; $body }
            $crate::be::Be::V2 => { type $V = $crate::be::TV2; $body }
            $crate::be::Be::V3 => { type $V = $crate::be::TV3; $body }
            $crate::be::Be::V3Lc => { type $V = $crate::be::TV3Lc; $body }
            $crate::be::Be::V4 => { type $V = $crate::be::TV4; $body }
            $crate::be::Be::V4S => { type $V = $crate::be::TV4S; $body }
        }
    };
}

#[macro_export]
macro_rules! with_kind {
    ($k:expr, $K:ident => $body:expr) => {
        match $k {
            $crate::be::Kind::Local => { type $K = paseto_core::version::Local; $body }
            $crate::be::Kind::Public => { type $K = paseto_core::version::Public; $body }
            $crate::be::Kind::Secret => { type $K = paseto_core::version::Secret; $body }
            $crate::be::Kind::PkePublic => { type $K = paseto_core::version::PkePublic; $body }
            $crate::be::Kind::PkeSecret => { type $K = paseto_core::version::PkeSecret; $body }
        }
    };
}

/// kinds that are `SealingKey` (Local, Secret); others -> `$else`
#[macro_export]
macro_rules! with_sealing_kind {
    ($k:expr, $K:ident => $body:expr, else $e:expr) => {
        match $k {
            $crate::be::Kind::Local => { type $K = paseto_core::version::Local; $body }
            $crate::be::Kind::Secret => { type $K = paseto_core::version::Secret; $body }
            _ => $e,
        }
    };
}

/// purposes (Local, Public)
#[macro_export]
macro_rules! with_purpose {
    ($k:expr, $P:ident => $body:expr, else $e:expr) => {
        match $k {
            $crate::be::Kind::Local => { type $P = paseto_core::version::Local; $body }
            $crate::be::Kind::Public => { type $P = paseto_core::version::Public; $body }
            _ => $e,
        }
    };
}

/// A payload type that is just bytes (`SUFFIX = ""` like JSON).
pub struct Raw(pub Vec<u8>);
impl Payload for Raw {
    const SUFFIX: &'static str = "";
    fn encode(self, mut writer: impl WriteBytes) -> Result<(), Box<dyn Error + Send + Sync>> {
        writer.write(&self.0);
        Ok(())
    }
    fn decode(payload: &[u8]) -> Result<Self, Box<dyn Error + Send + Sync>> {
        Ok(Raw(payload.to_vec()))
    }
}

pub fn err_name(e: &paseto_core::PasetoError) -> &'static str {
    use paseto_core::PasetoError::*;
    match e {
        Base64DecodeError => "base64",
        InvalidKey => "invalidKey",
        InvalidToken => "invalidToken",
        CryptoError => "crypto",
        ClaimsError => "claims",
        PayloadError(_) => "payload",
        _ => "other",
    }
}

/// raw-bytes payload with a non-empty encoding suffix (token header `vNc.purpose.`)
pub struct RawC(pub Vec<u8>);
impl Payload for RawC {
    const SUFFIX: &'static str = "c";
    fn encode(self, mut writer: impl WriteBytes) -> Result<(), Box<dyn Error + Send + Sync>> {
        writer.write(&self.0);
        Ok(())
    }
    fn decode(payload: &[u8]) -> Result<Self, Box<dyn Error + Send + Sync>> {
        Ok(RawC(payload.to_vec()))
    }
}

/// A payload / footer type that implements every trait a blanket impl could plausibly be conditioned on
/// (Payload, Footer, Serialize, Deserialize, Display, Debug, Clone, Default, Eq, Ord, Hash): impl probes for *forbidden*
/// token impls are made with it, so that `impl<M: Serialize> Serialize for UnsealedToken<.., M, ..>` cannot hide
/// behind an unsatisfied bound on the message type.
#[derive(Clone, Debug, Default, PartialEq, Eq, PartialOrd, Ord, Hash)]
pub struct Rich(pub Vec<u8>);
impl Payload for Rich {
    const SUFFIX: &'static str = "";
    fn encode(self, mut writer: impl WriteBytes) -> Result<(), Box<dyn Error + Send + Sync>> {
        writer.write(&self.0);
        Ok(())
    }
    fn decode(payload: &[u8]) -> Result<Self, Box<dyn Error + Send + Sync>> {
        Ok(Rich(payload.to_vec()))
    }
}
impl paseto_core::encodings::Footer for Rich {
    fn encode(&self, mut writer: impl WriteBytes) -> Result<(), Box<dyn Error + Send + Sync>> {
        writer.write(&self.0);
        Ok(())
    }
    fn decode(footer: &[u8]) -> Result<Self, Box<dyn Error + Send + Sync>> {
        Ok(Rich(footer.to_vec()))
    }
}
impl std::fmt::Display for Rich {
    fn fmt(&self, f: &mut std::fmt::Formatter<'_>) -> std::fmt::Result {
        write!(f, "{}", crate::util::hex(&self.0))
    }
}
impl serde_core::Serialize for Rich {
    fn serialize<S: serde_core::Serializer>(&self, s: S) -> Result<S::Ok, S::Error> {
        s.serialize_bytes(&self.0)
    }
}
impl<'de> serde_core::Deserialize<'de> for Rich {
    fn deserialize<D: serde_core::Deserializer<'de>>(d: D) -> Result<Self, D::Error> {
        let s = <String as serde_core::Deserialize>::deserialize(d)?;
        Ok(Rich(s.into_bytes()))
    }
}
