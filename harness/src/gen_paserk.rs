//! generators: c05 (wrap round trips), c06 (wrap mutations), c07 (bit-exactness / spec-built blobs),
//! c08 (keys), c13 (ids)
use crate::be::*;
use crate::exec4::key_of;
use crate::gen_text::b64;
use crate::gen_tok::{gen_secret, public_of, unb64};
use crate::util::*;
use crate::with_v;
use paseto_core::key::Key;
use paseto_core::paserk::{PasswordWrappedKey, PieWrappedKey};
use paseto_core::version::{Local, PkePublic, Secret};
use std::io::Write;
use std::str::FromStr;

/// (secret, public) raw encodings of a key pair usable for PKE
pub fn pke_pair(be: Be) -> (Vec<u8>, Vec<u8>) {
    if be == Be::V1 {
        (crate::facts::v1_pke_secret_pem().into_bytes(), crate::facts::v1_pke_public_pem().into_bytes())
    } else if be.version() == 3 {
        // alternate between recipients whose compressed public key has tag 02 and tag 03 (both sign classes of y get exercised)
        use std::sync::atomic::{AtomicUsize, Ordering};
        static NEXT: AtomicUsize = AtomicUsize::new(0);
        let want = 2 + (NEXT.fetch_add(1, Ordering::Relaxed) % 2) as u8;
        loop {
            let sk = gen_secret(be);
            let pk = public_of(be, &sk);
            if pk.first() == Some(&want) { return (sk, pk); }
        }
    } else {
        let sk = gen_secret(be);
        let pk = public_of(be, &sk);
        (sk, pk)
    }
}

fn kinds() -> [Kind; 2] {
    [Kind::Local, Kind::Secret]
}

fn some_key(be: Be, k: Kind, r: &mut Rng, cache: &mut Vec<(Be, Vec<u8>)>) -> Vec<u8> {
    if k == Kind::Local {
        return r.pattern(32);
    }
    let _ = cache; // v1 keys come from the fixed RSA pool (every DER length), the others from the library's key generation
    gen_secret(be)
}

fn pie_wrap(be: Be, k: Kind, wk: &[u8], key: &[u8]) -> Option<String> {
    with_v!(be, V => {
        let wk = key_of::<V, Local>(wk).ok()?;
        match k {
            Kind::Local => key_of::<V, Local>(key).ok()?.wrap_pie(&wk).ok().map(|w| w.to_string()),
            _ => key_of::<V, Secret>(key).ok()?.wrap_pie(&wk).ok().map(|w| w.to_string()),
        }
    })
}

/// a syntactically valid PBKW string carrying `params` (used as a donor of parameters and as a template)
fn pw_template(be: Be, k: Kind, params: &[u8], keylen: usize) -> String {
    let (saltl, noncel, tagl) = if be.version() % 2 == 1 { (32, 16, 48) } else { (16, 24, 32) };
    let mut blob = vec![0u8; saltl];
    blob.extend(params);
    blob.extend(vec![0u8; noncel + keylen + tagl]);
    format!("k{}.{}-pw.{}", be.version(), if k == Kind::Local { "local" } else { "secret" }, b64(&blob))
}

pub fn small_params(be: Be, r: &mut Rng) -> Vec<u8> {
    if be.version() % 2 == 1 {
        let it = *r.pick(&[1u32, 2, 3, 10, 100, 1000]);
        it.to_be_bytes().to_vec()
    } else {
        let mem_kib = *r.pick(&[8u64, 16, 32, 64, 256]);
        let time = *r.pick(&[1u32, 2, 3]);
        let para = if be == Be::V4S { 1u32 } else { *r.pick(&[1u32, 1, 2]) };
        let mem_kib = mem_kib.max(8 * para as u64);
        // libsodium requires at least 8192 bytes and opslimit >= 1
        let mut p = (mem_kib * 1024).to_be_bytes().to_vec();
        p.extend(time.to_be_bytes());
        p.extend(para.to_be_bytes());
        p
    }
}

fn pw_wrap(be: Be, k: Kind, pass: &[u8], key: &[u8], params: &[u8]) -> Option<String> {
    let donor = pw_template(be, k, params, 32);
    with_v!(be, V => match k {
        Kind::Local => {
            let p = PasswordWrappedKey::<V, Local>::from_str(&donor).ok()?.params().ok()?;
            key_of::<V, Local>(key).ok()?.password_wrap_with_params(pass, &p).ok().map(|w| w.to_string())
        }
        _ => {
            let p = PasswordWrappedKey::<V, Secret>::from_str(&donor).ok()?.params().ok()?;
            key_of::<V, Secret>(key).ok()?.password_wrap_with_params(pass, &p).ok().map(|w| w.to_string())
        }
    })
}

fn seal(be: Be, pk: &[u8], key: &[u8]) -> Option<String> {
    with_v!(be, V => {
        let pk = key_of::<V, PkePublic>(pk).ok()?;
        key_of::<V, Local>(key).ok()?.seal(&pk).ok().map(|w| w.to_string())
    })
}

fn canon(be: Be, k: Kind, raw: &[u8]) -> Vec<u8> {
    with_v!(be, V => match k {
        Kind::Local => raw.to_vec(),
        _ => key_of::<V, Secret>(raw).map(|x| x.expose_key().as_raw_bytes().to_vec()).unwrap_or_default(),
    })
}

pub fn gen_c05(out: &mut impl Write, seed: u64, thorough: bool) {
    let mut r = Rng::new(seed ^ 0xC05);
    let mut cache = vec![];
    let mut passwords: Vec<Vec<u8>> = vec![vec![], vec![0x70], b"correct horse battery staple".to_vec(), vec![0xff, 0xfe, 0x00, 0x80], r.bytes(1024)];
    // lengths around the block sizes of the hash under the KDF (64 / 128 bytes): a pre-hashing shortcut is off by one exactly there
    for n in [63usize, 64, 65, 127, 128, 129, 255, 256, 257] { passwords.push(r.pattern(n)); }
    if thorough {
        // valid Argon2id memory costs at and beyond the 32-bit boundaries of the byte count (2 GiB, 4 GiB): implementation only
        // (the round trip really evaluates Argon2id over that much memory; the lines are adjacent so that one worker runs them in turn)
        for be in [Be::V2, Be::V4, Be::V4S] {
            for mem in [1u64 << 31, 1u64 << 32] {
                let mut p = mem.to_be_bytes().to_vec();
                p.extend(1u32.to_be_bytes());
                p.extend(1u32.to_be_bytes());
                writeln!(out, "o.pw.rt {} local {} {} {}", be.name(), hex(b"pw"), hex(&r.pattern(32)), hex(pw_template(be, Kind::Local, &p, 32).as_bytes())).unwrap();
            }
        }
    }
    // every password length class on every back end (the loop below cycles through the first few only)
    for be in ALL_BE {
        for pass in passwords.iter().skip(5) {
            let key = r.pattern(32);
            let params = small_params(be, &mut r);
            writeln!(out, "o.pw.rt {} local {} {} {}", be.name(), hex(pass), hex(&key), hex(pw_template(be, Kind::Local, &params, 32).as_bytes())).unwrap();
        }
    }
    for be in ALL_BE {
        let (psk, ppk) = pke_pair(be);
        for k in kinds() {
            let n = if thorough { 40 } else { 6 };
            for i in 0..n {
                let wk = r.pattern(32);
                let key = some_key(be, k, &mut r, &mut cache);
                let c = canon(be, k, &key);
                writeln!(out, "o.pie.rt {} {} {} {}", be.name(), k.name(), hex(&wk), hex(&key)).unwrap();
                if let Some(s) = pie_wrap(be, k, &wk, &key) {
                    writeln!(out, "pie.open {} {} {} {} want=ok:{}", be.name(), k.name(), hex(&wk), hex(s.as_bytes()), hex(&c)).unwrap();
                }
                let pass = passwords[i % passwords.len()].clone();
                let params = small_params(be, &mut r);
                writeln!(out, "o.pw.rt {} {} {} {} {}", be.name(), k.name(), hex(&pass), hex(&key), hex(pw_template(be, k, &params, 32).as_bytes())).unwrap();
                if let Some(s) = pw_wrap(be, k, &pass, &key, &params) {
                    writeln!(out, "pw.open {} {} {} {} want=ok:{}", be.name(), k.name(), hex(&pass), hex(s.as_bytes()), hex(&c)).unwrap();
                }
            }
            // default cost parameters, once per back end and kind
            let key = some_key(be, k, &mut r, &mut cache);
            writeln!(out, "o.pw.rt {} {} {} {} default", be.name(), k.name(), hex(b"pw"), hex(&key)).unwrap();
        }
        // PKE: many seals, so that RSA-KEM ciphertexts / ephemeral values with leading zero bytes occur
        let n = if be == Be::V1 { if thorough { 30000 } else { 3000 } } else if thorough { 20000 } else { 2500 };
        for _ in 0..n {
            writeln!(out, "o.seal.rt {} {} {} {}", be.name(), hex(&psk), hex(&ppk), hex(&r.bytes(32))).unwrap();
        }
        for _ in 0..(if be == Be::V1 { 6 } else { 20 }) {
            let key = r.bytes(32);
            if let Some(s) = seal(be, &ppk, &key) {
                writeln!(out, "seal.open {} {} {} want=ok:{}", be.name(), hex(&psk), hex(s.as_bytes()), hex(&key)).unwrap();
            }
        }
        if be == Be::V1 {
            // recipients whose RSA public exponent is not 65537 (honestly generated keys with e = 3 / e = 17)
            for (_, spem, ppem) in crate::rsa4k_pool::PAIRS {
                for _ in 0..(if thorough { 40 } else { 6 }) {
                    let key = r.bytes(32);
                    writeln!(out, "o.seal.rt v1 {} {} {}", hex(spem.as_bytes()), hex(ppem.as_bytes()), hex(&key)).unwrap();
                    if let Some(s) = seal(be, ppem.as_bytes(), &key) {
                        writeln!(out, "seal.open v1 {} {} want=ok:{}", hex(spem.as_bytes()), hex(s.as_bytes()), hex(&key)).unwrap();
                    }
                }
            }
        }
    }
}

/// first and last byte index of every field of a PASERK blob (tag, nonce, salt, cost parameters, ephemeral key / encapsulation,
/// encrypted key): every bit of these bytes is flipped even in the quick tier (sign bits, top bits of coordinates and counters live there)
fn field_edges(op: &str, be: Be, n: usize) -> std::collections::HashSet<usize> {
    let odd = be.version() % 2 == 1;
    let mut cuts: Vec<usize> = match op {
        "pie.open" => vec![0, if odd { 48 } else { 32 }, if odd { 80 } else { 64 }],
        "pw.open" => if odd { vec![0, 32, 36, 52, n.saturating_sub(48)] } else { vec![0, 16, 24, 28, 32, 56, n.saturating_sub(32)] },
        _ => match be {
            Be::V1 => vec![0, 48, 80],
            Be::V3 | Be::V3Lc => vec![0, 48, 97],
            _ => vec![0, 32, 64],
        },
    };
    cuts.push(n);
    let mut e = std::collections::HashSet::new();
    for c in cuts {
        if c < n { e.insert(c); }
        if c > 0 && c <= n { e.insert(c - 1); }
    }
    e
}

fn split_paserk(s: &str) -> (String, Vec<u8>) {
    let i = s.rfind('.').unwrap();
    (s[..=i].to_string(), unb64(&s[i + 1..]))
}

pub fn gen_c06(out: &mut impl Write, seed: u64, thorough: bool) {
    let mut r = Rng::new(seed ^ 0xC06);
    let mut cache = vec![];
    for be in ALL_BE {
        let (psk, ppk) = pke_pair(be);
        let (psk2, _ppk2) = if be == Be::V1 { (psk.clone(), ppk.clone()) } else { pke_pair(be) };
        for k in kinds() {
            let wk = r.bytes(32);
            let key = some_key(be, k, &mut r, &mut cache);
            let c = canon(be, k, &key);
            let pass = b"password".to_vec();
            let params = small_params(be, &mut r);
            let arts: Vec<(&str, Option<String>, Vec<u8>)> = vec![
                ("pie.open", pie_wrap(be, k, &wk, &key), wk.clone()),
                ("pw.open", pw_wrap(be, k, &pass, &key, &params), pass.clone()),
            ];
            for (op, s, secret) in arts {
                let Some(s) = s else { continue };
                let (hdr, blob) = split_paserk(&s);
                writeln!(out, "{op} {} {} {} {} want=ok:{}", be.name(), k.name(), hex(&secret), hex(s.as_bytes()), hex(&c)).unwrap();
                let n = blob.len();
                // password-wrapped mutants are only offered when the cost parameters the mutant carries stay inside the stated budget
                let within = |m: &[u8]| -> bool {
                    if op != "pw.open" { return true; }
                    let (a, b) = if be.version() % 2 == 1 { (32, 36) } else { (16, 32) };
                    m.len() < b || params_in_budget(be, &m[a..b])
                };
                // parameter block of PBKW blobs: only mutations that stay inside the cost budget
                let (p0, p1) = if op == "pw.open" { if be.version() % 2 == 1 { (32, 36) } else { (16, 32) } } else { (0, 0) };
                let fe = field_edges(op, be, n);
                for byte in 0..n {
                    for bit in 0..8 {
                        let edge = byte < 4 || byte + 4 >= n || (byte >= p0.max(2) - 2 && byte < p1 + 2);
                        let stride = if thorough { if k == Kind::Local { 1 } else { 5 } } else if edge { 3 } else { 37 };
                        if (byte * 8 + bit) % stride != 0 && !fe.contains(&byte) { continue; }
                        let mut m = blob.clone();
                        m[byte] ^= 1 << bit;
                        if !within(&m) { continue; }
                        let _ = (p0, p1);
                        writeln!(out, "{op} {} {} {} {} want=err", be.name(), k.name(), hex(&secret), hex(format!("{hdr}{}", b64(&m)).as_bytes())).unwrap();
                    }
                }
                // two-bit corruptions: the same bit in two bytes of one field, and one bit in each of two fields (a comparison that
                // folds differences with XOR, or compares a checksum of the tag, accepts exactly these)
                {
                    let fe: Vec<usize> = { let mut v: Vec<usize> = field_edges(op, be, n).into_iter().collect(); v.sort(); v };
                    let mut pairs: Vec<(usize, usize, u8, u8)> = vec![];
                    for w in fe.windows(2) { pairs.push((w[0], w[1], 0, 0)); pairs.push((w[0], w[1], 7, 7)); }
                    for _ in 0..24 {
                        let a = r.below(n as u64) as usize; let b = r.below(n as u64) as usize;
                        if a != b { let bit = r.below(8) as u8; pairs.push((a, b, bit, bit)); }
                    }
                    for k in 0..n.saturating_sub(1) { if k % 7 == 0 { pairs.push((k, k + 1, 0, 0)); } }
                    for (a, b, ba, bb) in pairs {
                        let mut m = blob.clone();
                        m[a] ^= 1 << ba;
                        m[b] ^= 1 << bb;
                        if m == blob || !within(&m) { continue; }
                        writeln!(out, "{op} {} {} {} {} want=err", be.name(), k.name(), hex(&secret), hex(format!("{hdr}{}", b64(&m)).as_bytes())).unwrap();
                    }
                }
                for cut in [1usize, 2, 16, 31, 32, 33, 48] {
                    if cut < n {
                        writeln!(out, "{op} {} {} {} {} want=err", be.name(), k.name(), hex(&secret), hex(format!("{hdr}{}", b64(&blob[..n - cut])).as_bytes())).unwrap();
                        if within(&blob[cut..]) {
                            writeln!(out, "{op} {} {} {} {} want=err", be.name(), k.name(), hex(&secret), hex(format!("{hdr}{}", b64(&blob[cut..])).as_bytes())).unwrap();
                        }
                    }
                }
                for ext in 1..=2 {
                    let mut m = blob.clone();
                    m.extend(r.bytes(ext));
                    writeln!(out, "{op} {} {} {} {} want=err", be.name(), k.name(), hex(&secret), hex(format!("{hdr}{}", b64(&m)).as_bytes())).unwrap();
                }
                // a byte removed or inserted *inside* the blob, at every field edge (a field read as "the rest" or re-padded
                // to its width would tolerate this)
                {
                    let mut ed: Vec<usize> = field_edges(op, be, n).into_iter().collect(); ed.sort();
                    for &e in &ed {
                        if e < n {
                            let mut m = blob.clone(); m.remove(e);
                            if within(&m) { writeln!(out, "{op} {} {} {} {} want=err", be.name(), k.name(), hex(&secret), hex(format!("{hdr}{}", b64(&m)).as_bytes())).unwrap(); }
                        }
                        let mut m = blob.clone(); m.insert(e.min(n), 0);
                        if within(&m) { writeln!(out, "{op} {} {} {} {} want=err", be.name(), k.name(), hex(&secret), hex(format!("{hdr}{}", b64(&m)).as_bytes())).unwrap(); }
                    }
                }
                // other secret: one bit different, empty, random
                let mut s2 = secret.clone();
                s2[0] ^= 1;
                writeln!(out, "{op} {} {} {} {} want=err", be.name(), k.name(), hex(&s2), hex(s.as_bytes())).unwrap();
                if op == "pw.open" {
                    writeln!(out, "{op} {} {} - {} want=err", be.name(), k.name(), hex(s.as_bytes())).unwrap();
                    let mut s3 = secret.clone();
                    s3.push(0);
                    writeln!(out, "{op} {} {} {} {} want=err", be.name(), k.name(), hex(&s3), hex(s.as_bytes())).unwrap();
                }
                // header relabel: every other version (same primitives for k1<->k3, k2<->k4) and local<->secret
                for be2 in ALL_BE {
                    let body = &s[hdr.len()..];
                    let k2 = if k == Kind::Local { Kind::Secret } else { Kind::Local };
                    let suffix = &hdr[2..];
                    // password-wrapped blobs are only relabelled within the family sharing the prefix layout: under the other
                    // layout the salt bytes would be read as (unbounded) cost parameters, which is outside the stated budget
                    let same_layout = be2.version() % 2 == be.version() % 2;
                    if op == "pw.open" && !same_layout { continue; }
                    if be2.version() != be.version() {
                        writeln!(out, "{op} {} {} {} {} want=err", be2.name(), k.name(), hex(&secret), hex(format!("k{}{suffix}{body}", be2.version()).as_bytes())).unwrap();
                    }
                    let other = suffix.replacen(if k == Kind::Local { "local" } else { "secret" }, if k == Kind::Local { "secret" } else { "local" }, 1);
                    writeln!(out, "{op} {} {} {} {} want=err", be2.name(), k2.name(), hex(&secret), hex(format!("k{}{other}{body}", be2.version()).as_bytes())).unwrap();
                }
            }
        }
        // sealed keys
        let key = r.bytes(32);
        if let Some(s) = seal(be, &ppk, &key) {
            let (hdr, blob) = split_paserk(&s);
            writeln!(out, "seal.open {} {} {} want=ok:{}", be.name(), hex(&psk), hex(s.as_bytes()), hex(&key)).unwrap();
            let n = blob.len();
            let fe = field_edges("seal.open", be, n);
            for byte in 0..n {
                for bit in 0..8 {
                    let stride = if thorough { 3 } else if be == Be::V1 { 211 } else { 13 };
                    if (byte * 8 + bit) % stride != 0 && !fe.contains(&byte) { continue; }
                    let mut m = blob.clone();
                    m[byte] ^= 1 << bit;
                    writeln!(out, "seal.open {} {} {} want=err", be.name(), hex(&psk), hex(format!("{hdr}{}", b64(&m)).as_bytes())).unwrap();
                }
            }
            {
                // two-bit corruptions (see above)
                let fe: Vec<usize> = { let mut v: Vec<usize> = field_edges("seal.open", be, n).into_iter().collect(); v.sort(); v };
                let mut pairs: Vec<(usize, usize, u8)> = vec![];
                for w in fe.windows(2) { pairs.push((w[0], w[1], 0)); pairs.push((w[0], w[1], 7)); }
                for _ in 0..16 {
                    let a = r.below(n as u64) as usize; let b = r.below(n as u64) as usize;
                    if a != b { pairs.push((a, b, r.below(8) as u8)); }
                }
                for k in 0..n.saturating_sub(1) { if k % (if be == Be::V1 { 97 } else { 7 }) == 0 { pairs.push((k, k + 1, 0)); } }
                for (a, b, bit) in pairs {
                    let mut m = blob.clone();
                    m[a] ^= 1 << bit;
                    m[b] ^= 1 << bit;
                    writeln!(out, "seal.open {} {} {} want=err", be.name(), hex(&psk), hex(format!("{hdr}{}", b64(&m)).as_bytes())).unwrap();
                }
            }
            for cut in [1usize, 31, 32, 33] {
                writeln!(out, "seal.open {} {} {} want=err", be.name(), hex(&psk), hex(format!("{hdr}{}", b64(&blob[..n - cut])).as_bytes())).unwrap();
                writeln!(out, "seal.open {} {} {} want=err", be.name(), hex(&psk), hex(format!("{hdr}{}", b64(&blob[cut..])).as_bytes())).unwrap();
            }
            let mut m = blob.clone();
            m.push(0);
            writeln!(out, "seal.open {} {} {} want=err", be.name(), hex(&psk), hex(format!("{hdr}{}", b64(&m)).as_bytes())).unwrap();
            {
                // a byte removed or inserted inside the blob at every field edge; also on a blob whose encapsulation (RSA
                // ciphertext / point / u-coordinate) begins with a zero byte, where "strip and re-pad" would hide the removal
                let mut blobs = vec![blob.clone()];
                let enc_at = match be.version() { 1 => 80, 3 => 48 + 1, _ => 32 };      // first byte of the encapsulation (after a point tag)
                for _ in 0..(if thorough { 4000 } else { 1500 }) {
                    let Some(s2) = seal(be, &ppk, &key) else { break };
                    let (_, b2) = split_paserk(&s2);
                    if b2.get(enc_at) == Some(&0) {
                        writeln!(out, "seal.open {} {} {} want=ok:{}", be.name(), hex(&psk), hex(s2.as_bytes()), hex(&key)).unwrap();
                        blobs.push(b2);
                        break;
                    }
                }
                for bl in &blobs {
                    let mut ed: Vec<usize> = field_edges("seal.open", be, bl.len()).into_iter().collect();
                    ed.push(enc_at); ed.sort(); ed.dedup();
                    for &e in &ed {
                        if e < bl.len() {
                            let mut m = bl.clone(); m.remove(e);
                            writeln!(out, "seal.open {} {} {} want=err", be.name(), hex(&psk), hex(format!("{hdr}{}", b64(&m)).as_bytes())).unwrap();
                        }
                        let mut m = bl.clone(); m.insert(e.min(bl.len()), 0);
                        writeln!(out, "seal.open {} {} {} want=err", be.name(), hex(&psk), hex(format!("{hdr}{}", b64(&m)).as_bytes())).unwrap();
                    }
                }
            }
            if be != Be::V1 {
                writeln!(out, "seal.open {} {} {} want=err", be.name(), hex(&psk2), hex(s.as_bytes())).unwrap();
            }
            for be2 in ALL_BE {
                if be2.version() != be.version() && (be2.version() + be.version()) % 2 == 0 && be != Be::V1 && be2 != Be::V1 {
                    writeln!(out, "seal.open {} {} {} want=err", be2.name(), hex(&psk), hex(format!("k{}.seal.{}", be2.version(), &s[hdr.len()..]).as_bytes())).unwrap();
                }
            }
        }
    }
}

/// stated budget for password-wrapped blobs: <= 64 MiB, <= 3 passes / <= 10000 iterations
pub fn params_in_budget(be: Be, p: &[u8]) -> bool {
    if be.version() % 2 == 1 {
        let it = u32::from_be_bytes(p.try_into().unwrap());
        it <= 10_000
    } else {
        let mem = u64::from_be_bytes(p[..8].try_into().unwrap());
        let time = u32::from_be_bytes(p[8..12].try_into().unwrap());
        let para = u32::from_be_bytes(p[12..16].try_into().unwrap());
        mem <= 64 << 20 && time <= 3 && para <= 16
    }
}

pub fn gen_c07(out: &mut impl Write, seed: u64, thorough: bool) {
    let mut r = Rng::new(seed ^ 0xC07);
    let mut cache = vec![];
    let reps = if thorough { 12 } else { 3 };
    for be in ALL_BE {
        let (psk, ppk) = pke_pair(be);
        let nonce_len_pw = if be.version() % 2 == 1 { 16 } else { 24 };
        let salt_len = if be.version() % 2 == 1 { 32 } else { 16 };
        for k in kinds() {
            for i in 0..reps {
                let wk = r.pattern(32);
                let key = some_key(be, k, &mut r, &mut cache);
                let c = canon(be, k, &key);
                // library-built blobs: exactly what the model (= spec for the embedded nonce) computes; opened by the sibling too
                if let Some(s) = pie_wrap(be, k, &wk, &key) {
                    writeln!(out, "pie.re {} {} {} {}", be.name(), k.name(), hex(&wk), hex(s.as_bytes())).unwrap();
                    for b2 in ALL_BE {
                        if b2 != be && b2.version() == be.version() {
                            writeln!(out, "pie.open {} {} {} {} want=ok:{}", b2.name(), k.name(), hex(&wk), hex(s.as_bytes()), hex(&c)).unwrap();
                        }
                    }
                }
                let pass = r.bytes_in(0, 20);
                let mut params = small_params(be, &mut r);
                if be.version() == 4 { params[12..16].copy_from_slice(&1u32.to_be_bytes()); }
                if let Some(s) = pw_wrap(be, k, &pass, &key, &params) {
                    writeln!(out, "pw.re {} {} {} {}", be.name(), k.name(), hex(&pass), hex(s.as_bytes())).unwrap();
                    for b2 in ALL_BE {
                        if b2 != be && b2.version() == be.version() {
                            writeln!(out, "pw.open {} {} {} {} want=ok:{}", b2.name(), k.name(), hex(&pass), hex(s.as_bytes()), hex(&c)).unwrap();
                        }
                    }
                }
                // specification-built blobs with chosen nonces / salts, incl. all-ones (counter carry)
                let pie_nonce = match i % 3 { 0 => r.bytes(32), 1 => vec![0xff; 32], _ => vec![0; 32] };
                writeln!(out, "m.pie.wrap {} {} {} {} {} | pie.open {} {} {} $ want=ok:{}", be.name(), k.name(), hex(&wk), hex(&pie_nonce), hex(&c), be.name(), k.name(), hex(&wk), hex(&c)).unwrap();
                let pw_nonces: Vec<Vec<u8>> = vec![r.bytes(nonce_len_pw), vec![0xff; nonce_len_pw], { let mut n = vec![0xff; nonce_len_pw]; n[nonce_len_pw - 1] = 0xfe; n }, vec![0; nonce_len_pw]];
                let salt = if i % 2 == 0 { r.bytes(salt_len) } else { vec![0xff; salt_len] };
                let n = &pw_nonces[i % pw_nonces.len()];
                writeln!(out, "m.pw.wrap {} {} {} {} {} {} {} | pw.open {} {} {} $ want=ok:{}", be.name(), k.name(), hex(&pass), hex(&salt), hex(&params), hex(n), hex(&c), be.name(), k.name(), hex(&pass), hex(&c)).unwrap();
                if i == 0 {
                    for n in &pw_nonces {
                        writeln!(out, "m.pw.wrap {} {} {} {} {} {} {} | pw.open {} {} {} $ want=ok:{}", be.name(), k.name(), hex(&pass), hex(&salt), hex(&params), hex(n), hex(&c), be.name(), k.name(), hex(&pass), hex(&c)).unwrap();
                    }
                }
            }
        }
        // Argon2id parallelism > 1 (RustCrypto back ends; libsodium's restriction to p = 1 is a recorded finding): library-built
        // blobs must be reproduced by the model, and specification-built blobs must be accepted
        if be == Be::V2 || be == Be::V4 {
            for (mem, t, par) in [(32u64 * 1024, 1u32, 2u32), (64 * 1024, 2, 4), (24 * 1024, 1, 3), (16 * 1024 + 512, 1, 1), (65537, 1, 1), (66559, 1, 1), (8192 + 1023, 2, 1)] {
                let mut params = mem.to_be_bytes().to_vec();
                params.extend(t.to_be_bytes());
                params.extend(par.to_be_bytes());
                for k in kinds() {
                    let key = some_key(be, k, &mut r, &mut cache);
                    let c = canon(be, k, &key);
                    let pass = r.bytes_in(1, 12);
                    if let Some(s) = pw_wrap(be, k, &pass, &key, &params) {
                        writeln!(out, "pw.re {} {} {} {}", be.name(), k.name(), hex(&pass), hex(s.as_bytes())).unwrap();
                    }
                    writeln!(out, "m.pw.wrap {} {} {} {} {} {} {} | pw.open {} {} {} $ want=ok:{}", be.name(), k.name(), hex(&pass), hex(&r.bytes(salt_len)), hex(&params), hex(&r.bytes(nonce_len_pw)), hex(&c), be.name(), k.name(), hex(&pass), hex(&c)).unwrap();
                }
            }
        }
        // whatever a back end agrees to wrap (own randomness, any parameter block it accepts) must unwrap on every back end
        // of the version: parameters outside the siblings' common domain included (parallelism 2, memory not a multiple of 1 MiB / 1 KiB)
        for k in kinds() {
            let key = some_key(be, k, &mut r, &mut cache);
            let mut plist: Vec<Vec<u8>> = vec![small_params(be, &mut r)];
            if be.version() % 2 == 0 {
                for (mem, t, p) in [(64u64 * 1024, 1u32, 2u32), (1000 * 1024, 1, 1), (8 * 1024, 2, 1), (16 * 1024 + 512, 1, 1), (32 * 1024, 1, 4)] {
                    let mut v = mem.to_be_bytes().to_vec(); v.extend(t.to_be_bytes()); v.extend(p.to_be_bytes());
                    plist.push(v);
                }
            } else {
                plist.push(2u32.to_be_bytes().to_vec());
            }
            for params in plist {
                writeln!(out, "o.pw.cross {} {} {} {} {}", be.name(), k.name(), hex(b"pw"), hex(pw_template(be, k, &params, 32).as_bytes()), hex(&key)).unwrap();
            }
        }
        for i in 0..(if be == Be::V1 { 2 } else { reps }) {
            let key = r.bytes(32);
            let rnd = if be == Be::V1 { r.bytes(512) } else if be.version() == 3 { let mut x = r.bytes(48); x[0] &= 0x7f; x } else { r.bytes(32) };
            writeln!(out, "m.seal {} {} {} {} | seal.open {} {} $ want=ok:{}", be.name(), hex(&ppk), hex(&key), hex(&rnd), be.name(), hex(&psk), hex(&key)).unwrap();
            if let Some(s) = seal(be, &ppk, &key) {
                for b2 in ALL_BE {
                    if b2.version() == be.version() {
                        writeln!(out, "seal.open {} {} {} want=ok:{}", b2.name(), hex(&psk), hex(s.as_bytes()), hex(&key)).unwrap();
                    }
                }
            }
            let _ = i;
        }
        // value classes of the encapsulation: library seals are repeated until every value of the last byte of an X25519
        // ephemeral key (0..=0x7f), both P-384 point tags and extreme leading coordinate / tag / ciphertext bytes have occurred;
        // every back end of the version (and the model) must open each of them
        if be == Be::V1 {
            // v1: the 512-byte RSA-KEM ciphertext c (blob bytes 80..592): seal until c starts with a zero byte (1 in 256) and with 0xff;
            // also recipients with public exponent 3 / 17, model-built and library-built
            let key = r.bytes(32);
            let mut seen = std::collections::HashSet::new();
            for _ in 0..(if thorough { 6000 } else { 1500 }) {
                let Some(s) = seal(be, &ppk, &key) else { continue };
                let blob = crate::gen_tok::unb64(s.rsplit('.').next().unwrap());
                if blob.len() != 592 { continue; }
                let c0 = blob[80];
                let class = if c0 == 0 { 0 } else if c0 == 0xff { 1 } else if c0 < 0x10 { 2 } else { continue };
                if seen.insert(class) {
                    writeln!(out, "seal.open v1 {} {} want=ok:{}", hex(&psk), hex(s.as_bytes()), hex(&key)).unwrap();
                }
                if seen.len() == 3 { break; }
            }
            for (_, spem, ppem) in crate::rsa4k_pool::PAIRS {
                let key = r.bytes(32);
                writeln!(out, "m.seal v1 {} {} {} | seal.open v1 {} $ want=ok:{}", hex(ppem.as_bytes()), hex(&key), hex(&r.bytes(512)), hex(spem.as_bytes()), hex(&key)).unwrap();
                if let Some(s) = seal(be, ppem.as_bytes(), &key) {
                    writeln!(out, "seal.open v1 {} {} want=ok:{}", hex(spem.as_bytes()), hex(s.as_bytes()), hex(&key)).unwrap();
                }
            }
        }
        if be != Be::V1 {
            let key = r.bytes(32);
            let budget = if thorough { 40_000 } else { 6_000 };
            let mut seen = std::collections::HashSet::new();
            for _ in 0..budget {
                let Some(s) = seal(be, &ppk, &key) else { continue };
                let blob = crate::gen_tok::unb64(s.rsplit('.').next().unwrap());
                let mut classes: Vec<(u8, u8)> = vec![];
                if be.version() == 3 {
                    classes.push((0, blob[48]));                       // point tag 02 / 03
                    if blob[49] == 0 || blob[49] == 0xff { classes.push((1, blob[49])); }
                    classes.push((2, blob[96] >> 5));                  // low byte of x, coarse
                    // the ECDH shared secret (x-coordinate of esk·PK = sk·EPK): a leading zero byte must be kept (fixed width)
                    if let Some(z) = p384_shared_x(&psk, &blob[48..97]) {
                        if z[0] == 0 || z[0] == 0xff { classes.push((5, z[0])); }
                        if z[47] == 0 { classes.push((6, 0)); }
                    }
                } else {
                    classes.push((0, blob[63]));                       // top byte of the X25519 u-coordinate
                    if blob[32] == 0 || blob[32] == 0xff { classes.push((1, blob[32])); }
                }
                if blob[0] == 0 || blob[0] == 0xff { classes.push((3, blob[0])); }
                let last = *blob.last().unwrap();
                if last == 0 || last == 0xff { classes.push((4, last)); }
                let mut fresh = false;
                for c in classes { if seen.insert(c) { fresh = true; } }
                if fresh {
                    for b2 in ALL_BE {
                        if b2.version() == be.version() {
                            writeln!(out, "seal.open {} {} {} want=ok:{}", b2.name(), hex(&psk), hex(s.as_bytes()), hex(&key)).unwrap();
                        }
                    }
                }
            }
        }
    }
}

fn der_len(n: usize) -> Vec<u8> {
    if n < 0x80 { vec![n as u8] } else if n < 0x100 { vec![0x81, n as u8] } else { vec![0x82, (n >> 8) as u8, n as u8] }
}
fn der_tlv(tag: u8, c: &[u8]) -> Vec<u8> {
    let mut v = vec![tag];
    v.extend(der_len(c.len()));
    v.extend(c);
    v
}
fn der_uint(be: &[u8]) -> Vec<u8> {
    let mut b: Vec<u8> = be.iter().copied().skip_while(|x| *x == 0).collect();
    if b.is_empty() { b.push(0); }
    if b[0] & 0x80 != 0 { b.insert(0, 0); }
    der_tlv(2, &b)
}
/// SubjectPublicKeyInfo for an RSA key with an (odd, random) modulus of exactly `bits` bits and e = 65537
pub fn rsa_spki_with_bits(r: &mut Rng, bits: usize) -> Vec<u8> {
    rsa_spki_with_bits_e(r, bits, &[1, 0, 1])
}
/// the same with a chosen public exponent (a public key needs no matching private key)
pub fn rsa_spki_with_bits_e(r: &mut Rng, bits: usize, e: &[u8]) -> Vec<u8> {
    let nbytes = bits.div_ceil(8);
    let mut n = r.bytes(nbytes);
    let top = (bits - 1) % 8;
    n[0] &= ((1u16 << (top + 1)) - 1) as u8;
    n[0] |= 1 << top;
    *n.last_mut().unwrap() |= 1;
    let key = der_tlv(0x30, &[der_uint(&n), der_uint(e)].concat());
    let alg: [u8; 15] = [0x30, 0x0d, 0x06, 0x09, 0x2a, 0x86, 0x48, 0x86, 0xf7, 0x0d, 0x01, 0x01, 0x01, 0x05, 0x00];
    let mut bitstr = vec![0u8];
    bitstr.extend(key);
    der_tlv(0x30, &[alg.to_vec(), der_tlv(3, &bitstr)].concat())
}

/// x-coordinate of the ECDH shared point for a P-384 secret scalar (48 bytes) and a SEC1-encoded public point
pub fn p384_shared_x(sk: &[u8], pk: &[u8]) -> Option<Vec<u8>> {
    let sk = p384::SecretKey::from_slice(sk).ok()?;
    let pk = p384::PublicKey::from_sec1_bytes(pk).ok()?;
    let z = p384::ecdh::diffie_hellman(sk.to_nonzero_scalar(), pk.as_affine());
    Some(z.raw_secret_bytes().to_vec())
}

pub fn p384_uncompressed(c: &[u8]) -> Option<Vec<u8>> {
    use p384::elliptic_curve::sec1::ToEncodedPoint;
    let pk = p384::PublicKey::from_sec1_bytes(c).ok()?;
    Some(pk.to_encoded_point(false).as_bytes().to_vec())
}

pub fn gen_c08(out: &mut impl Write, seed: u64, thorough: bool) {
    let mut r = Rng::new(seed ^ 0xC08);
    let n384 = unhex("ffffffffffffffffffffffffffffffffffffffffffffffffc7634d81f4372ddf581a0db248b0a77aecec196accc52973").unwrap();
    for be in ALL_BE {
        // every length 0..128 for every kind (random content; plus zeros / ones at the accepted lengths)
        for k in ALL_KIND {
            for len in 0..=128usize {
                writeln!(out, "key.dec {} {} {}", be.name(), k.name(), hex(&r.bytes(len))).unwrap();
                if matches!(len, 32 | 33 | 48 | 49 | 64 | 97) {
                    writeln!(out, "key.dec {} {} {}", be.name(), k.name(), hex(&vec![0u8; len])).unwrap();
                    writeln!(out, "key.dec {} {} {}", be.name(), k.name(), hex(&vec![0xffu8; len])).unwrap();
                    writeln!(out, "o.key {} {} {}", be.name(), k.name(), hex(&vec![0u8; len])).unwrap();
                }
            }
        }
        // generated keys: decode/encode idempotent, clone, text round trip, ids stable, public key consistent
        let nk = if be == Be::V1 { 1 } else if thorough { 60 } else { 10 };
        for _ in 0..nk {
            let sk = gen_secret(be);
            let pk = public_of(be, &sk);
            for (k, raw) in [(Kind::Secret, &sk), (Kind::Public, &pk), (Kind::PkeSecret, &sk), (Kind::PkePublic, &pk)] {
                if be == Be::V1 && matches!(k, Kind::PkeSecret | Kind::PkePublic) { continue; }
                writeln!(out, "key.dec {} {} {}", be.name(), k.name(), hex(raw)).unwrap();
                writeln!(out, "o.key {} {} {}", be.name(), k.name(), hex(raw)).unwrap();
                // a valid encoding with bytes appended / prepended / removed / doubled is a different (wrong-length) string
                let mut variants: Vec<Vec<u8>> = vec![];
                for extra in [vec![0u8], vec![0xff], r.bytes(1), r.bytes(16), raw.to_vec()] {
                    let mut v = raw.to_vec(); v.extend(&extra); variants.push(v);
                    let mut w = extra.clone(); w.extend(raw.iter()); variants.push(w);
                }
                variants.push(raw[..raw.len() - 1].to_vec());
                variants.push(raw[1..].to_vec());
                for v in variants {
                    writeln!(out, "key.dec {} {} {}", be.name(), k.name(), hex(&v)).unwrap();
                }
            }
            {
                let lk0 = r.bytes(32);
                for extra in [vec![0u8], r.bytes(1), r.bytes(32)] {
                    let mut v = lk0.clone(); v.extend(&extra);
                    writeln!(out, "key.dec {} local {}", be.name(), hex(&v)).unwrap();
                }
                writeln!(out, "key.dec {} local {}", be.name(), hex(&lk0[..31])).unwrap();
            }
            writeln!(out, "key.pub {} {}", be.name(), hex(&sk)).unwrap();
            writeln!(out, "o.keypair {} {}", be.name(), hex(&sk)).unwrap();
            if be.version() == 3 { writeln!(out, "o.pkforms {} {}", be.name(), hex(&sk)).unwrap(); }
            let lk = r.bytes(32);
            writeln!(out, "o.key {} local {}", be.name(), hex(&lk)).unwrap();
            match be.version() {
                2 | 4 => {
                    // secret key whose public half belongs to another seed / is corrupted
                    let other = public_of(be, &gen_secret(be));
                    let mut bad = sk[..32].to_vec();
                    bad.extend(&other);
                    writeln!(out, "key.dec {} secret {}", be.name(), hex(&bad)).unwrap();
                    writeln!(out, "o.keypair {} {}", be.name(), hex(&bad)).unwrap();
                    let mut bad2 = sk.clone();
                    bad2[63] ^= 0x80;
                    writeln!(out, "key.dec {} secret {}", be.name(), hex(&bad2)).unwrap();
                    let mut bad3 = sk.clone();
                    bad3[40] ^= 1;
                    writeln!(out, "key.dec {} secret {}", be.name(), hex(&bad3)).unwrap();
                }
                3 => {
                    if let Some(u) = p384_uncompressed(&pk) {
                        writeln!(out, "key.dec {} public {}", be.name(), hex(&u)).unwrap();
                        writeln!(out, "o.key {} public {}", be.name(), hex(&u)).unwrap();
                        let mut off = u.clone();
                        off[96] ^= 1;
                        writeln!(out, "key.dec {} public {}", be.name(), hex(&off)).unwrap();
                        let mut hybrid = u.clone();
                        hybrid[0] = 6 + (u[96] & 1);
                        writeln!(out, "key.dec {} public {}", be.name(), hex(&hybrid)).unwrap();
                    }
                    let mut flip = pk.clone();
                    flip[0] ^= 1;
                    writeln!(out, "key.dec {} public {}", be.name(), hex(&flip)).unwrap();
                    let mut compact = pk.clone();
                    compact[0] = 5;
                    writeln!(out, "key.dec {} public {}", be.name(), hex(&compact)).unwrap();
                    let mut offc = pk.clone();
                    offc[48] ^= 1;
                    writeln!(out, "key.dec {} public {}", be.name(), hex(&offc)).unwrap();
                }
                _ => {
                    // PEM input is accepted and normalised to DER
                }
            }
        }
        match be.version() {
            3 => {
                // boundary scalars 0, 1, 2, n-1, n, n+1, 2^384-1, leading-zero scalars
                let mut ks: Vec<Vec<u8>> = vec![vec![0u8; 48], { let mut v = vec![0u8; 48]; v[47] = 1; v }, { let mut v = vec![0u8; 48]; v[47] = 2; v }, n384.clone(), vec![0xff; 48]];
                let mut nm1 = n384.clone(); nm1[47] -= 1; ks.push(nm1);
                let mut np1 = n384.clone(); np1[47] += 1; ks.push(np1);
                for z in [1usize, 2, 8, 47] { let mut v = r.bytes(48); for b in v.iter_mut().take(z) { *b = 0; } ks.push(v); }
                for k in &ks {
                    writeln!(out, "key.dec {} secret {}", be.name(), hex(k)).unwrap();
                    writeln!(out, "o.key {} secret {}", be.name(), hex(k)).unwrap();
                    writeln!(out, "key.pub {} {}", be.name(), hex(k)).unwrap();
                    writeln!(out, "o.keypair {} {}", be.name(), hex(k)).unwrap();
                }
                // point encodings: infinity, x >= p, x with no square root
                for p in ["00", "0000", "02ffffffffffffffffffffffffffffffffffffffffffffffffffffffffffffffffffffffffffffffffffffffffffffffff", "03fffffffffffffffffffffffffffffffffffffffffffffffffffffffffffffffeffffffff0000000000000000ffffffff", "020000000000000000000000000000000000000000000000000000000000000000000000000000000000000000000000000", "04"] {
                    if let Some(b) = unhex(p) {
                        writeln!(out, "key.dec {} public {}", be.name(), hex(&b)).unwrap();
                        writeln!(out, "key.dec {} pkepublic {}", be.name(), hex(&b)).unwrap();
                    }
                }
                for x in 0u8..6 {
                    let mut p = vec![2u8]; p.extend(vec![0u8; 47]); p.push(x);
                    writeln!(out, "key.dec {} public {}", be.name(), hex(&p)).unwrap();
                    p[0] = 3;
                    writeln!(out, "key.dec {} public {}", be.name(), hex(&p)).unwrap();
                }
            }
            2 | 4 => {
                // Ed25519 point encodings: identity, small-order points, y >= p, off-curve, sign bit on x = 0
                for p in ["0100000000000000000000000000000000000000000000000000000000000000", "0000000000000000000000000000000000000000000000000000000000000000",
                          "ecffffffffffffffffffffffffffffffffffffffffffffffffffffffffffff7f", "0000000000000000000000000000000000000000000000000000000000000080",
                          "0100000000000000000000000000000000000000000000000000000000000080", "26e8958fc2b227b045c3f489f2ef98f0d5dfac05d3c63339b13802886d53fc05",
                          "c7176a703d4dd84fba3c0b760d10670f2a2053fa2c39ccc64ec7fd7792ac037a", "edffffffffffffffffffffffffffffffffffffffffffffffffffffffffffff7f",
                          "eeffffffffffffffffffffffffffffffffffffffffffffffffffffffffffff7f", "0200000000000000000000000000000000000000000000000000000000000000",
                          "ffffffffffffffffffffffffffffffffffffffffffffffffffffffffffffffff", "0300000000000000000000000000000000000000000000000000000000000000"] {
                    let b = unhex(p).unwrap();
                    writeln!(out, "key.dec {} public {}", be.name(), hex(&b)).unwrap();
                    writeln!(out, "key.dec {} pkepublic {}", be.name(), hex(&b)).unwrap();
                }
                for _ in 0..(if thorough { 300 } else { 40 }) {
                    writeln!(out, "key.dec {} public {}", be.name(), hex(&r.bytes(32))).unwrap();
                }
            }
            _ => {
                // v1: PEM and DER forms of the vector keys; wrong modulus size for the requested kind; truncated DER
                let f = std::fs::read_to_string("/repo/paseto-test/tests/vectors/k1.secret.json").unwrap();
                let v: serde_json::Value = serde_json::from_str(&f).unwrap();
                let spem = v["tests"][0]["key"].as_str().unwrap().as_bytes().to_vec();
                let ppem = v["tests"][0]["public-key"].as_str().unwrap().as_bytes().to_vec();
                let big_s = crate::facts::v1_pke_secret_pem().into_bytes();
                let big_p = crate::facts::v1_pke_public_pem().into_bytes();
                for (k, raw) in [(Kind::Secret, &spem), (Kind::Public, &ppem), (Kind::PkeSecret, &big_s), (Kind::PkePublic, &big_p), (Kind::Secret, &big_s), (Kind::Public, &big_p), (Kind::PkeSecret, &spem), (Kind::PkePublic, &ppem), (Kind::Public, &spem), (Kind::Secret, &ppem)] {
                    writeln!(out, "key.dec v1 {} {}", k.name(), hex(raw)).unwrap();
                    writeln!(out, "o.key v1 {} {}", k.name(), hex(raw)).unwrap();
                }
                // wrong-size moduli: every bit length around 2048 and 4096, and some others
                for bits in (2033usize..=2056).chain(4089..=4104).chain([512, 1024, 2040, 3072, 4095, 4097, 8192]) {
                    let spki = rsa_spki_with_bits(&mut r, bits);
                    writeln!(out, "key.dec v1 public {}", hex(&spki)).unwrap();
                    writeln!(out, "key.dec v1 pkepublic {}", hex(&spki)).unwrap();
                    if bits == 2048 { writeln!(out, "o.key v1 public {}", hex(&spki)).unwrap(); }
                }
                // unusual (valid) public exponents: short, with the top bit of a byte set, longer than three bytes
                for e in [&[3u8][..], &[17], &[1, 1], &[0xff, 0xff], &[0x80, 0, 1], &[0xff, 0xff, 0xff], &[1, 0, 0, 1], &[1, 0, 1]] {
                    let spki = rsa_spki_with_bits_e(&mut r, 2048, e);
                    writeln!(out, "key.dec v1 public {}", hex(&spki)).unwrap();
                    writeln!(out, "o.key v1 public {}", hex(&spki)).unwrap();
                }
                let der = with_v!(be, V => key_of::<V, Secret>(&spem).map(|k| k.expose_key().as_raw_bytes().to_vec()).unwrap_or_default());
                for cut in [1usize, 2, 10, 100] {
                    if der.len() > cut { writeln!(out, "key.dec v1 secret {}", hex(&der[..der.len() - cut])).unwrap(); }
                }
                let mut ext = der.clone(); ext.push(0);
                writeln!(out, "key.dec v1 secret {}", hex(&ext)).unwrap();
            }
        }
    }
}

pub fn gen_c13(out: &mut impl Write, seed: u64, thorough: bool) {
    let mut r = Rng::new(seed ^ 0xC13);
    // the same bytes offered to both back ends of a version (ids and texts must agree whenever both accept): generated keys and
    // every non-canonical / unusual encoding class of Ed25519 and P-384 points
    {
        let p25519: [u8; 32] = { let mut p = [0xffu8; 32]; p[0] = 0xed; p[31] = 0x7f; p };
        let mut ed: Vec<Vec<u8>> = vec![];
        for k in 0u8..19 {                       // y = p + k (non-canonical field element), both signs
            let mut v = p25519.to_vec(); v[0] = 0xed + k; ed.push(v.clone()); v[31] |= 0x80; ed.push(v);
        }
        for y0 in [0u8, 1, 2] {                   // small y with the sign bit set (x = 0 cases included)
            let mut v = vec![0u8; 32]; v[0] = y0; ed.push(v.clone()); v[31] = 0x80; ed.push(v);
        }
        { let mut v = p25519.to_vec(); v[0] = 0xec; ed.push(v.clone()); v[31] = 0xff; ed.push(v); }   // y = -1
        for _ in 0..(if thorough { 200 } else { 30 }) { let mut v = r.bytes(32); ed.push(v.clone()); v[31] |= 0x80; ed.push(v); }
        for v in &ed {
            writeln!(out, "o.id.sib 4 public {}", hex(v)).unwrap();
            writeln!(out, "o.id.sib 4 pkepublic {}", hex(v)).unwrap();
        }
        for _ in 0..(if thorough { 40 } else { 8 }) {
            let sk4 = gen_secret(Be::V4);
            writeln!(out, "o.id.sib 4 secret {}", hex(&sk4)).unwrap();
            writeln!(out, "o.id.sib 4 public {}", hex(&public_of(Be::V4, &sk4))).unwrap();
            writeln!(out, "o.id.sib 4 local {}", hex(&r.bytes(32))).unwrap();
            let sk3 = gen_secret(Be::V3);
            let pk3 = public_of(Be::V3, &sk3);
            writeln!(out, "o.id.sib 3 secret {}", hex(&sk3)).unwrap();
            writeln!(out, "o.id.sib 3 public {}", hex(&pk3)).unwrap();
            writeln!(out, "o.id.sib 3 local {}", hex(&r.bytes(32))).unwrap();
            if let Some(u) = p384_uncompressed(&pk3) {
                writeln!(out, "o.id.sib 3 public {}", hex(&u)).unwrap();
                let mut h = u.clone(); h[0] = 0x06 | (u[96] & 1); writeln!(out, "o.id.sib 3 public {}", hex(&h)).unwrap();
                let mut c = pk3.clone(); c[0] ^= 1; writeln!(out, "o.id.sib 3 public {}", hex(&c)).unwrap();
            }
        }
    }
    for be in ALL_BE {
        // v1: one key of every PKCS#1 DER length in the RSA pool (the PASERK text of a k1.secret is 1590..1602 characters)
        let n = if be == Be::V1 { if thorough { 16 } else { 6 } } else if thorough { 100 } else { 12 };
        for _ in 0..n {
            let sk = gen_secret(be);
            let pk = public_of(be, &sk);
            let lk = r.pattern(32);
            // independent recomputation of the id from the key's PASERK text (oracle side)
            writeln!(out, "o.id.spec {} local {}", be.name(), hex(&lk)).unwrap();
            writeln!(out, "o.id.spec {} secret {}", be.name(), hex(&sk)).unwrap();
            writeln!(out, "o.id.spec {} public {}", be.name(), hex(&pk)).unwrap();
            if be != Be::V1 {
                writeln!(out, "o.id.spec {} pkesecret {}", be.name(), hex(&sk)).unwrap();
                writeln!(out, "o.id.spec {} pkepublic {}", be.name(), hex(&pk)).unwrap();
            }
            writeln!(out, "id {} local {}", be.name(), hex(&lk)).unwrap();
            writeln!(out, "id {} secret {}", be.name(), hex(&sk)).unwrap();
            writeln!(out, "id {} public {}", be.name(), hex(&pk)).unwrap();
            if be != Be::V1 {
                writeln!(out, "id {} pkesecret {}", be.name(), hex(&sk)).unwrap();
                writeln!(out, "id {} pkepublic {}", be.name(), hex(&pk)).unwrap();
            }
            writeln!(out, "o.key {} secret {}", be.name(), hex(&sk)).unwrap();
            // related keys get different ids
            writeln!(out, "o.id.rel {} {}", be.name(), hex(&sk)).unwrap();
            if be.version() == 3 {
                if let Some(u) = p384_uncompressed(&pk) {
                    writeln!(out, "id {} public {}", be.name(), hex(&u)).unwrap();
                    writeln!(out, "o.id.eq {} public {} {}", be.name(), hex(&pk), hex(&u)).unwrap();
                }
            }
        }
        if be == Be::V1 {
            for e in [&[3u8][..], &[17], &[1, 1], &[0xff, 0xff], &[0x80, 0, 1], &[0xff, 0xff, 0xff], &[1, 0, 0, 1], &[1, 0, 1]] {
                let spki = rsa_spki_with_bits_e(&mut r, 2048, e);
                writeln!(out, "id v1 public {}", hex(&spki)).unwrap();
                writeln!(out, "o.id.spec v1 public {}", hex(&spki)).unwrap();
            }
            let f = std::fs::read_to_string("/repo/paseto-test/tests/vectors/k1.secret.json").unwrap();
            let v: serde_json::Value = serde_json::from_str(&f).unwrap();
            let spem = v["tests"][0]["key"].as_str().unwrap().as_bytes().to_vec();
            let ppem = v["tests"][0]["public-key"].as_str().unwrap().as_bytes().to_vec();
            let sder = with_v!(be, V => key_of::<V, Secret>(&spem).map(|k| k.expose_key().as_raw_bytes().to_vec()).unwrap_or_default());
            let pder = public_of(be, &spem);
            writeln!(out, "id v1 secret {}", hex(&spem)).unwrap();
            writeln!(out, "id v1 secret {}", hex(&sder)).unwrap();
            writeln!(out, "id v1 public {}", hex(&ppem)).unwrap();
            writeln!(out, "id v1 public {}", hex(&pder)).unwrap();
            writeln!(out, "o.id.eq v1 secret {} {}", hex(&spem), hex(&sder)).unwrap();
            writeln!(out, "o.id.eq v1 public {} {}", hex(&ppem), hex(&pder)).unwrap();
        }
        // id strings: ordering / equality / hashing agree with the bytes
        let mut ids: Vec<String> = (0..(if thorough { 200 } else { 30 })).map(|_| format!("k{}.lid.{}", be.version(), b64(&r.bytes(33)))).collect();
        ids.push(ids[0].clone());
        let mut close = unb64(&ids[1][7..]);
        close[32] ^= 1;
        ids.push(format!("k{}.lid.{}", be.version(), b64(&close)));
        for i in 0..ids.len() {
            let j = (i * 7 + 1) % ids.len();
            writeln!(out, "o.id.ord {} {} {}", be.name(), hex(ids[i].as_bytes()), hex(ids[j].as_bytes())).unwrap();
            writeln!(out, "txt.rt {} id local {}", be.name(), hex(ids[i].as_bytes())).unwrap();
        }
        // pairs of ids that differ in exactly one byte, at every position 0..32 (low bit and high bit), compared directly
        {
            let base = r.bytes(33);
            let bs = format!("k{}.lid.{}", be.version(), b64(&base));
            for pos in 0..33usize {
                for bit in [0u8, 7] {
                    let mut v = base.clone();
                    v[pos] ^= 1 << bit;
                    let vs = format!("k{}.lid.{}", be.version(), b64(&v));
                    writeln!(out, "o.id.ord {} {} {}", be.name(), hex(bs.as_bytes()), hex(vs.as_bytes())).unwrap();
                    writeln!(out, "o.id.ord {} {} {}", be.name(), hex(vs.as_bytes()), hex(bs.as_bytes())).unwrap();
                }
            }
        }
        // near misses of a valid id string: one extra alphabet character appended (every alphabet character), one dropped
        for id in ids.iter().take(3) {
            for c in b"ABCDEFGHIJKLMNOPQRSTUVWXYZabcdefghijklmnopqrstuvwxyz0123456789-_=." {
                writeln!(out, "txt.rt {} id local {}", be.name(), hex(format!("{id}{}", *c as char).as_bytes())).unwrap();
            }
            writeln!(out, "txt.rt {} id local {}", be.name(), hex(id[..id.len() - 1].as_bytes())).unwrap();
        }
        // wrong decoded lengths
        for len in [0usize, 1, 31, 32, 34, 35, 64, 66] {
            writeln!(out, "txt.rt {} id local {}", be.name(), hex(format!("k{}.lid.{}", be.version(), b64(&r.bytes(len))).as_bytes())).unwrap();
        }
    }
    let _ = (PieWrappedKey::<TV4, Local>::from_str, Key::<TV4, Local>::random);
}

/// malformed inputs to every operation on parsed values (C04)
pub fn gen_c04(out: &mut impl Write, seed: u64, thorough: bool) {
    let mut r = Rng::new(seed ^ 0xC04);
    for be in ALL_BE {
        let key = r.bytes(32);
        let sk = gen_secret(be);
        let pk = public_of(be, &sk);
        let (psk, _ppk) = pke_pair(be);
        // tokens: every decoded payload length 0..700, contents random / zeros / ones
        let step = if thorough { 1 } else { 3 };
        for len in (0..=700usize).step_by(step).chain([31, 32, 33, 47, 48, 63, 64, 79, 80, 95, 96, 97, 255, 256, 257]) {
            let content = match len % 3 { 0 => r.bytes(len), 1 => vec![0u8; len], _ => vec![0xff; len] };
            let f = if len % 5 == 0 { r.bytes(3) } else { vec![] };
            let mut tok = format!("v{}.local.{}", be.version(), b64(&content));
            if !f.is_empty() { tok.push('.'); tok.push_str(&b64(&f)); }
            writeln!(out, "loc.open {} {} {} - want=err", be.name(), hex(&key), hex(tok.as_bytes())).unwrap();
            if len % 2 == 0 || thorough {
                let ptok = tok.replacen("local", "public", 1);
                writeln!(out, "pub.open {} {} {} - want=err", be.name(), hex(&pk), hex(ptok.as_bytes())).unwrap();
            }
        }
        // wrapped / sealed keys: every blob length 0..300
        for len in 0..=300usize {
            let content = match len % 3 { 0 => r.bytes(len), 1 => vec![0u8; len], _ => vec![0xff; len] };
            for k in kinds() {
                let kn = if k == Kind::Local { "local" } else { "secret" };
                writeln!(out, "pie.open {} {} {} {} want=err", be.name(), k.name(), hex(&key), hex(format!("k{}.{kn}-wrap.pie.{}", be.version(), b64(&content)).as_bytes())).unwrap();
                // password-wrapped: random bytes around cost parameters inside the stated budget
                let mut blob = content.clone();
                let (a, b) = if be.version() % 2 == 1 { (32, 36) } else { (16, 32) };
                if blob.len() >= b {
                    let p = small_params(be, &mut r);
                    blob[a..b].copy_from_slice(&p);
                }
                writeln!(out, "pw.open {} {} {} {} want=err", be.name(), k.name(), hex(b"pw"), hex(format!("k{}.{kn}-pw.{}", be.version(), b64(&blob)).as_bytes())).unwrap();
            }
            if be != Be::V1 || len % 4 == 0 {
                writeln!(out, "seal.open {} {} {} want=err", be.name(), hex(&psk), hex(format!("k{}.seal.{}", be.version(), b64(&content)).as_bytes())).unwrap();
            }
        }
        // password-wrapped blobs whose cost parameters sit on the edges of what each back end accepts
        // (zero iterations / memory / passes / lanes, memory below the minimum or not a whole KiB, lanes > memory)
        let edges: Vec<Vec<u8>> = if be.version() % 2 == 1 {
            [0u32, 1, 2].iter().map(|i| i.to_be_bytes().to_vec()).collect()
        } else {
            let mut v = vec![];
            for mem in [0u64, 1, 1023, 1024, 8191, 8192, 8193, 9000, 65536] {
                for time in [0u32, 1] {
                    for para in [0u32, 1, 2, 9] {
                        let mut p = mem.to_be_bytes().to_vec();
                        p.extend(time.to_be_bytes());
                        p.extend(para.to_be_bytes());
                        v.push(p);
                    }
                }
            }
            v
        };
        for p in &edges {
            for k in kinds() {
                let kn = if k == Kind::Local { "local" } else { "secret" };
                for len in [0usize, 47, 48, 99, 100, 116, 128, 132, 148, 180, 300] {
                    for fill in 0..3 {
                        let (a, b) = if be.version() % 2 == 1 { (32, 36) } else { (16, 32) };
                        if len < b && fill > 0 { continue; }
                        let mut blob = match fill { 0 => vec![0u8; len], 1 => vec![0xff; len], _ => r.bytes(len) };
                        if blob.len() >= b { blob[a..b].copy_from_slice(p); }
                        writeln!(out, "pw.open {} {} {} {} want=err", be.name(), k.name(), hex(b"pw"), hex(format!("k{}.{kn}-pw.{}", be.version(), b64(&blob)).as_bytes())).unwrap();
                    }
                }
            }
        }
        if be == Be::V1 {
            for len in [591usize, 592, 593, 560, 80] {
                writeln!(out, "seal.open v1 {} {} want=err", hex(&psk), hex(format!("k1.seal.{}", b64(&r.bytes(len))).as_bytes())).unwrap();
                writeln!(out, "seal.open v1 {} {} want=err", hex(&psk), hex(format!("k1.seal.{}", b64(&vec![0u8; len])).as_bytes())).unwrap();
                writeln!(out, "seal.open v1 {} {} want=err", hex(&psk), hex(format!("k1.seal.{}", b64(&vec![0xffu8; len])).as_bytes())).unwrap();
            }
        }
    }
}

/// cheapest cost parameters each back end accepts
pub fn min_params(be: Be) -> Vec<u8> {
    if be.version() % 2 == 1 {
        1u32.to_be_bytes().to_vec()
    } else {
        let mut p = (8192u64).to_be_bytes().to_vec();
        p.extend(1u32.to_be_bytes());
        p.extend(1u32.to_be_bytes());
        p
    }
}
pub fn pw_template_pub(be: Be, params: &[u8]) -> String {
    pw_template(be, Kind::Local, params, 32)
}

/// C16: scripted random source (rng build) + freshness over many operations (normal build)
pub fn gen_c16(out: &mut impl Write, seed: u64, thorough: bool, rng_build: bool) {
    let mut r = Rng::new(seed ^ 0xC16);
    if !rng_build {
        let n = if thorough { 100000 } else { 10000 };
        for be in ALL_BE {
            for what in ["encrypt", "pie", "lkey"] {
                writeln!(out, "o.fresh {} {what} {n}", be.name()).unwrap();
            }
            writeln!(out, "o.fresh {} pw {}", be.name(), n / 10).unwrap();
            writeln!(out, "o.fresh {} seal {}", be.name(), if be == Be::V1 { n / 20 } else { n / 5 }).unwrap();
            if be != Be::V1 {
                writeln!(out, "o.fresh {} skey {}", be.name(), n / 5).unwrap();
            }
        }
        return;
    }
    let src = |answers: &[Option<Vec<u8>>]| -> String {
        if answers.is_empty() { return ".".into(); }
        answers.iter().map(|a| match a { Some(b) => hex(b), None => "!".into() }).collect::<Vec<_>>().join(",")
    };
    // every randomised operation (also the ones the model does not script: v1 signing, v1 key sealing) under failures of every
    // flavour (unsupported, OS errors EAGAIN / EINTR / EIO, custom codes, partial fills), at each of the first draws and repeated
    for be in [Be::V1, Be::V2, Be::V3, Be::V4] {
        let sk = gen_secret(be);
        let (_psk, ppk) = pke_pair(be);
        let donor = pw_template(be, Kind::Local, &min_params(be), 32);
        let ops: Vec<(&str, String)> = vec![("encrypt", "-".into()), ("sign", hex(&sk)), ("pie", "-".into()), ("pw", hex(donor.as_bytes())),
            ("seal", hex(&ppk)), ("lkey", "-".into()), ("skey", "-".into())];
        for (kind, arg) in &ops {
            if *kind == "skey" && be == Be::V1 { continue; }
            writeln!(out, "o.rngf {kind} {} *,*,*,*,*,*,*,* {arg}", be.name()).unwrap();
            for fail in ["!", "!e11", "!e4", "!e5", "!c7", "~00", "~ffffffffffffffff"] {
                for pos in 0..3usize {
                    let mut v: Vec<&str> = vec!["*"; pos];
                    v.push(fail);
                    v.extend(["*"; 6]);
                    writeln!(out, "o.rngf {kind} {} {} {arg}", be.name(), v.join(",")).unwrap();
                }
                for rep in [2usize, 3, 4, 7] {
                    let mut v: Vec<&str> = vec![fail; rep];
                    v.extend(["*"; 6]);
                    writeln!(out, "o.rngf {kind} {} {} {arg}", be.name(), v.join(",")).unwrap();
                }
            }
            // an invalid first candidate (all ones / all zeros) followed by a failing redraw (rejection sampling)
            for first in ["ffffffffffffffffffffffffffffffffffffffffffffffffffffffffffffffffffffffffffffffffffffffffffffffff", "000000000000000000000000000000000000000000000000000000000000000000000000000000000000000000000000"] {
                for fail in ["!", "!e11", "~00ff"] {
                    writeln!(out, "o.rngf {kind} {} {first},{fail},*,*,* {arg}", be.name()).unwrap();
                }
            }
        }
    }
    for be in [Be::V1, Be::V2, Be::V3, Be::V4] {
        let nd = if be == Be::V2 { 24 } else { 32 };
        let (_psk, ppk) = pke_pair(be);
        let reps = if thorough { 30 } else { 6 };
        for i in 0..reps {
            let key = r.bytes(32);
            let msg = r.pattern([0usize, 5, 40][i % 3]);
            let f = if i % 2 == 0 { vec![] } else { r.bytes(5) };
            let a = if be.has_aad() && i % 2 == 1 { r.bytes(4) } else { vec![] };
            let n = match i % 4 { 0 => vec![0u8; nd], 1 => vec![0xff; nd], _ => r.bytes(nd) };
            // success, failure at the (only) draw, wrong answer sizes are impossible for a real RNG and not generated
            writeln!(out, "rng.encrypt {} {} {} {} {} {}", be.name(), src(&[Some(n.clone())]), hex(&key), hex(&msg), hex(&f), hex(&a)).unwrap();
            writeln!(out, "rng.encrypt {} {} {} {} {} {}", be.name(), src(&[None]), hex(&key), hex(&msg), hex(&f), hex(&a)).unwrap();
            for k in kinds() {
                if k == Kind::Secret && be == Be::V1 && i > 0 { continue; }
                let kk = if k == Kind::Local { r.bytes(32) } else { gen_secret(be) };
                let wk = r.bytes(32);
                let pn = r.bytes(32);
                writeln!(out, "rng.pie {} {} {} {} {}", be.name(), src(&[Some(pn)]), k.name(), hex(&wk), hex(&kk)).unwrap();
                writeln!(out, "rng.pie {} {} {} {} {}", be.name(), src(&[None]), k.name(), hex(&wk), hex(&kk)).unwrap();
                let params = small_params(be, &mut r);
                let donor = pw_template(be, k, &params, 32);
                let (sl, nl) = if be.version() % 2 == 1 { (32, 16) } else { (16, 24) };
                let (salt, nonce) = (r.bytes(sl), r.bytes(nl));
                let pass = r.bytes_in(0, 12);
                // failure injected at every draw index of the operation
                writeln!(out, "rng.pw {} {} {} {} {} {}", be.name(), src(&[Some(salt.clone()), Some(nonce.clone())]), k.name(), hex(&pass), hex(donor.as_bytes()), hex(&kk)).unwrap();
                writeln!(out, "rng.pw {} {} {} {} {} {}", be.name(), src(&[None, Some(nonce.clone())]), k.name(), hex(&pass), hex(donor.as_bytes()), hex(&kk)).unwrap();
                writeln!(out, "rng.pw {} {} {} {} {} {}", be.name(), src(&[Some(salt.clone()), None]), k.name(), hex(&pass), hex(donor.as_bytes()), hex(&kk)).unwrap();
            }
            // key sealing: ephemeral randomness; v3 rejection sampling with rejected candidates before success / before failure
            let lk = r.bytes(32);
            let rnd: Vec<Option<Vec<u8>>> = match be.version() {
                1 => vec![Some(r.bytes(512))],
                3 => {
                    let mut ok = r.bytes(48); ok[0] &= 0x7f;
                    match i % 3 { 0 => vec![Some(ok)], 1 => vec![Some(vec![0xff; 48]), Some(ok)], _ => vec![Some(vec![0u8; 48]), Some(vec![0xff; 48]), Some(ok)] }
                }
                _ => vec![Some(r.bytes(32))],
            };
            if be != Be::V1 || i < 2 {
                writeln!(out, "rng.seal {} {} {} {}", be.name(), src(&rnd), hex(&ppk), hex(&lk)).unwrap();
                for fail_at in 0..rnd.len() {
                    let mut s2 = rnd.clone();
                    s2[fail_at] = None;
                    writeln!(out, "rng.seal {} {} {} {}", be.name(), src(&s2), hex(&ppk), hex(&lk)).unwrap();
                }
            }
            writeln!(out, "rng.lkey {} {}", be.name(), src(&[Some(r.bytes(32))])).unwrap();
            writeln!(out, "rng.lkey {} {}", be.name(), src(&[None])).unwrap();
            if be != Be::V1 {
                let seed_ans: Vec<Option<Vec<u8>>> = if be.version() == 3 {
                    let mut ok = r.bytes(48); ok[0] &= 0x7f;
                    if i % 2 == 0 { vec![Some(ok)] } else { vec![Some(vec![0xff; 48]), Some(ok)] }
                } else { vec![Some(r.bytes(32))] };
                writeln!(out, "rng.skey {} {}", be.name(), src(&seed_ans)).unwrap();
                for fail_at in 0..seed_ans.len() {
                    let mut s2 = seed_ans.clone();
                    s2[fail_at] = None;
                    writeln!(out, "rng.skey {} {}", be.name(), src(&s2)).unwrap();
                }
            }
        }
    }
}

/// C17: shared keys under concurrency
pub fn gen_c17(out: &mut impl Write, seed: u64, thorough: bool) {
    for be in ALL_BE {
        for (k, threads) in [2usize, 4, 8, 16].iter().enumerate() {
            let iters = if be == Be::V1 { if thorough { 100 } else { 20 } } else if thorough { 5000 } else { 600 };
            writeln!(out, "o.conc {} {} {} {}", be.name(), threads, iters, seed.wrapping_add(k as u64)).unwrap();
        }
        // first use of fresh key objects by many threads at once (lazy initialisation), and a history of failures of every kind
        writeln!(out, "o.burst {} 8 {}", be.name(), if be == Be::V1 { if thorough { 30 } else { 12 } } else if thorough { 600 } else { 120 }).unwrap();
        writeln!(out, "o.hist {} {}", be.name(), if thorough { 40 } else { 8 }).unwrap();
    }
}

/// inputs for the reduced-build smoke binaries (C19): for each RustCrypto back end, artefacts built by the full library
/// (tokens, key texts, ids, wrapped / sealed keys) plus a few damaged ones; every line is processed by the full-feature
/// smoke build (reference) and by each reduced build
pub fn gen_c19smoke(out: &mut impl Write, seed: u64, thorough: bool) {
    let mut r = Rng::new(seed ^ 0xC19);
    let reps = if thorough { 6 } else { 2 };
    for be in [Be::V1, Be::V2, Be::V3, Be::V4] {
        let b = be.name();
        writeln!(out, "consts {b}").unwrap();
        let (psk, ppk) = pke_pair(be);
        for i in 0..reps {
            let lk = r.pattern(32);
            let sk = gen_secret(be);
            let pk = public_of(be, &sk);
            let msg = r.bytes_in(0, 120);
            let f = if i % 2 == 0 { vec![] } else { r.bytes_in(1, 20) };
            let a = if be.has_aad() && i % 2 == 1 { r.bytes_in(1, 20) } else { vec![] };
            // key text, decoding, ids
            for (kn, raw) in [("local", &lk), ("secret", &sk), ("public", &pk), ("pkesecret", &psk), ("pkepublic", &ppk)] {
                writeln!(out, "ktext {b} {kn} {}", hex(raw)).unwrap();
                writeln!(out, "kdec {b} {kn} {}", hex(raw)).unwrap();
                writeln!(out, "id {b} {kn} {}", hex(raw)).unwrap();
                let mut bad = raw.to_vec();
                bad.push(0);
                writeln!(out, "kdec {b} {kn} {}", hex(&bad)).unwrap();
                // every key offered to the decoder of every *other* kind too (a reduced build must reject / accept exactly what
                // the full build does, e.g. a key-sealing key offered as a token key)
                for other in ["local", "secret", "public", "pkesecret", "pkepublic"] {
                    if other != kn { writeln!(out, "kdec {b} {other} {}", hex(raw)).unwrap(); }
                }
                let text = with_v!(be, V => match kn {
                    "local" => paseto_core::paserk::KeyText::<V, Local>::from_raw_bytes(raw).to_string(),
                    "secret" | "pkesecret" => paseto_core::paserk::KeyText::<V, Secret>::from_raw_bytes(raw).to_string(),
                    _ => paseto_core::paserk::KeyText::<V, paseto_core::version::Public>::from_raw_bytes(raw).to_string(),
                });
                writeln!(out, "kparse {b} {kn} {}", hex(text.as_bytes())).unwrap();
                for other in ["local", "secret", "public"] {
                    writeln!(out, "kparse {b} {other} {}", hex(text.as_bytes())).unwrap();
                }
            }
            if i == 0 && (be == Be::V2 || be == Be::V4) {
                // small-order / degenerate points and near-misses: every build must give the same verdict
                let mut ident = vec![0u8; 32]; ident[0] = 1;
                let mut minus1 = vec![0xffu8; 32]; minus1[0] = 0xec; minus1[31] = 0x7f;
                let ord8 = unhex("26e8958fc2b227b045c3f489f2ef98f0d5dfac05d3c63339b13802886d53fc05").unwrap();
                let ord4 = vec![0u8; 32];
                let mut noncanon = vec![0xffu8; 32]; noncanon[0] = 0xee; noncanon[31] = 0x7f;      // y = p + 1
                for raw in [&ident, &minus1, &ord8, &ord4, &noncanon] {
                    for kn in ["public", "pkepublic"] {
                        writeln!(out, "kdec {b} {kn} {}", hex(raw)).unwrap();
                        writeln!(out, "id {b} {kn} {}", hex(raw)).unwrap();
                    }
                }
            }
            let ids: Vec<(&str, String)> = with_v!(be, V => vec![
                ("local", key_of::<V, Local>(&lk).unwrap().id().to_string()),
                ("secret", key_of::<V, Secret>(&sk).unwrap().id().to_string()),
                ("public", key_of::<V, paseto_core::version::Public>(&pk).unwrap().id().to_string()),
            ]);
            for (kn, s) in &ids {
                for parser in ["local", "secret", "public", "pkesecret", "pkepublic"] {
                    writeln!(out, "idparse {b} {parser} {}", hex(s.as_bytes())).unwrap();
                }
                let _ = kn;
            }
            writeln!(out, "kpub {b} {}", hex(&sk)).unwrap();
            // tokens
            if let Some(tok) = crate::gen_tok::encrypt_own(be, &lk, &msg, &f, &a) {
                writeln!(out, "tokrt {b} local {}", hex(tok.as_bytes())).unwrap();
                writeln!(out, "tokrt {b} public {}", hex(tok.as_bytes())).unwrap();
                writeln!(out, "lopen {b} {} {} {}", hex(&lk), hex(tok.as_bytes()), hex(&a)).unwrap();
                let mut bad = tok.clone().into_bytes();
                let n = bad.len();
                bad[n - 3] = if bad[n - 3] == b'A' { b'B' } else { b'A' };
                writeln!(out, "lopen {b} {} {} {}", hex(&lk), hex(&bad), hex(&a)).unwrap();
                writeln!(out, "lopen {b} {} {} {}", hex(&r.pattern(32)), hex(tok.as_bytes()), hex(&a)).unwrap();
            }
            if let Some(tok) = crate::gen_tok::sign_own(be, &sk, &msg, &f, &a) {
                writeln!(out, "tokrt {b} public {}", hex(tok.as_bytes())).unwrap();
                writeln!(out, "popen {b} {} {} {}", hex(&pk), hex(tok.as_bytes()), hex(&a)).unwrap();
                let mut bad = tok.clone().into_bytes();
                let n = bad.len();
                bad[n - 3] = if bad[n - 3] == b'A' { b'B' } else { b'A' };
                writeln!(out, "popen {b} {} {} {}", hex(&pk), hex(&bad), hex(&a)).unwrap();
            }
            let nonce = r.bytes(crate::gen_tok::local_nonce_len(be));
            writeln!(out, "lseal {b} {} {} {} {} {}", hex(&lk), hex(&nonce), hex(&msg), hex(&f), hex(&a)).unwrap();
            writeln!(out, "psign {b} {} {} {} {}", hex(&sk), hex(&msg), hex(&f), hex(&a)).unwrap();
            writeln!(out, "lrt {b} {} {} {} {}", hex(&lk), hex(&msg), hex(&f), hex(&a)).unwrap();
            writeln!(out, "prt {b} {} {} {} {}", hex(&sk), hex(&msg), hex(&f), hex(&a)).unwrap();
            // PASERK operations
            let wk = r.pattern(32);
            for (k, kn, raw) in [(Kind::Local, "local", &lk), (Kind::Secret, "secret", &sk)] {
                if let Some(w) = pie_wrap(be, k, &wk, raw) {
                    writeln!(out, "pieopen {b} {kn} {} {}", hex(&wk), hex(w.as_bytes())).unwrap();
                    writeln!(out, "pieopen {b} {kn} {} {}", hex(&lk), hex(w.as_bytes())).unwrap();
                }
                writeln!(out, "piert {b} {kn} {} {}", hex(&wk), hex(raw)).unwrap();
                let params = min_params(be);
                if let Some(w) = pw_wrap(be, k, b"correct horse", raw, &params) {
                    writeln!(out, "pwopen {b} {kn} {} {}", hex(b"correct horse"), hex(w.as_bytes())).unwrap();
                    writeln!(out, "pwopen {b} {kn} {} {}", hex(b"wrong"), hex(w.as_bytes())).unwrap();
                }
                writeln!(out, "pwrt {b} {kn} {} {} {}", hex(b"pw"), hex(pw_template(be, k, &params, 32).as_bytes()), hex(raw)).unwrap();
            }
            if let Some(s) = seal(be, &ppk, &lk) {
                writeln!(out, "sealopen {b} {} {}", hex(&psk), hex(s.as_bytes())).unwrap();
            }
            writeln!(out, "sealrt {b} {} {} {}", hex(&ppk), hex(&psk), hex(&lk)).unwrap();
        }
    }
}
