//! Constants of the code, re-read through the public API on every run and printed as Lean source
//! (`PasetoModel/Extracted/Headers.lean`).  Nothing here pattern-matches function bodies.
use crate::be::*;
use crate::{with_v};
use paseto_core::key::{Key, KeyType, SealingKey};
use paseto_core::version::{Local, PkePublic, PkeSecret, Public, Secret, SealingVersion, Version};
use std::io::Write;

fn lean_bytes(b: &[u8]) -> String {
    format!("[{}]", b.iter().map(|x| x.to_string()).collect::<Vec<_>>().join(", "))
}

pub fn v1_pke_public_pem() -> String {
    let f = std::fs::read_to_string("/repo/paseto-test/tests/vectors/k1.seal.json").expect("k1.seal.json");
    let v: serde_json::Value = serde_json::from_str(&f).unwrap();
    v["tests"][0]["sealing-public-key"].as_str().unwrap().to_string()
}
pub fn v1_pke_secret_pem() -> String {
    let f = std::fs::read_to_string("/repo/paseto-test/tests/vectors/k1.seal.json").expect("k1.seal.json");
    let v: serde_json::Value = serde_json::from_str(&f).unwrap();
    v["tests"][0]["sealing-secret-key"].as_str().unwrap().to_string()
}

/// the literal between PASERK_HEADER and the base64 body in the Display of a freshly sealed key
/// (base64url never contains '.', so the header ends at the last '.')
fn seal_header(be: Be) -> Vec<u8> {
    fn mid<V: paseto_core::paserk::PkeSealingVersion + SealingVersion<Local>>(pk: &Key<V, PkePublic>) -> Vec<u8> {
        let k = Key::<V, Local>::from([7u8; 32]);
        let s = k.seal(pk).expect("seal").to_string();
        let s = s.strip_prefix(V::PASERK_HEADER).expect("paserk header").to_string();
        let i = s.rfind('.').map(|i| i + 1).unwrap_or(0);
        s[..i].as_bytes().to_vec()
    }
    fn pk_of<V>() -> Key<V, PkePublic>
    where
        V: SealingVersion<Public> + paseto_core::key::HasKey<PkePublic>,
    {
        let sk = Key::<V, Secret>::random().expect("keygen");
        let raw = sk.public_key().expose_key().as_raw_bytes().to_vec();
        paseto_core::paserk::KeyText::<V, PkePublic>::from_raw_bytes(&raw).try_into().expect("pke public")
    }
    match be {
        Be::V1 => {
            let pk: Key<TV1, PkePublic> =
                paseto_core::paserk::KeyText::<TV1, PkePublic>::from_raw_bytes(v1_pke_public_pem().as_bytes()).try_into().expect("v1 pke key");
            mid::<TV1>(&pk)
        }
        Be::V2 => mid::<TV2>(&pk_of::<TV2>()),
        Be::V3 => mid::<TV3>(&pk_of::<TV3>()),
        Be::V3Lc => mid::<TV3Lc>(&pk_of::<TV3Lc>()),
        Be::V4 => mid::<TV4>(&pk_of::<TV4>()),
        Be::V4S => mid::<TV4S>(&pk_of::<TV4S>()),
    }
}

pub fn print_facts(out: &mut impl Write) {
    let w = out;
    writeln!(w, "import PasetoModel.Names").unwrap();
    writeln!(w, "/-! GENERATED on every run by `pm facts` from /repo's current working tree through the").unwrap();
    writeln!(w, "    public API (associated constants, `nonce()`, Display of sealed keys). Do not edit. -/").unwrap();
    writeln!(w, "namespace PM.Extracted").unwrap();
    writeln!(w, "open PM").unwrap();
    // V::HEADER / V::PASERK_HEADER
    writeln!(w, "def versionHeader : Backend → Bytes").unwrap();
    for be in ALL_BE {
        let h = with_v!(be, V => <V as Version>::HEADER);
        writeln!(w, "  | .{} => {}", be.name(), lean_bytes(h.as_bytes())).unwrap();
    }
    writeln!(w, "def paserkHeader : Backend → Bytes").unwrap();
    for be in ALL_BE {
        let h = with_v!(be, V => <V as Version>::PASERK_HEADER);
        writeln!(w, "  | .{} => {}", be.name(), lean_bytes(h.as_bytes())).unwrap();
    }
    let kinds: [(&str, &str, &str); 5] = [
        ("localK", <Local as KeyType>::HEADER, <Local as KeyType>::ID_HEADER),
        ("publicK", <Public as KeyType>::HEADER, <Public as KeyType>::ID_HEADER),
        ("secretK", <Secret as KeyType>::HEADER, <Secret as KeyType>::ID_HEADER),
        ("pkePublic", <PkePublic as KeyType>::HEADER, <PkePublic as KeyType>::ID_HEADER),
        ("pkeSecret", <PkeSecret as KeyType>::HEADER, <PkeSecret as KeyType>::ID_HEADER),
    ];
    writeln!(w, "def kindHeader : Kind → Bytes").unwrap();
    for (k, h, _) in kinds {
        writeln!(w, "  | .{k} => {}", lean_bytes(h.as_bytes())).unwrap();
    }
    writeln!(w, "def idHeader : Kind → Bytes").unwrap();
    for (k, _, h) in kinds {
        writeln!(w, "  | .{k} => {}", lean_bytes(h.as_bytes())).unwrap();
    }
    writeln!(w, "def pieHeader : SKind → Bytes").unwrap();
    writeln!(w, "  | .localK => {}", lean_bytes(<Local as SealingKey>::PIE_WRAP_HEADER.as_bytes())).unwrap();
    writeln!(w, "  | .secretK => {}", lean_bytes(<Secret as SealingKey>::PIE_WRAP_HEADER.as_bytes())).unwrap();
    writeln!(w, "def pwHeader : SKind → Bytes").unwrap();
    writeln!(w, "  | .localK => {}", lean_bytes(<Local as SealingKey>::PW_WRAP_HEADER.as_bytes())).unwrap();
    writeln!(w, "  | .secretK => {}", lean_bytes(<Secret as SealingKey>::PW_WRAP_HEADER.as_bytes())).unwrap();
    writeln!(w, "def sealHeader : Backend → Bytes").unwrap();
    for be in ALL_BE {
        writeln!(w, "  | .{} => {}", be.name(), lean_bytes(&seal_header(be))).unwrap();
    }
    // length of the vector returned by `V::nonce()` for local and public sealing
    writeln!(w, "def nonceDrawLocal : Backend → Nat").unwrap();
    for be in ALL_BE {
        let n = with_v!(be, V => <V as SealingVersion<Local>>::nonce().expect("nonce").len());
        writeln!(w, "  | .{} => {}", be.name(), n).unwrap();
    }
    writeln!(w, "def nonceDrawPublic : Backend → Nat").unwrap();
    for be in ALL_BE {
        let n = with_v!(be, V => <V as SealingVersion<Public>>::nonce().expect("nonce").len());
        writeln!(w, "  | .{} => {}", be.name(), n).unwrap();
    }
    // jiff's representable timestamp range in nanoseconds
    writeln!(w, "def tsMin : Int := {}", paseto_json::jiff::Timestamp::MIN.as_nanosecond()).unwrap();
    writeln!(w, "def tsMax : Int := {}", paseto_json::jiff::Timestamp::MAX.as_nanosecond()).unwrap();
    writeln!(w, "end PM.Extracted").unwrap();
}
