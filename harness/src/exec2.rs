//! validators, claims, generic pipeline
use crate::exec::R;
use crate::util::*;
use paseto_core::PasetoError;
use paseto_core::validation::{NoValidation, Validate};
use paseto_json::jiff::Timestamp;
use paseto_json::{ForAudience, ForSubject, FromIssuer, HasExpiry, RegisteredClaims, Time};
use std::rc::Rc;
use std::sync::Arc;
use std::time::Duration;

type DynV = Box<dyn Validate<Claims = RegisteredClaims>>;

#[derive(Clone)]
pub struct Wrap(pub RegisteredClaims, #[allow(dead_code)] pub u32);
struct OnWrap(Box<dyn Validate<Claims = Wrap>>);
impl Validate for OnWrap {
    type Claims = RegisteredClaims;
    fn validate(&self, c: &RegisteredClaims) -> Result<(), PasetoError> {
        self.0.validate(&Wrap(c.clone(), 7))
    }
}

pub fn ts(ns: i128) -> Option<Timestamp> {
    Timestamp::from_nanosecond(ns).ok()
}

struct P<'a> {
    s: &'a [u8],
    i: usize,
}
impl<'a> P<'a> {
    fn eat(&mut self, lit: &str) -> bool {
        if self.s[self.i..].starts_with(lit.as_bytes()) {
            self.i += lit.len();
            true
        } else {
            false
        }
    }
    fn int(&mut self) -> Option<i128> {
        let st = self.i;
        if self.i < self.s.len() && self.s[self.i] == b'-' {
            self.i += 1;
        }
        while self.i < self.s.len() && self.s[self.i].is_ascii_digit() {
            self.i += 1;
        }
        std::str::from_utf8(&self.s[st..self.i]).ok()?.parse().ok()
    }
    fn hexs(&mut self) -> Option<String> {
        let st = self.i;
        while self.i < self.s.len() && (self.s[self.i].is_ascii_hexdigit() || self.s[self.i] == b'-') {
            self.i += 1;
        }
        String::from_utf8(unhex(std::str::from_utf8(&self.s[st..self.i]).ok()?)?).ok()
    }
    fn list(&mut self) -> Option<Vec<DynV>> {
        let mut v = vec![];
        if self.eat(")") {
            return Some(v);
        }
        loop {
            v.push(self.v()?);
            if self.eat(")") {
                return Some(v);
            }
            if !self.eat(";") {
                return None;
            }
        }
    }
    fn v(&mut self) -> Option<DynV> {
        if self.eat("and(") {
            let a = self.v()?;
            if !self.eat(",") {
                return None;
            }
            let b = self.v()?;
            if !self.eat(")") {
                return None;
            }
            return Some(Box::new(a.and_then(b)));
        }
        if self.eat("all(") {
            return Some(Box::new(self.list()?));
        }
        if self.eat("sl(") {
            let b: Box<[DynV]> = self.list()?.into_boxed_slice();
            return Some(Box::new(b));
        }
        if self.eat("box(") {
            let a = self.v()?;
            if !self.eat(")") {
                return None;
            }
            return Some(Box::new(a));
        }
        if self.eat("rc(") {
            let a = self.v()?;
            if !self.eat(")") {
                return None;
            }
            // Rc is !Send but `dyn Validate` has no Send bound
            return Some(Box::new(Rc::new(a)));
        }
        if self.eat("arc(") {
            let a = self.v()?;
            if !self.eat(")") {
                return None;
            }
            return Some(Box::new(Arc::new(a)));
        }
        if self.eat("map(") {
            let a = self.v()?;
            if !self.eat(")") {
                return None;
            }
            let m = a.map(|w: &Wrap| &w.0);
            return Some(Box::new(OnWrap(Box::new(m))));
        }
        if self.eat("T") {
            let now = self.int()?;
            return Some(Box::new(Time::valid_at(ts(now)?)));
        }
        if self.eat("L") {
            let now = self.int()?;
            if !self.eat(":") {
                return None;
            }
            let l = self.int()?;
            if l < 0 {
                return None;
            }
            let l = l as u128;
            let secs = u64::try_from(l / 1_000_000_000).ok()?;
            let d = Duration::new(secs, (l % 1_000_000_000) as u32);
            return Some(Box::new(Time::valid_at(ts(now)?).with_leeway(d)));
        }
        if self.eat("E") {
            return Some(Box::new(HasExpiry));
        }
        if self.eat("S") {
            return Some(Box::new(ForSubject(self.hexs()?)));
        }
        if self.eat("I") {
            return Some(Box::new(FromIssuer(self.hexs()?)));
        }
        if self.eat("A") {
            return Some(Box::new(ForAudience(self.hexs()?)));
        }
        if self.eat("N") {
            return Some(Box::new(NoValidation::dangerous_no_validation()));
        }
        None
    }
}

pub fn parse_validator(s: &str) -> Option<DynV> {
    let mut p = P { s: s.as_bytes(), i: 0 };
    let v = p.v()?;
    if p.i == s.len() { Some(v) } else { None }
}

pub fn parse_claims(s: &str) -> Option<RegisteredClaims> {
    let f: Vec<&str> = s.split(',').collect();
    if f.len() != 7 {
        return None;
    }
    let st = |x: &str| -> Option<Option<String>> {
        if x == "~" { Some(None) } else { Some(Some(String::from_utf8(unhex(x)?).ok()?)) }
    };
    let t = |x: &str| -> Option<Option<Timestamp>> {
        if x == "~" { Some(None) } else { Some(Some(ts(x.parse::<i128>().ok()?)?)) }
    };
    Some(RegisteredClaims { iss: st(f[0])?, sub: st(f[1])?, aud: st(f[2])?, exp: t(f[3])?, nbf: t(f[4])?, iat: t(f[5])?, jti: st(f[6])? })
}

pub fn show_claims(c: &RegisteredClaims) -> String {
    let st = |x: &Option<String>| x.as_ref().map(|s| hex(s.as_bytes())).unwrap_or("~".into());
    let t = |x: &Option<Timestamp>| x.map(|s| s.as_nanosecond().to_string()).unwrap_or("~".into());
    format!("{},{},{},{},{},{},{}", st(&c.iss), st(&c.sub), st(&c.aud), t(&c.exp), t(&c.nbf), t(&c.iat), st(&c.jti))
}

// ---------------------------------------------------------------- JSON member lists

#[derive(Clone, Debug)]
pub enum JV {
    Null,
    Str(String, Option<i128>), // string and the annotation: what jiff parses it to
    Num,
    Bool,
    Arr,
    Obj,
}

pub fn parse_members(s: &str) -> Option<Vec<(String, JV)>> {
    if s.is_empty() {
        return Some(vec![]);
    }
    s.split(';')
        .map(|m| {
            let (k, v) = m.split_once('=')?;
            let k = String::from_utf8(unhex(k)?).ok()?;
            let v = match v.as_bytes()[0] {
                b'n' => JV::Null,
                b'i' => JV::Num,
                b'b' => JV::Bool,
                b'a' => JV::Arr,
                b'o' => JV::Obj,
                b's' => {
                    let (h, a) = v[1..].split_once(':')?;
                    let st = String::from_utf8(unhex(h)?).ok()?;
                    let an = if a == "!" { None } else { Some(a.parse::<i128>().ok()?) };
                    JV::Str(st, an)
                }
                _ => return None,
            };
            Some((k, v))
        })
        .collect()
}

fn json_str(s: &str, esc: u8, salt: usize) -> String {
    match esc {
        0 => serde_json::to_string(s).unwrap(),
        1 => {
            // every UTF-16 unit as \uXXXX
            let mut o = String::from("\"");
            for u in s.encode_utf16() {
                o.push_str(&format!("\\u{u:04x}"));
            }
            o.push('"');
            o
        }
        _ => {
            let mut o = String::from("\"");
            for (i, c) in s.chars().enumerate() {
                if (i + salt) % 3 == 0 || (c as u32) < 0x20 || c == '"' || c == '\\' {
                    let mut b = [0u16; 2];
                    for u in c.encode_utf16(&mut b) {
                        o.push_str(&format!("\\u{u:04X}"));
                    }
                } else {
                    o.push(c);
                }
            }
            o.push('"');
            o
        }
    }
}

pub fn members_json(ms: &[(String, JV)], esc: u8) -> String {
    let mut o = String::from("{");
    for (i, (k, v)) in ms.iter().enumerate() {
        if i > 0 {
            o.push(',');
        }
        if esc == 2 && i % 2 == 1 {
            o.push_str(" \n");
        }
        o.push_str(&json_str(k, esc, i));
        o.push(':');
        match v {
            JV::Null => o.push_str("null"),
            JV::Num => o.push_str("-12.5e3"),
            JV::Bool => o.push_str("true"),
            JV::Arr => o.push_str("[1,{\"iss\":\"inner\"},[]]"),
            JV::Obj => o.push_str("{\"exp\":null,\"x\":[{}]}"),
            JV::Str(s, _) => o.push_str(&json_str(s, esc, i + 1)),
        }
    }
    o.push('}');
    o
}

struct Members(Vec<(String, serde_json::Value)>);
impl<'de> serde_core_shim::Deserialize<'de> for Members {
    fn deserialize<D: serde_core_shim::Deserializer<'de>>(d: D) -> Result<Self, D::Error> {
        struct Vis;
        impl<'de> serde_core_shim::de::Visitor<'de> for Vis {
            type Value = Members;
            fn expecting(&self, f: &mut std::fmt::Formatter) -> std::fmt::Result {
                f.write_str("object")
            }
            fn visit_map<A: serde_core_shim::de::MapAccess<'de>>(self, mut m: A) -> Result<Members, A::Error> {
                let mut v = vec![];
                while let Some((k, x)) = m.next_entry::<String, serde_json::Value>()? {
                    v.push((k, x));
                }
                Ok(Members(v))
            }
        }
        d.deserialize_map(Vis)
    }
}
// serde_json re-exports the serde traits it was built with through its `Deserializer` bounds; we name them via serde_json::de
mod serde_core_shim {
    pub use serde_core::de;
    pub use serde_core::{Deserialize, Deserializer};
}

fn claims_dec(esc: u8, top: &str) -> R {
    use paseto_core::encodings::Payload;
    let text = if let Some(ms) = top.strip_prefix("O:") {
        let ms = parse_members(ms).ok_or("bad-op")?;
        // honesty of the annotations carried by the op line (replays must not lie to the model)
        for (_, v) in &ms {
            if let JV::Str(s, a) = v {
                let real = s.parse::<Timestamp>().ok().map(|t| t.as_nanosecond());
                if real != *a {
                    return Err("bad-op".into());
                }
            }
        }
        members_json(&ms, esc)
    } else if let Some(raw) = top.strip_prefix("X:") {
        String::from_utf8(unhex(raw).ok_or("bad-op")?).map_err(|_| "bad-op".to_string())?
    } else {
        return Err("bad-op".into());
    };
    let c = RegisteredClaims::decode(text.as_bytes()).map_err(|_| "payload".to_string())?;
    // the value a generic JSON parser reads for each registered member
    let generic: serde_json::Value = serde_json::from_str(&text).map_err(|_| "generic-parse-failed".to_string())?;
    let gs = |k: &str| -> Result<Option<String>, ()> {
        match generic.get(k) {
            None | Some(serde_json::Value::Null) => Ok(None),
            Some(serde_json::Value::String(s)) => Ok(Some(s.clone())),
            _ => Err(()),
        }
    };
    let gt = |k: &str| -> Result<Option<Timestamp>, ()> {
        match gs(k)? {
            None => Ok(None),
            Some(s) => s.parse::<Timestamp>().map(Some).map_err(|_| ()),
        }
    };
    let agree = gs("iss") == Ok(c.iss.clone())
        && gs("sub") == Ok(c.sub.clone())
        && gs("aud") == Ok(c.aud.clone())
        && gs("jti") == Ok(c.jti.clone())
        && gt("exp") == Ok(c.exp)
        && gt("nbf") == Ok(c.nbf)
        && gt("iat") == Ok(c.iat);
    Ok(format!("{} gen={}", show_claims(&c), agree as u8))
}

fn claims_enc(cl: &str) -> R {
    use paseto_core::encodings::Payload;
    let c = parse_claims(cl).ok_or("bad-op")?;
    let mut out = Vec::new();
    c.clone().encode(&mut out).map_err(|_| "payload".to_string())?;
    let ms: Members = serde_json::from_slice(&out).map_err(|_| "not-an-object".to_string())?;
    let mut parts = vec![];
    let mut rfc = true;
    for (k, v) in &ms.0 {
        let is_time = matches!(k.as_str(), "exp" | "nbf" | "iat");
        let vs = match v {
            serde_json::Value::String(s) if is_time => {
                // RFC 3339, UTC: [-]YYYY-MM-DDTHH:MM:SS[.f]Z
                let b = s.as_bytes();
                let ok = s.ends_with('Z') && s.contains('T') && b.iter().all(|c| c.is_ascii_digit() || b"-:.TZ".contains(c));
                rfc &= ok;
                match s.parse::<Timestamp>() {
                    Ok(t) => format!("t{}", t.as_nanosecond()),
                    Err(_) => format!("s{}:!", hex(s.as_bytes())),
                }
            }
            serde_json::Value::String(s) => format!("s{}", hex(s.as_bytes())),
            serde_json::Value::Null => "n".into(),
            _ => "other".into(),
        };
        parts.push(format!("{}={}", hex(k.as_bytes()), vs));
    }
    // decode(encode c) == c, on the implementation
    let back = RegisteredClaims::decode(&out).map_err(|_| "payload".to_string())?;
    let rt = show_claims(&back) == show_claims(&c);
    Ok(format!("{} rfc3339={} rt={}", if parts.is_empty() { ".".to_string() } else { parts.join(";") }, rfc as u8, rt as u8))
}

pub fn exec_more(t: &[&str]) -> R {
    let bad = || "bad-op".to_string();
    match t[0] {
        "val" => {
            let v = parse_validator(t.get(1).ok_or_else(bad)?).ok_or_else(bad)?;
            let c = parse_claims(t.get(2).ok_or_else(bad)?).ok_or_else(bad)?;
            v.validate(&c).map(|_| "-".to_string()).map_err(|e| crate::be::err_name(&e).to_string())
        }
        "claims.dec" => {
            let esc: u8 = t.get(1).ok_or_else(bad)?.parse().map_err(|_| bad())?;
            claims_dec(esc, t.get(2).ok_or_else(bad)?)
        }
        "claims.enc" => claims_enc(t.get(1).ok_or_else(bad)?),
        // the JSON text `RegisteredClaims::encode` writes, byte for byte (compared with the model's `claimsJson`)
        "claims.json" => {
            use paseto_core::encodings::Payload;
            let c = parse_claims(t.get(1).ok_or_else(bad)?).ok_or("bad-op")?;
            let mut out = Vec::new();
            c.encode(&mut out).map_err(|_| "payload".to_string())?;
            Ok(hex(&out))
        }
        // oracle-only: the `Json<T>` wrapper as payload and as footer against plain serde_json on the same bytes
        "o.json" => {
            use paseto_core::encodings::{Footer, Payload};
            let bytes = crate::util::unhex(t.get(1).ok_or_else(bad)?).ok_or_else(bad)?;
            let generic: Option<serde_json::Value> = serde_json::from_slice(&bytes).ok();
            let pay = <paseto_json::Json<serde_json::Value> as Payload>::decode(&bytes).ok().map(|j| j.0);
            let foot = <paseto_json::Json<serde_json::Value> as Footer>::decode(&bytes).ok().map(|j| j.0);
            let rc = <RegisteredClaims as Payload>::decode(&bytes).is_ok();
            let rc_generic = serde_json::from_slice::<RegisteredClaims>(&bytes).is_ok();
            // encoding direction: the wrapper writes what serde_json writes
            let enc_same = match &generic {
                Some(v) => {
                    let mut a = Vec::new();
                    let mut b = Vec::new();
                    let ea = <paseto_json::Json<serde_json::Value> as Payload>::encode(paseto_json::Json(v.clone()), &mut a).is_ok();
                    let eb = <paseto_json::Json<serde_json::Value> as Footer>::encode(&paseto_json::Json(v.clone()), &mut b).is_ok();
                    let want = serde_json::to_vec(v).unwrap_or_default();
                    (ea && eb && a == want && b == want) as u8
                }
                None => 1,
            };
            Ok(format!("generic={} payload={} footer={} same={} claims={} claims_generic={} enc_same={} empty={}",
                generic.is_some() as u8, pay.is_some() as u8, foot.is_some() as u8,
                (pay == generic && (foot == generic || bytes.is_empty())) as u8, rc as u8, rc_generic as u8, enc_same, bytes.is_empty() as u8))
        }
        _ => crate::exec3::exec_more(t),
    }
}
