//! further operations (crypto, keys, validators, ...) — filled in as the model grows
use crate::exec::R;
pub fn exec_more(_t: &[&str]) -> R {
    Err("bad-op".into())
}
