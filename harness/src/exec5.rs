//! PASERK operations and keys on the real back ends
use crate::be::*;
use crate::exec::R;
use crate::exec4::key_of;
use crate::util::*;
use crate::{with_kind, with_sealing_kind, with_v};
use paseto_core::PasetoError;
use paseto_core::key::Key;
use paseto_core::paserk::{KeyId, PasswordWrappedKey, PieWrappedKey, SealedKey};
use paseto_core::version::{Local, PkePublic, PkeSecret, Secret};
use std::str::FromStr;

fn en(e: PasetoError) -> String {
    err_name(&e).to_string()
}

pub fn exec_more(t: &[&str]) -> R {
    let bad = || "bad-op".to_string();
    let hx = |i: usize| -> Result<Vec<u8>, String> { t.get(i).and_then(|s| unhex(s)).ok_or_else(bad) };
    let be = |i: usize| -> Result<Be, String> { t.get(i).and_then(|s| Be::parse(s)).ok_or_else(bad) };
    let kd = |i: usize| -> Result<Kind, String> { t.get(i).and_then(|s| Kind::parse(s)).ok_or_else(bad) };
    let st = |i: usize| -> Result<String, String> { String::from_utf8(hx(i)?).map_err(|_| bad()) };
    match t[0] {
        "pie.open" | "pie.re" => {
            let (b, k, wk, s) = (be(1)?, kd(2)?, hx(3)?, st(4)?);
            let re = t[0] == "pie.re";
            with_v!(b, V => with_sealing_kind!(k, K => {
                let wk = key_of::<V, Local>(&wk).map_err(en)?;
                let w = PieWrappedKey::<V, K>::from_str(&s).map_err(en)?;
                let _ = w.to_string();
                let key = w.unwrap(&wk).map_err(en)?;
                if re { Ok("same=1".to_string()) } else { Ok(hex(key.expose_key().as_raw_bytes())) }
            }, else Err(bad())))
        }
        "pw.open" | "pw.re" => {
            let (b, k, pass, s) = (be(1)?, kd(2)?, hx(3)?, st(4)?);
            let re = t[0] == "pw.re";
            with_v!(b, V => with_sealing_kind!(k, K => {
                let w = PasswordWrappedKey::<V, K>::from_str(&s).map_err(en)?;
                let _ = w.params();
                let _ = w.to_string();
                let key = w.unwrap(&pass).map_err(en)?;
                if re { Ok("same=1".to_string()) } else { Ok(hex(key.expose_key().as_raw_bytes())) }
            }, else Err(bad())))
        }
        "seal.open" => {
            let (b, sk, s) = (be(1)?, hx(2)?, st(3)?);
            with_v!(b, V => {
                let sk = key_of::<V, PkeSecret>(&sk).map_err(en)?;
                let w = SealedKey::<V>::from_str(&s).map_err(en)?;
                let _ = w.clone().to_string();
                let key = w.unseal(&sk).map_err(en)?;
                Ok(hex(key.expose_key().as_raw_bytes()))
            })
        }
        "key.dec" => {
            let (b, k, raw) = (be(1)?, kd(2)?, hx(3)?);
            with_v!(b, V => with_kind!(k, K => {
                let key = key_of::<V, K>(&raw).map_err(en)?;
                Ok(hex(key.expose_key().as_raw_bytes()))
            }))
        }
        "key.pub" => {
            let (b, raw) = (be(1)?, hx(2)?);
            with_v!(b, V => {
                let key = key_of::<V, Secret>(&raw).map_err(en)?;
                Ok(hex(key.public_key().expose_key().as_raw_bytes()))
            })
        }
        "id" => {
            let (b, k, raw) = (be(1)?, kd(2)?, hx(3)?);
            with_v!(b, V => with_kind!(k, K => {
                let key = key_of::<V, K>(&raw).map_err(en)?;
                Ok(hex(key.id().to_string().as_bytes()))
            }))
        }
        // ---------------- oracle-only operations (library's own randomness)
        "o.pie.rt" => {
            let (b, k, wk, key) = (be(1)?, kd(2)?, hx(3)?, hx(4)?);
            with_v!(b, V => with_sealing_kind!(k, K => {
                let wk = key_of::<V, Local>(&wk).map_err(en)?;
                let key0 = key_of::<V, K>(&key).map_err(|e| format!("key-{}", en(e)))?;
                let canon = key0.expose_key().as_raw_bytes().to_vec();
                let w = key0.wrap_pie(&wk).map_err(|e| format!("wrap-{}", en(e)))?;
                let s = w.to_string();
                let back = PieWrappedKey::<V, K>::from_str(&s).map_err(|e| format!("parse-{}", en(e)))?.unwrap(&wk).map_err(|e| format!("unwrap-{} blob={}", en(e), hex(s.as_bytes())))?;
                let ok = back.expose_key().as_raw_bytes() == &canon[..];
                let body = s.rsplit('.').next().unwrap_or("");
                Ok(format!("rt={} len={} keylen={} blob={}", ok as u8, crate::gen_tok::unb64(body).len(), canon.len(), hex(s.as_bytes())))
            }, else Err(bad())))
        }
        // params: "default" or a PBKW string whose parameters are reused (Params has no public constructor)
        "o.pw.rt" => {
            let (b, k, pass, key, pstr) = (be(1)?, kd(2)?, hx(3)?, hx(4)?, *t.get(5).ok_or_else(bad)?);
            with_v!(b, V => with_sealing_kind!(k, K => {
                let key0 = key_of::<V, K>(&key).map_err(|e| format!("key-{}", en(e)))?;
                let canon = key0.expose_key().as_raw_bytes().to_vec();
                let w = if pstr == "default" {
                    key0.password_wrap(&pass)
                } else {
                    let donor = String::from_utf8(unhex(pstr).ok_or_else(bad)?).map_err(|_| bad())?;
                    let params = PasswordWrappedKey::<V, K>::from_str(&donor).map_err(|e| format!("donor-{}", en(e)))?.params().map_err(|e| format!("params-{}", en(e)))?;
                    key0.password_wrap_with_params(&pass, &params)
                }.map_err(|e| format!("wrap-{}", en(e)))?;
                let s = w.to_string();
                let back = PasswordWrappedKey::<V, K>::from_str(&s).map_err(|e| format!("parse-{}", en(e)))?.unwrap(&pass).map_err(|e| format!("unwrap-{} blob={}", en(e), hex(s.as_bytes())))?;
                let ok = back.expose_key().as_raw_bytes() == &canon[..];
                let body = s.rsplit('.').next().unwrap_or("");
                Ok(format!("rt={} len={} keylen={} blob={}", ok as u8, crate::gen_tok::unb64(body).len(), canon.len(), hex(s.as_bytes())))
            }, else Err(bad())))
        }
        // wrap with this back end (own randomness) using the donor's parameters; if it agrees to wrap, every back end of the
        // version must unwrap the result to the same key (the blob is what the specification prescribes for the embedded parameters)
        "o.pw.cross" => {
            let (b, k, pass, donor, key) = (be(1)?, kd(2)?, hx(3)?, st(4)?, hx(5)?);
            let wrapped: Option<String> = with_v!(b, V => with_sealing_kind!(k, K => {
                let key0 = key_of::<V, K>(&key).map_err(|e| format!("key-{}", en(e)))?;
                match PasswordWrappedKey::<V, K>::from_str(&donor).and_then(|d| d.params()) {
                    Err(_) => None,
                    Ok(p) => key0.password_wrap_with_params(&pass, &p).ok().map(|w| w.to_string()),
                }
            }, else return Err(bad())));
            let Some(s) = wrapped else { return Ok("refused".to_string()) };
            let canon = with_v!(b, V => with_sealing_kind!(k, K => key_of::<V, K>(&key).map_err(en)?.expose_key().as_raw_bytes().to_vec(), else return Err(bad())));
            let mut fails = vec![];
            for b2 in ALL_BE {
                if b2.version() != b.version() { continue; }
                let got: Result<Vec<u8>, String> = with_v!(b2, V => with_sealing_kind!(k, K => {
                    PasswordWrappedKey::<V, K>::from_str(&s).map_err(en).and_then(|w| w.unwrap(&pass).map_err(en)).map(|x| x.expose_key().as_raw_bytes().to_vec())
                }, else Err(bad())));
                if got.as_deref() != Ok(&canon[..]) { fails.push(format!("{}:{}", b2.name(), got.err().unwrap_or("wrong-key".into()))); }
            }
            Ok(format!("wrapped cross={} {} blob={}", fails.is_empty() as u8, fails.join(","), hex(s.as_bytes())))
        }
        "o.seal.rt" => {
            let (b, sk, pk, key) = (be(1)?, hx(2)?, hx(3)?, hx(4)?);
            with_v!(b, V => {
                let sk = key_of::<V, PkeSecret>(&sk).map_err(|e| format!("sk-{}", en(e)))?;
                let pk = key_of::<V, PkePublic>(&pk).map_err(|e| format!("pk-{}", en(e)))?;
                let key0 = key_of::<V, Local>(&key).map_err(|e| format!("key-{}", en(e)))?;
                let s = key0.seal(&pk).map_err(|e| format!("seal-{}", en(e)))?.to_string();
                let body = s.rsplit('.').next().unwrap_or("");
                let len = crate::gen_tok::unb64(body).len();
                let back = SealedKey::<V>::from_str(&s).map_err(|e| format!("parse-{}", en(e)))?.unseal(&sk).map_err(|e| format!("unseal-{} len={} blob={}", en(e), len, hex(s.as_bytes())))?;
                let ok = back.expose_key().as_raw_bytes() == &key[..];
                Ok(format!("rt={} len={} blob={}", ok as u8, len, hex(s.as_bytes())))
            })
        }
        // a decoded key behaves like its clone, its re-parse and its PASERK text; ids are stable
        "o.key" => {
            let (b, k, raw) = (be(1)?, kd(2)?, hx(3)?);
            with_v!(b, V => with_kind!(k, K => {
                let key = match key_of::<V, K>(&raw) { Ok(k) => k, Err(_) => return Ok("rejected".to_string()) };
                let enc1 = key.expose_key().as_raw_bytes().to_vec();
                let enc_clone = key.clone().expose_key().as_raw_bytes().to_vec();
                let text = key.expose_key().to_string();
                let re: Key<V, K> = text.parse().map_err(|e| format!("reparse-{}", en(e)))?;
                let enc2 = re.expose_key().as_raw_bytes().to_vec();
                let again = key_of::<V, K>(&enc1).map_err(|e| format!("redecode-{}", en(e)))?;
                let enc3 = again.expose_key().as_raw_bytes().to_vec();
                let ids = key.id().to_string() == re.id().to_string() && key.id().to_string() == key.clone().id().to_string();
                // an accepted key is then *used* in every operation that takes its kind (errors are fine, panics are not)
                let used = use_key::<V>(k, &enc1);
                Ok(format!("idem={} clone={} text={} ids={} len={} used={}", (enc1 == enc3) as u8, (enc1 == enc_clone) as u8, (enc1 == enc2) as u8, ids as u8, enc1.len(), used))
            }))
        }
        // secret key -> public key: equals the public half of the serialisation (Ed25519) and verifies what the key signs
        "o.keypair" => {
            let (b, raw) = (be(1)?, hx(2)?);
            with_v!(b, V => {
                use paseto_core::tokens::UnsealedToken;
                use paseto_core::version::Public;
                let sk = match key_of::<V, Secret>(&raw) { Ok(k) => k, Err(_) => return Ok("rejected".to_string()) };
                let pk = sk.public_key();
                let pkraw = pk.expose_key().as_raw_bytes().to_vec();
                let enc = sk.expose_key().as_raw_bytes().to_vec();
                let half = if b.version() == 2 || b.version() == 4 { (enc.len() == 64 && enc[32..] == pkraw[..]) as u8 } else { 1 };
                let tok = UnsealedToken::<V, Public, Raw>::new(Raw(b"m".to_vec())).sign(&sk).map_err(|e| format!("sign-{}", en(e)))?;
                let tok2 = UnsealedToken::<V, Public, Raw>::new(Raw(b"m".to_vec())).sign(&sk.clone()).map_err(|e| format!("sign-{}", en(e)))?;
                let det = matches!(b, Be::V2 | Be::V3 | Be::V4 | Be::V4S);
                let clone_same = !det || tok.to_string() == tok2.to_string();
                // a key re-parsed from its own serialisation signs the same bytes too
                let sk3 = key_of::<V, Secret>(&enc).map_err(|e| format!("reparse-{}", en(e)))?;
                let tok3 = UnsealedToken::<V, Public, Raw>::new(Raw(b"m".to_vec())).sign(&sk3).map_err(|e| format!("sign-{}", en(e)))?;
                let reparse_same = !det || tok.to_string() == tok3.to_string();
                let v1 = tok.verify(&pk, &paseto_core::validation::NoValidation::dangerous_no_validation()).is_ok();
                let v2 = tok2.verify(&pk.clone(), &paseto_core::validation::NoValidation::dangerous_no_validation()).is_ok();
                Ok(format!("half={} verifies={} clone_verifies={} clone_same={} reparse_same={}", half, v1 as u8, v2 as u8, clone_same as u8, reparse_same as u8))
            })
        }
        // every other encoding of the *same* public point that the back end accepts (SEC1 uncompressed / hybrid / compact)
        // gives a key that behaves like the derived public key: verifies what the secret key signs, and a key sealed to it
        // is unsealed by the secret key
        "o.pkforms" => {
            let (b, raw) = (be(1)?, hx(2)?);
            if b.version() != 3 { return Ok("n/a".to_string()); }
            with_v!(b, V => {
                use paseto_core::tokens::UnsealedToken;
                use paseto_core::version::Public;
                let sk = match key_of::<V, Secret>(&raw) { Ok(k) => k, Err(_) => return Ok("rejected".to_string()) };
                let pkraw = sk.public_key().expose_key().as_raw_bytes().to_vec();
                let unc = crate::gen_paserk::p384_uncompressed(&pkraw).ok_or("derived public key is not a SEC1 point")?;
                let mut forms: Vec<Vec<u8>> = vec![unc.clone()];
                let mut hy = unc.clone(); hy[0] = 6 + (unc[96] & 1); forms.push(hy);
                let mut co = unc[..49].to_vec(); co[0] = 5; forms.push(co);
                let tok = UnsealedToken::<V, Public, Raw>::new(Raw(b"m".to_vec())).sign(&sk).map_err(|e| format!("sign-{}", en(e)))?;
                let ts = tok.to_string();
                let ksk = key_of::<V, PkeSecret>(&raw).map_err(|e| format!("pkesk-{}", en(e)))?;
                let (mut acc, mut ver, mut seal, mut same) = (0, 0, 0, 0);
                for f in &forms {
                    let Ok(pk) = key_of::<V, Public>(f) else { continue };
                    // compact form: only a statement about this key if it decodes to the same point
                    if f[0] == 5 && crate::gen_paserk::p384_uncompressed(pk.expose_key().as_raw_bytes()).as_deref() != Some(&unc[..]) { continue; }
                    acc += 1;
                    let t2: paseto_core::SignedToken<V, Raw> = ts.parse().map_err(|e| format!("parse-{}", en(e)))?;
                    ver += t2.verify(&pk, &paseto_core::validation::NoValidation::dangerous_no_validation()).is_ok() as u32;
                    same += (pk.clone().expose_key().as_raw_bytes() == pk.expose_key().as_raw_bytes()) as u32;
                    if let Ok(ppk) = key_of::<V, PkePublic>(f) {
                        let lk = key_of::<V, Local>(&[0x5au8; 32]).map_err(en)?;
                        let ok = lk.seal(&ppk).ok().map(|s| s.to_string()).and_then(|s| SealedKey::<V>::from_str(&s).ok()).and_then(|s| s.unseal(&ksk).ok())
                            .map(|k| k.expose_key().as_raw_bytes() == &[0x5au8; 32][..]).unwrap_or(false);
                        seal += ok as u32;
                    } else { seal += 1; }
                }
                Ok(format!("forms={acc} verifies={ver} seals={seal} clone={same}"))
            })
        }
        // id string and PASERK text of the same key, for the oracle's independent hash
        "o.id.spec" => {
            let (b, k, raw) = (be(1)?, kd(2)?, hx(3)?);
            with_v!(b, V => with_kind!(k, K => {
                let key = key_of::<V, K>(&raw).map_err(en)?;
                Ok(format!("id={} text={}", hex(key.id().to_string().as_bytes()), hex(key.expose_key().to_string().as_bytes())))
            }))
        }
        // the same key bytes offered to both back ends of a version: whenever both accept them, id and PASERK text agree
        "o.id.sib" => {
            let (ver, k, raw) = (*t.get(1).ok_or_else(bad)?, kd(2)?, hx(3)?);
            let (b1, b2) = match ver { "3" => (Be::V3, Be::V3Lc), "4" => (Be::V4, Be::V4S), _ => return Err(bad()) };
            let f = |b: Be| -> Option<(String, String)> {
                with_v!(b, V => with_kind!(k, K => {
                    let key = key_of::<V, K>(&raw).ok()?;
                    Some((key.id().to_string(), key.expose_key().to_string()))
                }))
            };
            let (a, c) = (f(b1), f(b2));
            let agree = match (&a, &c) { (Some(x), Some(y)) => x == y, _ => true };
            Ok(format!("a={} b={} agree={}", a.is_some() as u8, c.is_some() as u8, agree as u8))
        }
        // two encodings of the same key (PEM / DER, compressed / uncompressed) give one id
        "o.id.eq" => {
            let (b, k, r1, r2) = (be(1)?, kd(2)?, hx(3)?, hx(4)?);
            with_v!(b, V => with_kind!(k, K => {
                let a = key_of::<V, K>(&r1).map_err(en)?.id().to_string();
                let c = key_of::<V, K>(&r2).map_err(en)?.id().to_string();
                Ok(format!("same={}", (a == c) as u8))
            }))
        }
        // local / secret / public ids of related keys differ
        "o.id.rel" => {
            let (b, raw) = (be(1)?, hx(2)?);
            with_v!(b, V => {
                let sk = key_of::<V, Secret>(&raw).map_err(en)?;
                let pk = sk.public_key();
                let sid = sk.id(); let pid = pk.id();
                let lid = key_of::<V, Local>(&[7u8; 32]).map_err(en)?.id();
                let distinct = sid.as_bytes() != pid.as_bytes() && sid.as_bytes() != lid.as_bytes() && pid.as_bytes() != lid.as_bytes();
                Ok(format!("distinct={}", distinct as u8))
            })
        }
        // Eq / Ord / Hash of KeyId agree with the bytes
        "o.id.ord" => {
            let (b, s1, s2) = (be(1)?, st(2)?, st(3)?);
            with_v!(b, V => {
                use std::hash::{Hash, Hasher};
                let a = KeyId::<V, Local>::from_str(&s1).map_err(en)?;
                let c = KeyId::<V, Local>::from_str(&s2).map_err(en)?;
                let h = |x: &KeyId<V, Local>| { let mut s = std::collections::hash_map::DefaultHasher::new(); x.hash(&mut s); s.finish() };
                let hb = |x: &[u8; 33]| { let mut s = std::collections::hash_map::DefaultHasher::new(); x.hash(&mut s); s.finish() };
                let ok = (a == c) == (a.as_bytes() == c.as_bytes()) && a.cmp(&c) == a.as_bytes().cmp(c.as_bytes()) && a.partial_cmp(&c) == Some(a.cmp(&c))
                    && h(&a) == hb(a.as_bytes()) && h(&c) == hb(c.as_bytes()) && { let d = a; d == a };
                Ok(format!("agree={}", ok as u8))
            })
        }
        _ => crate::exec6::exec_more(t),
    }
}


/// use an accepted key in every operation that takes its kind; returns "<ok count>/<err count>"
fn use_key<V>(k: Kind, raw: &[u8]) -> String
where
    V: paseto_core::version::SealingVersion<Local>
        + paseto_core::version::SealingVersion<paseto_core::version::Public>
        + paseto_core::paserk::PieWrapVersion
        + paseto_core::paserk::PkeSealingVersion
        + paseto_core::paserk::PkeUnsealingVersion
        + paseto_core::paserk::IdVersion,
{
    use paseto_core::tokens::{SealedToken, UnsealedToken};
    use paseto_core::validation::NoValidation;
    use paseto_core::version::{PkePublic, PkeSecret, Public};
    use std::str::FromStr;
    let (mut ok, mut err) = (0u32, 0u32);
    let mut tally = |r: bool| if r { ok += 1 } else { err += 1 };
    let nv = || NoValidation::<Raw>::dangerous_no_validation();
    match k {
        Kind::Local => {
            if let Ok(key) = key_of::<V, Local>(raw) {
                let t = UnsealedToken::<V, Local, Raw>::new(Raw(b"m".to_vec())).encrypt(&key).map(|t| t.to_string());
                tally(t.is_ok());
                if let Ok(t) = t {
                    tally(SealedToken::<V, Local, Raw>::from_str(&t).ok().and_then(|t| t.decrypt(&key, &nv()).ok()).is_some());
                }
                tally(key_of::<V, Local>(&[3u8; 32]).ok().and_then(|x| x.wrap_pie(&key).ok()).is_some());
                tally(key_of::<V, Local>(raw).ok().and_then(|x| x.wrap_pie(&key).ok()).is_some());
            }
        }
        Kind::Secret => {
            if let Ok(key) = key_of::<V, Secret>(raw) {
                let pk = key.public_key();
                let t = UnsealedToken::<V, Public, Raw>::new(Raw(b"m".to_vec())).sign(&key).map(|t| t.to_string());
                tally(t.is_ok());
                if let Ok(t) = t {
                    tally(SealedToken::<V, Public, Raw>::from_str(&t).ok().and_then(|t| t.verify(&pk, &nv()).ok()).is_some());
                }
                tally(key_of::<V, Local>(&[3u8; 32]).ok().and_then(|w| key_of::<V, Secret>(raw).ok().and_then(|k2| k2.wrap_pie(&w).ok())).is_some());
                let _ = pk.id();
            }
        }
        Kind::Public => {
            if let Ok(key) = key_of::<V, Public>(raw) {
                // a token with a well-sized but bogus signature: must be an error, never a panic
                for len in [0usize, 1, 64, 96, 97, 256, 300] {
                    let body = crate::gen_text::b64(&vec![0x5au8; len]);
                    let s = format!("{}.public.{}", V::HEADER, body);
                    tally(SealedToken::<V, Public, Raw>::from_str(&s).ok().and_then(|t| t.verify(&key, &nv()).ok()).is_some());
                }
                let _ = key.id();
                let _ = key.to_string();
            }
        }
        Kind::PkePublic => {
            if let Ok(key) = key_of::<V, PkePublic>(raw) {
                tally(key_of::<V, Local>(&[3u8; 32]).ok().and_then(|x| x.seal(&key).ok()).is_some());
            }
        }
        Kind::PkeSecret => {
            if let Ok(key) = key_of::<V, PkeSecret>(raw) {
                for len in [0usize, 95, 96, 97, 128, 129, 592] {
                    let s = format!("{}.seal.{}", V::PASERK_HEADER, crate::gen_text::b64(&vec![0x5au8; len]));
                    tally(paseto_core::paserk::SealedKey::<V>::from_str(&s).ok().and_then(|x| x.unseal(&key).ok()).is_some());
                }
            }
        }
    }
    format!("{ok}/{err}")
}
