//! tokens on the real back ends: seal with an injected nonce, open with recording decoder/validator,
//! oracle-only round trips through the library's own randomness, sibling comparison
use crate::be::*;
use crate::exec::R;
use crate::util::*;
use crate::{with_purpose, with_v};
use paseto_core::PasetoError;
use paseto_core::encodings::{Payload, WriteBytes};
use paseto_core::key::{HasKey, Key, KeyType};
use paseto_core::paserk::KeyText;
use paseto_core::tokens::{SealedToken, UnsealedToken};
use paseto_core::validation::Validate;
use paseto_core::version::{Local, Public, Purpose, SealingVersion, Secret, UnsealingVersion};
use std::cell::Cell;
use std::error::Error;

thread_local! {
    static DEC: Cell<u32> = const { Cell::new(0) };
    static VAL: Cell<u32> = const { Cell::new(0) };
}

/// raw-bytes payload whose decoder counts invocations
pub struct RecRaw(pub Vec<u8>);
impl Payload for RecRaw {
    const SUFFIX: &'static str = "";
    fn encode(self, mut w: impl WriteBytes) -> Result<(), Box<dyn Error + Send + Sync>> {
        w.write(&self.0);
        Ok(())
    }
    fn decode(p: &[u8]) -> Result<Self, Box<dyn Error + Send + Sync>> {
        DEC.with(|c| c.set(c.get() + 1));
        Ok(RecRaw(p.to_vec()))
    }
}
pub struct RecAllow;
impl Validate for RecAllow {
    type Claims = RecRaw;
    fn validate(&self, _: &RecRaw) -> Result<(), PasetoError> {
        VAL.with(|c| c.set(c.get() + 1));
        Ok(())
    }
}

pub fn key_of<V: HasKey<K>, K: KeyType>(raw: &[u8]) -> Result<Key<V, K>, PasetoError> {
    KeyText::<V, K>::from_raw_bytes(raw).try_into()
}

fn en(e: PasetoError) -> String {
    err_name(&e).to_string()
}

/// seal / open with the suffixed payload type (`SUFFIX = "c"`)
pub fn seal_with_c<V, P>(key: &Key<V, P::SealingKey>, nonce: Vec<u8>, msg: &[u8], f: &[u8], a: &[u8]) -> Result<String, PasetoError>
where
    V: SealingVersion<P>,
    P: Purpose,
{
    let t = UnsealedToken::<V, P, RawC>::new(RawC(msg.to_vec())).with_footer(f.to_vec()).dangerous_seal_with_nonce(key, a, nonce)?;
    Ok(t.to_string())
}

fn open_with_c<V, P>(key: &Key<V, P>, tok: &str, a: &[u8]) -> R
where
    V: UnsealingVersion<P>,
    P: Purpose,
{
    let t: SealedToken<V, P, RawC, Vec<u8>> = tok.parse().map_err(|e| format!("{} dec=0 val=0", en(e)))?;
    match t.unseal(key, a, &paseto_core::validation::NoValidation::dangerous_no_validation()) {
        Ok(u) => Ok(format!("{} {} dec=1 val=1", hex(&u.claims.0), hex(&u.footer))),
        Err(e) => Err(format!("{} dec=0 val=0", en(e))),
    }
}

fn own_roundtrip_c<V, P>(sk: &Key<V, P::SealingKey>, pk: &Key<V, P>, msg: &[u8], f: &[u8], a: &[u8]) -> R
where
    V: SealingVersion<P>,
    P: Purpose,
{
    let t = UnsealedToken::<V, P, RawC>::new(RawC(msg.to_vec())).with_footer(f.to_vec()).seal(sk, a).map_err(|e| format!("seal-{}", en(e)))?;
    let s = t.to_string();
    let t2: SealedToken<V, P, RawC, Vec<u8>> = s.parse().map_err(|e| format!("parse-{}", en(e)))?;
    let u = t2.unseal(pk, a, &paseto_core::validation::NoValidation::dangerous_no_validation()).map_err(|e| format!("unseal-{} tok={}", en(e), hex(s.as_bytes())))?;
    if u.claims.0 != msg || u.footer != f {
        return Err(format!("mismatch got={} tok={}", hex(&u.claims.0), hex(s.as_bytes())));
    }
    Ok(format!("rt=1 tok={}", hex(s.as_bytes())))
}

fn seal_with<V, P>(key: &Key<V, P::SealingKey>, nonce: Vec<u8>, msg: &[u8], f: &[u8], a: &[u8]) -> Result<String, PasetoError>
where
    V: SealingVersion<P>,
    P: Purpose,
{
    let t = UnsealedToken::<V, P, RecRaw>::new(RecRaw(msg.to_vec())).with_footer(f.to_vec()).dangerous_seal_with_nonce(key, a, nonce)?;
    Ok(t.to_string())
}

fn open_with<V, P>(key: &Key<V, P>, tok: &str, a: &[u8]) -> R
where
    V: UnsealingVersion<P>,
    P: Purpose,
{
    DEC.with(|c| c.set(0));
    VAL.with(|c| c.set(0));
    let counts = || format!("dec={} val={}", DEC.with(|c| c.get()), VAL.with(|c| c.get()));
    let t: SealedToken<V, P, RecRaw, Vec<u8>> = tok.parse().map_err(|e| format!("{} {}", en(e), counts()))?;
    match t.unseal(key, a, &RecAllow) {
        Ok(u) => Ok(format!("{} {} {}", hex(&u.claims.0), hex(&u.footer), counts())),
        Err(e) => Err(format!("{} {}", en(e), counts())),
    }
}

/// encrypt()/sign() with the library's own randomness, serialise, parse, decrypt/verify
fn own_roundtrip<V, P>(sk: &Key<V, P::SealingKey>, pk: &Key<V, P>, msg: &[u8], f: &[u8], a: &[u8]) -> R
where
    V: SealingVersion<P>,
    P: Purpose,
{
    let t = UnsealedToken::<V, P, RecRaw>::new(RecRaw(msg.to_vec())).with_footer(f.to_vec()).seal(sk, a).map_err(|e| format!("seal-{}", en(e)))?;
    let s = t.to_string();
    let t2: SealedToken<V, P, RecRaw, Vec<u8>> = s.parse().map_err(|e| format!("parse-{}", en(e)))?;
    let u = t2.unseal(pk, a, &RecAllow).map_err(|e| format!("unseal-{} tok={}", en(e), hex(s.as_bytes())))?;
    if u.claims.0 != msg || u.footer != f {
        return Err(format!("mismatch got={} tok={}", hex(&u.claims.0), hex(s.as_bytes())));
    }
    Ok(format!("rt=1 tok={}", hex(s.as_bytes())))
}

pub fn exec_more(t: &[&str]) -> R {
    let bad = || "bad-op".to_string();
    let hx = |i: usize| -> Result<Vec<u8>, String> { t.get(i).and_then(|s| unhex(s)).ok_or_else(bad) };
    let be = |i: usize| -> Result<Be, String> { t.get(i).and_then(|s| Be::parse(s)).ok_or_else(bad) };
    let st = |i: usize| -> Result<String, String> { String::from_utf8(hx(i)?).map_err(|_| bad()) };
    match t[0] {
        // the same operations with a payload type whose `SUFFIX` is "c" (header `vNc.local.` / `vNc.public.`)
        "locc.seal" => {
            let (b, key, nonce, msg, f, a) = (be(1)?, hx(2)?, hx(3)?, hx(4)?, hx(5)?, hx(6)?);
            with_v!(b, V => {
                let k = key_of::<V, Local>(&key).map_err(en)?;
                seal_with_c::<V, Local>(&k, nonce, &msg, &f, &a).map(|s| hex(s.as_bytes())).map_err(en)
            })
        }
        "locc.open" => {
            let (b, key, tok, a) = (be(1)?, hx(2)?, st(3)?, hx(4)?);
            with_v!(b, V => {
                let k = key_of::<V, Local>(&key).map_err(|e| format!("{} dec=0 val=0", en(e)))?;
                open_with_c::<V, Local>(&k, &tok, &a)
            })
        }
        "pubc.sign" => {
            let (b, key, msg, f, a) = (be(1)?, hx(2)?, hx(3)?, hx(4)?, hx(5)?);
            with_v!(b, V => {
                let k = key_of::<V, Secret>(&key).map_err(en)?;
                seal_with_c::<V, Public>(&k, vec![], &msg, &f, &a).map(|s| hex(s.as_bytes())).map_err(en)
            })
        }
        "pubc.open" => {
            let (b, key, tok, a) = (be(1)?, hx(2)?, st(3)?, hx(4)?);
            with_v!(b, V => {
                let k = key_of::<V, Public>(&key).map_err(|e| format!("{} dec=0 val=0", en(e)))?;
                open_with_c::<V, Public>(&k, &tok, &a)
            })
        }
        "o.rtc" => {
            let (b, p, key, msg, f, a) = (be(1)?, Kind::parse(t.get(2).ok_or_else(bad)?).ok_or_else(bad)?, hx(3)?, hx(4)?, hx(5)?, hx(6)?);
            with_v!(b, V => with_purpose!(p, P => o_rtc::<V, P>(&key, &msg, &f, &a), else Err(bad())))
        }
        "loc.seal" => {
            let (b, key, nonce, msg, f, a) = (be(1)?, hx(2)?, hx(3)?, hx(4)?, hx(5)?, hx(6)?);
            with_v!(b, V => {
                let k = key_of::<V, Local>(&key).map_err(en)?;
                seal_with::<V, Local>(&k, nonce, &msg, &f, &a).map(|s| hex(s.as_bytes())).map_err(en)
            })
        }
        "loc.open" => {
            let (b, key, tok, a) = (be(1)?, hx(2)?, st(3)?, hx(4)?);
            with_v!(b, V => {
                let k = key_of::<V, Local>(&key).map_err(|e| format!("{} dec=0 val=0", en(e)))?;
                open_with::<V, Local>(&k, &tok, &a)
            })
        }
        "pub.open" => {
            let (b, key, tok, a) = (be(1)?, hx(2)?, st(3)?, hx(4)?);
            with_v!(b, V => {
                let k = key_of::<V, Public>(&key).map_err(|e| format!("{} dec=0 val=0", en(e)))?;
                open_with::<V, Public>(&k, &tok, &a)
            })
        }
        // deterministic signers only (Ed25519; RustCrypto ECDSA with RFC 6979); `rnd` is ignored by the implementation
        "pub.sign" => {
            let (b, key, msg, f, a) = (be(1)?, hx(2)?, hx(3)?, hx(4)?, hx(5)?);
            with_v!(b, V => {
                let k = key_of::<V, Secret>(&key).map_err(en)?;
                seal_with::<V, Public>(&k, vec![], &msg, &f, &a).map(|s| hex(s.as_bytes())).map_err(en)
            })
        }
        // oracle-only: the library's own nonce path; local: key raw; public: secret key raw
        "o.rt" => {
            let (b, p, key, msg, f, a) = (be(1)?, Kind::parse(t.get(2).ok_or_else(bad)?).ok_or_else(bad)?, hx(3)?, hx(4)?, hx(5)?, hx(6)?);
            with_v!(b, V => with_purpose!(p, P => o_rt::<V, P>(&key, &msg, &f, &a), else Err(bad())))
        }
        // oracle-only: both back ends of a version produce the same token for the same nonce and open each other's
        "o.sib" => {
            let (ver, key, nonce, msg, f, a) = (*t.get(1).ok_or_else(bad)?, hx(2)?, hx(3)?, hx(4)?, hx(5)?, hx(6)?);
            let (b1, b2) = match ver { "3" => (Be::V3, Be::V3Lc), "4" => (Be::V4, Be::V4S), _ => return Err(bad()) };
            let t1 = with_v!(b1, V => { let k = key_of::<V, Local>(&key).map_err(en)?; seal_with::<V, Local>(&k, nonce.clone(), &msg, &f, &a).map_err(en)? });
            let t2 = with_v!(b2, V => { let k = key_of::<V, Local>(&key).map_err(en)?; seal_with::<V, Local>(&k, nonce.clone(), &msg, &f, &a).map_err(en)? });
            let o12 = with_v!(b2, V => { let k = key_of::<V, Local>(&key).map_err(en)?; open_with::<V, Local>(&k, &t1, &a) });
            let o21 = with_v!(b1, V => { let k = key_of::<V, Local>(&key).map_err(en)?; open_with::<V, Local>(&k, &t2, &a) });
            let want = format!("{} {} dec=1 val=1", hex(&msg), hex(&f));
            Ok(format!("same={} cross12={} cross21={}", (t1 == t2) as u8, (o12.as_deref() == Ok(want.as_str())) as u8, (o21.as_deref() == Ok(want.as_str())) as u8))
        }
        // oracle-only: RegisteredClaims (distinct values in every field, variant-dependent absences) with a JSON footer through the
        // whole pipeline with the library's own randomness: the unsealed claims and footer equal the original field by field
        "o.rtj" => {
            let (b, p, key) = (be(1)?, Kind::parse(t.get(2).ok_or_else(bad)?).ok_or_else(bad)?, hx(3)?);
            let variant: u32 = t.get(4).and_then(|x| x.parse().ok()).ok_or_else(bad)?;
            with_v!(b, V => with_purpose!(p, P => o_rtj::<V, P>(&key, variant), else Err(bad())))
        }
        // oracle-only: the convenience wrappers (encrypt_with_aad / sign_with_aad / decrypt_with_aad / verify_with_aad and the
        // assertion-free forms) bind the implicit assertion: what was sealed under `a` opens under `a` only
        "o.aadbind" => {
            let (b, p, key, msg, a) = (be(1)?, Kind::parse(t.get(2).ok_or_else(bad)?).ok_or_else(bad)?, hx(3)?, hx(4)?, hx(5)?);
            with_v!(b, V => match p {
                Kind::Local => {
                    let k = if key.is_empty() { Key::<V, Local>::random().map_err(en)? } else { key_of::<V, Local>(&key).map_err(en)? };
                    let sealed = UnsealedToken::<V, Local, RecRaw>::new(RecRaw(msg.clone())).encrypt_with_aad(&k, &a).map(|t| t.to_string());
                    let plain = UnsealedToken::<V, Local, RecRaw>::new(RecRaw(msg.clone())).encrypt(&k).map(|t| t.to_string()).map_err(|e| format!("encrypt-{}", en(e)))?;
                    let nv = paseto_core::validation::NoValidation::<RecRaw>::dangerous_no_validation;
                    let open = |s: &str, aad: Option<&[u8]>| -> bool {
                        let Ok(t) = s.parse::<SealedToken<V, Local, RecRaw>>() else { return false };
                        match aad { Some(x) => t.decrypt_with_aad(&k, x, &nv()).is_ok(), None => t.decrypt(&k, &nv()).is_ok() }
                    };
                    let mut other = a.clone(); other.push(b'x');
                    Ok(match &sealed {
                        Ok(s) => format!("sealed=1 same={} none={} empty={} other={} plain_none={} plain_a={}", open(s, Some(&a)) as u8, open(s, None) as u8, open(s, Some(&[])) as u8, open(s, Some(&other)) as u8, open(&plain, None) as u8, open(&plain, Some(&a)) as u8),
                        Err(_) => format!("sealed=0 plain_none={} plain_a={}", open(&plain, None) as u8, open(&plain, Some(&a)) as u8),
                    })
                }
                Kind::Public => {
                    let k = if key.is_empty() { Key::<V, Secret>::random().map_err(en)? } else { key_of::<V, Secret>(&key).map_err(en)? };
                    let pk = k.public_key();
                    let sealed = UnsealedToken::<V, Public, RecRaw>::new(RecRaw(msg.clone())).sign_with_aad(&k, &a).map(|t| t.to_string());
                    let plain = UnsealedToken::<V, Public, RecRaw>::new(RecRaw(msg.clone())).sign(&k).map(|t| t.to_string()).map_err(|e| format!("sign-{}", en(e)))?;
                    let nv = paseto_core::validation::NoValidation::<RecRaw>::dangerous_no_validation;
                    let open = |s: &str, aad: Option<&[u8]>| -> bool {
                        let Ok(t) = s.parse::<SealedToken<V, Public, RecRaw>>() else { return false };
                        match aad { Some(x) => t.verify_with_aad(&pk, x, &nv()).is_ok(), None => t.verify(&pk, &nv()).is_ok() }
                    };
                    let mut other = a.clone(); other.push(b'x');
                    Ok(match &sealed {
                        Ok(s) => format!("sealed=1 same={} none={} empty={} other={} plain_none={} plain_a={}", open(s, Some(&a)) as u8, open(s, None) as u8, open(s, Some(&[])) as u8, open(s, Some(&other)) as u8, open(&plain, None) as u8, open(&plain, Some(&a)) as u8),
                        Err(_) => format!("sealed=0 plain_none={} plain_a={}", open(&plain, None) as u8, open(&plain, Some(&a)) as u8),
                    })
                }
                _ => Err(bad()),
            })
        }
        // oracle-only: siblings with a payload type whose encoding suffix is non-empty (header `vNc.local.`)
        "o.sibc" => {
            let (ver, key, nonce, msg, f, a) = (*t.get(1).ok_or_else(bad)?, hx(2)?, hx(3)?, hx(4)?, hx(5)?, hx(6)?);
            let (b1, b2) = match ver { "3" => (Be::V3, Be::V3Lc), "4" => (Be::V4, Be::V4S), _ => return Err(bad()) };
            let t1 = with_v!(b1, V => { let k = key_of::<V, Local>(&key).map_err(en)?; seal_with_c::<V, Local>(&k, nonce.clone(), &msg, &f, &a).map_err(en)? });
            let t2 = with_v!(b2, V => { let k = key_of::<V, Local>(&key).map_err(en)?; seal_with_c::<V, Local>(&k, nonce.clone(), &msg, &f, &a).map_err(en)? });
            let o12 = with_v!(b2, V => { let k = key_of::<V, Local>(&key).map_err(en)?; open_with_c::<V, Local>(&k, &t1, &a) });
            let o21 = with_v!(b1, V => { let k = key_of::<V, Local>(&key).map_err(en)?; open_with_c::<V, Local>(&k, &t2, &a) });
            let want = format!("{} {} dec=1 val=1", hex(&msg), hex(&f));
            Ok(format!("same={} cross12={} cross21={}", (t1 == t2) as u8, (o12.as_deref() == Ok(want.as_str())) as u8, (o21.as_deref() == Ok(want.as_str())) as u8))
        }
        // oracle-only: a footer type whose decoder is not injective (trailing spaces are ignored, as a JSON footer ignores
        // whitespace and unknown members): the token is authenticated over the footer bytes *as received*, so the same token
        // with the footer replaced by different bytes that decode to the same value must fail, with no decoder / validator call
        "o.fcanon" => {
            let (b, p, key, msg, f) = (be(1)?, Kind::parse(t.get(2).ok_or_else(bad)?).ok_or_else(bad)?, hx(3)?, hx(4)?, hx(5)?);
            with_v!(b, V => with_purpose!(p, P => o_fcanon::<V, P>(&key, &msg, &f), else Err(bad())))
        }
        _ => crate::exec5::exec_more(t),
    }
}

/// footer whose decoder ignores trailing spaces (non-injective), encoder writes the trimmed bytes
pub struct TrimFooter(pub Vec<u8>);
impl paseto_core::encodings::Footer for TrimFooter {
    fn encode(&self, mut w: impl WriteBytes) -> Result<(), Box<dyn Error + Send + Sync>> {
        w.write(&self.0);
        Ok(())
    }
    fn decode(footer: &[u8]) -> Result<Self, Box<dyn Error + Send + Sync>> {
        let mut v = footer.to_vec();
        while v.last() == Some(&b' ') { v.pop(); }
        Ok(TrimFooter(v))
    }
}

fn o_rtj<V: ORt<P>, P: Purpose>(key: &[u8], variant: u32) -> R {
    use paseto_json::{Json, RegisteredClaims};
    let (sk, pk) = V::keys(key).map_err(|e| format!("key-{}", en(e)))?;
    let ts = |s: i64| paseto_json::jiff::Timestamp::from_second(s).unwrap();
    let mut c = RegisteredClaims::default();
    // distinct values everywhere; which fields are present depends on the variant
    if variant != 1 { c.iss = Some("issuer-value".into()); }
    c.sub = Some("subject \"quoted\" \\ / \u{e9}\n".into());
    if variant != 2 { c.aud = Some("audience".into()); }
    c.exp = Some(ts(4_102_444_800));
    if variant != 3 { c.nbf = Some(ts(1_600_000_000)); }
    c.iat = Some(ts(1_500_000_123));
    if variant != 0 { c.jti = Some("id-1".into()); }
    let footer = serde_json::json!({"kid": "key-1", "n": [1, 2, 3]});
    let t = UnsealedToken::<V, P, RegisteredClaims>::new(c.clone()).with_footer(Json(footer.clone())).seal(&sk, &[]).map_err(|e| format!("seal-{}", en(e)))?;
    let s = t.to_string();
    let t2: SealedToken<V, P, RegisteredClaims, Json<serde_json::Value>> = s.parse().map_err(|e| format!("parse-{}", en(e)))?;
    let u = t2.unseal(&pk, &[], &paseto_core::validation::NoValidation::dangerous_no_validation()).map_err(|e| format!("unseal-{}", en(e)))?;
    let g = &u.claims;
    let same = g.iss == c.iss && g.sub == c.sub && g.aud == c.aud && g.exp == c.exp && g.nbf == c.nbf && g.iat == c.iat && g.jti == c.jti;
    Ok(format!("claims_same={} footer_same={}", same as u8, (u.footer.0 == footer) as u8))
}

fn o_fcanon<V: ORt<P>, P: Purpose>(key: &[u8], msg: &[u8], f: &[u8]) -> R {
    let (sk, pk) = V::keys(key).map_err(|e| format!("key-{}", en(e)))?;
    let mut f = f.to_vec();
    while f.last() == Some(&b' ') { f.pop(); }
    let t = UnsealedToken::<V, P, RecRaw>::new(RecRaw(msg.to_vec())).with_footer(TrimFooter(f.clone())).seal(&sk, &[]).map_err(|e| format!("seal-{}", en(e)))?;
    let s = t.to_string();
    // the genuine token opens
    let t1: SealedToken<V, P, RecRaw, TrimFooter> = s.parse().map_err(|e| format!("parse-{}", en(e)))?;
    let genuine = t1.unseal(&pk, &[], &RecAllow).map(|u| u.claims.0 == msg && u.footer.0 == f).unwrap_or(false);
    // same payload, footer bytes replaced by an equivalent-but-different encoding (or, for an empty footer, by a blank one)
    let payload = s.split('.').nth(2).unwrap_or("").to_string();
    let head: Vec<&str> = s.split('.').take(2).collect();
    let mut alt = f.clone();
    alt.extend_from_slice(b"  ");
    let s2 = format!("{}.{}.{}.{}", head[0], head[1], payload, crate::gen_text::b64(&alt));
    DEC.with(|c| c.set(0));
    VAL.with(|c| c.set(0));
    let (altered, alt_reser) = match s2.parse::<SealedToken<V, P, RecRaw, TrimFooter>>() {
        Ok(t2) => {
            // an accepted token string re-serialises to itself, whatever the footer type makes of the footer bytes
            let reser = t2.to_string() == s2;
            (t2.unseal(&pk, &[], &RecAllow).is_ok(), reser)
        }
        Err(_) => (false, true),
    };
    let (d, v) = (DEC.with(|c| c.get()), VAL.with(|c| c.get()));
    // interoperability direction: a token genuinely sealed over footer bytes that are *not* the footer type's own spelling
    // (as another implementation would write them) is authenticated as received, so it opens under the typed footer
    let t3 = UnsealedToken::<V, P, RecRaw>::new(RecRaw(msg.to_vec())).with_footer(alt.clone()).seal(&sk, &[]).map_err(|e| format!("seal-{}", en(e)))?;
    let s3 = t3.to_string();
    let noncanon = match s3.parse::<SealedToken<V, P, RecRaw, TrimFooter>>() {
        Ok(t4) => t4.to_string() == s3 && t4.unseal(&pk, &[], &RecAllow).map(|u| u.claims.0 == msg && u.footer.0 == f).unwrap_or(false),
        Err(_) => false,
    };
    Ok(format!("genuine={} altered_accepted={} dec={} val={} alt_reser={} noncanon_ok={}", genuine as u8, altered as u8, d, v, alt_reser as u8, noncanon as u8))
}

trait ORt<P: Purpose>: SealingVersion<P> {
    fn keys(raw: &[u8]) -> Result<(Key<Self, P::SealingKey>, Key<Self, P>), PasetoError>;
}
impl<V: SealingVersion<Local>> ORt<Local> for V {
    fn keys(raw: &[u8]) -> Result<(Key<V, Local>, Key<V, Local>), PasetoError> {
        let k = if raw.is_empty() { Key::<V, Local>::random()? } else { key_of::<V, Local>(raw)? };
        let k2 = key_of::<V, Local>(k.expose_key().as_raw_bytes())?;
        Ok((k, k2))
    }
}
impl<V: SealingVersion<Public>> ORt<Public> for V {
    fn keys(raw: &[u8]) -> Result<(Key<V, Secret>, Key<V, Public>), PasetoError> {
        let k = if raw.is_empty() { Key::<V, Secret>::random()? } else { key_of::<V, Secret>(raw)? };
        let pk = k.public_key();
        Ok((k, pk))
    }
}
fn o_rtc<V: ORt<P>, P: Purpose>(key: &[u8], msg: &[u8], f: &[u8], a: &[u8]) -> R {
    let (sk, pk) = V::keys(key).map_err(|e| format!("key-{}", en(e)))?;
    own_roundtrip_c::<V, P>(&sk, &pk, msg, f, a)
}
fn o_rt<V: ORt<P>, P: Purpose>(key: &[u8], msg: &[u8], f: &[u8], a: &[u8]) -> R {
    let (sk, pk) = V::keys(key).map_err(|e| format!("key-{}", en(e)))?;
    own_roundtrip::<V, P>(&sk, &pk, msg, f, a)
}
