//! generators for token streams: c01 (round trips incl. the library's own randomness),
//! c02 (mutations), c03 (bit-exactness, siblings, spec-built tokens)
use crate::be::*;
use crate::exec4::key_of;
use crate::gen_text::b64;
use crate::util::*;
use crate::with_v;
use paseto_core::key::Key;
use paseto_core::tokens::UnsealedToken;
use paseto_core::version::{Local, Public, Secret};
use std::io::Write;

pub fn unb64(s: &str) -> Vec<u8> {
    let mut out = vec![];
    let mut acc = 0u32;
    let mut bits = 0;
    for c in s.bytes() {
        let v = match c {
            b'A'..=b'Z' => c - b'A',
            b'a'..=b'z' => c - b'a' + 26,
            b'0'..=b'9' => c - b'0' + 52,
            b'-' => 62,
            _ => 63,
        } as u32;
        acc = (acc << 6) | v;
        bits += 6;
        if bits >= 8 {
            bits -= 8;
            out.push((acc >> bits) as u8);
            acc &= (1 << bits) - 1;
        }
    }
    out
}

pub fn msg_lens(thorough: bool) -> Vec<usize> {
    let mut v: Vec<usize> = vec![0, 1, 2, 15, 16, 17, 31, 32, 33, 47, 48, 63, 64, 65, 127, 128, 129, 255, 256, 1024];
    if thorough {
        v = (0..=130).collect();
        v.extend([255, 256, 257, 1023, 1024, 1025, 65536, 1 << 20]);
    } else {
        v.push(65536);
    }
    v
}

pub fn local_nonce_len(be: Be) -> usize {
    if be == Be::V2 { 24 } else { 32 }
}

fn seal_local(be: Be, key: &[u8], nonce: &[u8], msg: &[u8], f: &[u8], a: &[u8]) -> Option<String> {
    with_v!(be, V => {
        let k = key_of::<V, Local>(key).ok()?;
        let t = UnsealedToken::<V, Local, Raw>::new(Raw(msg.to_vec())).with_footer(f.to_vec()).dangerous_seal_with_nonce(&k, a, nonce.to_vec()).ok()?;
        Some(t.to_string())
    })
}

/// seal with the suffixed payload type (`SUFFIX = "c"`): local with an injected nonce, public with the library's signer
fn seal_c(be: Be, local: bool, key: &[u8], nonce: &[u8], msg: &[u8], f: &[u8], a: &[u8]) -> Option<String> {
    with_v!(be, V => {
        if local {
            let k = key_of::<V, Local>(key).ok()?;
            crate::exec4::seal_with_c::<V, Local>(&k, nonce.to_vec(), msg, f, a).ok()
        } else {
            let k = key_of::<V, paseto_core::version::Secret>(key).ok()?;
            crate::exec4::seal_with_c::<V, paseto_core::version::Public>(&k, vec![], msg, f, a).ok()
        }
    })
}

pub fn encrypt_own(be: Be, key: &[u8], msg: &[u8], f: &[u8], a: &[u8]) -> Option<String> {
    with_v!(be, V => {
        let k = key_of::<V, Local>(key).ok()?;
        let t = UnsealedToken::<V, Local, Raw>::new(Raw(msg.to_vec())).with_footer(f.to_vec()).encrypt_with_aad(&k, a).ok()?;
        Some(t.to_string())
    })
}

/// secret keys for the streams: RSA keys come from a fixed pool that covers every PKCS#1 DER length the key generator
/// produces (sign bytes of d, dP, dQ, qInv); the other back ends use the library's key generation
pub fn gen_secret(be: Be) -> Vec<u8> {
    if be == Be::V1 {
        use std::sync::atomic::{AtomicUsize, Ordering};
        static NEXT: AtomicUsize = AtomicUsize::new(0);
        let i = NEXT.fetch_add(1, Ordering::Relaxed);
        return crate::util::unhex(crate::rsa_pool::POOL[i % crate::rsa_pool::POOL.len()]).expect("pool hex");
    }
    gen_secret_random(be)
}
pub fn gen_secret_random(be: Be) -> Vec<u8> {
    with_v!(be, V => Key::<V, Secret>::random().expect("keygen").expose_key().as_raw_bytes().to_vec())
}
pub fn public_of(be: Be, sk: &[u8]) -> Vec<u8> {
    with_v!(be, V => key_of::<V, Secret>(sk).expect("sk").public_key().expose_key().as_raw_bytes().to_vec())
}

pub fn sign_own(be: Be, sk: &[u8], msg: &[u8], f: &[u8], a: &[u8]) -> Option<String> {
    with_v!(be, V => {
        let k = key_of::<V, Secret>(sk).ok()?;
        let t = UnsealedToken::<V, Public, Raw>::new(Raw(msg.to_vec())).with_footer(f.to_vec()).sign_with_aad(&k, a).ok()?;
        Some(t.to_string())
    })
}

/// the other valid ECDSA signature (r, n - s) of a v3.public token: the PASETO documents have no low-S rule, so both the token a
/// signer emits and its twin are specification-conforming; returns the token text with the twin signature
pub fn p384_twin(tok: &str) -> Option<String> {
    const N: [u8; 48] = [
        0xff, 0xff, 0xff, 0xff, 0xff, 0xff, 0xff, 0xff, 0xff, 0xff, 0xff, 0xff, 0xff, 0xff, 0xff, 0xff, 0xff, 0xff, 0xff, 0xff, 0xff, 0xff, 0xff, 0xff,
        0xc7, 0x63, 0x4d, 0x81, 0xf4, 0x37, 0x2d, 0xdf, 0x58, 0x1a, 0x0d, 0xb2, 0x48, 0xb0, 0xa7, 0x7a, 0xec, 0xec, 0x19, 0x6a, 0xcc, 0xc5, 0x29, 0x73,
    ];
    let mut parts: Vec<&str> = tok.split('.').collect();
    if parts.len() < 3 { return None; }
    let mut body = unb64(parts[2]);
    if body.len() < 96 { return None; }
    let n = body.len();
    let s = &mut body[n - 48..];
    // s' = N - s (big-endian subtraction; 0 < s < N)
    let mut borrow = 0i32;
    for i in (0..48).rev() {
        let d = N[i] as i32 - s[i] as i32 - borrow;
        if d < 0 { s[i] = (d + 256) as u8; borrow = 1; } else { s[i] = d as u8; borrow = 0; }
    }
    let nb = b64(&body);
    parts[2] = &nb;
    Some(parts.join("."))
}

pub fn gen_c01(out: &mut impl Write, seed: u64, thorough: bool) {
    let mut r = Rng::new(seed ^ 0xC01);
    // AES-CTR start block whose *low 32-bit word* wraps inside the message (v3: the block is an HKDF output; this key / nonce
    // pair was found by search: low word ffffffd0, i.e. the wrap comes after 768 bytes): a narrower counter on one side only
    // (seal or open) still verifies the tag and then decrypts garbage
    {
        let key: Vec<u8> = (0x70u8..0x90).collect();
        let mut nonce = vec![0u8; 24]; nonce.extend(1479793u64.to_be_bytes());
        for be in [Be::V3, Be::V3Lc] {
            for ml in [700usize, 769, 2000, 70000] {
                let msg = r.pattern(ml);
                writeln!(out, "loc.seal {} {} {} {} - -", be.name(), hex(&key), hex(&nonce), hex(&msg)).unwrap();
                writeln!(out, "m.spec.loc.seal {} {} {} {} - - | loc.open {} {} $ - want=ok:{}", be.name(), hex(&key), hex(&nonce), hex(&msg), be.name(), hex(&key), hex(&msg)).unwrap();
            }
        }
    }
    let lens = msg_lens(thorough);
    for be in ALL_BE {
        let key = r.bytes(32);
        let sk = gen_secret(be);
        let pk = public_of(be, &sk);
        for (i, &len) in lens.iter().enumerate() {
            let msg = r.pattern(len);
            let f = match i % 3 { 0 => vec![], 1 => r.bytes(1), _ => r.bytes(17) };
            let a = if be.has_aad() && i % 2 == 1 { r.bytes_in(1, 40) } else { vec![] };
            // oracle: encrypt()/sign() -> to_string -> parse -> decrypt/verify == input (library's own randomness)
            writeln!(out, "o.rt {} local {} {} {} {}", be.name(), hex(&key), hex(&msg), hex(&f), hex(&a)).unwrap();
            if i < 4 {
                // registered claims (all seven fields distinct / some absent) and a JSON footer through seal -> text -> parse -> unseal
                writeln!(out, "o.rtj {} local {} {}", be.name(), hex(&key), i).unwrap();
                writeln!(out, "o.rtj {} public {} {}", be.name(), hex(&sk), i).unwrap();
            }
            if i < 6 {
                // footer type with a non-injective decoder: equivalent-but-different footer bytes must not authenticate
                writeln!(out, "o.fcanon {} local {} {} {}", be.name(), hex(&key), hex(&msg), hex(&f)).unwrap();
                writeln!(out, "o.fcanon {} public {} {} {}", be.name(), hex(&sk), hex(&msg), hex(&f)).unwrap();
            }
            writeln!(out, "o.rt {} local - {} {} {}", be.name(), hex(&msg), hex(&f), hex(&a)).unwrap();
            if len <= 1024 || (be != Be::V1 && len <= 65536) {
                writeln!(out, "o.rt {} public {} {} {} {}", be.name(), hex(&sk), hex(&msg), hex(&f), hex(&a)).unwrap();
            }
            // correspondence: a token made by the library's own nonce path must open in the model to the same message
            if len <= 1024 {
                if let Some(tok) = encrypt_own(be, &key, &msg, &f, &a) {
                    writeln!(out, "loc.open {} {} {} {} want=ok:{}", be.name(), hex(&key), hex(tok.as_bytes()), hex(&a), hex(&msg)).unwrap();
                }
                if len <= 256 {
                    if let Some(tok) = sign_own(be, &sk, &msg, &f, &a) {
                        writeln!(out, "pub.open {} {} {} {} want=ok:{}", be.name(), hex(&pk), hex(tok.as_bytes()), hex(&a), hex(&msg)).unwrap();
                    }
                }
            }
            // deterministic path with an injected nonce: seal in both, open in both
            let nonce = r.bytes(local_nonce_len(be));
            writeln!(out, "loc.seal {} {} {} {} {} {}", be.name(), hex(&key), hex(&nonce), hex(&msg), hex(&f), hex(&a)).unwrap();
        }
        // a payload type with a non-empty encoding suffix ("c"): header `vNc.purpose.`, suffix is part of the authenticated header
        for len in [0usize, 7, 64] {
            let msg = r.pattern(len);
            let f = if len == 7 { r.bytes(4) } else { vec![] };
            let a = if be.has_aad() && len == 64 { r.bytes(6) } else { vec![] };
            writeln!(out, "o.rtc {} local {} {} {} {}", be.name(), hex(&key), hex(&msg), hex(&f), hex(&a)).unwrap();
            writeln!(out, "o.rtc {} public {} {} {} {}", be.name(), hex(&sk), hex(&msg), hex(&f), hex(&a)).unwrap();
            let nonce = r.bytes(local_nonce_len(be));
            writeln!(out, "locc.seal {} {} {} {} {} {}", be.name(), hex(&key), hex(&nonce), hex(&msg), hex(&f), hex(&a)).unwrap();
            if matches!(be, Be::V2 | Be::V4 | Be::V4S | Be::V3) {
                writeln!(out, "pubc.sign {} {} {} {} {} -", be.name(), hex(&sk), hex(&msg), hex(&f), hex(&a)).unwrap();
            }
        }
        // a non-empty assertion on a version without assertions is refused when sealing
        if !be.has_aad() {
            writeln!(out, "loc.seal {} {} {} {} - 01", be.name(), hex(&key), hex(&r.bytes(local_nonce_len(be))), hex(&r.bytes(5))).unwrap();
        }
    }
    // randomised signature schemes: many signatures, so that r/s (and RSA values) with leading zero bytes occur
    let n = if thorough { 50000 } else { 2500 };
    for be in [Be::V3Lc, Be::V3, Be::V1] {
        let sk = gen_secret(be);
        let reps = if be == Be::V1 { n / 10 } else { n };
        for i in 0..reps {
            let msg = r.bytes(i % 7);
            writeln!(out, "o.rt {} public {} {} - -", be.name(), hex(&sk), hex(&msg)).unwrap();
        }
    }
}

struct Sealed {
    be: Be,
    key: Vec<u8>,
    hdr: String,
    payload: Vec<u8>,
    footer: Vec<u8>,
    aad: Vec<u8>,
    msg: Vec<u8>,
}
impl Sealed {
    fn tok(&self, payload: &[u8], footer: &[u8]) -> String {
        let mut s = format!("{}{}", self.hdr, b64(payload));
        if !footer.is_empty() {
            s.push('.');
            s.push_str(&b64(footer));
        }
        s
    }
}

fn emit_open(out: &mut impl Write, be: Be, key: &[u8], tok: &str, aad: &[u8], want: &str) {
    writeln!(out, "loc.open {} {} {} {} want={}", be.name(), hex(key), hex(tok.as_bytes()), hex(aad), want).unwrap();
}

/// every message length 0..=top (and, at a fixed message, every footer / assertion length): the valid token opens and a
/// same-length forgery of each authenticated piece (one bit of the message / ciphertext, of the footer, of the assertion) is
/// rejected.  A writer / buffering adapter that mishandles one particular offset of the authenticated stream shows here.
pub fn gen_len_sweep(out: &mut impl Write, r: &mut Rng, thorough: bool) {
    let top = if thorough { 300 } else { 150 };
    for be in ALL_BE {
        let nl = local_nonce_len(be);
        let key = r.bytes(32);
        let sk = gen_secret(be);
        let pk = public_of(be, &sk);
        let sl = sig_len(be);
        for l in 0..=top {
            // (message, footer, assertion) lengths: sweep one, keep the others small
            let shapes: Vec<(usize, usize, usize)> = if be.has_aad() { vec![(l, 0, 0), (3, l, 0), (3, 2, l)] } else { vec![(l, 0, 0), (3, l, 0)] };
            for (si, (ml, fl, al)) in shapes.into_iter().enumerate() {
                if si > 0 && l == 0 { continue; }
                if be == Be::V1 && si > 0 && l % 4 != 0 { continue; }      // RSA signing is slow: thinner sweep of footer lengths
                let msg = r.pattern(ml); let f = r.bytes(fl); let a = r.bytes(al);
                let nonce = r.bytes(nl);
                if si == 0 && l % 25 == 1 {
                    // non-canonical base64: every other final character of the payload (and of a footer) — a token text that is
                    // not the canonical encoding of its bytes is rejected before anything is decoded or validated
                    if let Some(tok) = seal_local(be, &key, &nonce, &msg, &[7u8, 7], &a) {
                        let (head, foot) = tok.rsplit_once('.').unwrap();
                        for (part, rebuild) in [(head.to_string(), 0), (foot.to_string(), 1)] {
                            let last = part.chars().last().unwrap();
                            for c in "ABCDEFGHIJKLMNOPQRSTUVWXYZabcdefghijklmnopqrstuvwxyz0123456789-_".chars() {
                                if c == last { continue; }
                                let mut p2 = part.clone(); p2.pop(); p2.push(c);
                                let t2 = if rebuild == 0 { format!("{p2}.{foot}") } else { format!("{head}.{p2}") };
                                emit_open(out, be, &key, &t2, &a, "err");
                            }
                        }
                    }
                }
                if si == 0 && l % 10 == 3 {
                    // the payload-type suffix is part of the authenticated header: the same body under the other header is a forgery
                    let v = be.version();
                    if let Some(tok) = seal_local(be, &key, &nonce, &msg, &f, &a) {
                        let relabelled = tok.replacen(&format!("v{v}.local."), &format!("v{v}c.local."), 1);
                        writeln!(out, "locc.open {} {} {} {} want=err", be.name(), hex(&key), hex(relabelled.as_bytes()), hex(&a)).unwrap();
                    }
                    if let Some(tok) = seal_c(be, true, &key, &nonce, &msg, &f, &a) {
                        writeln!(out, "locc.open {} {} {} {} want=ok:{}", be.name(), hex(&key), hex(tok.as_bytes()), hex(&a), hex(&msg)).unwrap();
                        let relabelled = tok.replacen(&format!("v{v}c.local."), &format!("v{v}.local."), 1);
                        emit_open(out, be, &key, &relabelled, &a, "err");
                    }
                    if be != Be::V1 || l % 40 == 3 {
                        if let Some(tok) = sign_own(be, &sk, &msg, &f, &a) {
                            let relabelled = tok.replacen(&format!("v{v}.public."), &format!("v{v}c.public."), 1);
                            writeln!(out, "pubc.open {} {} {} {} want=err", be.name(), hex(&pk), hex(relabelled.as_bytes()), hex(&a)).unwrap();
                        }
                        if let Some(tok) = seal_c(be, false, &sk, &[], &msg, &f, &a) {
                            writeln!(out, "pubc.open {} {} {} {} want=ok:{}", be.name(), hex(&pk), hex(tok.as_bytes()), hex(&a), hex(&msg)).unwrap();
                            let relabelled = tok.replacen(&format!("v{v}c.public."), &format!("v{v}.public."), 1);
                            emit_popen(out, be, &pk, &relabelled, &a, "err");
                        }
                    }
                }
                if let Some(tok) = seal_local(be, &key, &nonce, &msg, &f, &a) {
                    emit_open(out, be, &key, &tok, &a, &format!("ok:{}", hex(&msg)));
                    let hdr = format!("v{}.local.", be.version());
                    let mut payload = unb64(tok[hdr.len()..].split('.').next().unwrap());
                    let mk = |p: &[u8], f: &[u8]| -> String { let mut s = format!("{hdr}{}", b64(p)); if !f.is_empty() { s.push('.'); s.push_str(&b64(f)); } s };
                    if ml > 0 {
                        let at = nl + (l * 7 + 3) % ml;
                        payload[at] ^= 1 << (l % 8);
                        emit_open(out, be, &key, &mk(&payload, &f), &a, "err");
                        payload[at] ^= 1 << (l % 8);
                    }
                    if fl > 0 { let mut f2 = f.clone(); f2[(l * 5) % fl] ^= 1 << (l % 8); emit_open(out, be, &key, &mk(&payload, &f2), &a, "err"); }
                    if al > 0 { let mut a2 = a.clone(); a2[(l * 3) % al] ^= 1 << (l % 8); emit_open(out, be, &key, &tok, &a2, "err"); }
                }
                if be == Be::V1 && l % 4 != 0 { continue; }
                if let Some(tok) = sign_own(be, &sk, &msg, &f, &a) {
                    emit_popen(out, be, &pk, &tok, &a, &format!("ok:{}", hex(&msg)));
                    let hdr = format!("v{}.public.", be.version());
                    let mut payload = unb64(tok[hdr.len()..].split('.').next().unwrap());
                    let mk = |p: &[u8], f: &[u8]| -> String { let mut s = format!("{hdr}{}", b64(p)); if !f.is_empty() { s.push('.'); s.push_str(&b64(f)); } s };
                    if ml > 0 && payload.len() == ml + sl {
                        let at = (l * 7 + 3) % ml;
                        payload[at] ^= 1 << (l % 8);
                        emit_popen(out, be, &pk, &mk(&payload, &f), &a, "err");
                        payload[at] ^= 1 << (l % 8);
                    }
                    if fl > 0 { let mut f2 = f.clone(); f2[(l * 5) % fl] ^= 1 << (l % 8); emit_popen(out, be, &pk, &mk(&payload, &f2), &a, "err"); }
                    if al > 0 { let mut a2 = a.clone(); a2[(l * 3) % al] ^= 1 << (l % 8); emit_popen(out, be, &pk, &tok, &a2, "err"); }
                }
            }
        }
    }
}

pub fn gen_c02(out: &mut impl Write, seed: u64, thorough: bool) {
    let mut r = Rng::new(seed ^ 0xC02);
    gen_c02_public(out, &mut r, thorough);
    gen_len_sweep(out, &mut r, thorough);
    let ntok = if thorough { 60 } else { 8 };
    for be in ALL_BE {
        let nl = local_nonce_len(be);
        let tl = match be.version() { 1 | 3 => 48, 2 => 16, _ => 32 };
        for ti in 0..ntok {
            let key = r.bytes(32);
            // lengths on both sides of the 128 / 256 byte marks, so that every byte of a length prefix matters
            let mlen = [0usize, 1, 16, 33, 64, 100, 128, 200][ti % 8];
            let msg = r.pattern(mlen);
            // footers: empty, short, and long ones on both sides of the 128 / 256 byte marks (fixed lengths: coverage must not depend on the seed)
            let footer = match ti % 8 { 0 | 6 => vec![], 3 => r.bytes(260), 7 => r.bytes(300), 5 => r.bytes(129), _ => r.bytes_in(1, 24) };
            let aad = if be.has_aad() && ti % 2 == 1 { if ti % 8 == 5 { r.bytes_in(128, 260) } else { r.bytes_in(1, 24) } } else { vec![] };
            let nonce = r.bytes(nl);
            let Some(tok) = seal_local(be, &key, &nonce, &msg, &footer, &aad) else { continue };
            let hdr = format!("v{}.local.", be.version());
            let body = &tok[hdr.len()..];
            let p64 = body.split('.').next().unwrap();
            let s = Sealed { be, key: key.clone(), hdr: hdr.clone(), payload: unb64(p64), footer: footer.clone(), aad: aad.clone(), msg: msg.clone() };
            // the untouched token opens
            emit_open(out, be, &key, &tok, &aad, &format!("ok:{}", hex(&msg)));
            if ti < 6 {
                // the convenience wrappers bind the implicit assertion (own randomness), for keys given and generated
                let aa = r.bytes_in(1, 30);
                writeln!(out, "o.aadbind {} local {} {} {}", be.name(), hex(&key), hex(&msg), hex(&aa)).unwrap();
                writeln!(out, "o.aadbind {} public - {} {}", be.name(), hex(&msg), hex(&aa)).unwrap();
            }
            {
                // extra `.`-separated sections after the token are a different string: never accepted
                let has_footer = !footer.is_empty();
                let mut exts: Vec<String> = vec![format!("{tok}.AAAA"), format!("{tok}.."), format!("{tok}..AAAA"), format!("{tok}.{}", b64(&r.bytes(5)))];
                if has_footer { exts.push(format!("{tok}.")); }
                for e in exts {
                    emit_open(out, be, &key, &e, &aad, "err");
                }
            }
            if ti < 4 {
                // footer type with a non-injective decoder: equivalent-but-different footer bytes must not authenticate
                writeln!(out, "o.fcanon {} local {} {} {}", be.name(), hex(&key), hex(&msg), hex(&footer)).unwrap();
                writeln!(out, "o.fcanon {} public - {} {}", be.name(), hex(&msg), hex(&footer)).unwrap();
            }
            // every single-bit flip: all bits of nonce and tag and the first/last ciphertext bytes; stride elsewhere
            let plen = s.payload.len();
            for byte in 0..plen {
                let dense = thorough || byte < nl + 2 || byte + tl + 2 >= plen;
                for bit in 0..8 {
                    if !dense && (byte * 8 + bit) % 11 != ti % 11 { continue; }
                    let mut p = s.payload.clone();
                    p[byte] ^= 1 << bit;
                    emit_open(out, be, &key, &s.tok(&p, &footer), &aad, "err");
                }
            }
            // two-bit corruptions inside the tag and across nonce / ciphertext / tag (a tag comparison that folds differences
            // with XOR or compares a checksum accepts exactly these)
            if plen >= nl + tl {
                let t0 = plen - tl;
                let mut pairs: Vec<(usize, usize, u8)> = vec![(t0, t0 + 1, 0), (t0, plen - 1, 7), (plen - 2, plen - 1, 3), (0, plen - 1, 0), (nl.saturating_sub(1), t0, 0)];
                for _ in 0..12 {
                    let a = t0 + r.below(tl as u64) as usize; let b = t0 + r.below(tl as u64) as usize;
                    if a != b { pairs.push((a, b, r.below(8) as u8)); }
                }
                for (a, b, bit) in pairs {
                    if a == b || a >= plen || b >= plen { continue; }
                    let mut p = s.payload.clone();
                    p[a] ^= 1 << bit;
                    p[b] ^= 1 << bit;
                    emit_open(out, be, &key, &s.tok(&p, &footer), &aad, "err");
                }
            }
            for byte in 0..footer.len() {
                for bit in 0..8 {
                    if !thorough && bit != byte % 8 { continue; }
                    let mut f2 = footer.clone();
                    f2[byte] ^= 1 << bit;
                    emit_open(out, be, &key, &s.tok(&s.payload, &f2), &aad, "err");
                }
            }
            // truncations and extensions
            for cut in 1..=plen.min(if thorough { plen } else { nl + tl + 4 }) {
                emit_open(out, be, &key, &s.tok(&s.payload[..plen - cut], &footer), &aad, "err");
                emit_open(out, be, &key, &s.tok(&s.payload[cut..], &footer), &aad, "err");
            }
            for ext in 1..=3 {
                let mut p = s.payload.clone();
                p.extend(r.bytes(ext));
                emit_open(out, be, &key, &s.tok(&p, &footer), &aad, "err");
                let mut q = r.bytes(ext);
                q.extend(&s.payload);
                emit_open(out, be, &key, &s.tok(&q, &footer), &aad, "err");
                let mut z = s.payload.clone();
                z.extend(vec![0u8; ext]);
                emit_open(out, be, &key, &s.tok(&z, &footer), &aad, "err");
            }
            // footer: change, add, remove, extend, truncate
            let mut f2 = footer.clone();
            f2.push(0);
            emit_open(out, be, &key, &s.tok(&s.payload, &f2), &aad, "err");
            if !footer.is_empty() {
                emit_open(out, be, &key, &s.tok(&s.payload, &[]), &aad, "err");
                emit_open(out, be, &key, &s.tok(&s.payload, &footer[..footer.len() - 1]), &aad, "err");
            } else {
                emit_open(out, be, &key, &s.tok(&s.payload, &[0x7b, 0x7d]), &aad, "err");
            }
            // assertion: change, add, remove; footer <-> assertion swap
            let mut a2 = aad.clone();
            a2.push(1);
            emit_open(out, be, &key, &tok, &a2, "err");
            if !aad.is_empty() {
                emit_open(out, be, &key, &tok, &[], "err");
                let mut a3 = aad.clone();
                a3[0] ^= 0x80;
                emit_open(out, be, &key, &tok, &a3, "err");
            }
            if footer != aad {
                emit_open(out, be, &key, &s.tok(&s.payload, &aad), &footer, "err");
            }
            // boundary shifts: last ciphertext byte <-> first footer byte; footer tail <-> assertion head
            if plen > nl + tl {
                let cend = plen - tl;
                let mut p = s.payload.clone();
                let moved = p.remove(cend - 1);
                let mut f3 = vec![moved];
                f3.extend(&footer);
                emit_open(out, be, &key, &s.tok(&p, &f3), &aad, "err");
            }
            if !footer.is_empty() {
                let mut p = s.payload.clone();
                let cend = plen - tl;
                p.insert(cend, footer[0]);
                emit_open(out, be, &key, &s.tok(&p, &footer[1..]), &aad, "err");
                if be.has_aad() {
                    let mut a4 = vec![*footer.last().unwrap()];
                    a4.extend(&aad);
                    emit_open(out, be, &key, &s.tok(&s.payload, &footer[..footer.len() - 1]), &a4, "err");
                }
            }
            // other keys: every single-bit neighbour (stride in quick), a random key
            for byte in 0..32 {
                for bit in 0..8 {
                    if !thorough && (byte * 8 + bit) % 13 != ti % 13 { continue; }
                    let mut k2 = key.clone();
                    k2[byte] ^= 1 << bit;
                    emit_open(out, be, &k2, &tok, &aad, "err");
                }
            }
            emit_open(out, be, &r.bytes(32), &tok, &aad, "err");
            // header relabel: the same payload under every other version's header, opened by that version with the same key bytes
            for be2 in ALL_BE {
                if be2.version() == be.version() { continue; }
                let t2 = format!("v{}.local.{}", be2.version(), &tok[hdr.len()..]);
                emit_open(out, be2, &key, &t2, &aad, "err");
            }
            // purpose relabel: parsed as a local token it is refused
            emit_open(out, be, &key, &format!("v{}.public.{}", be.version(), &tok[hdr.len()..]), &aad, "err");
            let _ = &s.msg;
        }
    }
}

fn emit_popen(out: &mut impl Write, be: Be, pk: &[u8], tok: &str, aad: &[u8], want: &str) {
    writeln!(out, "pub.open {} {} {} {} want={}", be.name(), hex(pk), hex(tok.as_bytes()), hex(aad), want).unwrap();
}

fn sig_len(be: Be) -> usize {
    match be.version() { 1 => 256, 3 => 96, _ => 64 }
}

pub fn gen_c02_public(out: &mut impl Write, r: &mut Rng, thorough: bool) {
    let ntok = if thorough { 12 } else { 2 };
    for be in ALL_BE {
        let sk = gen_secret(be);
        let pk = public_of(be, &sk);
        let sk2 = gen_secret(be);
        let pk2 = public_of(be, &sk2);
        let sl = sig_len(be);
        for ti in 0..ntok {
            let msg = r.pattern([0usize, 1, 40, 100][ti % 4]);
            let footer = if ti % 2 == 0 { vec![] } else { r.bytes_in(1, 20) };
            let aad = if be.has_aad() && ti % 2 == 1 { r.bytes_in(1, 20) } else { vec![] };
            let Some(tok) = sign_own(be, &sk, &msg, &footer, &aad) else { continue };
            let hdr = format!("v{}.public.", be.version());
            let p64 = tok[hdr.len()..].split('.').next().unwrap().to_string();
            let payload = unb64(&p64);
            let mk = |p: &[u8], f: &[u8]| -> String {
                let mut s = format!("{hdr}{}", b64(p));
                if !f.is_empty() { s.push('.'); s.push_str(&b64(f)); }
                s
            };
            emit_popen(out, be, &pk, &tok, &aad, &format!("ok:{}", hex(&msg)));
            let plen = payload.len();
            // single-bit flips: every message bit (stride in quick), signature bits (stride; every bit in thorough)
            for byte in 0..plen {
                for bit in 0..8 {
                    let in_sig = byte + sl >= plen;
                    let stride = if thorough { if in_sig { 1 } else { 3 } } else if in_sig { 29 } else { 17 };
                    if (byte * 8 + bit) % stride != ti % stride { continue; }
                    let mut p = payload.clone();
                    p[byte] ^= 1 << bit;
                    emit_popen(out, be, &pk, &mk(&p, &footer), &aad, "err");
                }
            }
            for cut in [1usize, 2, sl - 1, sl, sl + 1] {
                if cut <= plen { emit_popen(out, be, &pk, &mk(&payload[..plen - cut], &footer), &aad, "err"); }
                if cut <= plen { emit_popen(out, be, &pk, &mk(&payload[cut..], &footer), &aad, "err"); }
            }
            for ext in 1..=2 {
                let mut p = payload.clone(); p.extend(r.bytes(ext));
                emit_popen(out, be, &pk, &mk(&p, &footer), &aad, "err");
                let mut q = r.bytes(ext); q.extend(&payload);
                emit_popen(out, be, &pk, &mk(&q, &footer), &aad, "err");
            }
            let mut f2 = footer.clone(); f2.push(0);
            emit_popen(out, be, &pk, &mk(&payload, &f2), &aad, "err");
            if !footer.is_empty() { emit_popen(out, be, &pk, &mk(&payload, &[]), &aad, "err"); }
            let mut a2 = aad.clone(); a2.push(1);
            emit_popen(out, be, &pk, &tok, &a2, "err");
            if !aad.is_empty() { emit_popen(out, be, &pk, &tok, &[], "err"); }
            // message/footer boundary shift
            if plen > sl {
                let mend = plen - sl;
                let mut p = payload.clone();
                let moved = p.remove(mend - 1);
                let mut f3 = vec![moved]; f3.extend(&footer);
                emit_popen(out, be, &pk, &mk(&p, &f3), &aad, "err");
            }
            if !footer.is_empty() {
                let mut p = payload.clone();
                p.insert(plen - sl, footer[0]);
                emit_popen(out, be, &pk, &mk(&p, &footer[1..]), &aad, "err");
            }
            // other key
            emit_popen(out, be, &pk2, &tok, &aad, "err");
            // relabel to the other version of the same signature family / other purpose
            emit_popen(out, be, &pk, &format!("v{}.local.{}", be.version(), &tok[hdr.len()..]), &aad, "err");
            for be2 in ALL_BE {
                if be2.version() != be.version() && sig_len(be2) == sl {
                    emit_popen(out, be2, &pk, &format!("v{}.public.{}", be2.version(), &tok[hdr.len()..]), &aad, "err");
                }
            }
        }
    }
}

pub fn gen_c03_public(out: &mut impl Write, r: &mut Rng, thorough: bool) {
    let lens: Vec<usize> = if thorough { vec![0, 1, 2, 31, 32, 33, 100, 127, 128, 129, 1000, 5000] } else { vec![0, 1, 33, 100] };
    // P-384 signing keys with boundary scalars (1, n - 1, leading zero bytes, top bit set): signatures byte-exact (RFC 6979) on
    // paseto-v3, verified by the model and by the sibling, twins accepted
    {
        const N: [u8; 48] = [
            0xff, 0xff, 0xff, 0xff, 0xff, 0xff, 0xff, 0xff, 0xff, 0xff, 0xff, 0xff, 0xff, 0xff, 0xff, 0xff, 0xff, 0xff, 0xff, 0xff, 0xff, 0xff, 0xff, 0xff,
            0xc7, 0x63, 0x4d, 0x81, 0xf4, 0x37, 0x2d, 0xdf, 0x58, 0x1a, 0x0d, 0xb2, 0x48, 0xb0, 0xa7, 0x7a, 0xec, 0xec, 0x19, 0x6a, 0xcc, 0xc5, 0x29, 0x73,
        ];
        let mut scalars: Vec<Vec<u8>> = vec![];
        let mut one = vec![0u8; 48]; one[47] = 1; scalars.push(one);
        let mut nm1 = N.to_vec(); nm1[47] -= 1; scalars.push(nm1);
        let mut lz = r.bytes(48); lz[0] = 0; lz[1] = 0; scalars.push(lz);
        let mut hi = r.bytes(48); hi[0] = 0xfe; scalars.push(hi);
        for sk in &scalars {
            for be in [Be::V3, Be::V3Lc] {
                let pk = public_of(be, sk);
                let msg = r.pattern(40);
                let rnd = r.bytes(48);
                if be == Be::V3 {
                    writeln!(out, "pub.sign v3 {} {} - - {}", hex(sk), hex(&msg), hex(&rnd)).unwrap();
                }
                writeln!(out, "o.keypair {} {}", be.name(), hex(sk)).unwrap();
                if let Some(tok) = sign_own(be, sk, &msg, &[], &[]) {
                    emit_popen(out, Be::V3, &pk, &tok, &[], &format!("ok:{}", hex(&msg)));
                    emit_popen(out, Be::V3Lc, &pk, &tok, &[], &format!("ok:{}", hex(&msg)));
                    if let Some(twin) = p384_twin(&tok) {
                        emit_popen(out, Be::V3, &pk, &twin, &[], &format!("ok:{}", hex(&msg)));
                        emit_popen(out, Be::V3Lc, &pk, &twin, &[], &format!("ok:{}", hex(&msg)));
                    }
                }
            }
        }
    }
    for be in ALL_BE {
        let sk = gen_secret(be);
        let pk = public_of(be, &sk);
        // a cloned / re-parsed key produces the same (deterministic) signature bytes as the key it came from
        writeln!(out, "o.keypair {} {}", be.name(), hex(&sk)).unwrap();
        for (i, &len) in lens.iter().enumerate() {
            let msg = r.pattern(len);
            let f = if i % 2 == 0 { vec![] } else { r.bytes_in(1, 30) };
            let a = if be.has_aad() && i % 2 == 1 { r.bytes_in(1, 30) } else { vec![] };
            let rnd = r.bytes(48);
            match be {
                // deterministic signatures: byte-identical
                Be::V2 | Be::V4 | Be::V4S | Be::V3 => writeln!(out, "pub.sign {} {} {} {} {} {}", be.name(), hex(&sk), hex(&msg), hex(&f), hex(&a), hex(&rnd)).unwrap(),
                _ => {}
            }
            // model-built (specification) signature offered to the implementation: valid under an independent signer
            writeln!(out, "m.pub.sign {} {} {} {} {} {} | pub.open {} {} $ {} want=ok:{}", be.name(), hex(&sk), hex(&msg), hex(&f), hex(&a), hex(&rnd), be.name(), hex(&pk), hex(&a), hex(&msg)).unwrap();
            // implementation-built signature verified by the model (independent verifier)
            if let Some(tok) = sign_own(be, &sk, &msg, &f, &a) {
                emit_popen(out, be, &pk, &tok, &a, &format!("ok:{}", hex(&msg)));
                if be.version() == 3 {
                    // both ECDSA signature forms (s and n - s) are valid and must be accepted by both v3 back ends
                    if let Some(twin) = p384_twin(&tok) {
                        emit_popen(out, Be::V3, &pk, &twin, &a, &format!("ok:{}", hex(&msg)));
                        emit_popen(out, Be::V3Lc, &pk, &twin, &a, &format!("ok:{}", hex(&msg)));
                    }
                }
                // siblings verify each other's tokens
                let sib = match be { Be::V3 => Some(Be::V3Lc), Be::V3Lc => Some(Be::V3), Be::V4 => Some(Be::V4S), Be::V4S => Some(Be::V4), _ => None };
                if let Some(b2) = sib { emit_popen(out, b2, &pk, &tok, &a, &format!("ok:{}", hex(&msg))); }
            }
        }
    }
}

pub fn gen_c03(out: &mut impl Write, seed: u64, thorough: bool) {
    let mut r = Rng::new(seed ^ 0xC03);
    // AES-CTR start block whose *low 32-bit word* wraps inside the message (v3: the block is an HKDF output; this key / nonce
    // pair was found by search: low word ffffffd0, i.e. the wrap comes after 768 bytes): a narrower counter on one side only
    // (seal or open) still verifies the tag and then decrypts garbage
    {
        let key: Vec<u8> = (0x70u8..0x90).collect();
        let mut nonce = vec![0u8; 24]; nonce.extend(1479793u64.to_be_bytes());
        for be in [Be::V3, Be::V3Lc] {
            for ml in [700usize, 769, 2000, 70000] {
                let msg = r.pattern(ml);
                writeln!(out, "loc.seal {} {} {} {} - -", be.name(), hex(&key), hex(&nonce), hex(&msg)).unwrap();
                writeln!(out, "m.spec.loc.seal {} {} {} {} - - | loc.open {} {} $ - want=ok:{}", be.name(), hex(&key), hex(&nonce), hex(&msg), be.name(), hex(&key), hex(&msg)).unwrap();
            }
        }
    }
    // footers in another spelling than the receiver's footer type would write (tokens of other implementations)
    for be in ALL_BE {
        for (i, ft) in [&b"{\"kid\": \"k1\"}"[..], &b"{\"kid\":\"k1\"}  "[..], &b"x"[..], &b""[..]].iter().enumerate() {
            let key = r.bytes(32);
            writeln!(out, "o.fcanon {} local {} {} {}", be.name(), hex(&key), hex(&r.pattern(10 + i)), hex(ft)).unwrap();
            writeln!(out, "o.fcanon {} public - {} {}", be.name(), hex(&r.pattern(10 + i)), hex(ft)).unwrap();
        }
    }
    gen_c03_public(out, &mut r, thorough);
    // lengths around the block sizes of the primitives and around typical buffer / chunk sizes (a chunked keystream or MAC must
    // continue, not restart, at 4 KiB / 8 KiB / 16 KiB / 64 KiB boundaries)
    let big = [4095usize, 4096, 4097, 8191, 8192, 8193, 16385, 32769, 65535, 65536, 65537];
    let lens: Vec<usize> = if thorough { (0..=130).chain([255, 256, 1024, 2048, 131073, 1 << 20]).chain(big).collect() } else { [0, 1, 15, 16, 17, 32, 33, 64, 65, 100, 129, 1024].into_iter().chain(big).collect() };
    for be in ALL_BE {
        let nl = local_nonce_len(be);
        for (i, &len) in lens.iter().enumerate() {
            let key = r.pattern(32);
            let msg = r.pattern(len);
            let f = if i % 2 == 0 { vec![] } else { r.bytes_in(1, 30) };
            let a = if be.has_aad() && i % 3 == 0 { r.bytes_in(1, 30) } else { vec![] };
            let nonces: Vec<Vec<u8>> = vec![r.bytes(nl), vec![0; nl], vec![0xff; nl], {
                let mut n = r.bytes(nl);
                for b in n.iter_mut().skip(nl - 8) { *b = 0xff; }
                n
            }];
            for n in nonces.iter().take(if len > 1024 { 1 } else { 4 }) {
                // exact token for an injected nonce: implementation vs implementation model
                writeln!(out, "loc.seal {} {} {} {} {} {}", be.name(), hex(&key), hex(n), hex(&msg), hex(&f), hex(&a)).unwrap();
                // specification-built token (128-bit counter, spec KDFs): must be accepted with the same claims
                writeln!(out, "m.spec.loc.seal {} {} {} {} {} {} | loc.open {} {} $ {} want=ok:{}", be.name(), hex(&key), hex(n), hex(&msg), hex(&f), hex(&a), be.name(), hex(&key), hex(&a), hex(&msg)).unwrap();
            }
            // v1: the embedded nonce's second half is the AES counter block: make its low 64 bits wrap inside the message
            if be == Be::V1 && len >= 17 {
                for k in 0..3u8 {
                    let mut n = r.bytes(32);
                    for b in n.iter_mut().skip(24) { *b = 0xff; }
                    n[31] = 0xff - k;
                    writeln!(out, "m.spec.loc.seal v1 {} {} {} {} - | loc.open v1 {} $ - want=ok:{}", hex(&key), hex(&n), hex(&msg), hex(&f), hex(&key), hex(&msg)).unwrap();
                }
            }
            if be == Be::V3 || be == Be::V4 {
                let ver = be.version();
                writeln!(out, "o.sib {ver} {} {} {} {} {}", hex(&key), hex(&nonces[0]), hex(&msg), hex(&f), hex(&a)).unwrap();
                if len <= 1024 {
                    // the same with a payload type whose encoding suffix is non-empty (header `vNc.local.`)
                    writeln!(out, "o.sibc {ver} {} {} {} {} {}", hex(&key), hex(&nonces[0]), hex(&msg), hex(&f), hex(&a)).unwrap();
                }
            }
        }
    }
}

/// C15, streaming writers: the digest / MAC adapters of every back end receive the PAE piecewise; tokens whose message,
/// footer and assertion lengths straddle the block sizes of the underlying primitives (16, 64, 128) and typical buffer sizes are
/// sealed with an injected nonce (byte-compared with the model = spec PAE + MAC over the Vec form), built by the specification
/// instance and offered to the implementation, and compared between sibling back ends
pub fn gen_c15w(out: &mut impl Write, seed: u64, thorough: bool) {
    let mut r = Rng::new(seed ^ 0xC15F);
    // every message length 0..=200 (the offset of each later piece in the authenticated stream takes every residue of
    // every buffer size up to 128): injected-nonce token byte-compared with the model, specification-built token offered to the back end
    for be in ALL_BE {
        let nl = local_nonce_len(be);
        let sk = gen_secret(be);
        let pk = public_of(be, &sk);
        let key = r.bytes(32);
        for ml in 0..=(if thorough { 400usize } else { 200 }) {
            let msg = r.pattern(ml);
            let f = if ml % 3 == 0 { r.bytes(ml % 5) } else { vec![] };
            let a = if be.has_aad() && ml % 4 == 1 { r.bytes(ml % 7) } else { vec![] };
            let n = r.bytes(nl);
            writeln!(out, "loc.seal {} {} {} {} {} {}", be.name(), hex(&key), hex(&n), hex(&msg), hex(&f), hex(&a)).unwrap();
            writeln!(out, "m.spec.loc.seal {} {} {} {} {} {} | loc.open {} {} $ {} want=ok:{}", be.name(), hex(&key), hex(&n), hex(&msg), hex(&f), hex(&a), be.name(), hex(&key), hex(&a), hex(&msg)).unwrap();
            // writers must not carry anything over from a *rejected* operation: a failing open directly before the next
            // seal / sign / open on the same thread (a reused scratch buffer that is only cleared on success shows here)
            if ml % 10 == 5 {
                if let Some(tok) = seal_local(be, &key, &n, &msg, &f, &a) {
                    let mut t = tok.into_bytes(); let k = t.len() - 1; t[k] = if t[k] == b'A' { b'B' } else { b'A' };
                    emit_open(out, be, &key, &String::from_utf8(t).unwrap(), &a, "err");
                    writeln!(out, "loc.seal {} {} {} {} {} {}", be.name(), hex(&key), hex(&n), hex(&msg), hex(&f), hex(&a)).unwrap();
                }
                if be != Be::V1 || ml % 40 == 5 {
                    if let Some(tok) = sign_own(be, &sk, &msg, &f, &a) {
                        let hdr = format!("v{}.public.", be.version());
                        let mut payload = unb64(tok[hdr.len()..].split('.').next().unwrap());
                        let k = payload.len() - 1; payload[k] ^= 1;
                        let mut bad = format!("{hdr}{}", b64(&payload));
                        if !f.is_empty() { bad.push('.'); bad.push_str(&b64(&f)); }
                        emit_popen(out, be, &pk, &bad, &a, "err");
                        emit_popen(out, be, &pk, &tok, &a, &format!("ok:{}", hex(&msg)));
                    }
                }
            }
            if be != Be::V1 || ml % 8 == 0 {
                let rnd = r.bytes(48);
                writeln!(out, "m.pub.sign {} {} {} {} {} {} | pub.open {} {} $ {} want=ok:{}", be.name(), hex(&sk), hex(&msg), hex(&f), hex(&a), hex(&rnd), be.name(), hex(&pk), hex(&a), hex(&msg)).unwrap();
            }
        }
    }
    let mlens: Vec<usize> = if thorough { vec![0, 1, 15, 16, 17, 63, 64, 65, 111, 112, 113, 127, 128, 129, 255, 256, 257, 383, 384, 385, 1000, 4096, 4097] } else { vec![0, 1, 64, 127, 128, 129, 256, 1000] };
    let flens: Vec<usize> = if thorough { vec![0, 1, 63, 64, 127, 128, 129, 256, 300, 1000] } else { vec![0, 1, 127, 128, 300] };
    for be in ALL_BE {
        let nl = local_nonce_len(be);
        let sk = gen_secret(be);
        let pk = public_of(be, &sk);
        let mut i = 0usize;
        for &ml in &mlens {
            for &fl in &flens {
                i += 1;
                if !thorough && i % 2 == 0 && ml != 128 && fl != 128 { continue; }
                let key = r.pattern(32);
                let msg = r.pattern(ml);
                let f = r.bytes(fl);
                let al = if be.has_aad() { *r.pick(&[0usize, 1, 127, 128, 129, 300]) } else { 0 };
                let a = r.bytes(al);
                let n = r.bytes(nl);
                writeln!(out, "loc.seal {} {} {} {} {} {}", be.name(), hex(&key), hex(&n), hex(&msg), hex(&f), hex(&a)).unwrap();
                writeln!(out, "m.spec.loc.seal {} {} {} {} {} {} | loc.open {} {} $ {} want=ok:{}", be.name(), hex(&key), hex(&n), hex(&msg), hex(&f), hex(&a), be.name(), hex(&key), hex(&a), hex(&msg)).unwrap();
                if be == Be::V3 || be == Be::V4 {
                    writeln!(out, "o.sib {} {} {} {} {} {}", be.version(), hex(&key), hex(&n), hex(&msg), hex(&f), hex(&a)).unwrap();
                }
                if (ml <= 1000 && fl <= 300 && be != Be::V1) || (ml == 128 && fl <= 128) {
                    let rnd = r.bytes(48);
                    writeln!(out, "m.pub.sign {} {} {} {} {} {} | pub.open {} {} $ {} want=ok:{}", be.name(), hex(&sk), hex(&msg), hex(&f), hex(&a), hex(&rnd), be.name(), hex(&pk), hex(&a), hex(&msg)).unwrap();
                    if let Some(tok) = sign_own(be, &sk, &msg, &f, &a) {
                        emit_popen(out, be, &pk, &tok, &a, &format!("ok:{}", hex(&msg)));
                    }
                }
            }
        }
    }
}
