//! the generic seal/unseal pipeline of paseto-core driven through a scripted fake `Version`,
//! and unsealing with validators on the real back ends
use crate::be::*;
use crate::exec::R;
use crate::util::*;
use crate::with_v;
use paseto_core::PasetoError;
use paseto_core::encodings::{Payload, WriteBytes};
use paseto_core::key::{HasKey, Key};
use paseto_core::paserk::KeyText;
use paseto_core::tokens::{SealedToken, UnsealedToken};
use paseto_core::validation::Validate;
use paseto_core::version::{Local, SealingVersion, UnsealingVersion, Version};
use std::cell::RefCell;
use std::error::Error;

thread_local! {
    static TRACE: RefCell<Vec<String>> = const { RefCell::new(Vec::new()) };
    static SCRIPT: RefCell<(u8, u8)> = const { RefCell::new((0, 0)) }; // (nonce code, seal code)
}
fn trace(s: String) {
    TRACE.with(|t| t.borrow_mut().push(s));
}

fn err_of(code: u8) -> PasetoError {
    match code {
        1 => PasetoError::InvalidToken,
        2 => PasetoError::CryptoError,
        3 => PasetoError::ClaimsError,
        4 => PasetoError::Base64DecodeError,
        _ => PasetoError::InvalidKey,
    }
}

/// scripted version: the first payload byte decides what `unseal` does
pub struct FV;
impl Version for FV {
    const HEADER: &'static str = "fv";
    const PASERK_HEADER: &'static str = "kf";
}
impl HasKey<Local> for FV {
    type Key = ();
    fn encode(_: &()) -> Box<[u8]> {
        Box::new([])
    }
    fn decode(_: &[u8]) -> Result<(), PasetoError> {
        Ok(())
    }
}
impl UnsealingVersion<Local> for FV {
    fn unseal<'a>(_: &(), _: &'static str, payload: &'a mut [u8], _: &[u8], _: &[u8]) -> Result<&'a [u8], PasetoError> {
        match payload.first().copied() {
            Some(0) => Ok(&payload[1..]),
            Some(c) => Err(err_of(c)),
            None => Err(PasetoError::InvalidToken),
        }
    }
}
impl SealingVersion<Local> for FV {
    fn unsealing_key(_: &()) {}
    fn random() -> Result<(), PasetoError> {
        Ok(())
    }
    fn nonce() -> Result<Vec<u8>, PasetoError> {
        trace("nonce".into());
        match SCRIPT.with(|s| s.borrow().0) {
            0 => Ok(b"NONCE".to_vec()),
            c => Err(err_of(c)),
        }
    }
    fn dangerous_seal_with_nonce(_: &(), _: &'static str, payload: Vec<u8>, _: &[u8], _: &[u8]) -> Result<Vec<u8>, PasetoError> {
        trace("vseal".into());
        match SCRIPT.with(|s| s.borrow().1) {
            0 => Ok(payload),
            c => Err(err_of(c)),
        }
    }
}

/// payload whose decoder records its invocation; first byte 1 => decode error; encode: first byte 9 => error
pub struct Rec(pub Vec<u8>);
impl Payload for Rec {
    const SUFFIX: &'static str = "";
    fn encode(self, mut w: impl WriteBytes) -> Result<(), Box<dyn Error + Send + Sync>> {
        trace("enc".into());
        if self.0.first() == Some(&9) {
            return Err("scripted encode failure".into());
        }
        w.write(&self.0);
        Ok(())
    }
    fn decode(p: &[u8]) -> Result<Self, Box<dyn Error + Send + Sync>> {
        trace(format!("dec:{}", hex(p)));
        if p.first() == Some(&1) { Err("scripted decode failure".into()) } else { Ok(Rec(p.to_vec())) }
    }
}
/// footer with scripted encode failure (first byte 9)
pub struct RecF(pub Vec<u8>);
impl paseto_core::encodings::Footer for RecF {
    fn encode(&self, mut w: impl WriteBytes) -> Result<(), Box<dyn Error + Send + Sync>> {
        trace("fenc".into());
        if self.0.first() == Some(&9) {
            return Err("scripted footer failure".into());
        }
        w.write(&self.0);
        Ok(())
    }
    fn decode(f: &[u8]) -> Result<Self, Box<dyn Error + Send + Sync>> {
        Ok(RecF(f.to_vec()))
    }
}
/// validator that records its invocation; second claims byte 1 => ClaimsError, 2 => CryptoError
pub struct RecV;
impl Validate for RecV {
    type Claims = Rec;
    fn validate(&self, c: &Rec) -> Result<(), PasetoError> {
        trace("val".into());
        match c.0.get(1) {
            Some(1) => Err(PasetoError::ClaimsError),
            Some(2) => Err(PasetoError::CryptoError),
            _ => Ok(()),
        }
    }
}

fn take_trace() -> String {
    TRACE.with(|t| {
        let v: Vec<String> = t.borrow_mut().drain(..).collect();
        if v.is_empty() { "-".to_string() } else { v.join("+") }
    })
}

fn pipe(payload: &[u8]) -> R {
    take_trace();
    let s = format!("fv.local.{}", crate::gen_text::b64(payload));
    let tok: SealedToken<FV, Local, Rec, Vec<u8>> = s.parse().map_err(|_| "bad-op".to_string())?;
    let key: Key<FV, Local> = KeyText::<FV, Local>::from_raw_bytes(&[]).try_into().map_err(|_| "bad-op".to_string())?;
    let r = tok.unseal(&key, &[], &RecV);
    let res = match &r {
        Ok(t) => format!("ok:{}", hex(&t.claims.0)),
        Err(e) => format!("err:{}", err_name(e)),
    };
    Ok(format!("res={} trace={}", res, take_trace()))
}

fn pipe_seal(ncode: u8, scode: u8, claims: &[u8], footer: &[u8]) -> R {
    take_trace();
    SCRIPT.with(|s| *s.borrow_mut() = (ncode, scode));
    let key: Key<FV, Local> = KeyText::<FV, Local>::from_raw_bytes(&[]).try_into().map_err(|_| "bad-op".to_string())?;
    let r = UnsealedToken::<FV, Local, Rec>::new(Rec(claims.to_vec())).with_footer(RecF(footer.to_vec())).seal(&key, &[]);
    let res = match &r {
        Ok(t) => format!("ok:{}", hex(t.to_string().as_bytes())),
        Err(e) => format!("err:{}", err_name(e)),
    };
    Ok(format!("res={} trace={}", res, take_trace()))
}

/// seal claims with a fresh local key of the back end, then decrypt with the validator expression
fn unseal_val(be: Be, vexpr: &str, claims: &str) -> R {
    let v = crate::exec2::parse_validator(vexpr).ok_or("bad-op")?;
    let c = crate::exec2::parse_claims(claims).ok_or("bad-op")?;
    with_v!(be, V => {
        let key = Key::<V, Local>::random().map_err(|_| "keygen".to_string())?;
        let nonce = <V as SealingVersion<Local>>::nonce().map_err(|_| "nonce".to_string())?;
        // v2's own nonce() is 32 bytes but 24 are consumed (known finding C01); give each version what it consumes
        let n = if be == Be::V2 { nonce[..24].to_vec() } else { nonce };
        let tok = UnsealedToken::<V, Local, paseto_json::RegisteredClaims>::new(c.clone())
            .dangerous_seal_with_nonce(&key, &[], n).map_err(|e| format!("seal-{}", err_name(&e)))?;
        let tok: SealedToken<V, Local, paseto_json::RegisteredClaims> = tok.to_string().parse().map_err(|_| "reparse".to_string())?;
        match tok.decrypt(&key, &v) {
            Ok(t) => Ok(crate::exec2::show_claims(&t.claims)),
            Err(e) => Err(err_name(&e).to_string()),
        }
    })
}

/// validators that are *values of the library's own types* (zero-sized ones included: `HasExpiry`, combinators of them,
/// unit structs), not the harness's expression interpreter: whether unsealing consults the validator must not depend on
/// what kind of value the validator is
struct RejectAll;
impl Validate for RejectAll {
    type Claims = paseto_json::RegisteredClaims;
    fn validate(&self, _: &Self::Claims) -> Result<(), PasetoError> { Err(PasetoError::ClaimsError) }
}
struct AcceptAll;
impl Validate for AcceptAll {
    type Claims = paseto_json::RegisteredClaims;
    fn validate(&self, _: &Self::Claims) -> Result<(), PasetoError> { Ok(()) }
}

fn unseal_zst(be: Be, claims: &str) -> R {
    use paseto_json::HasExpiry;
    let c = crate::exec2::parse_claims(claims).ok_or("bad-op")?;
    with_v!(be, V => {
        let key = Key::<V, Local>::random().map_err(|_| "keygen".to_string())?;
        let mk = || -> Result<SealedToken<V, Local, paseto_json::RegisteredClaims>, String> {
            let tok = UnsealedToken::<V, Local, paseto_json::RegisteredClaims>::new(c.clone()).encrypt(&key).map_err(|e| format!("seal-{}", err_name(&e)))?;
            tok.to_string().parse().map_err(|_| "reparse".to_string())
        };
        let r = |x: Result<_, PasetoError>| -> &'static str { match x { Ok(_) => "ok", Err(PasetoError::ClaimsError) => "claims", Err(_) => "other" } };
        let a = r(mk()?.decrypt(&key, &HasExpiry).map(|_| ()));
        let b = r(mk()?.decrypt(&key, &HasExpiry.and_then(HasExpiry)).map(|_| ()));
        let d = r(mk()?.decrypt(&key, &paseto_core::validation::NoValidation::dangerous_no_validation().and_then(HasExpiry)).map(|_| ()));
        let e = r(mk()?.decrypt(&key, &RejectAll).map(|_| ()));
        let f = r(mk()?.decrypt(&key, &AcceptAll).map(|_| ()));
        let g = r(mk()?.decrypt(&key, &AcceptAll.and_then(RejectAll)).map(|_| ()));
        let h = r(mk()?.decrypt(&key, &Box::new(HasExpiry)).map(|_| ()));
        let i = r(mk()?.decrypt(&key, &vec![HasExpiry, HasExpiry]).map(|_| ()));
        Ok(format!("hasexp={a} and={b} novand={d} reject={e} accept={f} accrej={g} boxed={h} slice={i} exp={}", c.exp.is_some() as u8))
    })
}

pub fn exec_more(t: &[&str]) -> R {
    let bad = || "bad-op".to_string();
    let hx = |i: usize| -> Result<Vec<u8>, String> { t.get(i).and_then(|s| unhex(s)).ok_or_else(bad) };
    match t[0] {
        "o.zst" => unseal_zst(Be::parse(t.get(1).ok_or_else(bad)?).ok_or_else(bad)?, t.get(2).ok_or_else(bad)?),
        "pipe" => pipe(&hx(1)?),
        "pipe.seal" => {
            let n: u8 = t.get(1).ok_or_else(bad)?.parse().map_err(|_| bad())?;
            let s: u8 = t.get(2).ok_or_else(bad)?.parse().map_err(|_| bad())?;
            pipe_seal(n, s, &hx(3)?, &hx(4)?)
        }
        "unseal.val" => unseal_val(Be::parse(t.get(1).ok_or_else(bad)?).ok_or_else(bad)?, t.get(2).ok_or_else(bad)?, t.get(3).ok_or_else(bad)?),
        _ => crate::exec4::exec_more(t),
    }
}
