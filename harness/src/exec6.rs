//! C16: randomised operations under a scripted OS random source (custom getrandom backend, only in the
//! `pm_custom_rng` build) and freshness of nonces over many consecutive operations (normal build).
use crate::be::*;
use crate::exec::R;
use crate::exec4::key_of;
use crate::util::*;
use crate::{with_sealing_kind, with_v};
use paseto_core::PasetoError;
use paseto_core::key::Key;
use paseto_core::paserk::PasswordWrappedKey;
use paseto_core::tokens::UnsealedToken;
use paseto_core::version::{Local, PkePublic, Secret};
use std::cell::RefCell;
use std::str::FromStr;

/// one scripted answer of the random source
#[derive(Clone)]
enum Ans {
    Bytes(Vec<u8>),      // these bytes, served as a stream across requests
    Any,                 // `*`: succeeds with a deterministic, draw-dependent pattern of the requested length
    Fail(i32),           // `!` (UNSUPPORTED), `!eN` (OS error N, e.g. 11 = EAGAIN, 4 = EINTR, 5 = EIO), `!cN` (custom error N)
    Partial(Vec<u8>),    // `~hex`: writes these bytes at the start of the buffer, then reports failure
}

thread_local! {
    static SCRIPT: RefCell<(Vec<Ans>, usize, usize, usize)> = const { RefCell::new((Vec::new(), 0, 0, 0)) };   // answers, next index, failures consumed, requests served
}

#[cfg(pm_custom_rng)]
fn mk_err(code: i32) -> getrandom::Error {
    match code {
        0 => getrandom::Error::UNSUPPORTED,
        c if c < 0 => getrandom::Error::new_custom((-c) as u16),
        // OS errors are stored negated in getrandom 0.3's `Error(NonZeroI32)`; there is no public constructor
        c => unsafe { std::mem::transmute::<i32, getrandom::Error>(-c) },
    }
}

#[cfg(pm_custom_rng)]
#[unsafe(no_mangle)]
unsafe extern "Rust" fn __getrandom_v03_custom(dest: *mut u8, len: usize) -> Result<(), getrandom::Error> {
    // The script is a *byte stream* with failure points: how the library chunks its requests (one 32-byte draw, two
    // 16-byte draws, a 1 KiB refill of a pool) is not something the property constrains.  Consecutive `Bytes` answers are
    // served across request boundaries; a request larger than what is scripted is completed with the filler pattern; an
    // exhausted script is a *working* source (filler).  A `Fail` / `Partial` answer fails the request that reaches it.
    SCRIPT.with(|s| {
        let mut s = s.borrow_mut();
        let mut off = 0usize;
        let call = s.3;
        s.3 += 1;
        while off < len {
            let i = s.1;
            let a = s.0.get(i).cloned();
            match a {
                Some(Ans::Bytes(b)) => {
                    let n = b.len().min(len - off);
                    unsafe { std::ptr::copy_nonoverlapping(b.as_ptr(), dest.add(off), n) };
                    off += n;
                    if n == b.len() { s.1 += 1; } else { s.0[i] = Ans::Bytes(b[n..].to_vec()); }
                }
                Some(Ans::Any) | None => {
                    for k in off..len { unsafe { *dest.add(k) = (0x5b ^ (call as u8).wrapping_mul(37) ^ (k as u8).wrapping_mul(101)).wrapping_add((k >> 8) as u8) }; }
                    off = len;
                    if a.is_some() { s.1 += 1; }
                }
                Some(Ans::Fail(c)) => { s.1 += 1; s.2 += 1; return Err(mk_err(c)); }
                Some(Ans::Partial(b)) => {
                    let n = b.len().min(len - off);
                    unsafe { std::ptr::copy_nonoverlapping(b.as_ptr(), dest.add(off), n) };
                    s.1 += 1; s.2 += 1;
                    return Err(getrandom::Error::UNEXPECTED);
                }
            }
        }
        Ok(())
    })
}

fn set_script(src: &str) -> Option<()> {
    let answers: Option<Vec<Ans>> = if src == "." {
        Some(vec![])
    } else {
        src.split(',').map(|a| {
            if a == "!" { Some(Ans::Fail(0)) }
            else if a == "*" { Some(Ans::Any) }
            else if let Some(n) = a.strip_prefix("!e") { n.parse::<i32>().ok().filter(|x| *x > 0).map(Ans::Fail) }
            else if let Some(n) = a.strip_prefix("!c") { n.parse::<i32>().ok().filter(|x| *x > 0).map(|x| Ans::Fail(-x)) }
            else if let Some(h) = a.strip_prefix('~') { unhex(h).map(Ans::Partial) }
            else { unhex(a).map(Ans::Bytes) }
        }).collect()
    };
    let answers = answers?;
    SCRIPT.with(|s| *s.borrow_mut() = (answers, 0, 0, 0));
    Some(())
}

fn script_stats() -> (usize, usize) {
    SCRIPT.with(|s| { let s = s.borrow(); (s.1, s.2) })
}

fn en(e: PasetoError) -> String {
    err_name(&e).to_string()
}

pub fn exec_more(t: &[&str]) -> R {
    let bad = || "bad-op".to_string();
    let hx = |i: usize| -> Result<Vec<u8>, String> { t.get(i).and_then(|s| unhex(s)).ok_or_else(bad) };
    let be = |i: usize| -> Result<Be, String> { t.get(i).and_then(|s| Be::parse(s)).ok_or_else(bad) };
    let kd = |i: usize| -> Result<Kind, String> { t.get(i).and_then(|s| Kind::parse(s)).ok_or_else(bad) };
    if t[0] == "o.rngf" {
        // oracle-only: any randomised operation of a getrandom-0.3-based back end under a scripted random source; reports whether the
        // operation produced an artefact and how many *failing* answers it consumed (sound for operations that draw elsewhere:
        // nothing consumed, nothing claimed)
        if !cfg!(pm_custom_rng) {
            return Err(bad());
        }
        let kind = *t.get(1).ok_or_else(bad)?;
        let b = be(2)?;
        if matches!(b, Be::V3Lc | Be::V4S) {
            return Err(bad());
        }
        set_script(t.get(3).ok_or_else(bad)?).ok_or_else(bad)?;
        let key32 = [0x11u8; 32];
        let r: Result<String, String> = with_v!(b, V => (|| -> Result<String, String> {
            match kind {
                "encrypt" => {
                    let k = key_of::<V, Local>(&key32).map_err(en)?;
                    Ok(UnsealedToken::<V, Local, Raw>::new(Raw(b"msg".to_vec())).encrypt(&k).map_err(en)?.to_string())
                }
                "sign" => {
                    let sk = key_of::<V, Secret>(&hx(4)?).map_err(en)?;
                    Ok(UnsealedToken::<V, paseto_core::version::Public, Raw>::new(Raw(b"msg".to_vec())).sign(&sk).map_err(en)?.to_string())
                }
                "pie" => {
                    let wk = key_of::<V, Local>(&key32).map_err(en)?;
                    Ok(key_of::<V, Local>(&[0x22u8; 32]).map_err(en)?.wrap_pie(&wk).map_err(en)?.to_string())
                }
                "pw" => {
                    let donor = String::from_utf8(hx(4)?).map_err(|_| bad())?;
                    let params = PasswordWrappedKey::<V, Local>::from_str(&donor).map_err(en)?.params().map_err(en)?;
                    Ok(key_of::<V, Local>(&[0x22u8; 32]).map_err(en)?.password_wrap_with_params(b"pw", &params).map_err(en)?.to_string())
                }
                "seal" => {
                    let pk = key_of::<V, PkePublic>(&hx(4)?).map_err(en)?;
                    Ok(key_of::<V, Local>(&[0x22u8; 32]).map_err(en)?.seal(&pk).map_err(en)?.to_string())
                }
                "lkey" => Ok(hex(Key::<V, Local>::random().map_err(en)?.expose_key().as_raw_bytes())),
                "skey" => {
                    if b == Be::V1 { return Err(bad()); }
                    Ok(hex(Key::<V, Secret>::random().map_err(en)?.expose_key().as_raw_bytes()))
                }
                _ => Err(bad()),
            }
        })());
        let (consumed, failed) = script_stats();
        return match r {
            Ok(a) => Ok(format!("produced=1 consumed={} failed={} art={}", consumed, failed, &hex(a.as_bytes())[..a.len().min(60)])),
            Err(e) if e == "bad-op" => Err(e),
            Err(e) => Ok(format!("produced=0 consumed={} failed={} err={}", consumed, failed, e)),
        };
    }
    if t[0].starts_with("rng.") {
        if !cfg!(pm_custom_rng) {
            return Err(bad());
        }
        let b = be(1)?;
        if matches!(b, Be::V3Lc | Be::V4S) {
            return Err(bad());
        }
        set_script(t.get(2).ok_or_else(bad)?).ok_or_else(bad)?;
        return match t[0] {
            "rng.encrypt" => {
                let (key, msg, f, a) = (hx(3)?, hx(4)?, hx(5)?, hx(6)?);
                with_v!(b, V => {
                    let k = key_of::<V, Local>(&key).map_err(en)?;
                    let tok = UnsealedToken::<V, Local, Raw>::new(Raw(msg)).with_footer(f).encrypt_with_aad(&k, &a).map_err(en)?;
                    Ok(hex(tok.to_string().as_bytes()))
                })
            }
            "rng.pie" => {
                let (k, wk, key) = (kd(3)?, hx(4)?, hx(5)?);
                with_v!(b, V => with_sealing_kind!(k, K => {
                    let wk = key_of::<V, Local>(&wk).map_err(en)?;
                    let w = key_of::<V, K>(&key).map_err(en)?.wrap_pie(&wk).map_err(en)?;
                    Ok(hex(w.to_string().as_bytes()))
                }, else Err(bad())))
            }
            "rng.pw" => {
                let (k, pass, donor, key) = (kd(3)?, hx(4)?, String::from_utf8(hx(5)?).map_err(|_| bad())?, hx(6)?);
                with_v!(b, V => with_sealing_kind!(k, K => {
                    let params = PasswordWrappedKey::<V, K>::from_str(&donor).map_err(en)?.params().map_err(en)?;
                    let w = key_of::<V, K>(&key).map_err(en)?.password_wrap_with_params(&pass, &params).map_err(en)?;
                    Ok(hex(w.to_string().as_bytes()))
                }, else Err(bad())))
            }
            "rng.seal" => {
                let (pk, key) = (hx(3)?, hx(4)?);
                with_v!(b, V => {
                    let pk = key_of::<V, PkePublic>(&pk).map_err(en)?;
                    let s = key_of::<V, Local>(&key).map_err(en)?.seal(&pk).map_err(en)?;
                    Ok(hex(s.to_string().as_bytes()))
                })
            }
            "rng.lkey" => with_v!(b, V => Ok(hex(Key::<V, Local>::random().map_err(en)?.expose_key().as_raw_bytes()))),
            "rng.skey" => {
                if b == Be::V1 {
                    return Err(bad()); // RSA key generation uses rsa's OsRng (getrandom 0.2): not scriptable
                }
                with_v!(b, V => Ok(hex(Key::<V, Secret>::random().map_err(en)?.expose_key().as_raw_bytes())))
            }
            _ => Err(bad()),
        };
    }
    match t[0] {
        // oracle-only, normal build: n consecutive operations, the nonce / salt / ephemeral key / generated key of each extracted
        // from the artefact; all must be pairwise distinct
        "o.fresh" => {
            let (b, what, n) = (be(1)?, *t.get(2).ok_or_else(bad)?, t.get(3).ok_or_else(bad)?.parse::<usize>().map_err(|_| bad())?);
            let mut seen = std::collections::HashSet::new();
            let mut seen_salt = std::collections::HashSet::new();
            let mut prev: Option<String> = None;
            let key = [7u8; 32];
            let (psk, ppk) = if what == "seal" { crate::gen_paserk::pke_pair(b) } else { (vec![], vec![]) };
            let _ = psk;
            for _ in 0..n {
                let field: Vec<u8> = with_v!(b, V => {
                    let k = key_of::<V, Local>(&key).map_err(en)?;
                    match what {
                        "encrypt" => {
                            let tok = UnsealedToken::<V, Local, Raw>::new(Raw(b"same message".to_vec())).encrypt(&k).map_err(en)?.to_string();
                            let p = crate::gen_tok::unb64(tok.rsplit('.').next().unwrap());
                            p[..24.min(p.len())].to_vec()
                        }
                        "pie" => {
                            let w = key_of::<V, Local>(&key).map_err(en)?.wrap_pie(&k).map_err(en)?.to_string();
                            let p = crate::gen_tok::unb64(w.rsplit('.').next().unwrap());
                            let tl = if b.version() % 2 == 1 { 48 } else { 32 };
                            p[tl..tl + 32].to_vec()
                        }
                        "pw" => {
                            // the cost parameters are read from the *previous output* (the usual re-wrap / password-change
                            // sequence), the first time from a hand-built template
                            let donor = prev.clone().unwrap_or_else(|| crate::gen_paserk::pw_template_pub(b, &crate::gen_paserk::min_params(b)));
                            let params = PasswordWrappedKey::<V, Local>::from_str(&donor).map_err(en)?.params().map_err(en)?;
                            let w = key_of::<V, Local>(&key).map_err(en)?.password_wrap_with_params(b"pw", &params).map_err(en)?.to_string();
                            prev = Some(w.clone());
                            let p = crate::gen_tok::unb64(w.rsplit('.').next().unwrap());
                            let pl = if b.version() % 2 == 1 { 52 } else { 56 };
                            // salt and nonce: both must be fresh; the parameter block in between is constant
                            p[..pl].to_vec()
                        }
                        "seal" => {
                            let pk = key_of::<V, PkePublic>(&ppk).map_err(en)?;
                            let s = key_of::<V, Local>(&key).map_err(en)?.seal(&pk).map_err(en)?.to_string();
                            let p = crate::gen_tok::unb64(s.rsplit('.').next().unwrap());
                            match b.version() { 1 => p[80..].to_vec(), 3 => p[48..97].to_vec(), _ => p[32..64].to_vec() }
                        }
                        "lkey" => Key::<V, Local>::random().map_err(en)?.expose_key().as_raw_bytes().to_vec(),
                        "skey" => Key::<V, Secret>::random().map_err(en)?.expose_key().as_raw_bytes().to_vec(),
                        _ => return Err(bad()),
                    }
                });
                // password wrapping draws two values: the salt and the nonce must *each* be fresh (not merely the pair)
                if what == "pw" {
                    let (sl, nl) = if b.version() % 2 == 1 { (32, 16) } else { (16, 24) };
                    let salt = field[..sl].to_vec();
                    let nonce = field[field.len() - nl..].to_vec();
                    if !seen_salt.insert(salt) { return Ok(format!("distinct=0 n={n} repeated=salt")); }
                    if !seen.insert(nonce) { return Ok(format!("distinct=0 n={n} repeated=nonce")); }
                    continue;
                }
                if !seen.insert(field) {
                    return Ok(format!("distinct=0 n={n}"));
                }
            }
            Ok(format!("distinct=1 n={n}"))
        }
        _ => crate::exec7::exec_more(t),
    }
}
