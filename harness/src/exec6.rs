//! RNG, concurrency — filled in with the model
use crate::exec::R;
pub fn exec_more(_t: &[&str]) -> R {
    Err("bad-op".into())
}
