#!/bin/sh
# Build the framework from files on disk only (offline).
set -e
cd "$(dirname "$0")"
export CARGO_NET_OFFLINE=true
mkdir -p .build/run
[ -f harness/Cargo.lock ] || cp /repo/Cargo.lock harness/Cargo.lock
[ -f probes/Cargo.lock ] || cp /repo/Cargo.lock probes/Cargo.lock
(cd harness && cargo build --release --offline 2>&1 | tail -3)
upd() { # $1 = generated file, $2 = destination
  if ! cmp -s "$1" "$2"; then mv "$1" "$2"; else rm "$1"; fi
}
./.build/target/release/pm facts > lean/PasetoModel/Extracted/Headers.lean.new && upd lean/PasetoModel/Extracted/Headers.lean.new lean/PasetoModel/Extracted/Headers.lean
./.build/target/release/pm impls > lean/PasetoModel/Extracted/Impls.lean.new && upd lean/PasetoModel/Extracted/Impls.lean.new lean/PasetoModel/Extracted/Impls.lean
python3 tools/apiscan.py > lean/PasetoModel/Extracted/Api.lean.new && upd lean/PasetoModel/Extracted/Api.lean.new lean/PasetoModel/Extracted/Api.lean
python3 tools/ffiscan.py > lean/PasetoModel/Extracted/Ffi.lean.new 2>/dev/null && upd lean/PasetoModel/Extracted/Ffi.lean.new lean/PasetoModel/Extracted/Ffi.lean
python3 tools/b64scan.py > lean/PasetoModel/Extracted/B64Src.lean.new 2>/dev/null && upd lean/PasetoModel/Extracted/B64Src.lean.new lean/PasetoModel/Extracted/B64Src.lean
python3 tools/srcscan.py > lean/PasetoModel/Extracted/Source.lean.new && upd lean/PasetoModel/Extracted/Source.lean.new lean/PasetoModel/Extracted/Source.lean
python3 tools/featscan.py > lean/PasetoModel/Extracted/Features.lean.new && upd lean/PasetoModel/Extracted/Features.lean.new lean/PasetoModel/Extracted/Features.lean
(cd lean && lake build PasetoModel pmdriver 2>&1 | grep -v "^trace\|^warning\|Hint\|\[apply\]\|^Note\|^$\|^  " | tail -15)
