#!/bin/sh
# Build the framework from files on disk only (offline).
set -e
cd "$(dirname "$0")"
export CARGO_NET_OFFLINE=true
mkdir -p .build/run
[ -f harness/Cargo.lock ] || cp /repo/Cargo.lock harness/Cargo.lock
(cd harness && cargo build --release --offline 2>&1 | tail -3)
./.build/target/release/pm facts > lean/PasetoModel/Extracted/Headers.lean.new
if ! cmp -s lean/PasetoModel/Extracted/Headers.lean.new lean/PasetoModel/Extracted/Headers.lean; then
  mv lean/PasetoModel/Extracted/Headers.lean.new lean/PasetoModel/Extracted/Headers.lean
else
  rm lean/PasetoModel/Extracted/Headers.lean.new
fi
(cd lean && lake build PasetoModel pmdriver 2>&1 | grep -v "^trace\|^warning\|Hint\|\[apply\]\|^Note\|^$\|^  " | tail -15)
