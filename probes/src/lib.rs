//! support for the compile probes: a raw-bytes payload type and type aliases for the six back ends
pub use paseto_core::key::Key;
pub use paseto_core::tokens::{SealedToken, UnsealedToken};
pub use paseto_core::validation::NoValidation;
pub use paseto_core::version::{Local, PkePublic, PkeSecret, Public, Secret};
use paseto_core::encodings::{Payload, WriteBytes};
use std::error::Error;

pub type V1 = paseto_v1::core::V1;
pub type V2 = paseto_v2::core::V2;
pub type V3 = paseto_v3::core::V3;
pub type V3lc = paseto_v3_aws_lc::core::V3;
pub type V4 = paseto_v4::core::V4;
pub type V4s = paseto_v4_sodium::core::V4;

pub struct Raw(pub Vec<u8>);
impl Payload for Raw {
    const SUFFIX: &'static str = "";
    fn encode(self, mut w: impl WriteBytes) -> Result<(), Box<dyn Error + Send + Sync>> {
        w.write(&self.0);
        Ok(())
    }
    fn decode(p: &[u8]) -> Result<Self, Box<dyn Error + Send + Sync>> {
        Ok(Raw(p.to_vec()))
    }
}
pub fn nv() -> NoValidation<Raw> {
    NoValidation::dangerous_no_validation()
}
