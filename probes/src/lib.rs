//! support for the compile probes: a raw-bytes payload type and type aliases for the six back ends
pub use paseto_core::key::Key;
pub use paseto_core::tokens::{SealedToken, UnsealedToken};
pub use paseto_core::validation::NoValidation;
pub use paseto_core::version::{Local, PkePublic, PkeSecret, Public, Secret};
use paseto_core::encodings::{Payload, WriteBytes};
use std::error::Error;

pub type V1 = paseto_v1::core::V1;
pub type V2 = paseto_v2::core::V2;
pub type V3 = paseto_v3::core::V3;
pub type V3lc = paseto_v3_aws_lc::core::V3;
pub type V4 = paseto_v4::core::V4;
pub type V4s = paseto_v4_sodium::core::V4;

/// implements every trait a blanket impl on tokens could be conditioned on (so a forbidden impl cannot hide behind a bound)
#[derive(Clone, Debug, Default, PartialEq, Eq, PartialOrd, Ord, Hash)]
pub struct Raw(pub Vec<u8>);
impl Payload for Raw {
    const SUFFIX: &'static str = "";
    fn encode(self, mut w: impl WriteBytes) -> Result<(), Box<dyn Error + Send + Sync>> {
        w.write(&self.0);
        Ok(())
    }
    fn decode(p: &[u8]) -> Result<Self, Box<dyn Error + Send + Sync>> {
        Ok(Raw(p.to_vec()))
    }
}
pub fn nv() -> NoValidation<Raw> {
    NoValidation::dangerous_no_validation()
}

impl paseto_core::encodings::Footer for Raw {
    fn encode(&self, mut w: impl WriteBytes) -> Result<(), Box<dyn Error + Send + Sync>> {
        w.write(&self.0);
        Ok(())
    }
    fn decode(p: &[u8]) -> Result<Self, Box<dyn Error + Send + Sync>> {
        Ok(Raw(p.to_vec()))
    }
}
impl std::fmt::Display for Raw {
    fn fmt(&self, f: &mut std::fmt::Formatter<'_>) -> std::fmt::Result {
        write!(f, "{} bytes", self.0.len())
    }
}
impl serde_core::Serialize for Raw {
    fn serialize<S: serde_core::Serializer>(&self, s: S) -> Result<S::Ok, S::Error> {
        s.serialize_bytes(&self.0)
    }
}
impl<'de> serde_core::Deserialize<'de> for Raw {
    fn deserialize<D: serde_core::Deserializer<'de>>(d: D) -> Result<Self, D::Error> {
        let s = <String as serde_core::Deserialize>::deserialize(d)?;
        Ok(Raw(s.into_bytes()))
    }
}
