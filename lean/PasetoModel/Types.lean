import PasetoModel.Extracted.Impls
/-! Typing rules of the public operations (C18): the trait bounds of each operation, transcribed from
    the signatures in paseto-core, evaluated over the implementation table that rustc reports
    (`Extracted/Impls.lean`), versus the policy the property states. -/
namespace PM.Types
open PM Extracted.Impls

/-- the operations of the misuse catalogue; type arguments are (token / key) back end and kind.
    Two back ends are "the same version type" only if they are the same back end: `paseto_v3::V3` and
    `paseto_v3_aws_lc::V3` are distinct types. -/
inductive TOp
  | sealTok (tv : Backend) (p : Purpose) (kv : Backend) (kk : Kind)       -- `UnsealedToken<tv,p>::seal(&Key<kv,kk>)`
  | unsealTok (tv : Backend) (p : Purpose) (kv : Backend) (kk : Kind)     -- `SealedToken<tv,p>::unseal(&Key<kv,kk>, ..)`
  | encrypt (tv : Backend) (p : Purpose) (kv : Backend) (kk : Kind)    -- `.encrypt(&key)` exists on `UnencryptedToken` only
  | decrypt (tv : Backend) (p : Purpose) (kv : Backend) (kk : Kind)
  | sign (tv : Backend) (p : Purpose) (kv : Backend) (kk : Kind)
  | verify (tv : Backend) (p : Purpose) (kv : Backend) (kk : Kind)
  | wrapPie (v : Backend) (k : Kind) (wv : Backend) (wk : Kind)        -- `Key<v,k>::wrap_pie(&Key<wv,wk>)`
  | pwWrap (v : Backend) (k : Kind)                                    -- `Key<v,k>::password_wrap(..)`
  | sealKey (v : Backend) (k : Kind) (pv : Backend) (pk : Kind)        -- `Key<v,k>::seal(&Key<pv,pk>)`
  | displayKey (v : Backend) (k : Kind) | debugKey (v : Backend) (k : Kind)
  | serializeKey (v : Backend) (k : Kind)
  | displaySealed (v : Backend) (p : Purpose)
  | displayUnsealed (v : Backend) (p : Purpose) | serializeUnsealed (v : Backend) (p : Purpose)
  | fieldFooter | fieldPayload | unverifiedFooter
  | exposeKey (v : Backend) (k : Kind) | publicKey (v : Backend) (k : Kind) | keyId (v : Backend) (k : Kind)
  deriving DecidableEq, Repr

def sealingKeyOf : Purpose → Kind | .localP => .localK | .publicP => .secretK

def unsealingV (v : Backend) : Purpose → Bool | .localP => unsealingLocal v | .publicP => unsealingPublic v
def sealingV (v : Backend) : Purpose → Bool | .localP => sealingLocal v | .publicP => sealingPublic v

/-- does rustc accept the program?  (the bounds of the signature, over the extracted impl table) -/
def typechecks : TOp → Bool
  -- `impl<V: SealingVersion<P>, P: Purpose, ..> UnsealedToken<V,P,..> { fn seal(self, key: &Key<V, P::SealingKey>, ..) }`
  | .sealTok tv p kv kk => sealingV tv p && decide (tv = kv) && decide (kk = sealingKeyOf p) && hasKey kv kk
  | .unsealTok tv p kv kk => unsealingV tv p && decide (tv = kv) && decide (kk = p.toKind) && hasKey kv kk
  -- the aliases: `encrypt` / `decrypt` only on local tokens, `sign` / `verify` only on public tokens
  | .encrypt tv p kv kk => decide (p = .localP) && sealingV tv .localP && decide (tv = kv) && decide (kk = .localK) && hasKey kv kk
  | .decrypt tv p kv kk => decide (p = .localP) && unsealingV tv .localP && decide (tv = kv) && decide (kk = .localK) && hasKey kv kk
  | .sign tv p kv kk => decide (p = .publicP) && sealingV tv .publicP && decide (tv = kv) && decide (kk = .secretK) && hasKey kv kk
  | .verify tv p kv kk => decide (p = .publicP) && unsealingV tv .publicP && decide (tv = kv) && decide (kk = .publicK) && hasKey kv kk
  -- `impl<V: PieWrapVersion + HasKey<K>, K: SealingKey> Key<V,K> { fn wrap_pie(self, with: &LocalKey<V>) }`
  | .wrapPie v k wv wk => pieWrap v && hasKey v k && sealingKeyMarker k && decide (v = wv) && decide (wk = .localK)
  | .pwWrap v k => pwWrap v && hasKey v k && sealingKeyMarker k
  -- `impl<V: PkeSealingVersion> LocalKey<V> { fn seal(self, with: &Key<V, PkePublic>) }`
  | .sealKey v k pv pk => pkeSealing v && decide (k = .localK) && decide (v = pv) && decide (pk = .pkePublic)
  | .displayKey v k => keyDisplay v k
  | .debugKey v k => keyDebug v k
  | .serializeKey v k => keySerialize v k
  | .displaySealed v p => (match p with | .localP => sealedLocalDisplay v | .publicP => sealedPublicDisplay v)
  | .displayUnsealed v p => (match p with | .localP => unsealedLocalDisplay v | .publicP => unsealedPublicDisplay v)
  | .serializeUnsealed v p => (match p with | .localP => unsealedLocalSerialize v | .publicP => unsealedPublicSerialize v)
  | .fieldFooter => false            -- `pub(crate)` fields
  | .fieldPayload => false
  | .unverifiedFooter => true
  | .exposeKey v k => hasKey v k
  | .publicKey v k => decide (k = .secretK) && sealingV v .publicP
  | .keyId v k => idVersion v && hasKey v k

/-- the property's policy: which programs must compile -/
def allowed : TOp → Bool
  | .sealTok tv p kv kk => decide (tv = kv) && decide (kk = sealingKeyOf p)
  | .unsealTok tv p kv kk => decide (tv = kv) && decide (kk = p.toKind)
  | .encrypt tv p kv kk => decide (p = .localP) && decide (tv = kv) && decide (kk = .localK)
  | .decrypt tv p kv kk => decide (p = .localP) && decide (tv = kv) && decide (kk = .localK)
  | .sign tv p kv kk => decide (p = .publicP) && decide (tv = kv) && decide (kk = .secretK)
  | .verify tv p kv kk => decide (p = .publicP) && decide (tv = kv) && decide (kk = .publicK)
  | .wrapPie v k wv wk => (decide (k = .localK) || decide (k = .secretK)) && decide (v = wv) && decide (wk = .localK)
  | .pwWrap _ k => decide (k = .localK) || decide (k = .secretK)
  | .sealKey v k pv pk => decide (k = .localK) && decide (v = pv) && decide (pk = .pkePublic)
  | .displayKey _ k => decide (k = .publicK)          -- only public keys may be printed
  | .debugKey _ _ => false
  | .serializeKey _ _ => false
  | .displaySealed _ _ => true
  | .displayUnsealed _ _ => false                     -- an unsealed plaintext token cannot be serialised
  | .serializeUnsealed _ _ => false
  | .fieldFooter => false
  | .fieldPayload => false
  | .unverifiedFooter => true
  | .exposeKey _ _ => true                            -- the explicit expose call
  | .publicKey _ k => decide (k = .secretK)
  | .keyId _ _ => true

end PM.Types
