import PasetoModel.Validate
/-! `RegisteredClaims` wire form: mirror of the hand-written `Serialize` / `Deserialize` visitor in
    `paseto-json/src/lib.rs`, at the level of serde's data model.  A JSON object is the list of
    its members in document order (duplicates allowed).  `serde_json`'s tokenizer and jiff's
    RFC 3339 codec are dependencies: a string value carries, next to its bytes, what jiff's
    timestamp parser makes of it (`ts`), supplied by the implementation in the correspondence. -/
namespace PM

inductive JVal
  | null
  | str (s : Bytes) (ts : Option Int)   -- string; `ts` = result of jiff's timestamp parser on it
  | num | bool | arr | obj
  deriving DecidableEq, Repr

abbrev Members := List (Bytes × JVal)

/-- the seven registered claims -/
inductive Fld | iss | sub | aud | exp | nbf | iat | jti
  deriving DecidableEq, Repr

def Fld.all : List Fld := [.iss, .sub, .aud, .exp, .nbf, .iat, .jti]

/-- wire names: "iss" "sub" "aud" "exp" "nbf" "iat" "jti" -/
def Fld.name : Fld → Bytes
  | .iss => [105, 115, 115] | .sub => [115, 117, 98] | .aud => [97, 117, 100]
  | .exp => [101, 120, 112] | .nbf => [110, 98, 102] | .iat => [105, 97, 116] | .jti => [106, 116, 105]

/-- `RegisteredClaimFieldVisitor::visit_bytes`: match on the key bytes, otherwise `Ignored` -/
def fieldOf (k : Bytes) : Option Fld :=
  if k = Fld.iss.name then some .iss else if k = Fld.sub.name then some .sub
  else if k = Fld.aud.name then some .aud else if k = Fld.exp.name then some .exp
  else if k = Fld.nbf.name then some .nbf else if k = Fld.iat.name then some .iat
  else if k = Fld.jti.name then some .jti else none

def Fld.isTime : Fld → Bool | .exp | .nbf | .iat => true | _ => false

/-- a decoded field value: string bytes or timestamp -/
inductive FVal | s (b : Bytes) | t (ns : Int)
  deriving DecidableEq, Repr

/-- `map.next_value::<Option<String>>()` / `::<Option<jiff::Timestamp>>()`:
    `null ↦ None`, a (parsable) string ↦ `Some`, anything else is a type error (`none`) -/
def convO (f : Fld) : JVal → Option (Option FVal)
  | .null => some none
  | .str s ts => if f.isTime then (match ts with | some t => some (some (.t t)) | none => none)
                 else some (some (.s s))
  | _ => none

abbrev Acc := Fld → Option FVal
def Acc.empty : Acc := fun _ => none
def Acc.set (a : Acc) (f : Fld) (v : Option FVal) : Acc := fun g => if g = f then v else a g

/-- the `while let Some(key) = map.next_key()?` loop of `visit_map`; every failure is a
    `serde_json::Error`, surfaced as `PayloadError` -/
def decodeGo : Members → Acc → Res Acc
  | [], acc => .ok acc
  | (k, v) :: rest, acc =>
    match fieldOf k with
    | some f =>
      if (acc f).isSome then .err .payload          -- `duplicate_field`
      else match convO f v with
        | some x => decodeGo rest (acc.set f x)
        | none => .err .payload                      -- invalid type / unparsable timestamp
    | none => decodeGo rest acc                       -- `IgnoredAny`

def getS : Option FVal → Option Bytes | some (.s b) => some b | _ => none
def getT : Option FVal → Option Int | some (.t n) => some n | _ => none

def Acc.toClaims (a : Acc) : Claims :=
  { iss := getS (a .iss), sub := getS (a .sub), aud := getS (a .aud),
    exp := getT (a .exp), nbf := getT (a .nbf), iat := getT (a .iat), jti := getS (a .jti) }

def Claims.get (c : Claims) : Fld → Option FVal
  | .iss => c.iss.map .s | .sub => c.sub.map .s | .aud => c.aud.map .s
  | .exp => c.exp.map .t | .nbf => c.nbf.map .t | .iat => c.iat.map .t | .jti => c.jti.map .s

/-- `Payload::decode` for `RegisteredClaims`: the top-level value must be a JSON object
    (`none` = any other JSON value or malformed text) -/
def claimsDecode (top : Option Members) : Res Claims :=
  match top with
  | none => .err .payload
  | some l => (decodeGo l Acc.empty).map Acc.toClaims

/-- the manual `Serialize`: fixed order, `None` omitted; timestamps written with jiff's formatter
    `fmt` (what jiff's parser reads back from it is the timestamp itself: dependency law,
    validated on the implementation by the `claims.enc` stream) -/
def claimsEncode (fmt : Int → Bytes) (c : Claims) : Members :=
  Fld.all.filterMap (fun f => match c.get f with
    | some (.s b) => some (f.name, .str b none)
    | some (.t n) => some (f.name, .str (fmt n) (some n))
    | none => none)

/-- what a generic JSON parser (last duplicate wins) reads for a member -/
def lookupLast (l : Members) (k : Bytes) : Option JVal :=
  match l with
  | [] => none
  | (k', v) :: rest => match lookupLast rest k with
    | some x => some x
    | none => if k' = k then some v else none

end PM

namespace PM
/-- `Json<T>` as payload / footer: `serde_json::to_writer` / `from_slice`, except that the empty
    footer is an error ("missing footer") -/
def jsonPayloadEncode {α} (ser : α → Bytes) (x : α) : Bytes := ser x
def jsonPayloadDecode {α} (de : Bytes → Option α) (b : Bytes) : Option α := de b
def jsonFooterEncode {α} (ser : α → Bytes) (x : α) : Bytes := ser x
def jsonFooterDecode {α} (de : Bytes → Option α) (b : Bytes) : Option α :=
  match b with
  | [] => none
  | x => de x
end PM
