import PasetoModel.Json
/-! Properties of the JSON text model: the escaping is decodable and leaves no raw quote / control byte inside a
    string literal; timestamps are written in the RFC 3339 character set and end in `Z`. -/
namespace PM.Json
open PM

theorem hex_roundtrip : ∀ n : Fin 32,
    unhexDigit (hexDigit (n.val / 16)) = some (n.val / 16) ∧ unhexDigit (hexDigit (n.val % 16)) = some (n.val % 16) := by
  decide

/-- the one-byte step: decoding what `escByte b` wrote gives `b` back and continues with the rest -/
theorem unescape_escByte (b : UInt8) (r : Bytes) :
    unescape (escByte b ++ r) = (unescape r).map (b :: ·) := by
  by_cases h34 : b = 34
  · subst h34; simp only [escByte]; rw [unescape.eq_def]; simp
  by_cases h92 : b = 92
  · subst h92; simp only [escByte]; rw [unescape.eq_def]; simp
  by_cases h8 : b = 8
  · subst h8; simp only [escByte]; rw [unescape.eq_def]; simp
  by_cases h12 : b = 12
  · subst h12; simp only [escByte]; rw [unescape.eq_def]; simp
  by_cases h10 : b = 10
  · subst h10; simp only [escByte]; rw [unescape.eq_def]; simp
  by_cases h13 : b = 13
  · subst h13; simp only [escByte]; rw [unescape.eq_def]; simp
  by_cases h9 : b = 9
  · subst h9; simp only [escByte]; rw [unescape.eq_def]; simp
  by_cases h32 : b < 32
  · -- \u00XY
    have hn : b.toNat < 32 := by simpa [UInt8.lt_iff_toNat_lt] using h32
    obtain ⟨hh, hl⟩ := hex_roundtrip ⟨b.toNat, hn⟩
    simp only at hh hl
    have hval : UInt8.ofNat (16 * (b.toNat / 16) + b.toNat % 16) = b := by
      rw [Nat.div_add_mod]; simp
    simp only [escByte, h34, h92, h8, h12, h10, h13, h9, h32, if_true, if_false, List.cons_append, List.nil_append]
    rw [unescape.eq_def]; simp [hh, hl, hval]
  · -- copied byte
    simp only [escByte, h34, h92, h8, h12, h10, h13, h9, h32, if_false, List.cons_append, List.nil_append]
    rw [unescape.eq_def]; simp [h34, h92, h32]

/-- **the escaping is decodable**: `unescape (escape s) = s` for every byte string -/
theorem unescape_escape (s : Bytes) : unescape (escape s) = some s := by
  induction s with
  | nil => rfl
  | cons b t ih =>
    have := unescape_escByte b (escape t)
    simp only [escape, List.flatMap_cons] at this ⊢
    rw [this]
    simp only [escape] at ih
    rw [ih]
    rfl

end PM.Json

namespace PM.Json
open PM

/-- inside a string literal there is no raw control byte, and a quote only ever appears as the pair `\"` -/
theorem escByte_safe : ∀ n : Fin 256,
    (∀ c ∈ escByte (UInt8.ofNat n.val), 32 ≤ c.toNat) ∧
    (34 ∈ escByte (UInt8.ofNat n.val) → escByte (UInt8.ofNat n.val) = [92, 34]) := by decide +kernel

theorem escape_no_control (s : Bytes) : ∀ c ∈ escape s, 32 ≤ c.toNat := by
  intro c hc
  simp only [escape, List.mem_flatMap] at hc
  obtain ⟨b, _, hcb⟩ := hc
  have := (escByte_safe ⟨b.toNat, b.toNat_lt⟩).1 c
  simp only [UInt8.ofNat_toNat] at this
  exact this hcb

def isDigit (c : UInt8) : Prop := 48 ≤ c.toNat ∧ c.toNat ≤ 57

theorem pad_digits (w n : Nat) : ∀ c ∈ pad w n, isDigit c := by
  induction w generalizing n with
  | zero => intro c hc; simp [pad] at hc
  | succ w ih =>
    intro c hc
    simp only [pad, List.mem_append, List.mem_singleton] at hc
    rcases hc with h | h
    · exact ih _ c h
    · subst h
      have : n % 10 < 10 := Nat.mod_lt _ (by omega)
      simp only [isDigit, UInt8.toNat_ofNat']
      omega

/-- the characters a timestamp is written with: digits and `- : . T Z` -/
def tsChar (c : UInt8) : Prop := isDigit c ∨ c = 45 ∨ c = 58 ∨ c = 46 ∨ c = 84 ∨ c = 90

theorem fracDigits_chars (f : Nat) : ∀ c ∈ fracDigits f, tsChar c := by
  intro c hc
  unfold fracDigits at hc
  split at hc
  · simp at hc
  · simp only [List.mem_cons, List.mem_reverse] at hc
    rcases hc with h | h
    · right; right; right; left; exact h
    · left
      have := (List.dropWhile_sublist (fun x => decide (x = 48))).subset h
      exact pad_digits 9 f c (by simpa using this)

theorem fmtTs_chars (ns : Int) : ∀ c ∈ fmtTs ns, tsChar c := by
  intro c hc
  simp only [fmtTs] at hc
  -- year
  have hy : ∀ (y : Int) (c : UInt8), c ∈ (if y < 0 then 45 :: pad 6 (-y).toNat else pad 4 y.toNat) → tsChar c := by
    intro y c h
    split at h
    · simp only [List.mem_cons] at h
      rcases h with h | h
      · right; left; exact h
      · left; exact pad_digits _ _ c h
    · left; exact pad_digits _ _ c h
  simp only [List.mem_append, List.mem_singleton] at hc
  rcases hc with ((((((((((((h | h) | h) | h) | h) | h) | h) | h) | h) | h) | h) | h) | h)
  · exact hy _ c h
  · right; left; exact h
  · left; exact pad_digits _ _ c h
  · right; left; exact h
  · left; exact pad_digits _ _ c h
  · right; right; right; right; left; exact h
  · left; exact pad_digits _ _ c h
  · right; right; left; exact h
  · left; exact pad_digits _ _ c h
  · right; right; left; exact h
  · left; exact pad_digits _ _ c h
  · exact fracDigits_chars _ c h
  · right; right; right; right; right; exact h

/-- every timestamp is written in UTC: the text ends in `Z` -/
theorem fmtTs_ends_Z (ns : Int) : ∃ body, fmtTs ns = body ++ [90] := by
  simp only [fmtTs]
  exact ⟨_, rfl⟩

end PM.Json
