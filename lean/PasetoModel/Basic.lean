/-! Common vocabulary of the model: bytes, results with explicit panic sites, slice helpers.
    Import-free (core only) so that the driver links as a native executable. -/
namespace PM

abbrev Bytes := List UInt8

/-- `PasetoError` variants (payload error carries no data in the model). -/
inductive Err | base64 | invalidKey | invalidToken | crypto | claims | payload
  deriving DecidableEq, Repr, Inhabited

/-- Result of a modelled Rust function: `Ok`, `Err(PasetoError)`, or a panic at a named site. -/
inductive Res (α : Type) | ok (a : α) | err (e : Err) | panic (site : String)
  deriving Repr, DecidableEq

namespace Res
@[inline] def bind {α β} (r : Res α) (f : α → Res β) : Res β :=
  match r with | .ok a => f a | .err e => .err e | .panic s => .panic s
@[inline] def map {α β} (f : α → β) (r : Res α) : Res β := r.bind (fun a => .ok (f a))
def isOk {α} : Res α → Bool | .ok _ => true | _ => false
def isPanic {α} : Res α → Bool | .panic _ => true | _ => false
instance : Monad Res where
  pure := .ok
  bind := Res.bind
end Res

/-- `Option::ok_or(e)?` -/
@[inline] def okOr {α} (o : Option α) (e : Err) : Res α :=
  match o with | some a => .ok a | none => .err e

def xor : Bytes → Bytes → Bytes
  | a :: as, b :: bs => (a ^^^ b) :: xor as bs
  | _, _ => []

/-- `split_last_chunk::<n>` / `split_at(len - n)` guarded by `len >= n` -/
def splitLast (n : Nat) (l : Bytes) : Option (Bytes × Bytes) :=
  if l.length < n then none else some (l.take (l.length - n), l.drop (l.length - n))
/-- `split_first_chunk::<n>` -/
def splitFirst (n : Nat) (l : Bytes) : Option (Bytes × Bytes) :=
  if l.length < n then none else some (l.take n, l.drop n)

/-- `strip_prefix` on byte strings -/
def stripPrefix (p s : Bytes) : Option Bytes :=
  if p.isPrefixOf s then some (s.drop p.length) else none

def le64 (n : Nat) : Bytes :=
  [UInt8.ofNat n, UInt8.ofNat (n / 2^8), UInt8.ofNat (n / 2^16), UInt8.ofNat (n / 2^24),
   UInt8.ofNat (n / 2^32), UInt8.ofNat (n / 2^40), UInt8.ofNat (n / 2^48), UInt8.ofNat (n / 2^56)]

def fromLe64 : Bytes → Nat
  | [b0,b1,b2,b3,b4,b5,b6,b7] => b0.toNat + 2^8 * b1.toNat + 2^16 * b2.toNat + 2^24 * b3.toNat
      + 2^32 * b4.toNat + 2^40 * b5.toNat + 2^48 * b6.toNat + 2^56 * b7.toNat
  | _ => 0

def be32 (n : Nat) : Bytes :=
  [UInt8.ofNat (n / 2^24), UInt8.ofNat (n / 2^16), UInt8.ofNat (n / 2^8), UInt8.ofNat n]
def be64 (n : Nat) : Bytes := be32 (n / 2^32) ++ be32 n
def fromBe : Bytes → Nat := List.foldl (fun acc b => acc * 256 + b.toNat) 0

/-- big-endian, exactly `n` bytes (high part truncated) -/
def natToBe : Nat → Nat → Bytes
  | 0, _ => []
  | n + 1, x => UInt8.ofNat (x / 256 ^ n) :: natToBe n x

/-- minimal big-endian bytes (`BigUint::to_bytes_be`: zero ↦ [0]) -/
def natToBeMin (x : Nat) : Bytes :=
  if x = 0 then [0] else
  let rec len (fuel y acc : Nat) : Nat := match fuel with
    | 0 => acc
    | f+1 => if y = 0 then acc else len f (y / 256) (acc + 1)
  natToBe (len (Nat.log2 x + 1) x 0) x

def str (s : String) : Bytes := s.toUTF8.toList

/-- full-length comparison of tags (model of the constant-time comparisons) -/
def tagEq (a b : Bytes) : Bool := a == b

/-! ### lemmas -/

theorem xor_length (a b : Bytes) (h : a.length = b.length) : (xor a b).length = a.length := by
  induction a generalizing b with
  | nil => simp [xor]
  | cons x xs ih => cases b with
    | nil => simp at h
    | cons y ys => simp [xor, ih ys (by simpa using h)]

theorem xor_xor (a b : Bytes) (h : a.length = b.length) : xor (xor a b) b = a := by
  induction a generalizing b with
  | nil => simp [xor]
  | cons x xs ih => cases b with
    | nil => simp at h
    | cons y ys =>
      simp only [xor, List.cons.injEq]
      refine ⟨?_, ih ys (by simpa using h)⟩
      rw [UInt8.xor_assoc, UInt8.xor_self, UInt8.xor_zero]

theorem splitLast_append (n : Nat) (x t : Bytes) (h : t.length = n) :
    splitLast n (x ++ t) = some (x, t) := by
  unfold splitLast
  have : ¬ (x ++ t).length < n := by simp; omega
  rw [if_neg this]
  have e : (x ++ t).length - n = x.length := by simp; omega
  rw [e, List.take_left, List.drop_left]

theorem splitFirst_append (n : Nat) (x y : Bytes) (h : x.length = n) :
    splitFirst n (x ++ y) = some (x, y) := by
  unfold splitFirst
  have : ¬ (x ++ y).length < n := by simp; omega
  rw [if_neg this, ← h, List.take_left, List.drop_left]

theorem splitLast_some {n : Nat} {l x t : Bytes} (h : splitLast n l = some (x, t)) :
    l = x ++ t ∧ t.length = n := by
  unfold splitLast at h; split at h
  · simp at h
  · simp only [Option.some.injEq, Prod.mk.injEq] at h
    refine ⟨by rw [← h.1, ← h.2, List.take_append_drop], ?_⟩
    rw [← h.2]; simp; omega

theorem splitFirst_some {n : Nat} {l x y : Bytes} (h : splitFirst n l = some (x, y)) :
    l = x ++ y ∧ x.length = n := by
  unfold splitFirst at h; split at h
  · simp at h
  · simp only [Option.some.injEq, Prod.mk.injEq] at h
    refine ⟨by rw [← h.1, ← h.2, List.take_append_drop], ?_⟩
    rw [← h.1]; simp; omega

theorem splitLast_none {n : Nat} {l : Bytes} : splitLast n l = none ↔ l.length < n := by
  unfold splitLast; split <;> simp_all
theorem splitFirst_none {n : Nat} {l : Bytes} : splitFirst n l = none ↔ l.length < n := by
  unfold splitFirst; split <;> simp_all

theorem natToBe_length (n x : Nat) : (natToBe n x).length = n := by
  induction n with
  | zero => rfl
  | succ n ih => simp [natToBe, ih]

theorem foldl_natToBe (n x acc : Nat) :
    List.foldl (fun acc (b : UInt8) => acc * 256 + b.toNat) acc (natToBe n x) = acc * 256 ^ n + x % 256 ^ n := by
  induction n generalizing acc with
  | zero => simp [natToBe, Nat.mod_one]
  | succ n ih =>
    simp only [natToBe, List.foldl_cons, ih, UInt8.toNat_ofNat']
    have hm : x % 256 ^ (n + 1) = x % 256 ^ n + 256 ^ n * (x / 256 ^ n % 256) := by
      rw [Nat.pow_succ, Nat.mod_mul]
    have hp : acc * 256 ^ (n + 1) = acc * 256 * 256 ^ n := by
      rw [Nat.pow_succ, Nat.mul_assoc, Nat.mul_comm (256 ^ n) 256]
    rw [hm, hp, Nat.add_mul, Nat.mul_comm (x / 256 ^ n % 256) (256 ^ n)]
    omega

/-- fixed-width big-endian serialisation round-trips for values that fit -/
theorem fromBe_natToBe (n x : Nat) (h : x < 256 ^ n) : fromBe (natToBe n x) = x := by
  unfold fromBe
  rw [foldl_natToBe, Nat.mod_eq_of_lt h]; simp

theorem le64_length (n : Nat) : (le64 n).length = 8 := rfl

theorem fromLe64_le64 (n : Nat) (h : n < 2^64) : fromLe64 (le64 n) = n := by
  simp only [le64, fromLe64, UInt8.toNat_ofNat']
  omega

theorem tagEq_iff (a b : Bytes) : tagEq a b = true ↔ a = b := by
  simp [tagEq]

theorem stripPrefix_append (p s : Bytes) : stripPrefix p (p ++ s) = some s := by
  simp [stripPrefix]

theorem stripPrefix_some {p s r : Bytes} (h : stripPrefix p s = some r) : s = p ++ r := by
  unfold stripPrefix at h
  split at h
  · rename_i hp
    have := List.isPrefixOf_iff_prefix.mp hp
    obtain ⟨t, rfl⟩ := this
    simp at h; rw [h]
  · simp at h

end PM
