import PasetoModel.Json
/-! # The calendar step of the RFC 3339 text is invertible

`Json.civil` (days since 1970-01-01 ↦ year, month, day; the step `fmtTs` takes before it prints the date) has Hinnant's
`days_from_civil` as a left inverse, for every day number, with no bound: distinct days print as distinct dates, and the
month and day it prints are always in range.  `omega` closes the 400-year-era step only after a split on the century of
the era and the century of the year. -/
namespace PM.Json

/-- Hinnant's `days_from_civil` -/
def daysFromCivil (y0 : Int) (m d : Nat) : Int :=
  let y := if m ≤ 2 then y0 - 1 else y0
  let era := y.fdiv 400
  let yoe := (y - era * 400).toNat
  let mp := if m > 2 then m - 3 else m + 9
  let doy := (153 * mp + 2) / 5 + d - 1
  let doe := yoe * 365 + yoe / 4 - yoe / 100 + doy
  era * 146097 + (doe : Int) - 719468

theorem doe_step (doe : Nat) (h : doe < 146097) :
    let yoe := (doe - doe / 1460 + doe / 36524 - doe / 146096) / 365
    yoe < 400 ∧ 365 * yoe + yoe / 4 - yoe / 100 ≤ doe ∧ doe - (365 * yoe + yoe / 4 - yoe / 100) < 366 := by
  intro yoe
  have hc : doe / 36524 = 0 ∨ doe / 36524 = 1 ∨ doe / 36524 = 2 ∨ doe / 36524 = 3 ∨ doe / 36524 = 4 := by omega
  have hy : yoe / 100 = 0 ∨ yoe / 100 = 1 ∨ yoe / 100 = 2 ∨ yoe / 100 = 3 := by omega
  rcases hc with hc | hc | hc | hc | hc <;> rcases hy with hy | hy | hy | hy <;> omega

theorem doy_step (doy : Nat) (h : doy < 366) :
    let mp := (5 * doy + 2) / 153
    mp < 12 ∧ (153 * mp + 2) / 5 ≤ doy ∧ doy - (153 * mp + 2) / 5 < 31 := by
  intro mp
  omega

theorem fdiv_unique (y e : Int) (r : Nat) (hr : r < 400) (h : y = (r : Int) + e * 400) : y.fdiv 400 = e := by
  rw [Int.fdiv_eq_ediv_of_nonneg _ (by omega)]; omega

theorem fdiv_spec (z : Int) : 0 ≤ z - z.fdiv 146097 * 146097 ∧ z - z.fdiv 146097 * 146097 < 146097 := by
  rw [Int.fdiv_eq_ediv_of_nonneg _ (by omega)]; omega

theorem daysFromCivil_civil (z : Int) :
    daysFromCivil (civil z).1 (civil z).2.1 (civil z).2.2 = z := by
  have hs := fdiv_spec (z + 719468)
  generalize hera : (z + 719468).fdiv 146097 = era at hs
  generalize hdoe : ((z + 719468) - era * 146097).toNat = doe
  have hdoe' : ((z + 719468) - era * 146097) = (doe : Int) := by omega
  have hlt : doe < 146097 := by omega
  have h1 := doe_step doe hlt
  generalize hyoe : (doe - doe / 1460 + doe / 36524 - doe / 146096) / 365 = yoe at h1
  simp only at h1
  generalize hdoy : doe - (365 * yoe + yoe / 4 - yoe / 100) = doy at h1
  have h2 := doy_step doy h1.2.2
  generalize hmp : (5 * doy + 2) / 153 = mp at h2
  simp only at h2
  simp only [civil, hera, hdoe, hyoe, hdoy, hmp]
  unfold daysFromCivil
  by_cases hm : mp < 10
  · have e1 : ((yoe : Int) + era * 400 + 0).fdiv 400 = era := fdiv_unique _ era yoe h1.1 (by omega)
    have e2 : ((yoe : Int) + era * 400 + 0 - era * 400).toNat = yoe := by omega
    simp only [hm, if_true, show ¬ (mp + 3 ≤ 2) by omega, if_false, show mp + 3 > 2 by omega, e1, e2,
      show mp + 3 - 3 = mp by omega]
    clear hyoe hs hera e1 e2
    omega
  · have hm' : mp - 9 ≤ 2 := by omega
    have e1 : ((yoe : Int) + era * 400 + 1 - 1).fdiv 400 = era := fdiv_unique _ era yoe h1.1 (by omega)
    have e2 : ((yoe : Int) + era * 400 + 1 - 1 - era * 400).toNat = yoe := by omega
    simp only [hm, if_false, hm', if_true, show ¬ (mp - 9 > 2) by omega, e1, e2,
      show mp - 9 + 9 = mp by omega]
    clear hyoe hs hera e1 e2
    omega

theorem civil_injective (z₁ z₂ : Int) (h : civil z₁ = civil z₂) : z₁ = z₂ := by
  rw [← daysFromCivil_civil z₁, ← daysFromCivil_civil z₂, h]

/-- the month is 1 … 12 and the day 1 … 31, for every day number -/
theorem civil_in_range (z : Int) :
    1 ≤ (civil z).2.1 ∧ (civil z).2.1 ≤ 12 ∧ 1 ≤ (civil z).2.2 ∧ (civil z).2.2 ≤ 31 := by
  have hs := fdiv_spec (z + 719468)
  generalize hera : (z + 719468).fdiv 146097 = era at hs
  generalize hdoe : ((z + 719468) - era * 146097).toNat = doe
  have hlt : doe < 146097 := by omega
  have h1 := doe_step doe hlt
  generalize hyoe : (doe - doe / 1460 + doe / 36524 - doe / 146096) / 365 = yoe at h1
  simp only at h1
  generalize hdoy : doe - (365 * yoe + yoe / 4 - yoe / 100) = doy at h1
  have h2 := doy_step doy h1.2.2
  generalize hmp : (5 * doy + 2) / 153 = mp at h2
  simp only at h2
  simp only [civil, hera, hdoe, hyoe, hdoy, hmp]
  by_cases hm : mp < 10
  · simp only [hm, if_true]; omega
  · simp only [hm, if_false]; omega

/-! ### digits and time of day -/

/-- the number a run of ASCII digits denotes (most significant first) -/
def digitsVal (bs : Bytes) : Nat := bs.foldl (fun a b => a * 10 + (b.toNat - 48)) 0

theorem digitsVal_snoc (xs : Bytes) (b : UInt8) : digitsVal (xs ++ [b]) = digitsVal xs * 10 + (b.toNat - 48) := by
  simp [digitsVal, List.foldl_append]

theorem pad_length (w n : Nat) : (pad w n).length = w := by
  induction w generalizing n with
  | zero => simp [pad]
  | succ w ih => simp [pad, ih]

/-- reading the `w` digits `pad w n` writes gives `n` back, whenever `n` fits in `w` digits -/
theorem digitsVal_pad (w n : Nat) (h : n < 10 ^ w) : digitsVal (pad w n) = n := by
  induction w generalizing n with
  | zero => simp at h; subst h; simp [pad, digitsVal]
  | succ w ih =>
    have h' : n / 10 < 10 ^ w := by rw [Nat.pow_succ] at h; omega
    rw [pad, digitsVal_snoc, ih _ h']
    have : (UInt8.ofNat (48 + n % 10)).toNat = 48 + n % 10 := by
      rw [UInt8.toNat_ofNat']; omega
    rw [this]; omega

theorem sod_fields (sod : Nat) (h : sod < 86400) :
    sod / 3600 < 24 ∧ sod % 3600 / 60 < 60 ∧ sod % 60 < 60 ∧
      (sod / 3600) * 3600 + (sod % 3600 / 60) * 60 + sod % 60 = sod := by
  omega

/-- the numbers `fmtTs` prints: (year, month, day), hour, minute, second, nanoseconds of the second -/
def tsFields (ns : Int) : (Int × Nat × Nat) × Nat × Nat × Nat × Nat :=
  let secs := ns.fdiv 1000000000
  let frac := (ns.fmod 1000000000).toNat
  let days := secs.fdiv 86400
  let sod := (secs.fmod 86400).toNat
  (civil days, sod / 3600, sod % 3600 / 60, sod % 60, frac)

/-- the printed numbers determine the instant, for every `ns : Int` (no range restriction) -/
theorem tsFields_injective (a b : Int) (h : tsFields a = tsFields b) : a = b := by
  simp only [tsFields, Prod.mk.injEq] at h
  obtain ⟨hc, hh, hm, hs, hf⟩ := h
  have hd := civil_injective _ _ hc
  rw [Int.fdiv_eq_ediv_of_nonneg _ (by omega), Int.fdiv_eq_ediv_of_nonneg _ (by omega),
      Int.fdiv_eq_ediv_of_nonneg _ (by omega), Int.fdiv_eq_ediv_of_nonneg _ (by omega)] at hd
  rw [Int.fmod_eq_emod_of_nonneg _ (by omega), Int.fmod_eq_emod_of_nonneg _ (by omega)] at hf
  rw [Int.fmod_eq_emod_of_nonneg _ (by omega), Int.fmod_eq_emod_of_nonneg _ (by omega),
      Int.fdiv_eq_ediv_of_nonneg _ (by omega), Int.fdiv_eq_ediv_of_nonneg _ (by omega)] at hh hm hs
  omega

/-! ### the fraction -/

theorem takeWhile_all (p : UInt8 → Bool) : ∀ (r : Bytes) (b : UInt8), b ∈ r.takeWhile p → p b = true
  | [], b, h => by simp at h
  | x :: r, b, h => by
      by_cases hx : p x = true
      · rw [List.takeWhile_cons_of_pos hx] at h
        rcases List.mem_cons.mp h with rfl | h'
        · exact hx
        · exact takeWhile_all p r b h'
      · rw [List.takeWhile_cons_of_neg hx] at h; simp at h

/-- stripping trailing `0`s and putting them back is the identity -/
theorem strip_restore (l : Bytes) :
    (l.reverse.dropWhile (· = 48)).reverse ++ List.replicate (l.length - (l.reverse.dropWhile (· = 48)).length) 48 = l := by
  have h1 : l.reverse.takeWhile (· = 48) = List.replicate (l.reverse.takeWhile (· = 48)).length 48 := by
    rw [List.eq_replicate_iff]
    refine ⟨rfl, fun b hb => ?_⟩
    have := takeWhile_all _ _ b hb
    simpa using this
  have h2 : l.reverse = l.reverse.takeWhile (· = 48) ++ l.reverse.dropWhile (· = 48) := (List.takeWhile_append_dropWhile).symm
  have h3 : l.length = (l.reverse.takeWhile (· = 48)).length + (l.reverse.dropWhile (· = 48)).length := by
    have := congrArg List.length h2
    rw [List.length_append, List.length_reverse] at this
    exact this
  have h4 : l = (l.reverse.dropWhile (· = 48)).reverse ++ (l.reverse.takeWhile (· = 48)).reverse := by
    have := congrArg List.reverse h2
    rw [List.reverse_reverse, List.reverse_append] at this
    exact this
  rw [h1, List.reverse_replicate] at h4
  have h5 : l.length - (l.reverse.dropWhile (· = 48)).length = (l.reverse.takeWhile (· = 48)).length := by omega
  rw [h5]
  exact h4.symm

/-- the fraction reads back: the digits after the point, padded on the right with `0` to nine, denote `f` -/
theorem frac_reads_back (f : Nat) (h0 : 0 < f) (h : f < 10 ^ 9) :
    ∃ ds, fracDigits f = 46 :: ds ∧ ds.length ≤ 9 ∧ digitsVal (ds ++ List.replicate (9 - ds.length) 48) = f := by
  refine ⟨((pad 9 f).reverse.dropWhile (· = 48)).reverse, ?_, ?_, ?_⟩
  · simp [fracDigits, show f ≠ 0 by omega]
  · have h2 : (pad 9 f).reverse = (pad 9 f).reverse.takeWhile (· = 48) ++ (pad 9 f).reverse.dropWhile (· = 48) :=
      (List.takeWhile_append_dropWhile).symm
    have := congrArg List.length h2
    rw [List.length_append, List.length_reverse, pad_length] at this
    rw [List.length_reverse]; omega
  · have := strip_restore (pad 9 f)
    rw [pad_length] at this
    rw [List.length_reverse, this]
    exact digitsVal_pad 9 f h

/-- the text `fmtTs` writes, as a function of the printed numbers alone -/
def renderFields : (Int × Nat × Nat) × Nat × Nat × Nat × Nat → Bytes
  | ((y, m, d), hh, mm, ss, frac) =>
    let year := if y < 0 then 45 :: pad 6 (-y).toNat else pad 4 y.toNat
    year ++ [45] ++ pad 2 m ++ [45] ++ pad 2 d ++ [84] ++ pad 2 hh ++ [58] ++ pad 2 mm ++ [58] ++
      pad 2 ss ++ fracDigits frac ++ [90]

theorem fmtTs_eq_render (ns : Int) : fmtTs ns = renderFields (tsFields ns) := by
  rfl

/-! ### reading the whole text back (years 0 … 9999) -/

theorem len2 (l : Bytes) (h : l.length = 2) : ∃ a b, l = [a, b] := by
  match l, h with
  | [a, b], _ => exact ⟨a, b, rfl⟩

theorem len4 (l : Bytes) (h : l.length = 4) : ∃ a b c d, l = [a, b, c, d] := by
  match l, h with
  | [a, b, c, d], _ => exact ⟨a, b, c, d, rfl⟩

/-- the date-time body of a non-negative year is read back field by field at fixed offsets -/
theorem body_reads_back (y m d hh mm ss : Nat) (tail : Bytes)
    (hy : y < 10 ^ 4) (hm : m < 10 ^ 2) (hd : d < 10 ^ 2) (hh' : hh < 10 ^ 2) (hmm : mm < 10 ^ 2) (hss : ss < 10 ^ 2) :
    let t := pad 4 y ++ [45] ++ pad 2 m ++ [45] ++ pad 2 d ++ [84] ++ pad 2 hh ++ [58] ++ pad 2 mm ++ [58] ++ pad 2 ss ++ tail
    digitsVal (t.take 4) = y ∧ digitsVal ((t.drop 5).take 2) = m ∧ digitsVal ((t.drop 8).take 2) = d ∧
      digitsVal ((t.drop 11).take 2) = hh ∧ digitsVal ((t.drop 14).take 2) = mm ∧ digitsVal ((t.drop 17).take 2) = ss ∧
      t.drop 19 = tail := by
  have ey := digitsVal_pad 4 y hy
  have em := digitsVal_pad 2 m hm
  have ed := digitsVal_pad 2 d hd
  have eh := digitsVal_pad 2 hh hh'
  have emi := digitsVal_pad 2 mm hmm
  have es := digitsVal_pad 2 ss hss
  obtain ⟨y1, y2, y3, y4, hY⟩ := len4 _ (pad_length 4 y)
  obtain ⟨m1, m2, hM⟩ := len2 _ (pad_length 2 m)
  obtain ⟨d1, d2, hD⟩ := len2 _ (pad_length 2 d)
  obtain ⟨h1, h2, hH⟩ := len2 _ (pad_length 2 hh)
  obtain ⟨i1, i2, hI⟩ := len2 _ (pad_length 2 mm)
  obtain ⟨s1, s2, hS⟩ := len2 _ (pad_length 2 ss)
  rw [hY] at ey; rw [hM] at em; rw [hD] at ed; rw [hH] at eh; rw [hI] at emi; rw [hS] at es
  intro t
  simp only [t, hY, hM, hD, hH, hI, hS]
  simp only [List.cons_append, List.nil_append, List.take_succ_cons, List.take_zero, List.drop_succ_cons, List.drop_zero]
  exact ⟨ey, em, ed, eh, emi, es, trivial⟩

/-- the optional fraction and the final `Z` -/
def readFrac : Bytes → Nat
  | 46 :: r => digitsVal (r.dropLast ++ List.replicate (9 - r.dropLast.length) 48)
  | _ => 0

/-- a reader for the text `fmtTs` writes for years 0 … 9999 (fixed offsets; optional fraction before the final `Z`) -/
def readTs (t : Bytes) : Int :=
  let y := digitsVal (t.take 4)
  let m := digitsVal ((t.drop 5).take 2)
  let d := digitsVal ((t.drop 8).take 2)
  let hh := digitsVal ((t.drop 11).take 2)
  let mm := digitsVal ((t.drop 14).take 2)
  let ss := digitsVal ((t.drop 17).take 2)
  let frac := readFrac (t.drop 19)
  (daysFromCivil (y : Int) m d * 86400 + ((hh * 3600 + mm * 60 + ss : Nat) : Int)) * 1000000000 + (frac : Int)

theorem readTs_fmtTs (ns : Int)
    (hy0 : 0 ≤ (civil ((ns.fdiv 1000000000).fdiv 86400)).1) (hy1 : (civil ((ns.fdiv 1000000000).fdiv 86400)).1 < 10000) :
    readTs (fmtTs ns) = ns := by
  have hrange := civil_in_range ((ns.fdiv 1000000000).fdiv 86400)
  have hinv := daysFromCivil_civil ((ns.fdiv 1000000000).fdiv 86400)
  generalize hc : civil ((ns.fdiv 1000000000).fdiv 86400) = c at *
  obtain ⟨y, m, d⟩ := c
  simp only at hy0 hy1 hrange hinv
  generalize hsod : ((ns.fdiv 1000000000).fmod 86400).toNat = sod
  have hsodlt : sod < 86400 := by
    rw [Int.fmod_eq_emod_of_nonneg _ (by omega)] at hsod; omega
  have hsf := sod_fields sod hsodlt
  generalize hfr : (ns.fmod 1000000000).toNat = frac
  have hfrlt : frac < 10 ^ 9 := by
    rw [Int.fmod_eq_emod_of_nonneg _ (by omega)] at hfr; omega
  have hfmt : fmtTs ns = pad 4 y.toNat ++ [45] ++ pad 2 m ++ [45] ++ pad 2 d ++ [84] ++ pad 2 (sod / 3600) ++ [58] ++
      pad 2 (sod % 3600 / 60) ++ [58] ++ pad 2 (sod % 60) ++ (fracDigits frac ++ [90]) := by
    simp only [fmtTs, hc, hsod, hfr, show ¬ (y < 0) by omega, if_false, List.append_assoc]
  have hb := body_reads_back y.toNat m d (sod / 3600) (sod % 3600 / 60) (sod % 60) (fracDigits frac ++ [90])
    (by omega) (by omega) (by omega) (by omega) (by omega) (by omega)
  simp only at hb
  rw [← hfmt] at hb
  obtain ⟨b1, b2, b3, b4, b5, b6, b7⟩ := hb
  have hfrac : readFrac (fracDigits frac ++ [90]) = frac := by
    by_cases h0 : frac = 0
    · subst h0; rfl
    · obtain ⟨ds, e1, _, e3⟩ := frac_reads_back frac (by omega) hfrlt
      rw [e1]
      show digitsVal ((ds ++ [90]).dropLast ++ List.replicate (9 - (ds ++ [90]).dropLast.length) 48) = frac
      rw [List.dropLast_concat]
      exact e3
  unfold readTs
  simp only [b1, b2, b3, b4, b5, b6, b7, hfrac]
  rw [show ((y.toNat : Nat) : Int) = y by omega, hinv]
  rw [Int.fmod_eq_emod_of_nonneg _ (by omega)] at hsod hfr
  rw [Int.fdiv_eq_ediv_of_nonneg _ (by omega), Int.fdiv_eq_ediv_of_nonneg _ (by omega)]
  rw [Int.fdiv_eq_ediv_of_nonneg _ (by omega)] at hsod
  omega

end PM.Json
