import PasetoModel.Json
/-! # The calendar step of the RFC 3339 text is invertible

`Json.civil` (days since 1970-01-01 ↦ year, month, day; the step `fmtTs` takes before it prints the date) has Hinnant's
`days_from_civil` as a left inverse, for every day number, with no bound: distinct days print as distinct dates, and the
month and day it prints are always in range.  `omega` closes the 400-year-era step only after a split on the century of
the era and the century of the year. -/
namespace PM.Json

/-- Hinnant's `days_from_civil` -/
def daysFromCivil (y0 : Int) (m d : Nat) : Int :=
  let y := if m ≤ 2 then y0 - 1 else y0
  let era := y.fdiv 400
  let yoe := (y - era * 400).toNat
  let mp := if m > 2 then m - 3 else m + 9
  let doy := (153 * mp + 2) / 5 + d - 1
  let doe := yoe * 365 + yoe / 4 - yoe / 100 + doy
  era * 146097 + (doe : Int) - 719468

theorem doe_step (doe : Nat) (h : doe < 146097) :
    let yoe := (doe - doe / 1460 + doe / 36524 - doe / 146096) / 365
    yoe < 400 ∧ 365 * yoe + yoe / 4 - yoe / 100 ≤ doe ∧ doe - (365 * yoe + yoe / 4 - yoe / 100) < 366 := by
  intro yoe
  have hc : doe / 36524 = 0 ∨ doe / 36524 = 1 ∨ doe / 36524 = 2 ∨ doe / 36524 = 3 ∨ doe / 36524 = 4 := by omega
  have hy : yoe / 100 = 0 ∨ yoe / 100 = 1 ∨ yoe / 100 = 2 ∨ yoe / 100 = 3 := by omega
  rcases hc with hc | hc | hc | hc | hc <;> rcases hy with hy | hy | hy | hy <;> omega

theorem doy_step (doy : Nat) (h : doy < 366) :
    let mp := (5 * doy + 2) / 153
    mp < 12 ∧ (153 * mp + 2) / 5 ≤ doy ∧ doy - (153 * mp + 2) / 5 < 31 := by
  intro mp
  omega

theorem fdiv_unique (y e : Int) (r : Nat) (hr : r < 400) (h : y = (r : Int) + e * 400) : y.fdiv 400 = e := by
  rw [Int.fdiv_eq_ediv_of_nonneg _ (by omega)]; omega

theorem fdiv_spec (z : Int) : 0 ≤ z - z.fdiv 146097 * 146097 ∧ z - z.fdiv 146097 * 146097 < 146097 := by
  rw [Int.fdiv_eq_ediv_of_nonneg _ (by omega)]; omega

theorem daysFromCivil_civil (z : Int) :
    daysFromCivil (civil z).1 (civil z).2.1 (civil z).2.2 = z := by
  have hs := fdiv_spec (z + 719468)
  generalize hera : (z + 719468).fdiv 146097 = era at hs
  generalize hdoe : ((z + 719468) - era * 146097).toNat = doe
  have hdoe' : ((z + 719468) - era * 146097) = (doe : Int) := by omega
  have hlt : doe < 146097 := by omega
  have h1 := doe_step doe hlt
  generalize hyoe : (doe - doe / 1460 + doe / 36524 - doe / 146096) / 365 = yoe at h1
  simp only at h1
  generalize hdoy : doe - (365 * yoe + yoe / 4 - yoe / 100) = doy at h1
  have h2 := doy_step doy h1.2.2
  generalize hmp : (5 * doy + 2) / 153 = mp at h2
  simp only at h2
  simp only [civil, hera, hdoe, hyoe, hdoy, hmp]
  unfold daysFromCivil
  by_cases hm : mp < 10
  · have e1 : ((yoe : Int) + era * 400 + 0).fdiv 400 = era := fdiv_unique _ era yoe h1.1 (by omega)
    have e2 : ((yoe : Int) + era * 400 + 0 - era * 400).toNat = yoe := by omega
    simp only [hm, if_true, show ¬ (mp + 3 ≤ 2) by omega, if_false, show mp + 3 > 2 by omega, e1, e2,
      show mp + 3 - 3 = mp by omega]
    clear hyoe hs hera e1 e2
    omega
  · have hm' : mp - 9 ≤ 2 := by omega
    have e1 : ((yoe : Int) + era * 400 + 1 - 1).fdiv 400 = era := fdiv_unique _ era yoe h1.1 (by omega)
    have e2 : ((yoe : Int) + era * 400 + 1 - 1 - era * 400).toNat = yoe := by omega
    simp only [hm, if_false, hm', if_true, show ¬ (mp - 9 > 2) by omega, e1, e2,
      show mp - 9 + 9 = mp by omega]
    clear hyoe hs hera e1 e2
    omega

theorem civil_injective (z₁ z₂ : Int) (h : civil z₁ = civil z₂) : z₁ = z₂ := by
  rw [← daysFromCivil_civil z₁, ← daysFromCivil_civil z₂, h]

/-- the month is 1 … 12 and the day 1 … 31, for every day number -/
theorem civil_in_range (z : Int) :
    1 ≤ (civil z).2.1 ∧ (civil z).2.1 ≤ 12 ∧ 1 ≤ (civil z).2.2 ∧ (civil z).2.2 ≤ 31 := by
  have hs := fdiv_spec (z + 719468)
  generalize hera : (z + 719468).fdiv 146097 = era at hs
  generalize hdoe : ((z + 719468) - era * 146097).toNat = doe
  have hlt : doe < 146097 := by omega
  have h1 := doe_step doe hlt
  generalize hyoe : (doe - doe / 1460 + doe / 36524 - doe / 146096) / 365 = yoe at h1
  simp only at h1
  generalize hdoy : doe - (365 * yoe + yoe / 4 - yoe / 100) = doy at h1
  have h2 := doy_step doy h1.2.2
  generalize hmp : (5 * doy + 2) / 153 = mp at h2
  simp only at h2
  simp only [civil, hera, hdoe, hyoe, hdoy, hmp]
  by_cases hm : mp < 10
  · simp only [hm, if_true]; omega
  · simp only [hm, if_false]; omega

end PM.Json
