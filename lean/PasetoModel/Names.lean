import PasetoModel.Basic
/-! Names of the six back ends and of the key kinds (used by the generated `Extracted/*.lean`). -/
namespace PM

inductive Backend | v1 | v2 | v3 | v3lc | v4 | v4s
  deriving DecidableEq, Repr, Inhabited

def Backend.all : List Backend := [.v1, .v2, .v3, .v3lc, .v4, .v4s]

def Backend.version : Backend → Nat
  | .v1 => 1 | .v2 => 2 | .v3 => 3 | .v3lc => 3 | .v4 => 4 | .v4s => 4

def Backend.ofString? : String → Option Backend
  | "v1" => some .v1 | "v2" => some .v2 | "v3" => some .v3 | "v3lc" => some .v3lc
  | "v4" => some .v4 | "v4s" => some .v4s | _ => none

def Backend.name : Backend → String
  | .v1 => "v1" | .v2 => "v2" | .v3 => "v3" | .v3lc => "v3lc" | .v4 => "v4" | .v4s => "v4s"

/-- key kinds: the marker types `Local`, `Public`, `Secret`, `PkePublic`, `PkeSecret` -/
inductive Kind | localK | publicK | secretK | pkePublic | pkeSecret
  deriving DecidableEq, Repr, Inhabited

def Kind.all : List Kind := [.localK, .publicK, .secretK, .pkePublic, .pkeSecret]

def Kind.ofString? : String → Option Kind
  | "local" => some .localK | "public" => some .publicK | "secret" => some .secretK
  | "pkepublic" => some .pkePublic | "pkesecret" => some .pkeSecret | _ => none

/-- `SealingKey` kinds (can be wrapped): `Local`, `Secret` -/
inductive SKind | localK | secretK
  deriving DecidableEq, Repr, Inhabited

def SKind.all : List SKind := [.localK, .secretK]
def SKind.toKind : SKind → Kind | .localK => .localK | .secretK => .secretK
def Kind.toSKind? : Kind → Option SKind
  | .localK => some .localK | .secretK => some .secretK | _ => none

/-- token purposes: `Local`, `Public` -/
inductive Purpose | localP | publicP
  deriving DecidableEq, Repr, Inhabited
def Purpose.all : List Purpose := [.localP, .publicP]
def Purpose.toKind : Purpose → Kind | .localP => .localK | .publicP => .publicK
def Kind.toPurpose? : Kind → Option Purpose
  | .localK => some .localP | .publicK => some .publicP | _ => none

end PM
