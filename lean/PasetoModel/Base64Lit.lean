import PasetoModel.Base64
/-! A *literal* transcription of `decode_inner` / `decode_vec` / `decode` of base64.rs in which every
    slice operation that can panic in Rust (`[..n]` indexing, `copy_from_slice` length mismatch) is an
    explicit `Res.panic` branch.  `Props/C04` proves it never takes those branches and agrees with the
    `Option`-valued mirror used everywhere else. -/
namespace PM.B64

/-- `&a[..n]`: panics when `n > a.len()` -/
def sliceTo (site : String) (a : Bytes) (n : Nat) : Res Bytes :=
  if n ≤ a.length then .ok (a.take n) else .panic site

/-- `dst.copy_from_slice(src)`: panics when the lengths differ -/
def copyFromSlice (site : String) (dstLen : Nat) (src : Bytes) : Res Bytes :=
  if src.length = dstLen then .ok src else .panic site

/-- `decode_inner(src, dst)` with `dst.len() = dstLen`; returns the bytes written to `dst` -/
def decodeInnerLit (src : Bytes) (dstLen : Nat) : Res Bytes :=
  let (out, e, rem) := decChunks src                     -- zip of full src chunks and dst chunks
  let nChunks := min (src.length / 4) (dstLen / 3)
  let out := out.take (3 * nChunks)
  let dstRemLen := dstLen - 3 * (dstLen / 3)
  let e := e ||| (if rem.isEmpty || rem.length ≥ 2 then 0 else 1)
  -- tmp_in[..src_rem.len()].copy_from_slice(src_rem)   (tmp_in has 4 bytes)
  (sliceTo "base64.rs: tmp_in[..src_rem.len()]" [A, A, A, A] rem.length).bind fun slot =>
  (copyFromSlice "base64.rs: tmp_in copy_from_slice" slot.length rem).bind fun filled =>
  let tmpIn := filled ++ List.replicate (4 - rem.length) A
  match tmpIn with
  | [t0, t1, t2, t3] =>
    let ((a, b, c), e2) := dec3 t0 t1 t2 t3
    let e := e ||| e2
    -- dst_rem.copy_from_slice(&tmp_out[..dst_rem.len()])   (tmp_out has 3 bytes)
    (sliceTo "base64.rs: tmp_out[..dst_rem.len()]" [a, b, c] dstRemLen).bind fun tail =>
    (copyFromSlice "base64.rs: dst_rem copy_from_slice" dstRemLen tail).bind fun tail =>
    let dst := out ++ tail ++ List.replicate (dstLen - 3 * nChunks - dstRemLen) 0   -- untouched zeros (none in practice)
    if e = 0 then (if validateLastBlock src dst then .ok dst else .err .base64) else .err .base64
  | _ => .panic "base64.rs: tmp_in is not 4 bytes"

/-- `decode_vec`: `dst = vec![0; decoded_len(src.len())]` -/
def decodeVecLit (src : Bytes) : Res Bytes := decodeInnerLit src (decodedLen src.length)

end PM.B64
