import PasetoModel.Claims
/-! The JSON *text* of `RegisteredClaims` (C14): what `Payload::encode` writes, byte for byte.

The hand-written `Serialize` impl of `paseto-json` decides which members are written and in which order
(`claimsEncode`, `Claims.lean`); the text of each member is produced by dependencies — `serde_json`'s compact
formatter (string escaping) and jiff's `Display` for `Timestamp` (RFC 3339, UTC, shortest fraction).  Both are small,
total and specified, so they are modelled here and compared with the library *byte-exactly* on every run
(`claims.json` stream), instead of only at the level of serde's data model.  Modelled, not verified: they are
dependencies; what is proved are properties of the model (the escaping is decodable, the output has the RFC 3339 shape). -/
namespace PM.Json
open PM

/-- lower-case hexadecimal digit (serde_json's `HEX_DIGITS`) -/
def hexDigit (n : Nat) : UInt8 := if n < 10 then UInt8.ofNat (48 + n) else UInt8.ofNat (87 + n)

/-- serde_json's `format_escaped_str_contents`, one byte: `"` `\` and control characters are escaped, everything else
    (including every byte of a multi-byte UTF-8 sequence) is copied -/
def escByte (b : UInt8) : Bytes :=
  if b = 34 then [92, 34] else if b = 92 then [92, 92]
  else if b = 8 then [92, 98] else if b = 12 then [92, 102] else if b = 10 then [92, 110]
  else if b = 13 then [92, 114] else if b = 9 then [92, 116]
  else if b < 32 then [92, 117, 48, 48, hexDigit (b.toNat / 16), hexDigit (b.toNat % 16)]
  else [b]

def escape (s : Bytes) : Bytes := s.flatMap escByte

/-- a JSON string literal -/
def jsonStr (s : Bytes) : Bytes := 34 :: escape s ++ [34]

def unhexDigit (c : UInt8) : Option Nat :=
  if 48 ≤ c ∧ c ≤ 57 then some (c.toNat - 48) else if 97 ≤ c ∧ c ≤ 102 then some (c.toNat - 87) else none

/-- inverse of `escape` on its image (a decoder for exactly the escapes the formatter produces) -/
def unescape : Bytes → Option Bytes
  | [] => some []
  | b :: r =>
    if b ≠ 92 then (if b = 34 ∨ b < 32 then none else (unescape r).map (b :: ·))
    else match r with
      | [] => none
      | c :: r' =>
        if c = 34 then (unescape r').map (34 :: ·)
        else if c = 92 then (unescape r').map (92 :: ·)
        else if c = 98 then (unescape r').map (8 :: ·)
        else if c = 102 then (unescape r').map (12 :: ·)
        else if c = 110 then (unescape r').map (10 :: ·)
        else if c = 114 then (unescape r').map (13 :: ·)
        else if c = 116 then (unescape r').map (9 :: ·)
        else if c = 117 then
          match r' with
          | 48 :: 48 :: h :: l :: r'' =>
            (match unhexDigit h, unhexDigit l with
             | some x, some y => (unescape r'').map (UInt8.ofNat (16 * x + y) :: ·)
             | _, _ => none)
          | _ => none
        else none

/-! ### RFC 3339 (jiff's `Display for Timestamp`) -/

/-- `n` as exactly `w` decimal digits (most significant first; higher digits are dropped) -/
def pad : Nat → Nat → Bytes
  | 0, _ => []
  | w + 1, n => pad w (n / 10) ++ [UInt8.ofNat (48 + n % 10)]

/-- days since 1970-01-01 ↦ (year, month, day) in the proleptic Gregorian calendar (Hinnant's `civil_from_days`) -/
def civil (z0 : Int) : Int × Nat × Nat :=
  let z := z0 + 719468
  let era := z.fdiv 146097
  let doe := (z - era * 146097).toNat
  let yoe := (doe - doe / 1460 + doe / 36524 - doe / 146096) / 365
  let doy := doe - (365 * yoe + yoe / 4 - yoe / 100)
  let mp := (5 * doy + 2) / 153
  let d := doy - (153 * mp + 2) / 5 + 1
  let m := if mp < 10 then mp + 3 else mp - 9
  let y : Int := (yoe : Int) + era * 400 + (if m ≤ 2 then 1 else 0)
  (y, m, d)

/-- the fraction: nine digits with trailing zeros removed, nothing at all for a whole second -/
def fracDigits (f : Nat) : Bytes :=
  if f = 0 then [] else
  let ds := pad 9 f
  46 :: (ds.reverse.dropWhile (· = 48)).reverse

/-- nanoseconds since the epoch ↦ `[-]YYYY-MM-DDTHH:MM:SS[.f]Z`; years below 0 are written with a sign and six digits -/
def fmtTs (ns : Int) : Bytes :=
  let secs := ns.fdiv 1000000000
  let frac := (ns.fmod 1000000000).toNat
  let days := secs.fdiv 86400
  let sod := (secs.fmod 86400).toNat
  let (y, m, d) := civil days
  let year := if y < 0 then 45 :: pad 6 (-y).toNat else pad 4 y.toNat
  year ++ [45] ++ pad 2 m ++ [45] ++ pad 2 d ++ [84] ++ pad 2 (sod / 3600) ++ [58] ++ pad 2 (sod % 3600 / 60) ++ [58] ++
    pad 2 (sod % 60) ++ fracDigits frac ++ [90]

/-! ### the object -/

def memberText : Bytes × JVal → Bytes
  | (k, .str s _) => jsonStr k ++ [58] ++ jsonStr s
  | (k, _) => jsonStr k ++ [58] ++ [110, 117, 108, 108]       -- never produced by `claimsEncode`

def joinComma : List Bytes → Bytes
  | [] => []
  | [x] => x
  | x :: rest => x ++ [44] ++ joinComma rest

/-- `serde_json::to_writer` of the `Serialize` impl: `{` members separated by `,` `}` — compact, no whitespace -/
def objectText (ms : Members) : Bytes := [123] ++ joinComma (ms.map memberText) ++ [125]

/-- the bytes `RegisteredClaims::encode` writes -/
def claimsJson (c : Claims) : Bytes := objectText (claimsEncode fmtTs c)

end PM.Json
