import PasetoModel.Public
import PasetoModel.Backend
import PasetoModel.Prim.Der
import PasetoModel.Prim.Ed25519
import PasetoModel.Prim.P384
import PasetoModel.Prim.Rsa
/-! Keys (`HasKey::{decode, encode}`, `unsealing_key`) and the concrete signature schemes of the
    six back ends.  A decoded key is represented by its canonical encoding (what `encode(decode x)`
    returns); `keyDecode` mirrors each back end's acceptance checks. -/
namespace PM
open W

/-! ### Ed25519 -/
def edPoint (b : Bytes) : Option Prim.Ed25519.Pt := Prim.Ed25519.decompress (ba b) (strictY := false)
def edPub (seed : Bytes) : Bytes := fixLen 32 (ob (Prim.Ed25519.publicKey (ba seed)))
/-- small-order point: [8]P is the identity -/
def edWeak (b : Bytes) : Bool :=
  match edPoint b with
  | some P => let Q := Prim.Ed25519.mul 8 P; (Prim.Ed25519.affine Q) == (0, 1)
  | none => false

/-- Ed25519 signature with an explicit public key in the hash (libsodium signs with the public half
    stored in the 64-byte secret key; dalek with the key derived from the seed) -/
def edSignWith (seed pk msg : Bytes) : Bytes :=
  let e := Prim.Ed25519.expand (ba seed)
  let r := Prim.natOfLE (Prim.sha512 (e.prefix_ ++ ba msg)) % Prim.Ed25519.L
  let R := Prim.Ed25519.compress (Prim.Ed25519.mul r Prim.Ed25519.basePoint)
  let k := Prim.natOfLE (Prim.sha512 (R ++ ba pk ++ ba msg)) % Prim.Ed25519.L
  let S := (r + k * e.a) % Prim.Ed25519.L
  fixLen 64 (ob (R ++ Prim.natToLE S 32))

def edVerify (pk msg sig : Bytes) : Bool := Prim.Ed25519.verify (ba pk) (ba msg) (ba sig)

/-! ### P-384 -/
def p384Decode (b : Bytes) : Prim.P384.Dec := Prim.P384.decode (ba b)
def p384Compress (P : Prim.P384.Pt) : Option Bytes := (Prim.P384.compress P).map (fun b => fixLen 49 (ob b))
def p384Pub (d : Nat) : Option Bytes := (Prim.P384.publicKey d).map ob

/-- RFC 6979 deterministic nonce for ECDSA-P384-SHA384 (HMAC-DRBG over HMAC-SHA384) -/
def rfc6979 (d : Nat) (digest : Bytes) : Nat := Id.run do
  let n := Prim.P384.n
  let x := natToBe 48 d
  let h1 := natToBe 48 (fromBe digest % n)      -- bits2octets
  let mut v : Bytes := List.replicate 48 1
  let mut k : Bytes := List.replicate 48 0
  k := hmac384 k (v ++ [0] ++ x ++ h1)
  v := hmac384 k v
  k := hmac384 k (v ++ [1] ++ x ++ h1)
  v := hmac384 k v
  let mut out := 0
  for _ in [0:64] do
    v := hmac384 k v
    let t := fromBe v
    if 1 ≤ t ∧ t < n then
      out := t
      break
    k := hmac384 k (v ++ [0])
    v := hmac384 k v
  return out

/-- r‖s, each 48 bytes big-endian; when the back end writes minimal bytes (`BN_bn2bin` into a
    48-byte slot with a length check) a value needing fewer than 48 bytes is an error -/
def serSig (padded : Bool) (r s : Nat) : Res Bytes :=
  if !padded && (r < 2 ^ 376 || s < 2 ^ 376) then .err .crypto
  else .ok (natToBe 48 r ++ natToBe 48 s)

/-! ### key decoding per back end and kind -/

def rsaPublicOk (n e : Nat) : Bool :=
  decide (Nat.log2 n + 1 ≤ 4096) && decide (e < 2 ^ 64) && decide (e < n) && decide (n % 2 = 1) && decide (e % 2 = 1)
    && decide (2 ≤ e) && decide (e ≤ 2 ^ 33 - 1)

def bitLen (n : Nat) : Nat := if n = 0 then 0 else Nat.log2 n + 1

def rsaPubDecode (bits : Nat) (raw : Bytes) : Res Bytes :=
  let der : Option Bytes := match Der.parseSpkiRsa raw with
    | some _ => some raw
    | none => Der.pemDecode (str "PUBLIC KEY") raw
  match der.bind Der.parseSpkiRsa with
  | none => .err .invalidKey
  | some (n, e) =>
    if !rsaPublicOk n e then .err .invalidKey
    else if bitLen n ≠ bits then .err .invalidKey
    else .ok (Der.encodeSpkiRsa n e)

def rsaPrivValid (k : Der.RsaPriv) : Bool :=
  rsaPublicOk k.n k.e && decide (1 ≤ k.p) && decide (1 ≤ k.q) && decide (k.p * k.q = k.n)
    && decide (k.e * k.d % (k.p - 1) = 1 % (k.p - 1)) && decide (k.e * k.d % (k.q - 1) = 1 % (k.q - 1))

def rsaPrivDecode (bits : Nat) (raw : Bytes) : Res Bytes :=
  let der : Option Bytes := match Der.parsePkcs1 raw with
    | some _ => some raw
    | none => Der.pemDecode (str "RSA PRIVATE KEY") raw
  match der.bind Der.parsePkcs1 with
  | none => .err .invalidKey
  | some k =>
    if !rsaPrivValid k then .err .invalidKey
    else if bitLen k.n ≠ bits then .err .invalidKey
    else .ok (Der.encodePkcs1 k)

def edPubDecode (c : BackendCfg) (raw : Bytes) : Res Bytes :=
  if raw.length ≠ 32 then .err .invalidKey
  else if c.pkOnCurve && (edPoint raw).isNone then .err .invalidKey
  else if c.pkRejectsWeak && edWeak raw then .err .invalidKey
  else .ok raw

def edSecDecode (c : BackendCfg) (raw : Bytes) : Res Bytes :=
  if raw.length ≠ 64 then .err .invalidKey
  else if !c.skChecksPubHalf then .ok raw
  else match edPubDecode c (raw.drop 32) with
    | .ok pk => if edPub (raw.take 32) = pk then .ok raw else .err .invalidKey
    | e => e

/-- canonical encoding of the point at infinity as a "key" (only reachable when a decoder accepts it) -/
def p384InfinityKey : Bytes := [0]

/-- alternative encodings of a valid point that some decoders also accept (and normalise):
    compact (05 ‖ x, y := the smaller root) and hybrid (06/07 ‖ x ‖ y with the parity in the tag) -/
def p384AltForm (c : BackendCfg) (raw : Bytes) : Option Bytes :=
  match raw with
  | 5 :: x =>
    if c.pkCompact ∧ x.length = 48 then
      match p384Decode (2 :: x), p384Decode (3 :: x) with
      | .point P, .point Q => if P.y ≤ Q.y then some (2 :: x) else some (3 :: x)
      | _, _ => none
    else none
  | t :: xy =>
    if c.pkHybrid ∧ (t = 6 ∨ t = 7) ∧ xy.length = 96 then
      match p384Decode (4 :: xy) with
      | .point P => if P.y % 2 = t.toNat % 2 then some (4 :: xy) else none
      | _ => none
    else none
  | [] => none

def p384PubDecode (c : BackendCfg) (raw : Bytes) : Res Bytes :=
  match p384Decode ((p384AltForm c raw).getD raw) with
  | .point P => match p384Compress P with | some b => .ok b | none => .err .invalidKey
  | .infinity => if c.pkRejectsInfinity then .err .invalidKey else .ok p384InfinityKey
  | .invalid => .err .invalidKey

def p384SecDecode (raw : Bytes) : Res Bytes :=
  if raw.length ≠ 48 then .err .invalidKey
  else let d := fromBe raw
       if d = 0 ∨ d ≥ Prim.P384.n then .err .invalidKey else .ok raw

/-- `HasKey::<K>::decode` of back end `b` under code choices `c`, returning the canonical encoding -/
def keyDecodeWith (c : BackendCfg) (version : Nat) (k : Kind) (raw : Bytes) : Res Bytes :=
  match k with
  | .localK => if raw.length = 32 then .ok raw else .err .invalidKey
  | .publicK | .pkePublic =>
    match version with
    | 1 => rsaPubDecode (if k = .publicK then 2048 else 4096) raw
    | 3 => p384PubDecode c raw
    | _ => edPubDecode c raw
  | .secretK | .pkeSecret =>
    match version with
    | 1 => rsaPrivDecode (if k = .secretK then 2048 else 4096) raw
    | 3 => p384SecDecode raw
    | _ => edSecDecode c raw

def keyDecode (b : Backend) (k : Kind) (raw : Bytes) : Res Bytes := keyDecodeWith (cfgOf b) b.version k raw

/-- `HasKey::encode` on a decoded key: the canonical bytes — except that encoding the accepted
    point at infinity panics (`assert!(len == 49)` in `compressed_pub_key`) -/
def keyEncode (b : Backend) (k : Kind) (key : Bytes) : Res Bytes :=
  if b.version = 3 ∧ (k = .publicK ∨ k = .pkePublic) ∧ key = p384InfinityKey then
    .panic "lc/mod.rs: compressed point should be 49 bytes"
  else .ok key

/-- `SealingVersion<Public>::unsealing_key` on canonical encodings -/
def pubOfWith (c : BackendCfg) (version : Nat) (sk : Bytes) : Bytes :=
  match version with
  | 1 => match Der.parsePkcs1 sk with | some k => Der.encodeSpkiRsa k.n k.e | none => []
  | 3 => (p384Pub (fromBe sk)).getD []
  | _ => if c.skChecksPubHalf then edPub (sk.take 32) else sk.drop 32
    -- dalek derives the key from the expanded seed; libsodium returns the stored half

/-! ### concrete signature schemes -/

def edScheme (c : BackendCfg) (hasAad : Bool) : PublicScheme :=
  { sigLen := 64, hasAad, pieces := piecesNoPk hasAad,
    pubOf := pubOfWith c 4,
    sign := fun sk m _ => .ok (edSignWith (sk.take 32) (if c.skChecksPubHalf then edPub (sk.take 32) else sk.drop 32) m),
    check := fun pk m sig => if edVerify pk m sig then .valid else .invalid }

/-- ECDSA-P384-SHA384 over the PAE with the compressed public key as first piece.
    `deterministic`: RFC 6979 nonce + low-s normalisation (RustCrypto); otherwise the nonce is the
    randomness `rnd` (aws-lc draws it internally). -/
def p384Scheme (c : BackendCfg) (deterministic strictParse : Bool) : PublicScheme :=
  { sigLen := 96, hasAad := true, pieces := piecesPk,
    pubOf := pubOfWith c 3,
    sign := fun sk m rnd =>
      let d := fromBe sk
      let digest := sha384 m
      let k := if deterministic then rfc6979 d digest else fromBe rnd % Prim.P384.n
      match Prim.P384.signDigest d (ba digest) k with
      | none => .err .crypto
      | some (r, s) =>
        let s := if deterministic && s > Prim.P384.n / 2 then Prim.P384.n - s else s
        serSig c.sigPadded r s,
    check := fun pk m sig =>
      let r := fromBe (sig.take 48)
      let s := fromBe (sig.drop 48)
      if strictParse && (r = 0 || r ≥ Prim.P384.n || s = 0 || s ≥ Prim.P384.n) then .malformed else
      match p384Decode pk with
      | .point Q => if Prim.P384.verifyDigest Q (ba (sha384 m)) r s then .valid else .invalid
      | _ => .invalid }

def rsaScheme (c : BackendCfg) : PublicScheme :=
  { sigLen := 256, hasAad := false, pieces := piecesNoPk false,
    pubOf := pubOfWith c 1,
    sign := fun sk m rnd =>
      match Der.parsePkcs1 sk with
      | some k => .ok (fixLen 256 (ob (Prim.Rsa.pssSign k.n k.d (ba (sha384 m)) (ba (fixLen 48 rnd)))))
      | none => .err .crypto,
    check := fun pk m sig =>
      match Der.parseSpkiRsa pk with
      | some (n, e) => if Prim.Rsa.pssVerify n e (ba (sha384 m)) (ba sig) then .valid else .invalid
      | none => .invalid }

def publicSchemeOf (b : Backend) (c : BackendCfg) : PublicScheme :=
  match b with
  | .v1 => rsaScheme c
  | .v2 => edScheme c false
  | .v3 => p384Scheme c true true
  | .v3lc => p384Scheme c false false
  | .v4 => edScheme c true
  | .v4s => edScheme c true

def publicScheme (b : Backend) : PublicScheme := publicSchemeOf b (cfgOf b)

end PM
