import PasetoModel.Basic
/-! The generic pipeline of `paseto-core/src/tokens.rs`:
    `SealedToken::unseal` = `V::unseal(..)?` ; `M::decode(..)` ; `v.validate(..)?`
    `UnsealedToken::seal` = `dangerous_seal_with_nonce(V::nonce()?)`.
    The unseal pipeline records which caller-supplied code ran (trace of events). -/
namespace PM

inductive Event | decode (cleartext : Bytes) | validate
  deriving DecidableEq, Repr

/-- `SealedToken::unseal`: `vUnseal` is the result of the version's `unseal` on this token/key/aad;
    `dec` the caller's payload decoder; `val` the caller's validator.  Returns the result and the
    trace of caller code that was invoked. -/
def tokenUnseal {M : Type} (vUnseal : Res Bytes) (dec : Bytes → Option M) (val : M → Res Unit) :
    Res M × List Event :=
  match vUnseal with
  | .err e => (.err e, [])
  | .panic s => (.panic s, [])
  | .ok cleartext =>
    match dec cleartext with
    | none => (.err .payload, [.decode cleartext])
    | some m =>
      match val m with
      | .ok () => (.ok m, [.decode cleartext, .validate])
      | .err e => (.err e, [.decode cleartext, .validate])
      | .panic s => (.panic s, [.decode cleartext, .validate])

/-- `UnsealedToken::seal` = `dangerous_seal_with_nonce(key, aad, V::nonce()?)`: the nonce is drawn
    first (it is an argument), then the footer is encoded, then the claims are appended to the nonce,
    then the version's `dangerous_seal_with_nonce` runs.  `none` = the caller's encoder failed
    (`PayloadError`).  Returns the sealed payload and the encoded footer. -/
def tokenSeal (nonce : Res Bytes) (encFooter : Option Bytes) (encClaims : Option Bytes)
    (vSeal : Bytes → Bytes → Res Bytes) : Res (Bytes × Bytes) :=
  match nonce with
  | .err e => .err e
  | .panic s => .panic s
  | .ok n =>
    match encFooter with
    | none => .err .payload
    | some f =>
      match encClaims with
      | none => .err .payload
      | some c => (vSeal (n ++ c) f).map (fun p => (p, f))

end PM
