import PasetoModel.Basic
/-! Mirror of paseto-core/src/base64.rs on `List UInt8`, i16 arithmetic as `BitVec 16`. -/
namespace PM.B64

abbrev I16 := BitVec 16
open PM

@[inline] def i16 (b : UInt8) : I16 := b.toBitVec.setWidth 16
@[inline] def u8 (x : I16) : UInt8 := ⟨x.setWidth 8⟩
@[inline] def sar (x : I16) (n : Nat) : I16 := x.sshiftRight n

/-- `decode_6bits` -/
def dec6 (src : UInt8) : I16 :=
  let s := i16 src
  let ret : I16 := -1
  let ret := ret + ((sar (((65 - 1) - s) &&& (s - (90 + 1))) 8) &&& (s + -64))
  let ret := ret + ((sar (((97 - 1) - s) &&& (s - (122 + 1))) 8) &&& (s + -70))
  let ret := ret + ((sar (((48 - 1) - s) &&& (s - (57 + 1))) 8) &&& (s + 5))
  let ret := ret + ((sar (((45 - 1) - s) &&& (s - (45 + 1))) 8) &&& 63)
  let ret := ret + ((sar (((95 - 1) - s) &&& (s - (95 + 1))) 8) &&& 64)
  ret

/-- `encode_6bits` -/
def enc6 (src : I16) : UInt8 :=
  let diff := src + 65
  let diff := diff + ((sar (25 - src) 8) &&& 6)
  let diff := diff + ((sar (51 - src) 8) &&& -75)
  let diff := diff + ((sar (61 - src) 8) &&& -(45 - 0x20))
  let diff := diff + ((sar (62 - src) 8) &&& (95 - 45 - 1))
  u8 diff

/-- `encode_3bytes` -/
def enc3 (a b c : UInt8) : UInt8 × UInt8 × UInt8 × UInt8 :=
  let b0 := i16 a; let b1 := i16 b; let b2 := i16 c
  (enc6 (b0 >>> 2), enc6 (((b0 <<< 4) ||| (b1 >>> 4)) &&& 63),
   enc6 (((b1 <<< 2) ||| (b2 >>> 6)) &&& 63), enc6 (b2 &&& 63))

/-- `decode_3bytes`: bytes and error bit -/
def dec3 (s0 s1 s2 s3 : UInt8) : (UInt8 × UInt8 × UInt8) × I16 :=
  let c0 := dec6 s0; let c1 := dec6 s1; let c2 := dec6 s2; let c3 := dec6 s3
  ((u8 ((c0 <<< 2) ||| (sar c1 4)), u8 ((c1 <<< 4) ||| (sar c2 2)), u8 ((c2 <<< 6) ||| c3)),
   (sar (c0 ||| c1 ||| c2 ||| c3) 8) &&& 1)

/-- `write_to_fmt` = chunks of 3 then `encode_last` -/
def encode : Bytes → Bytes
  | a :: b :: c :: rest => let (w,x,y,z) := enc3 a b c; w :: x :: y :: z :: encode rest
  | [a, b] => let (w,x,y,_) := enc3 a b 0; [w, x, y]
  | [a] => let (w,x,_,_) := enc3 a 0 0; [w, x]
  | [] => []

/-- full 4-char chunks of `decode_inner`; returns decoded bytes, accumulated err, remainder -/
def decChunks : Bytes → Bytes × I16 × Bytes
  | s0 :: s1 :: s2 :: s3 :: rest =>
    let ((a,b,c), e) := dec3 s0 s1 s2 s3
    let (out, e', rem) := decChunks rest
    (a :: b :: c :: out, e ||| e', rem)
  | rem => ([], 0, rem)

def A : UInt8 := 65

/-- encode_last on the last decoded block, compared with the last encoded block
    (`validate_last_block`), expressed on the already-split last blocks -/
def encLast : Bytes → Bytes
  | [] => []
  | [a] => let (w,x,_,_) := enc3 a 0 0; [w, x]
  | [a,b] => let (w,x,y,_) := enc3 a b 0; [w, x, y]
  | a :: b :: c :: _ => let (w,x,y,z) := enc3 a b c; [w,x,y,z]

def lastBlockStart (len bs : Nat) : Nat := ((len - 1) / bs) * bs

def zipEq : Bytes → Bytes → Bool
  | a :: as, b :: bs => (a == b) && zipEq as bs
  | _, _ => true

def validateLastBlock (encoded decoded : Bytes) : Bool :=
  if encoded.isEmpty && decoded.isEmpty then true else
  let eb := encoded.drop (lastBlockStart encoded.length 4)
  let db := decoded.drop (lastBlockStart decoded.length 3)
  zipEq (encLast db) eb

/-- `decode_vec` (none = Base64DecodeError) -/
def decodeVec (src : Bytes) : Option Bytes :=
  let (out, e, rem) := decChunks src
  let e := e ||| (if rem.isEmpty || rem.length ≥ 2 then 0 else 1)
  let tmpIn := rem ++ List.replicate (4 - rem.length) A
  match tmpIn with
  | [t0,t1,t2,t3] =>
    let ((a,b,c), e2) := dec3 t0 t1 t2 t3
    let e := e ||| e2
    let remOut := [a,b,c].take (rem.length * 3 / 4)
    let dst := out ++ remOut
    if e = 0 then (if validateLastBlock src dst then some dst else none) else none
  | _ => none  -- unreachable: rem.length < 4

end PM.B64

namespace PM.B64
/-- `decoded_len` -/
def decodedLen (n : Nat) : Nat := let k := n / 4; let l := n - 4 * k; 3 * k + (3 * l) / 4

/-- `base64::decode(src, dst)` with `dst.len() = cap`: `dst.get_mut(..dlen)` fails when the
    decoded length exceeds the buffer; otherwise identical to `decode_vec`. -/
def decodeInto (cap : Nat) (src : Bytes) : Option Bytes :=
  if decodedLen src.length > cap then none else decodeVec src
end PM.B64
