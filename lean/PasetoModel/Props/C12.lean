import PasetoModel.Token
import PasetoModel.Asym
import PasetoModel.Extracted.Api
/-! # C12 — nothing from an unauthenticated token is decoded, validated or reported
Generic part over `SealedToken::unseal` (paseto-core/src/tokens.rs); the per-back-end part
("`V::unseal` returns `Ok` only if the MAC / signature verifies") is C02's acceptance
characterisation, re-exported at the end of this file once the back-end models are imported. -/
namespace PM.C12

/-- If the version's `unseal` fails, neither the caller's decoder nor the caller's validator is
    invoked, and the very same error is returned. -/
theorem auth_fail_no_events {M : Type} (e : Err) (dec : Bytes → Option M) (val : M → Res Unit) :
    tokenUnseal (.err e) dec val = (.err e, []) := rfl

/-- The outcome of a failing token is independent of the decoder and validator supplied: the error
    cannot depend on what the unauthenticated bytes would decode to. -/
theorem auth_fail_independent {M N : Type} (e : Err) (dec₁ : Bytes → Option M) (val₁ : M → Res Unit)
    (dec₂ : Bytes → Option N) (val₂ : N → Res Unit) :
    (∃ r₁ r₂, (tokenUnseal (.err e) dec₁ val₁) = (.err e, r₁) ∧ (tokenUnseal (.err e) dec₂ val₂) = (.err e, r₂) ∧
      r₁ = [] ∧ r₂ = []) := ⟨[], [], rfl, rfl, rfl, rfl⟩

/-- The decoder is invoked only on the cleartext the version's `unseal` returned `Ok` with. -/
theorem decode_only_after_unseal_ok {M : Type} (vU : Res Bytes) (dec : Bytes → Option M) (val : M → Res Unit)
    (ct : Bytes) (h : Event.decode ct ∈ (tokenUnseal vU dec val).2) : vU = .ok ct := by
  unfold tokenUnseal at h
  split at h
  · simp at h
  · simp at h
  · rename_i c
    split at h
    · simp at h; rw [h]
    · split at h <;> simp at h <;> rw [h]

/-- The validator is invoked only after a successful unseal and a successful decode. -/
theorem validate_only_after_decode {M : Type} (vU : Res Bytes) (dec : Bytes → Option M) (val : M → Res Unit)
    (h : Event.validate ∈ (tokenUnseal vU dec val).2) : ∃ ct m, vU = .ok ct ∧ dec ct = some m := by
  unfold tokenUnseal at h
  split at h
  · simp at h
  · simp at h
  · rename_i c
    split at h
    · simp at h
    · rename_i m hm; exact ⟨c, m, rfl, hm⟩

/-- The only possible traces: nothing; decode; decode then validate — in that order. -/
theorem trace_order {M : Type} (vU : Res Bytes) (dec : Bytes → Option M) (val : M → Res Unit) :
    (tokenUnseal vU dec val).2 = [] ∨
    (∃ ct, (tokenUnseal vU dec val).2 = [.decode ct]) ∨
    (∃ ct, (tokenUnseal vU dec val).2 = [.decode ct, .validate]) := by
  unfold tokenUnseal
  split
  · left; rfl
  · left; rfl
  · rename_i c
    split
    · right; left; exact ⟨c, rfl⟩
    · split <;> (right; right; exact ⟨c, rfl⟩)

/-- A payload error or a claims error can only be reported for an authenticated token. -/
theorem later_errors_only_if_authentic {M : Type} (vU : Res Bytes) (dec : Bytes → Option M) (val : M → Res Unit)
    (h : (tokenUnseal vU dec val).2 ≠ []) : ∃ ct, vU = .ok ct := by
  unfold tokenUnseal at h
  split at h
  · simp at h
  · simp at h
  · exact ⟨_, rfl⟩

/-! ## per back end: caller code runs only on authenticated bytes -/

/-- Local tokens, every back end: if the caller's decoder was invoked at all, the token's tag
    equals the scheme's tag over exactly this key, header, nonce, ciphertext, footer and assertion
    (so a wrong key, any corruption, a wrong assertion or a too-short token never reaches it),
    and the bytes it saw are the decryption of that authenticated ciphertext. -/
theorem decode_implies_authentic_local {M : Type} (b : Backend) (k payload f a ct : Bytes)
    (dec : Bytes → Option M) (val : M → Res Unit)
    (h : Event.decode ct ∈ (tokenUnseal (unsealLocal (localScheme b) (tokHdr b .localP) k payload f a) dec val).2) :
    ∃ n c t, payload = n ++ c ++ t ∧ n.length = (localScheme b).nonceLen ∧ t.length = (localScheme b).tagLen ∧
      t = (localScheme b).tag k (tokHdr b .localP) n c f a ∧ ct = (localScheme b).dec k n c := by
  have := decode_only_after_unseal_ok _ dec val ct h
  exact ((PM.unsealLocal_ok_iff _ _ _ _ _ _ _).mp this).2

/-- Public tokens, every back end: the decoder is invoked only on a message whose signature of
    the prescribed length verified over exactly these pieces. -/
theorem decode_implies_authentic_public {M : Type} (b : Backend) (pk payload f a ct : Bytes)
    (dec : Bytes → Option M) (val : M → Res Unit)
    (h : Event.decode ct ∈ (tokenUnseal (unsealPublic (publicScheme b) (tokHdr b .publicP) pk payload f a) dec val).2) :
    ∃ sig, payload = ct ++ sig ∧ sig.length = (publicScheme b).sigLen ∧
      (publicScheme b).check pk (pae ((publicScheme b).pieces pk (tokHdr b .publicP) ct f a)) sig = .valid := by
  have := decode_only_after_unseal_ok _ dec val ct h
  exact ((PM.unsealPublic_ok_iff _ _ _ _ _ _ _).mp this).2

/-- The error of a token that fails authentication is a claims (assertion refused), format or
    cryptographic error — decided before and independently of any decoding. -/
theorem auth_error_kinds_local (b : Backend) (k payload f a : Bytes) (e : Err)
    (h : unsealLocal (localScheme b) (tokHdr b .localP) k payload f a = .err e) :
    e = .claims ∨ e = .invalidToken ∨ e = .crypto := by
  rcases unsealLocal_total (localScheme b) (tokHdr b .localP) k payload f a with ⟨m, hm⟩ | h1 | h1 | h1 <;>
    rw [h] at * <;> simp_all

theorem auth_error_kinds_public (b : Backend) (pk payload f a : Bytes) (e : Err)
    (h : unsealPublic (publicScheme b) (tokHdr b .publicP) pk payload f a = .err e) :
    e = .claims ∨ e = .invalidToken ∨ e = .crypto := by
  rcases unsealPublic_total (publicScheme b) (tokHdr b .publicP) pk payload f a with ⟨m, hm⟩ | h1 | h1 | h1 <;>
    rw [h] at * <;> simp_all

/-- **Accessor clause.**  The public surface of the sealed-token types, re-scanned from the source on every run: the only
    public inherent method that hands out the footer (or raw bytes) of a token that has not been unsealed is the one named
    `unverified_footer`, and no field of `SealedToken` is public.  (The compile probes of C18 tie this to rustc.) -/
theorem unverified_footer_only_by_name :
    Extracted.Api.sealedTokenAccessors = ["unverified_footer"] ∧ Extracted.Api.sealedTokenPubFields = [] := by decide

/-! non-vacuity -/
example : tokenUnseal (M := Nat) (.ok [1]) (fun _ => some 3) (fun _ => .ok ()) = (.ok 3, [.decode [1], .validate]) := rfl
example : tokenUnseal (M := Nat) (.err .crypto) (fun _ => some 3) (fun _ => .ok ()) = (.err .crypto, []) := rfl

end PM.C12
