import PasetoModel.PaserkInst
import PasetoModel.Props.C10
/-! # C06 — wrapped / sealed keys are tamper-evident and header-, key-, password-bound -/
namespace PM.C06

/-- PIE: unwrapping succeeds **iff** the blob is tag ‖ nonce ‖ ciphertext of the prescribed widths
    and the tag equals the MAC, under the key derived from (wrapping key, nonce), of
    version ‖ header ‖ nonce ‖ ciphertext. -/
theorem pieUnwrap_ok_iff (b : Backend) (ver hdr wk blob key : Bytes) :
    pieUnwrap (pieOf b) (pieTagLen b.version) ver hdr wk blob = .ok key ↔
      ∃ t n c, blob = t ++ n ++ c ∧ t.length = pieTagLen b.version ∧ n.length = 32 ∧
        t = (pieOf b).mac ((pieOf b).ak wk n) (ver ++ hdr ++ n ++ c) ∧ key = symEnc (pieOf b) wk n c :=
  PM.pieUnwrap_ok_iff _ _ ver hdr wk blob key

/-- PBKW: … iff prefix ‖ ciphertext ‖ tag, the KDF accepts the embedded parameters, and the tag is
    the MAC (under the key derived from password, salt and parameters) of
    version ‖ header ‖ salt ‖ params ‖ nonce ‖ ciphertext. -/
theorem pbkwUnwrap_ok_iff (b : Backend) (ver hdr pass blob key : Bytes) :
    pbkwUnwrap (pbkwOf b) ver hdr pass blob = .ok key ↔
      ∃ pre c t k, blob = pre ++ c ++ t ∧ pre.length = (pbkwOf b).prefixLen ∧ t.length = (pbkwOf b).tagLen ∧
        (pbkwOf b).kdf pass (pre.take (pbkwOf b).saltLen) ((pre.drop (pbkwOf b).saltLen).take (pbkwOf b).paramLen) = .ok k ∧
        t = (pbkwOf b).mac ((pbkwOf b).ak k) (ver ++ hdr ++ pre ++ c) ∧
        key = pbkwEnc (pbkwOf b) k (pre.drop ((pbkwOf b).saltLen + (pbkwOf b).paramLen)) c :=
  PM.pbkwUnwrap_ok_iff _ ver hdr pass blob key

/-- PKE: … iff tag, encapsulation and a 32-byte encrypted key of exactly the prescribed widths, the
    recipient can decapsulate, and the tag is the MAC — under the key derived from the shared
    secret, the ephemeral key and the recipient key — of header ‖ encapsulation ‖ encrypted key. -/
theorem pkeUnseal_ok_iff (b : Backend) (sk blob key : Bytes) :
    pkeUnseal (pkeOf b) sk blob = .ok key ↔
      ∃ tag e edk ctx, blob = (if (pkeOf b).encLast then tag ++ edk ++ e else tag ++ e ++ edk) ∧
        tag.length = (pkeOf b).tagLen ∧ e.length = (pkeOf b).encLen ∧ edk.length = 32 ∧
        (pkeOf b).decap sk e = .ok ctx ∧ tag = (pkeOf b).mac ((pkeOf b).ak ctx) ((pkeOf b).hdr ++ e ++ edk) ∧
        key = pkeEnc (pkeOf b) ctx edk :=
  PM.pkeUnseal_ok_iff _ sk blob key

/-- sealed keys have one length: a blob the recipient accepts is exactly tag ‖ encapsulation ‖ 32 bytes long, so a blob
    with a byte removed or inserted *anywhere* (a leading zero of an RSA ciphertext, say) is never accepted -/
theorem pke_accepts_only_exact_length (b : Backend) (sk blob key : Bytes)
    (h : pkeUnseal (pkeOf b) sk blob = .ok key) :
    blob.length = (pkeOf b).tagLen + (pkeOf b).encLen + 32 := by
  obtain ⟨tag, e, edk, ctx, hb, ht, he, hd, _⟩ := (pkeUnseal_ok_iff b sk blob key).mp h
  rw [hb]
  split <;> simp only [List.length_append, ht, he, hd] <;> omega

theorem pke_rejects_other_lengths (b : Backend) (sk blob blob' key key' : Bytes)
    (h : pkeUnseal (pkeOf b) sk blob = .ok key) (h' : pkeUnseal (pkeOf b) sk blob' = .ok key') :
    blob'.length = blob.length := by
  rw [pke_accepts_only_exact_length b sk blob key h, pke_accepts_only_exact_length b sk blob' key' h']


/-- the MAC input of wrapped keys is a plain concatenation; it is injective in (header, body)
    because the header set is prefix-free (C10) and the nonce / prefix widths are fixed:
    two (header, nonce, ciphertext) triples with equal-length nonces and headers from a
    prefix-free set give the same MAC input only if they are equal. -/
theorem auth_input_injective (ver h h' n n' c c' : Bytes)
    (hpf : ¬ h <+: h' ∨ h = h') (hpf' : ¬ h' <+: h ∨ h = h') (hn : n.length = n'.length)
    (e : ver ++ h ++ n ++ c = ver ++ h' ++ n' ++ c') : h = h' ∧ n = n' ∧ c = c' := by
  simp only [List.append_assoc] at e
  have e1 := List.append_cancel_left e
  have hh : h = h' := by
    have p1 : h <+: h ++ (n ++ c) := List.prefix_append _ _
    have p2 : h' <+: h ++ (n ++ c) := by rw [e1]; exact List.prefix_append _ _
    rcases List.prefix_or_prefix_of_prefix p1 p2 with q | q
    · rcases hpf with x | x
      · exact absurd q x
      · exact x
    · rcases hpf' with x | x
      · exact absurd q x
      · exact x
  subst hh
  have e2 := List.append_cancel_left e1
  have := List.append_inj e2 hn
  exact ⟨rfl, this.1, this.2⟩

/-- relabelling the header (another version, or local ↔ secret) changes the MAC input: the PIE and
    PBKW headers of the table are pairwise prefix-free (instance of C10's table theorem) -/
theorem wrap_headers_prefix_free (b b' : Backend) (k k' : SKind) (hne : (Form.pie k).header b ≠ (Form.pie k').header b') :
    ((Form.pie k).header b).isPrefixOf ((Form.pie k').header b') = false :=
  C10.headers_prefix_free (b, .pie k) (C10.allForms_complete _ _) (b', .pie k') (C10.allForms_complete _ _) hne

/-- a forgery against the MAC -/
def MacForgery (mac : Bytes → Bytes → Bytes) (issued : List (Bytes × Bytes × Bytes)) : Prop :=
  ∃ k x t, mac k x = t ∧ (k, x, t) ∉ issued

/-- reduction: an accepted PIE blob whose (MAC key, MAC input, tag) was not issued is a MAC forgery -/
theorem pie_tamper_reduction (b : Backend) (ver hdr wk blob key : Bytes) (issued : List (Bytes × Bytes × Bytes))
    (hacc : pieUnwrap (pieOf b) (pieTagLen b.version) ver hdr wk blob = .ok key)
    (hnot : ∀ t n c, blob = t ++ n ++ c → t.length = pieTagLen b.version → n.length = 32 →
      ((pieOf b).ak wk n, ver ++ hdr ++ n ++ c, t) ∉ issued) :
    MacForgery (pieOf b).mac issued := by
  obtain ⟨t, n, c, hb, ht, hn, htag, _⟩ := (pieUnwrap_ok_iff b ver hdr wk blob key).mp hacc
  exact ⟨_, _, t, htag.symm, hnot t n c hb ht hn⟩

/-- reduction for PBKW: an accepted password-wrapped blob whose (MAC key, MAC input, tag) was not issued is
    a MAC forgery; the MAC key is derived from the password and from the salt and parameters *inside the blob* -/
theorem pbkw_tamper_reduction (b : Backend) (ver hdr pass blob key : Bytes) (issued : List (Bytes × Bytes × Bytes))
    (hacc : pbkwUnwrap (pbkwOf b) ver hdr pass blob = .ok key)
    (hnot : ∀ pre c t k, blob = pre ++ c ++ t → pre.length = (pbkwOf b).prefixLen → t.length = (pbkwOf b).tagLen →
      (pbkwOf b).kdf pass (pre.take (pbkwOf b).saltLen) ((pre.drop (pbkwOf b).saltLen).take (pbkwOf b).paramLen) = .ok k →
      ((pbkwOf b).ak k, ver ++ hdr ++ pre ++ c, t) ∉ issued) :
    MacForgery (pbkwOf b).mac issued := by
  obtain ⟨pre, c, t, k, hb, hp, ht, hk, htag, _⟩ := (pbkwUnwrap_ok_iff b ver hdr pass blob key).mp hacc
  exact ⟨_, _, t, htag.symm, hnot pre c t k hb hp ht hk⟩

/-- reduction for PKE: an accepted sealed key whose (MAC key, MAC input, tag) was not issued is a MAC forgery;
    the MAC input contains the PASERK header, the encapsulation and the encrypted key -/
theorem pke_tamper_reduction (b : Backend) (sk blob key : Bytes) (issued : List (Bytes × Bytes × Bytes))
    (hacc : pkeUnseal (pkeOf b) sk blob = .ok key)
    (hnot : ∀ tag e edk ctx, blob = (if (pkeOf b).encLast then tag ++ edk ++ e else tag ++ e ++ edk) →
      tag.length = (pkeOf b).tagLen → e.length = (pkeOf b).encLen → edk.length = 32 →
      (pkeOf b).decap sk e = .ok ctx →
      ((pkeOf b).ak ctx, (pkeOf b).hdr ++ e ++ edk, tag) ∉ issued) :
    MacForgery (pkeOf b).mac issued := by
  obtain ⟨tag, e, edk, ctx, hb, ht, he, hd, hdec, htag, _⟩ := (pkeUnseal_ok_iff b sk blob key).mp hacc
  exact ⟨_, _, tag, htag.symm, hnot tag e edk ctx hb ht he hd hdec⟩

/-- the split of a PIE blob into tag ‖ nonce ‖ ciphertext is unique: truncating or extending the blob changes
    the ciphertext (hence the MAC input), never the interpretation of which bytes are the tag -/
theorem pie_split_unique (tl : Nat) (t n c t' n' c' : Bytes)
    (e : t ++ n ++ c = t' ++ n' ++ c') (ht : t.length = tl) (ht' : t'.length = tl)
    (hn : n.length = 32) (hn' : n'.length = 32) : t = t' ∧ n = n' ∧ c = c' := by
  simp only [List.append_assoc] at e
  have h1 := List.append_inj e (by rw [ht, ht'])
  have h2 := List.append_inj h1.2 (by rw [hn, hn'])
  exact ⟨h1.1, h2.1, h2.2⟩

/-- unwrap never panics and errs only with InvalidKey / CryptoError (before key decoding) -/
theorem pieUnwrap_total (b : Backend) (ver hdr wk blob : Bytes) :
    (∃ k, pieUnwrap (pieOf b) (pieTagLen b.version) ver hdr wk blob = .ok k) ∨
    pieUnwrap (pieOf b) (pieTagLen b.version) ver hdr wk blob = .err .invalidKey ∨
    pieUnwrap (pieOf b) (pieTagLen b.version) ver hdr wk blob = .err .crypto := by
  unfold pieUnwrap
  split
  · right; left; rfl
  · split
    · right; left; rfl
    · split
      · left; exact ⟨_, rfl⟩
      · right; right; rfl

/-! non-vacuity -/
example : pieUnwrap (pieOf .v4) (pieTagLen 4) [107, 52] [] [] [1, 2, 3] = .err .invalidKey := by
  simp [pieUnwrap, splitFirst, pieTagLen]

end PM.C06
