import PasetoModel.Pae
/-! # C15 — pre-authentication encoding is the spec's PAE and is injective
Property theorems only; helper lemmas live in `PasetoModel/Pae.lean`. -/
namespace PM.C15

/-- The specification's PAE, unfolded: LE64 piece count, then per piece LE64 length and bytes. -/
theorem paeSpec_def (ps : List Bytes) :
    paeSpec ps = le64 ps.length ++ (ps.map (fun p => le64 p.length ++ p)).flatten := by
  unfold paeSpec; congr 1
  induction ps with
  | nil => rfl
  | cons p ps ih => simp [paeBody, ih]

/-- `le64` is the little-endian 64-bit encoding: byte `i` is `n / 256^i mod 256`. -/
theorem le64_bytes (n : Nat) (i : Nat) (hi : i < 8) :
    ((le64 n)[i]'(by simp [le64_length]; exact hi)).toNat = n / 256 ^ i % 256 := by
  have : i = 0 ∨ i = 1 ∨ i = 2 ∨ i = 3 ∨ i = 4 ∨ i = 5 ∨ i = 6 ∨ i = 7 := by omega
  rcases this with h|h|h|h|h|h|h|h <;> subst h <;> simp [le64]

/-- What the code writes (count, then per piece the *summed* fragment length followed by each
    fragment) is the spec's PAE of the pieces obtained by concatenating fragments.
    Guards: lengths fit `u64` (always true on the 64-bit target; stated because the code casts). -/
theorem pae_eq_spec (pieces : List (List Bytes))
    (hn : pieces.length < 2^64) (h : ∀ f ∈ pieces, (f.map List.length).sum < 2^64) :
    pae pieces = paeSpec (pieces.map List.flatten) :=
  paeWrites_flatten pieces hn h

/-- Streaming writers (digest / MAC / stream-verifier adapters) receive a sequence of `write`
    calls whose concatenation is exactly the buffer a `Vec` writer would hold. -/
theorem writer_trace (pieces : List (List Bytes)) :
    (paeWrites pieces).flatten = pae pieces := rfl

/-- PAE can be decoded: the piece list is recoverable from the encoding. -/
theorem unpae_pae (ps : List Bytes) (hn : ps.length < 2^64) (h : ∀ p ∈ ps, p.length < 2^64) :
    unpae (paeSpec ps) = some ps := unpae_paeSpec ps hn h

/-- Distinct piece lists always encode differently (no bound on counts or sizes other than
    the `u64` representability the format itself imposes). -/
theorem paeSpec_injective (ps qs : List Bytes) (hn : ps.length < 2^64) (hm : qs.length < 2^64)
    (hp : ∀ p ∈ ps, p.length < 2^64) (hq : ∀ p ∈ qs, p.length < 2^64)
    (h : paeSpec ps = paeSpec qs) : ps = qs := by
  have a := unpae_paeSpec ps hn hp
  have b := unpae_paeSpec qs hm hq
  rw [h] at a
  exact Option.some.inj (a.symm.trans b)

/-- Consequence for the code's encoder: two fragmentations encode equally iff their pieces agree
    after concatenating fragments — bytes cannot move between pieces unnoticed. -/
theorem pae_eq_iff (xs ys : List (List Bytes))
    (hx : xs.length < 2^64) (hy : ys.length < 2^64)
    (hxs : ∀ f ∈ xs, (f.map List.length).sum < 2^64) (hys : ∀ f ∈ ys, (f.map List.length).sum < 2^64) :
    pae xs = pae ys ↔ xs.map List.flatten = ys.map List.flatten := by
  rw [pae_eq_spec xs hx hxs, pae_eq_spec ys hy hys]
  constructor
  · intro h
    apply paeSpec_injective _ _ (by simpa using hx) (by simpa using hy) _ _ h
    · intro p hp; simp only [List.mem_map] at hp; obtain ⟨f, hf, rfl⟩ := hp
      simpa [List.length_flatten] using hxs f hf
    · intro p hp; simp only [List.mem_map] at hp; obtain ⟨f, hf, rfl⟩ := hp
      simpa [List.length_flatten] using hys f hf
  · intro h; rw [h]

/-- Boundary shifting changes the authenticated input: moving a non-empty suffix of one piece to
    the front of the next yields a different encoding. -/
theorem shift_changes (pre post : List Bytes) (a b x : Bytes) (hx : x ≠ [])
    (hl : pre.length + 2 + post.length < 2^64)
    (hp : ∀ p ∈ pre ++ (a ++ x) :: b :: post, p.length < 2^64)
    (hq : ∀ p ∈ pre ++ a :: (x ++ b) :: post, p.length < 2^64) :
    paeSpec (pre ++ (a ++ x) :: b :: post) ≠ paeSpec (pre ++ a :: (x ++ b) :: post) := by
  intro h
  have := paeSpec_injective _ _ (by simp; omega) (by simp; omega) hp hq h
  have := List.append_cancel_left this
  simp only [List.cons.injEq] at this
  have h1 := this.1
  have : x = [] := List.append_right_eq_self.mp h1
  exact hx this

/-! non-vacuity: concrete instances meeting the hypotheses -/
example : paeSpec [[1,2],[3]] ≠ paeSpec [[1],[2,3]] := by decide
example : pae [[[118,52],[],[46]], [[1,2,3]], []] = paeSpec [[118,52,46],[1,2,3],[]] := by decide
example : paeSpec [] = [0,0,0,0,0,0,0,0] := by decide
example : paeSpec [[]] = [1,0,0,0,0,0,0,0, 0,0,0,0,0,0,0,0] := by decide

end PM.C15
