import PasetoModel.Asym
import PasetoModel.Props.C15
/-! # C02 — only the exact bytes, footer, assertion, header and key are accepted
Exact acceptance characterisations + injectivity of the authenticated encoding.  The last step
("no other tag/signature verifies") is the unforgeability of the MAC / signature: an explicit
hypothesis of the corollary, never an axiom. -/
namespace PM.C02

/-- Local tokens, every back end: `unseal` returns a message **iff** the payload splits into
    nonce ‖ ciphertext ‖ tag of exactly the prescribed lengths, the assertion policy holds and
    the tag *equals* the scheme's tag over (key, header, nonce, ciphertext, footer, assertion). -/
theorem unsealLocal_ok_iff (b : Backend) (k payload f a m : Bytes) :
    unsealLocal (localScheme b) (tokHdr b .localP) k payload f a = .ok m ↔
      ((localScheme b).hasAad = true ∨ a = []) ∧
      ∃ n c t, payload = n ++ c ++ t ∧ n.length = (localScheme b).nonceLen ∧ t.length = (localScheme b).tagLen ∧
        t = (localScheme b).tag k (tokHdr b .localP) n c f a ∧ m = (localScheme b).dec k n c :=
  PM.unsealLocal_ok_iff _ _ k payload f a m

/-- Public tokens, every back end: accepted iff the payload is message ‖ signature with the
    signature of exactly the prescribed length verifying over the PAE of exactly these pieces. -/
theorem unsealPublic_ok_iff (b : Backend) (pk payload f a m : Bytes) :
    unsealPublic (publicScheme b) (tokHdr b .publicP) pk payload f a = .ok m ↔
      ((publicScheme b).hasAad = true ∨ a = []) ∧
      ∃ sig, payload = m ++ sig ∧ sig.length = (publicScheme b).sigLen ∧
        (publicScheme b).check pk (pae ((publicScheme b).pieces pk (tokHdr b .publicP) m f a)) sig = .valid :=
  PM.unsealPublic_ok_iff _ _ pk payload f a m

/-- the tag comparison covers the full tag -/
theorem tag_compare_full (x y : Bytes) : tagEq x y = true ↔ x = y := tagEq_iff x y

/-- the split into nonce, ciphertext, tag is unique: truncating, extending or shifting bytes
    between the three regions changes at least one of them -/
theorem split_unique (n c t n' c' t' : Bytes) (hn : n.length = n'.length) (ht : t.length = t'.length)
    (h : n ++ c ++ t = n' ++ c' ++ t') : n = n' ∧ c = c' ∧ t = t' := by
  rw [List.append_assoc, List.append_assoc] at h
  have h1 := List.append_inj h hn
  have hl : (c ++ t).length = (c' ++ t').length := by rw [h1.2]
  have hc : c.length = c'.length := by simp at hl; omega
  have h2 := List.append_inj h1.2 hc
  exact ⟨h1.1, h2.1, h2.2⟩

/-- versions without implicit assertions refuse a non-empty assertion, when unsealing and when sealing -/
theorem noaad_rejects_local (b : Backend) (h : (localScheme b).hasAad = false) (k payload f a : Bytes) (ha : a ≠ []) :
    unsealLocal (localScheme b) (tokHdr b .localP) k payload f a = .err .claims ∧
    sealLocal (localScheme b) (tokHdr b .localP) k payload f a = .err .claims := by
  have : a.isEmpty = false := by cases a <;> simp_all
  simp [unsealLocal, sealLocal, h, this]

theorem noaad_rejects_public (b : Backend) (h : (publicScheme b).hasAad = false) (k payload f a rnd : Bytes) (ha : a ≠ []) :
    unsealPublic (publicScheme b) (tokHdr b .publicP) k payload f a = .err .claims ∧
    sealPublic (publicScheme b) (tokHdr b .publicP) k payload f a rnd = .err .claims := by
  have : a.isEmpty = false := by cases a <;> simp_all
  simp [unsealPublic, sealPublic, h, this]

theorem aad_policy : ∀ b ∈ Backend.all,
    ((localScheme b).hasAad = decide (b.version ≥ 3)) ∧ ((publicScheme b).hasAad = decide (b.version ≥ 3)) := by
  intro b _
  cases b <;> simp [localScheme, localSchemeOf, Backend.version, symScheme, aeadScheme, publicScheme,
    publicSchemeOf, rsaScheme, edScheme, p384Scheme]

/-- what each version authenticates, spelled out: the MAC input of the encrypt-then-MAC versions
    is the code's PAE over (header fragments, nonce, ciphertext, footer[, assertion]) -/
theorem local_tag_is_mac_of_pae (b : Backend) (hb : b.version ≠ 2) (k n c f a : Bytes) :
    ∃ (P : SymPrims), (localScheme b).tag k (tokHdr b .localP) n c f a =
      P.mac (P.ak k n) (pae (symPieces (localScheme b).hasAad (tokHdr b .localP) n c f a)) := by
  cases b with
  | v1 => exact ⟨v1Sym (cfgOf .v1).ctrBits, by simp only [localScheme, localSchemeOf, Backend.version, symScheme]⟩
  | v2 => exact absurd rfl hb
  | v3 => exact ⟨v3Sym (cfgOf .v3).ctrBits, by simp only [localScheme, localSchemeOf, Backend.version, symScheme]⟩
  | v3lc => exact ⟨v3Sym (cfgOf .v3lc).ctrBits, by simp only [localScheme, localSchemeOf, Backend.version, symScheme]⟩
  | v4 => exact ⟨v4Sym, by simp only [localScheme, localSchemeOf, Backend.version, symScheme]⟩
  | v4s => exact ⟨v4Sym, by simp only [localScheme, localSchemeOf, Backend.version, symScheme]⟩

/-- v2 authenticates the ciphertext with the PAE of (header, nonce, footer) as associated data -/
theorem v2_tag_is_aead (k n c f a : Bytes) :
    (localScheme .v2).tag k (tokHdr .v2 .localP) n c f a = v2Aead.atag k n (pae [tokHdr .v2 .localP, [n], [f]]) c := rfl

/-- **The authenticated input is injective in every component**: equal PAEs force equal header,
    nonce, ciphertext, footer and assertion — so none of the listed mutations (bit flips in any
    region, footer/assertion changes, boundary shifts, header relabels) keeps the MAC input. -/
theorem authenticated_input_injective (hasAad : Bool) (h h' : List Bytes) (n c f a n' c' f' a' : Bytes)
    (hb : ∀ x ∈ [h.flatten, n, c, f, a, h'.flatten, n', c', f', a'], x.length < 2 ^ 64)
    (e : pae (symPieces hasAad h n c f a) = pae (symPieces hasAad h' n' c' f' a')) :
    h.flatten = h'.flatten ∧ n = n' ∧ c = c' ∧ f = f' ∧ (hasAad = true → a = a') := by
  have lf : ∀ (x : List Bytes), (x.map List.length).sum = x.flatten.length := by
    intro x; simp [List.length_flatten]
  have l1 : ∀ (x : Bytes), ([x].map List.length).sum = x.length := by intro x; simp
  have bd : ∀ (hh : List Bytes) (nn cc ff aa : Bytes),
      (∀ x ∈ [hh.flatten, nn, cc, ff, aa], x.length < 2 ^ 64) →
      ∀ g ∈ [hh, [nn], [cc], [ff], [aa]], (g.map List.length).sum < 2 ^ 64 := by
    intro hh nn cc ff aa hx g hg
    simp only [List.mem_cons, List.not_mem_nil, or_false] at hg
    rcases hg with rfl | rfl | rfl | rfl | rfl
    · rw [lf]; exact hx _ (by simp)
    · rw [l1]; exact hx _ (by simp)
    · rw [l1]; exact hx _ (by simp)
    · rw [l1]; exact hx _ (by simp)
    · rw [l1]; exact hx _ (by simp)
  have b1 := bd h n c f a (fun x hx => hb x (by simp at hx ⊢; rcases hx with r | r | r | r | r <;> simp [r]))
  have b2 := bd h' n' c' f' a' (fun x hx => hb x (by simp at hx ⊢; rcases hx with r | r | r | r | r <;> simp [r]))
  cases hasAad with
  | true =>
    simp only [symPieces, if_true] at e
    have := (C15.pae_eq_iff _ _ (by simp) (by simp) b1 b2).mp e
    simp only [List.map_cons, List.map_nil, List.flatten_cons, List.flatten_nil, List.append_nil,
      List.cons.injEq, and_true] at this
    exact ⟨this.1, this.2.1, this.2.2.1, this.2.2.2.1, fun _ => this.2.2.2.2⟩
  | false =>
    simp only [symPieces, Bool.false_eq_true, if_false] at e
    have b1' : ∀ g ∈ [h, [n], [c], [f]], (g.map List.length).sum < 2 ^ 64 :=
      fun g hg => b1 g (by simp at hg ⊢; rcases hg with r | r | r | r <;> simp [r])
    have b2' : ∀ g ∈ [h', [n'], [c'], [f']], (g.map List.length).sum < 2 ^ 64 :=
      fun g hg => b2 g (by simp at hg ⊢; rcases hg with r | r | r | r <;> simp [r])
    have := (C15.pae_eq_iff _ _ (by simp) (by simp) b1' b2').mp e
    simp only [List.map_cons, List.map_nil, List.flatten_cons, List.flatten_nil, List.append_nil,
      List.cons.injEq, and_true] at this
    exact ⟨this.1, this.2.1, this.2.2.1, this.2.2.2, fun h => by cases h⟩

/-- a forgery against the MAC: a key/input/tag triple that verifies but was never issued -/
def MacForgery (mac : Bytes → Bytes → Bytes) (issued : List (Bytes × Bytes × Bytes)) : Prop :=
  ∃ k x t, mac k x = t ∧ (k, x, t) ∉ issued

/-- **Reduction.** If a token is accepted under (key, header, footer, assertion) and its tag was
    not issued for exactly that MAC key and MAC input, the acceptance exhibits a MAC forgery.
    No cryptographic assumption is used. -/
theorem tamper_reduction (P : SymPrims) (nonceLen tagLen : Nat) (hasAad : Bool) (short : Res Bytes)
    (synth : Bytes → Bytes → Bytes) (hdr : List Bytes) (k payload f a m : Bytes)
    (issued : List (Bytes × Bytes × Bytes))
    (hacc : unsealLocal (symScheme P nonceLen tagLen hasAad short synth) hdr k payload f a = .ok m)
    (hnot : ∀ n c t, payload = n ++ c ++ t → n.length = nonceLen → t.length = tagLen →
      (P.ak k n, pae (symPieces hasAad hdr n c f a), t) ∉ issued) :
    MacForgery P.mac issued := by
  obtain ⟨_, n, c, t, hp, hn, ht, htag, _⟩ := (PM.unsealLocal_ok_iff _ _ _ _ _ _ _).mp hacc
  exact ⟨P.ak k n, pae (symPieces hasAad hdr n c f a), t, htag.symm, hnot n c t hp hn ht⟩

/-- corollary under the standard idealisation (stated as a hypothesis): if the MAC is unforgeable
    with respect to the issued triples, every token whose tag was not issued is rejected -/
theorem tamper_rejected (P : SymPrims) (nonceLen tagLen : Nat) (hasAad : Bool) (short : Res Bytes)
    (synth : Bytes → Bytes → Bytes) (hdr : List Bytes) (k payload f a : Bytes)
    (issued : List (Bytes × Bytes × Bytes))
    (hU : ¬ MacForgery P.mac issued)
    (hnot : ∀ n c t, payload = n ++ c ++ t → n.length = nonceLen → t.length = tagLen →
      (P.ak k n, pae (symPieces hasAad hdr n c f a), t) ∉ issued) :
    ∀ m, unsealLocal (symScheme P nonceLen tagLen hasAad short synth) hdr k payload f a ≠ .ok m :=
  fun m h => hU (tamper_reduction P nonceLen tagLen hasAad short synth hdr k payload f a m issued h hnot)

/-- unsealing never panics, and fails only with claims / invalid-token / crypto errors -/
theorem unseal_total (b : Backend) (k payload f a : Bytes) :
    (∃ m, unsealLocal (localScheme b) (tokHdr b .localP) k payload f a = .ok m) ∨
    unsealLocal (localScheme b) (tokHdr b .localP) k payload f a = .err .claims ∨
    unsealLocal (localScheme b) (tokHdr b .localP) k payload f a = .err .invalidToken ∨
    unsealLocal (localScheme b) (tokHdr b .localP) k payload f a = .err .crypto :=
  unsealLocal_total _ _ _ _ _ _

/-! non-vacuity: a too-short payload is rejected as invalid, on a concrete back end -/
example : unsealLocal (localScheme .v4) (tokHdr .v4 .localP) [] [1, 2, 3] [] [] = .err .invalidToken := by
  simp [unsealLocal, localScheme, localSchemeOf, Backend.version, symScheme, splitLast]

end PM.C02
