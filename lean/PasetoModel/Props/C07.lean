import PasetoModel.PaserkInst
import PasetoModel.SpecHeaders
/-! # C07 — PASERK wraps, seals and password-wraps are bit-exact per spec and interoperate -/
namespace PM.C07

/-- the implementation's PIE / PBKW / PKE schemes are the specification's as soon as the code's
    choices conform (full-width counter, padded RSA-KEM ciphertext, Argon2 parameter handling) -/
def Conforms (c : BackendCfg) : Prop :=
  c.ctrBits = 128 ∧ c.kemCtPadded = true ∧ c.argonMemMod1024 = false ∧ c.argonParallel = true ∧
  c.pbkwRejectsZeroIter = specCfg.pbkwRejectsZeroIter ∧ c.skChecksPubHalf = true

instance (c : BackendCfg) : Decidable (Conforms c) := by unfold Conforms; exact inferInstance

theorem pie_impl_eq_spec (version : Nat) (c : BackendCfg) (h : c.ctrBits = 128) :
    pieSym version c = pieSym version specCfg := by
  unfold pieSym; simp [h, specCfg]

theorem pbkw_impl_eq_spec (version : Nat) (c : BackendCfg) (h : Conforms c) :
    pbkwSchemeOf version c = pbkwSchemeOf version specCfg := by
  obtain ⟨h1, _, h3, h4, h5, _⟩ := h
  unfold pbkwSchemeOf
  split
  · simp only [h1, specCfg]
    congr 1
    funext pass salt params
    simp [pbkdfKdf, h5, specCfg]
  · congr 1
    funext pass salt params
    simp [argonKdf, h3, h4, specCfg]

theorem pke_impl_eq_spec (version : Nat) (c : BackendCfg) (hdr : Bytes) (h : Conforms c) :
    pkeSchemeOf version c hdr = pkeSchemeOf version specCfg hdr := by
  obtain ⟨h1, h2, _, _, _, h6⟩ := h
  unfold pkeSchemeOf
  split
  · simp [pkeRsa, h1, h2, specCfg]
  · simp [pkeP384, h1, specCfg]
  · simp [pkeSodium, h6, specCfg]

/-- obligations on `cfgOf` (kept honest by the correspondence on carry nonces / RSA-KEM seals) -/
theorem counters_full_width : ∀ b ∈ Backend.all, (cfgOf b).ctrBits = 128 := by decide
theorem kem_padded : ∀ b ∈ Backend.all, (cfgOf b).kemCtPadded = true := by decide

/-- PIE is bit-exact on every back end -/
theorem pie_all_backends_spec (b : Backend) (hb : b ∈ Backend.all) : pieOf b = pieSym b.version specCfg :=
  pie_impl_eq_spec _ _ (counters_full_width b hb)

/-- the two back ends of a version compute the same PIE wrap for the same nonce and unwrap each
    other's blobs to the same key -/
theorem pie_siblings (ver hdr wk nonce key blob : Bytes) :
    pieWrap (pieOf .v3) ver hdr wk nonce key = pieWrap (pieOf .v3lc) ver hdr wk nonce key ∧
    pieUnwrap (pieOf .v3) 48 ver hdr wk blob = pieUnwrap (pieOf .v3lc) 48 ver hdr wk blob ∧
    pieWrap (pieOf .v4) ver hdr wk nonce key = pieWrap (pieOf .v4s) ver hdr wk nonce key ∧
    pieUnwrap (pieOf .v4) 32 ver hdr wk blob = pieUnwrap (pieOf .v4s) 32 ver hdr wk blob := by
  have e3 : pieOf .v3 = pieOf .v3lc := by
    rw [pie_all_backends_spec .v3 (by decide), pie_all_backends_spec .v3lc (by decide)]; rfl
  have e4 : pieOf .v4 = pieOf .v4s := by
    rw [pie_all_backends_spec .v4 (by decide), pie_all_backends_spec .v4s (by decide)]; rfl
  rw [e3, e4]; exact ⟨rfl, rfl, rfl, rfl⟩

/-- the v3 siblings agree on PBKW for every iteration count ≥ 1 (they differ only on zero) -/
theorem pbkw_siblings_v3 (pass salt params : Bytes) (h : fromBe params ≠ 0) :
    (pbkwOf .v3).kdf pass salt params = (pbkwOf .v3lc).kdf pass salt params := by
  simp [pbkwOf, pbkwSchemeOf, Backend.version, pbkdfKdf, h]

/-- where the v4 siblings differ on PBKW parameters (recorded as a known finding): RustCrypto honours
    the parallelism parameter, libsodium's crypto_pwhash fixes p = 1.  (Both round the memory byte
    count down to whole KiB after the repair of paseto-v2/v4.)  On the common domain they agree: -/
theorem pbkw_siblings_v4 (pass salt params : Bytes)
    (hp : fromBe (params.drop 12) = 1)
    (hlo : fromBe (params.take 8) ≥ 8192) (hhi : fromBe (params.take 8) / 1024 < 2 ^ 22)
    (ht : fromBe ((params.drop 8).take 4) ≥ 1) :
    argonKdf (cfgOf .v4) pass salt params = argonKdf (cfgOf .v4s) pass salt params := by
  have c4 : (cfgOf .v4).argonParallel = true ∧ (cfgOf .v4).argonMemMod1024 = false := by decide
  have c4s : (cfgOf .v4s).argonParallel = false := by decide
  unfold argonKdf
  simp only [c4.1, c4.2, c4s, hp, if_true, Bool.false_eq_true, if_false, false_and]
  rw [if_neg (by omega)]
  simp only [ne_eq, not_true_eq_false, if_false]
  rw [if_neg (by omega)]

/-- the PASERK header strings the running code uses (regenerated on every run) are the PASERK documents' -/
theorem paserk_headers_are_spec : Spec.PaserkHeadersConform := by decide

/-! non-vacuity -/
example : Conforms specCfg := by decide
example : ¬ Conforms (cfgOf .v4s) := by decide

end PM.C07
