import PasetoModel.Types
import PasetoModel.Extracted.Api
/-! # C18 — misuse fails to compile; secrets cannot be printed
The implementation table is re-read from rustc on every run; the kernel re-checks that, for every
operation at every combination of type arguments, a program type-checks exactly when the
property's policy allows it.  (Partial: rustc is the implementation of the type system; the model
covers the bounds of the catalogued operations and is tied to rustc by compiling one program per
catalogue entry.) -/
namespace PM.C18
open Types

/-- token operations, all 6 × 2 × 6 × 5 type-argument combinations each -/
theorem token_ops_match_policy (tv : Backend) (p : Purpose) (kv : Backend) (kk : Kind) :
    typechecks (.sealTok tv p kv kk) = allowed (.sealTok tv p kv kk) ∧
    typechecks (.unsealTok tv p kv kk) = allowed (.unsealTok tv p kv kk) ∧
    typechecks (.encrypt tv p kv kk) = allowed (.encrypt tv p kv kk) ∧
    typechecks (.decrypt tv p kv kk) = allowed (.decrypt tv p kv kk) ∧
    typechecks (.sign tv p kv kk) = allowed (.sign tv p kv kk) ∧
    typechecks (.verify tv p kv kk) = allowed (.verify tv p kv kk) := by
  cases tv <;> cases p <;> cases kv <;> cases kk <;> decide

/-- PIE wrapping and key sealing, all 6 × 5 × 6 × 5 combinations each -/
theorem wrap_ops_match_policy (v : Backend) (k : Kind) (wv : Backend) (wk : Kind) :
    typechecks (.wrapPie v k wv wk) = allowed (.wrapPie v k wv wk) ∧
    typechecks (.sealKey v k wv wk) = allowed (.sealKey v k wv wk) := by
  cases v <;> cases k <;> cases wv <;> cases wk <;> decide

/-- per-key operations: password wrap, Display, Debug, Serialize, expose, public_key, id -/
theorem key_ops_match_policy (v : Backend) (k : Kind) :
    typechecks (.pwWrap v k) = allowed (.pwWrap v k) ∧
    typechecks (.displayKey v k) = allowed (.displayKey v k) ∧
    typechecks (.debugKey v k) = allowed (.debugKey v k) ∧
    typechecks (.serializeKey v k) = allowed (.serializeKey v k) ∧
    typechecks (.exposeKey v k) = allowed (.exposeKey v k) ∧
    typechecks (.publicKey v k) = allowed (.publicKey v k) ∧
    typechecks (.keyId v k) = allowed (.keyId v k) := by
  cases v <;> cases k <;> decide

theorem token_format_match_policy (v : Backend) (p : Purpose) :
    typechecks (.displaySealed v p) = allowed (.displaySealed v p) ∧
    typechecks (.displayUnsealed v p) = allowed (.displayUnsealed v p) ∧
    typechecks (.serializeUnsealed v p) = allowed (.serializeUnsealed v p) := by
  cases v <;> cases p <;> decide

theorem accessors_match_policy :
    typechecks .fieldFooter = allowed .fieldFooter ∧ typechecks .fieldPayload = allowed .fieldPayload ∧
    typechecks .unverifiedFooter = allowed .unverifiedFooter := by decide

/-- **the decision table equals the policy**, for every operation of the catalogue at every type argument -/
theorem types_match_policy (op : TOp) : typechecks op = allowed op := by
  cases op with
  | sealTok tv p kv kk => exact (token_ops_match_policy tv p kv kk).1
  | unsealTok tv p kv kk => exact (token_ops_match_policy tv p kv kk).2.1
  | encrypt tv p kv kk => exact (token_ops_match_policy tv p kv kk).2.2.1
  | decrypt tv p kv kk => exact (token_ops_match_policy tv p kv kk).2.2.2.1
  | sign tv p kv kk => exact (token_ops_match_policy tv p kv kk).2.2.2.2.1
  | verify tv p kv kk => exact (token_ops_match_policy tv p kv kk).2.2.2.2.2
  | wrapPie v k wv wk => exact (wrap_ops_match_policy v k wv wk).1
  | sealKey v k wv wk => exact (wrap_ops_match_policy v k wv wk).2
  | pwWrap v k => exact (key_ops_match_policy v k).1
  | displayKey v k => exact (key_ops_match_policy v k).2.1
  | debugKey v k => exact (key_ops_match_policy v k).2.2.1
  | serializeKey v k => exact (key_ops_match_policy v k).2.2.2.1
  | exposeKey v k => exact (key_ops_match_policy v k).2.2.2.2.1
  | publicKey v k => exact (key_ops_match_policy v k).2.2.2.2.2.1
  | keyId v k => exact (key_ops_match_policy v k).2.2.2.2.2.2
  | displaySealed v p => exact (token_format_match_policy v p).1
  | displayUnsealed v p => exact (token_format_match_policy v p).2.1
  | serializeUnsealed v p => exact (token_format_match_policy v p).2.2
  | fieldFooter => exact accessors_match_policy.1
  | fieldPayload => exact accessors_match_policy.2.1
  | unverifiedFooter => exact accessors_match_policy.2.2

/-- consequences, spelled out -/
theorem cross_version_seal_rejected (tv kv : Backend) (p : Purpose) (kk : Kind) (h : tv ≠ kv) :
    typechecks (.sealTok tv p kv kk) = false ∧ typechecks (.unsealTok tv p kv kk) = false := by
  rw [types_match_policy, types_match_policy]; simp [allowed, h]

theorem wrong_purpose_key_rejected (v : Backend) (p : Purpose) (kk : Kind) (h : kk ≠ sealingKeyOf p) :
    typechecks (.sealTok v p v kk) = false := by
  rw [types_match_policy]; simp [allowed, h]

theorem verify_encrypted_rejected (v kv : Backend) (kk : Kind) :
    typechecks (.verify v .localP kv kk) = false ∧ typechecks (.decrypt v .publicP kv kk) = false := by
  rw [types_match_policy, types_match_policy]; simp [allowed]

theorem secrets_not_printable (v : Backend) (k : Kind) (h : k ≠ .publicK) :
    typechecks (.displayKey v k) = false ∧ typechecks (.debugKey v k) = false ∧ typechecks (.serializeKey v k) = false := by
  rw [types_match_policy, types_match_policy, types_match_policy]; simp [allowed, h]

theorem unsealed_not_serialisable (v : Backend) (p : Purpose) :
    typechecks (.displayUnsealed v p) = false ∧ typechecks (.serializeUnsealed v p) = false := by
  rw [types_match_policy, types_match_policy]; simp [allowed]

theorem public_key_not_wrappable (v wv : Backend) (wk : Kind) :
    typechecks (.wrapPie v .publicK wv wk) = false ∧ typechecks (.pwWrap v .publicK) = false := by
  rw [types_match_policy, types_match_policy]; simp [allowed]

theorem pke_key_is_not_signing_key (v : Backend) (p : Purpose) :
    typechecks (.sign v p v .pkeSecret) = false ∧ typechecks (.verify v p v .pkePublic) = false := by
  rw [types_match_policy, types_match_policy]; simp [allowed]

theorem correct_programs_compile (v : Backend) (p : Purpose) :
    typechecks (.sealTok v p v (sealingKeyOf p)) = true ∧ typechecks (.unsealTok v p v p.toKind) = true ∧
    typechecks (.exposeKey v .secretK) = true ∧ typechecks (.displayKey v .publicK) = true := by
  rw [types_match_policy, types_match_policy, types_match_policy, types_match_policy]; simp [allowed]

/-- **Secret key material only through the explicit expose call.**  Over the impl table rustc reports on every run: none of the
    conversions / views that would hand out the bytes of a local, secret or PKE secret key (`Into<[u8; N]>`, `Into<Vec<u8>>`,
    `AsRef<[u8]>`, `Borrow<[u8]>`, `Deref`, `ToString`, `Hash`, `LowerHex`, …), and none that would turn an unsealed or unverified
    token into text or hand out its footer, is implemented on any back end; and `Key` has no public field. -/
theorem no_forbidden_impl :
    Extracted.Impls.forbiddenImpls.all (fun p => !p.2) = true ∧ Extracted.Api.keyPubFields = [] := by
  constructor
  · decide +kernel
  · decide

/-! non-vacuity -/
example : typechecks (.verify .v4 .localP .v4 .publicK) = false := by decide
example : typechecks (.verify .v4 .publicP .v4 .publicK) = true := by decide

end PM.C18
