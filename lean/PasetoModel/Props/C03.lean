import PasetoModel.Asym
import PasetoModel.SpecHeaders
/-! # C03 — tokens are bit-exact PASETO; siblings interoperate
The skeleton instantiated at `specCfg` is the specification model (written from the PASETO
documents, 128-bit big-endian CTR counter); instantiated at `cfgOf b` it is the implementation
model.  `impl_eq_spec` is proved generically; the per-back-end obligation is a decidable
statement about `cfgOf`, which the correspondence keeps honest. -/
namespace PM.C03

/-- counter value of block `i` for a counter occupying the low `bits` bits of the 128-bit block -/
def ctrVal (bits n i : Nat) : Nat := (n / 2 ^ bits) * 2 ^ bits + (n % 2 ^ bits + i) % 2 ^ bits

/-- the executable CTR block function is this arithmetic -/
theorem ctrBlock_def (bits : Nat) (iv : ByteArray) (i : Nat) :
    Prim.Aes.ctrBlock bits iv i = Prim.natToBE (ctrVal bits (Prim.natOfBE iv) i) 16 := rfl

/-- why the vectors pass with a 64-bit counter: as long as the low word does not wrap inside the
    message the two counters coincide -/
theorem ctr64_eq_ctr128 (n i : Nat) (hn : n < 2 ^ 128) (h : n % 2 ^ 64 + i < 2 ^ 64) :
    ctrVal 64 n i = ctrVal 128 n i := by
  unfold ctrVal
  omega

/-- where they differ: as soon as the low 64-bit word wraps, the 64-bit counter loses the carry -/
theorem ctr64_ne_ctr128 (n i : Nat) (hn : n + i < 2 ^ 128) (h : n % 2 ^ 64 + i ≥ 2 ^ 64) :
    ctrVal 64 n i ≠ ctrVal 128 n i := by
  unfold ctrVal
  omega

/-- the implementation model *is* the specification model as soon as the code's choices conform -/
theorem impl_eq_spec (b : Backend) (h : (cfgOf b).ctrBits = 128) :
    localScheme b = specLocalScheme b.version (cfgOf b) := by
  unfold localScheme specLocalScheme localSchemeOf
  cases b <;> simp [Backend.version, specCfg, BackendCfg.short, h, cfgOf] at h ⊢

/-- every back end uses the full-width counter (obligation on `cfgOf`; a back end using
    `Ctr64BE` makes this false and the correspondence finds the disagreeing token) -/
theorem counters_full_width : ∀ b ∈ Backend.all, (cfgOf b).ctrBits = 128 := by decide

/-- hence every back end's local seal / unseal functions are the specification's -/
theorem all_backends_spec (b : Backend) (hb : b ∈ Backend.all) :
    localScheme b = specLocalScheme b.version (cfgOf b) := impl_eq_spec b (counters_full_width b hb)

/-- the two back ends of a version compute the same token for the same nonce and accept the same
    tokens with the same claims (they differ only in what `dangerous_seal_with_nonce` does with a
    payload shorter than the nonce) -/
theorem siblings_agree_v3 (k payload f a : Bytes) (hl : payload.length ≥ 32) :
    sealLocal (localScheme .v3) (tokHdr .v3 .localP) k payload f a =
      sealLocal (localScheme .v3lc) (tokHdr .v3lc .localP) k payload f a ∧
    unsealLocal (localScheme .v3) (tokHdr .v3 .localP) k payload f a =
      unsealLocal (localScheme .v3lc) (tokHdr .v3lc .localP) k payload f a := by
  have hs : splitFirst 32 payload ≠ none := by
    intro h; have := splitFirst_none.mp h; omega
  constructor
  · simp only [sealLocal, localScheme, localSchemeOf, Backend.version, symScheme, cfgOf, tokHdr, Extracted.versionHeader]
    cases hsp : splitFirst 32 payload with
    | none => exact absurd hsp hs
    | some p => rfl
  · rfl

theorem siblings_agree_v4 (k payload f a : Bytes) (hl : payload.length ≥ 32) :
    sealLocal (localScheme .v4) (tokHdr .v4 .localP) k payload f a =
      sealLocal (localScheme .v4s) (tokHdr .v4s .localP) k payload f a ∧
    unsealLocal (localScheme .v4) (tokHdr .v4 .localP) k payload f a =
      unsealLocal (localScheme .v4s) (tokHdr .v4s .localP) k payload f a := by
  have hs : splitFirst 32 payload ≠ none := by
    intro h; have := splitFirst_none.mp h; omega
  constructor
  · simp only [sealLocal, localScheme, localSchemeOf, Backend.version, symScheme, cfgOf, tokHdr, Extracted.versionHeader]
    cases hsp : splitFirst 32 payload with
    | none => exact absurd hsp hs
    | some p => rfl
  · rfl

/-- specification-conforming tokens are accepted with the same claims (C01 at the spec instance) -/
theorem spec_tokens_accepted (b : Backend) (hb : b ∈ Backend.all) (k n0 m f a : Bytes)
    (hn : n0.length = (localScheme b).nonceLen) (ha : (localScheme b).hasAad = true ∨ a = []) :
    ∃ tok, sealLocal (specLocalScheme b.version (cfgOf b)) (tokHdr b .localP) k (n0 ++ m) f a = .ok tok ∧
           unsealLocal (localScheme b) (tokHdr b .localP) k tok f a = .ok m := by
  rw [← all_backends_spec b hb]
  exact PM.local_roundtrip _ (localSchemeOf_laws _ _) _ k n0 m f a hn ha

/-- the token header strings the running code uses (regenerated into `Extracted/Headers.lean` on every
    run) are the PASETO documents' -/
theorem token_headers_are_spec : Spec.TokenHeadersConform := by decide

/-! non-vacuity -/
example : ctrVal 64 (2 ^ 64 - 1) 1 ≠ ctrVal 128 (2 ^ 64 - 1) 1 := by decide
example : ctrVal 64 5 1 = ctrVal 128 5 1 := by decide

end PM.C03
