import PasetoModel.Asym
/-! # C08 — keys survive serialisation; secret ↦ matching public; invalid encodings rejected
A decoded key is represented by its canonical encoding.  Interpretation (DESIGN §6 C08): the
property demands idempotence of decode ∘ encode, so normalising accepted alternative encodings
(PEM → DER, uncompressed / compact / hybrid SEC1 → compressed) is not a violation. -/
namespace PM.C08

/-- key kinds whose decoder returns the input bytes unchanged -/
def rawKind (version : Nat) (k : Kind) : Bool :=
  match k with
  | .localK => true
  | .publicK | .pkePublic => decide (version = 2 ∨ version = 4)
  | .secretK | .pkeSecret => decide (version = 2 ∨ version = 3 ∨ version = 4)

theorem edPubDecode_ok (c : BackendCfg) (raw key : Bytes) (h : edPubDecode c raw = .ok key) : key = raw := by
  unfold edPubDecode at h
  split at h
  · cases h
  · split at h
    · cases h
    · split at h
      · cases h
      · injection h with h; exact h.symm

theorem edSecDecode_ok (c : BackendCfg) (raw key : Bytes) (h : edSecDecode c raw = .ok key) : key = raw := by
  unfold edSecDecode at h
  split at h
  · cases h
  · split at h
    · injection h with h; exact h.symm
    · split at h
      · split at h
        · injection h with h; exact h.symm
        · cases h
      · rename_i e he
        cases e <;> simp_all

theorem p384SecDecode_ok (raw key : Bytes) (h : p384SecDecode raw = .ok key) : key = raw := by
  unfold p384SecDecode at h
  split at h
  · cases h
  · simp only at h
    split at h
    · cases h
    · injection h with h; exact h.symm

/-- for those kinds an accepted key *is* its bytes: serialise ∘ parse is the identity on accepted
    inputs, hence decode ∘ encode is idempotent and nothing is normalised -/
theorem decode_returns_input (c : BackendCfg) (version : Nat) (k : Kind) (raw key : Bytes)
    (hk : rawKind version k = true)
    (h : keyDecodeWith c version k raw = .ok key) : key = raw := by
  cases k with
  | localK =>
    simp only [keyDecodeWith] at h
    split at h
    · injection h with h; exact h.symm
    · cases h
  | publicK =>
    simp only [rawKind, decide_eq_true_eq] at hk
    rcases hk with rfl | rfl <;> exact edPubDecode_ok c raw key h
  | pkePublic =>
    simp only [rawKind, decide_eq_true_eq] at hk
    rcases hk with rfl | rfl <;> exact edPubDecode_ok c raw key h
  | secretK =>
    simp only [rawKind, decide_eq_true_eq] at hk
    rcases hk with rfl | rfl | rfl
    · exact edSecDecode_ok c raw key h
    · exact p384SecDecode_ok raw key h
    · exact edSecDecode_ok c raw key h
  | pkeSecret =>
    simp only [rawKind, decide_eq_true_eq] at hk
    rcases hk with rfl | rfl | rfl
    · exact edSecDecode_ok c raw key h
    · exact p384SecDecode_ok raw key h
    · exact edSecDecode_ok c raw key h

theorem decode_idempotent (c : BackendCfg) (version : Nat) (k : Kind) (raw key : Bytes)
    (hk : rawKind version k = true)
    (h : keyDecodeWith c version k raw = .ok key) : keyDecodeWith c version k key = .ok key := by
  have := decode_returns_input c version k raw key hk h
  subst this; exact h

/-- the normalising decoders (P-384 public keys) are idempotent provided point compression
    round-trips (dependency law: `decompress (compress P) = P`) -/
theorem decode_idempotent_p384 (c : BackendCfg) (raw key : Bytes)
    (law : ∀ P b, p384Compress P = some b → ∃ P', p384Decode b = .point P' ∧ p384Compress P' = some b)
    (hne : key ≠ p384InfinityKey) (halt : p384AltForm c key = none)
    (h : p384PubDecode c raw = .ok key) : p384PubDecode c key = .ok key := by
  unfold p384PubDecode at h
  split at h
  · rename_i P hP
    split at h
    · rename_i b hb
      injection h with h; subst h
      obtain ⟨P', h1, h2⟩ := law P b hb
      simp [p384PubDecode, halt, h1, h2]
    · cases h
  · split at h
    · cases h
    · injection h with h; exact absurd h.symm hne
  · cases h

/-! ## lengths -/

theorem local_key_len (c : BackendCfg) (v : Nat) (raw key : Bytes) (h : keyDecodeWith c v .localK raw = .ok key) :
    raw.length = 32 := by
  simp only [keyDecodeWith] at h; split at h <;> first | assumption | cases h

theorem ed_public_len (c : BackendCfg) (raw key : Bytes) (h : edPubDecode c raw = .ok key) : raw.length = 32 := by
  unfold edPubDecode at h; split at h
  · cases h
  · rename_i hl; simpa using hl

theorem ed_secret_len (c : BackendCfg) (raw key : Bytes) (h : edSecDecode c raw = .ok key) : raw.length = 64 := by
  unfold edSecDecode at h; split at h
  · cases h
  · rename_i hl; simpa using hl

theorem p384_secret_len_and_range (raw key : Bytes) (h : p384SecDecode raw = .ok key) :
    raw.length = 48 ∧ 1 ≤ fromBe raw ∧ fromBe raw < Prim.P384.n := by
  unfold p384SecDecode at h
  split at h
  · cases h
  · rename_i hl
    simp only at h
    split at h
    · cases h
    · rename_i hr
      refine ⟨by simpa using hl, ?_, ?_⟩ <;> omega

/-- out-of-range scalars (0, n, …, 2^384−1) are rejected -/
theorem scalar_out_of_range_rejected (raw : Bytes) (h : fromBe raw = 0 ∨ fromBe raw ≥ Prim.P384.n) :
    (p384SecDecode raw).isOk = false := by
  unfold p384SecDecode
  split
  · rfl
  · simp only; rw [if_pos h]; rfl

/-! ## the public key derived from a secret key -/

/-- Ed25519 back ends: an accepted secret key's public half is the key derived from its seed, and
    `public_key()` returns exactly that half -/
theorem ed_public_half_consistent (c : BackendCfg) (hc : c.skChecksPubHalf = true) (raw key : Bytes)
    (h : edSecDecode c raw = .ok key) :
    key = raw ∧ pubOfWith c 4 key = raw.drop 32 ∧ edPub (raw.take 32) = raw.drop 32 := by
  unfold edSecDecode at h
  split at h
  · cases h
  · simp only [hc, Bool.not_true, Bool.false_eq_true, if_false] at h
    split at h
    · rename_i pk hpk
      split at h
      · rename_i heq
        injection h with h; subst h
        have : pk = raw.drop 32 := by
          unfold edPubDecode at hpk
          repeat' split at hpk
          all_goals (first | (injection hpk with hpk; exact hpk.symm) | cases hpk)
        subst this
        exact ⟨rfl, by simp [pubOfWith, hc, heq], heq⟩
      · cases h
    · rename_i e he; cases e <;> simp_all

/-- every back end checks the public half (obligation on `cfgOf`, kept honest by the streams) -/
theorem all_check_public_half : ∀ b ∈ Backend.all, (cfgOf b).skChecksPubHalf = true := by decide

/-! ## invalid points -/

/-- off-curve bytes are rejected when the decoder checks decompression … -/
theorem off_curve_rejected (c : BackendCfg) (hc : c.pkOnCurve = true) (raw : Bytes) (h : (edPoint raw).isNone = true) :
    (edPubDecode c raw).isOk = false := by
  unfold edPubDecode; split
  · rfl
  · simp [hc, h, Res.isOk]

/-- … and every back end does (after the repair of paseto-v4-sodium) -/
theorem all_check_on_curve : ∀ b ∈ Backend.all, (cfgOf b).pkOnCurve = true := by decide

/-- the P-384 point at infinity is rejected by every back end (after the repair of paseto-v3-aws-lc) -/
theorem all_reject_infinity : ∀ b ∈ Backend.all, (cfgOf b).pkRejectsInfinity = true := by decide

theorem infinity_rejected (c : BackendCfg) (hc : c.pkRejectsInfinity = true) :
    (p384PubDecode c [0]).isOk = false := by
  have h1 : p384AltForm c [0] = none := by simp [p384AltForm]
  have h2 : p384Decode [0] = .infinity := by rfl
  simp [p384PubDecode, h1, h2, hc, Res.isOk]

/-- hence no accepted key makes `encode` panic: the panic site of `compressed_pub_key` is unreachable -/
theorem encode_never_panics (b : Backend) (k : Kind) (key : Bytes) (hne : key ≠ p384InfinityKey) : keyEncode b k key = .ok key := by
  simp [keyEncode, hne]

/-- **Known finding (recorded, not repaired — the official PASERK vectors `k2/k4.public-1` use the
    all-zero small-order key and must be accepted):** the Ed25519 back ends accept small-order
    points, including the identity, as public keys.  The full statement of the property would be
    `∀ b, (cfgOf b).pkRejectsWeak = true`; it is false, with this witness: -/
theorem small_order_points_accepted_partial :
    (cfgOf .v2).pkRejectsWeak = false ∧ (cfgOf .v4).pkRejectsWeak = false ∧ (cfgOf .v4s).pkRejectsWeak = false := by
  decide

/-- under a decoder that does reject them, the identity would be rejected (what the property asks) -/
theorem weak_rejected_if_checked (c : BackendCfg) (hc : c.pkRejectsWeak = true) (raw : Bytes) (hw : edWeak raw = true) :
    (edPubDecode c raw).isOk = false := by
  unfold edPubDecode
  split
  · rfl
  · split
    · rfl
    · simp [hc, hw, Res.isOk]

/-! ### v1 (RSA) keys: decode ∘ encode is idempotent under the DER codec law -/

/-- the DER codec law for the two RSA containers (`der` / `spki` / `pkcs1` are dependencies: the law is a hypothesis; the
    executable codec of the model is validated against the library on every run by the `key.dec` / `o.key` stream) -/
structure DerLaws : Prop where
  spki : ∀ n e, Der.parseSpkiRsa (Der.encodeSpkiRsa n e) = some (n, e)
  pkcs1 : ∀ k : Der.RsaPriv, Der.parsePkcs1 (Der.encodePkcs1 k) = some k

/-- what the v1 public-key decoder returns is the canonical SPKI DER of a checked (n, e) with the prescribed modulus size,
    whatever container (DER or PEM) the key came in -/
theorem rsaPubDecode_ok (bits : Nat) (raw key : Bytes) (h : rsaPubDecode bits raw = .ok key) :
    ∃ n e, key = Der.encodeSpkiRsa n e ∧ rsaPublicOk n e = true ∧ bitLen n = bits := by
  simp only [rsaPubDecode] at h
  split at h
  · cases h
  · rename_i n e _
    split at h
    · cases h
    · split at h
      · cases h
      · injection h with h
        exact ⟨n, e, h.symm, by simp_all, by simp_all⟩

/-- v1 public keys survive serialisation: decoding the re-encoded key gives the same key (PEM / DER inputs are normalised once) -/
theorem rsa_pub_decode_idempotent (L : DerLaws) (bits : Nat) (raw key : Bytes)
    (h : rsaPubDecode bits raw = .ok key) : rsaPubDecode bits key = .ok key := by
  obtain ⟨n, e, rfl, hok, hb⟩ := rsaPubDecode_ok bits raw key h
  simp [rsaPubDecode, L.spki n e, hok, hb]

theorem rsaPrivDecode_ok (bits : Nat) (raw key : Bytes) (h : rsaPrivDecode bits raw = .ok key) :
    ∃ k, key = Der.encodePkcs1 k ∧ rsaPrivValid k = true ∧ bitLen k.n = bits := by
  simp only [rsaPrivDecode] at h
  split at h
  · cases h
  · rename_i k _
    split at h
    · cases h
    · split at h
      · cases h
      · injection h with h
        exact ⟨k, h.symm, by simp_all, by simp_all⟩

/-- v1 secret keys survive serialisation -/
theorem rsa_priv_decode_idempotent (L : DerLaws) (bits : Nat) (raw key : Bytes)
    (h : rsaPrivDecode bits raw = .ok key) : rsaPrivDecode bits key = .ok key := by
  obtain ⟨k, rfl, hok, hb⟩ := rsaPrivDecode_ok bits raw key h
  simp [rsaPrivDecode, L.pkcs1 k, hok, hb]

/-- a modulus of any other size is rejected (the prescribed sizes are passed by the callers: 2048 for signing keys) -/
theorem rsa_wrong_modulus_size_rejected (bits : Nat) (raw key : Bytes) (h : rsaPubDecode bits raw = .ok key) :
    ∃ n e, Der.parseSpkiRsa key = Der.parseSpkiRsa (Der.encodeSpkiRsa n e) ∧ bitLen n = bits := by
  obtain ⟨n, e, rfl, _, hb⟩ := rsaPubDecode_ok bits raw key h
  exact ⟨n, e, rfl, hb⟩

/-! non-vacuity -/
example : (keyDecode .v4 .localK (List.replicate 32 7)).isOk = true := by decide
example : (keyDecode .v4 .localK (List.replicate 33 7)).isOk = false := by decide
example : (p384SecDecode (List.replicate 48 0)).isOk = false := by decide

end PM.C08
