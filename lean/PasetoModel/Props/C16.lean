import PasetoModel.RngStream
/-! # C16 — fresh randomness; fail closed
For the getrandom-based back ends every randomised operation is a function of the answers of the
random source; these theorems show (a) any failing draw makes the operation return `CryptoError`
and nothing else, (b) the drawn bytes *are* the nonce / salt / key embedded in the artefact, so
distinct draws give distinct artefacts.  (Partial: that the OS RNG's answers are distinct is its
own property; aws-lc, libsodium and `rsa`'s OsRng cannot be failed from outside.) -/
namespace PM.C16

/-- a failing first draw fails the operation -/
theorem draw_fail (n : Nat) (rest : Src) : draw n (none :: rest) = .err .crypto := rfl

/-- **fail closed, token encryption**: if the source fails, `encrypt` returns `CryptoError` and no token -/
theorem encrypt_fail_closed (b : Backend) (k msg f a : Bytes) (rest : Src) :
    rngEncrypt b k msg f a (none :: rest) = .err .crypto := rfl

theorem pie_fail_closed (b : Backend) (ver hdr wk key : Bytes) (rest : Src) :
    rngPieWrap b ver hdr wk key (none :: rest) = .err .crypto := rfl

/-- PBKW draws twice (salt, nonce): a failure at either index fails the operation -/
theorem pbkw_fail_closed (b : Backend) (ver hdr pass params key salt : Bytes) (rest : Src) :
    rngPbkwWrap b ver hdr pass params key (none :: rest) = .err .crypto ∧
    rngPbkwWrap b ver hdr pass params key (some salt :: none :: rest) = .err .crypto := by
  refine ⟨rfl, ?_⟩
  by_cases hl : salt.length = (pbkwOf b).saltLen
  · simp [rngPbkwWrap, draw, Res.bind, hl]
  · simp [rngPbkwWrap, draw, Res.bind, hl]

theorem localkey_fail_closed (rest : Src) : rngLocalKey (none :: rest) = .err .crypto := rfl

theorem secretkey_fail_closed (b : Backend) (rest : Src) : rngSecretKey b (none :: rest) = .err .crypto := by
  unfold rngSecretKey; split <;> rfl

theorem seal_fail_closed (b : Backend) (pk key : Bytes) (rest : Src) :
    rngSeal b pk key (none :: rest) = .err .crypto := by
  unfold rngSeal drawPkeRnd; split <;> rfl

/-- rejection sampling fails closed at *every* iteration: a failing draw after any number of
    rejected candidates still yields `CryptoError` -/
theorem drawScalar_fail_closed (fuel : Nat) (rejected : List Bytes)
    (hrej : ∀ x ∈ rejected, x.length = 48 ∧ (fromBe x = 0 ∨ fromBe x ≥ Prim.P384.n)) (rest : Src) :
    drawScalar fuel (rejected.map some ++ none :: rest) = .err .crypto := by
  induction rejected generalizing fuel with
  | nil => cases fuel <;> rfl
  | cons x xs ih =>
    cases fuel with
    | zero => rfl
    | succ f =>
      have hx := hrej x (by simp)
      simp only [List.map_cons, List.cons_append, drawScalar, draw, hx.1, if_true, Res.bind]
      rw [if_pos hx.2]
      exact ih f (fun y hy => hrej y (by simp [hy]))

/-- general form: whatever an operation does after its draws, a failure of the source at the first
    unanswered draw is the operation's result -/
theorem bind_fail_closed {α} (n : Nat) (rest : Src) (k : Bytes × Src → Res α) :
    (draw n (none :: rest)).bind k = .err .crypto := rfl

/-! ## the drawn bytes are the embedded nonce -/

/-- v3 / v4 local tokens: the first 32 payload bytes are exactly the drawn nonce -/
theorem token_nonce_is_draw (b : Backend) (hb : b.version = 3 ∨ b.version = 4) (k msg f a n tok : Bytes) (rest : Src)
    (h : rngEncrypt b k msg f a (some n :: rest) = .ok tok) : n <+: tok := by
  have hd : (cfgOf b).nonceDraw = 32 ∧ (localScheme b).nonceLen = 32 ∧ (∀ r m, (localScheme b).synth r m = r) := by
    cases b <;> simp [Backend.version] at hb <;>
      simp [localScheme, localSchemeOf, Backend.version, symScheme, cfgOf, Extracted.nonceDrawLocal, noSynth]
  by_cases hl : n.length = 32
  · simp only [rngEncrypt, draw, hd.1, hl, if_true, Res.bind] at h
    unfold sealLocal at h
    split at h
    · cases h
    · rw [splitFirst_append _ _ _ (by rw [hd.2.1]; exact hl)] at h
      simp only [] at h
      injection h with h; subst h
      rw [hd.2.2, List.append_assoc]; exact List.prefix_append _ _
  · simp [rngEncrypt, draw, hd.1, hl, Res.bind] at h

/-- v1 / v2: the nonce is a MAC of the message keyed by the drawn bytes; equal nonces for distinct
    draws would be a collision of that MAC (stated, not claimed) -/
theorem synth_nonce_is_mac_of_draw (b : Backend) (hb : b.version = 1 ∨ b.version = 2) (r m : Bytes) :
    (localScheme b).synth r m = if b.version = 1 then v1Synth r m else v2Synth r m := by
  cases b <;> simp [Backend.version] at hb <;> rfl

/-- PIE: the blob is tag ‖ drawn nonce ‖ ciphertext — distinct draws give distinct blobs -/
theorem pie_nonce_is_draw (b : Backend) (ver hdr wk key n : Bytes) (rest : Src) (hn : n.length = 32) :
    ∃ tag c, rngPieWrap b ver hdr wk key (some n :: rest) = .ok (tag ++ n ++ c) ∧ tag.length = pieTagLen b.version := by
  refine ⟨(pieOf b).mac ((pieOf b).ak wk n) (ver ++ hdr ++ n ++ symEnc (pieOf b) wk n key), symEnc (pieOf b) wk n key, ?_,
    (pieSym_laws b.version (cfgOf b)).mac_len _ _⟩
  simp [rngPieWrap, draw, hn, Res.map, Res.bind, pieWrap]

theorem pie_draws_distinct (b : Backend) (ver hdr wk key n n' : Bytes) (rest rest' : Src)
    (hn : n.length = 32) (hn' : n'.length = 32) (hne : n ≠ n') :
    rngPieWrap b ver hdr wk key (some n :: rest) ≠ rngPieWrap b ver hdr wk key (some n' :: rest') := by
  obtain ⟨t, c, h, ht⟩ := pie_nonce_is_draw b ver hdr wk key n rest hn
  obtain ⟨t', c', h', ht'⟩ := pie_nonce_is_draw b ver hdr wk key n' rest' hn'
  rw [h, h']
  intro e
  injection e with e
  rw [List.append_assoc, List.append_assoc] at e
  have e1 := List.append_inj e (by rw [ht, ht'])
  have e2 := List.append_inj e1.2 (by rw [hn, hn'])
  exact hne e2.1

/-- PBKW: the blob starts with the drawn salt, then the parameters, then the drawn nonce -/
theorem pbkw_salt_nonce_are_draws (b : Backend) (ver hdr pass params key salt nonce blob : Bytes) (rest : Src)
    (hs : salt.length = (pbkwOf b).saltLen) (hn : nonce.length = (pbkwOf b).nonceLen)
    (h : rngPbkwWrap b ver hdr pass params key (some salt :: some nonce :: rest) = .ok blob) :
    (salt ++ params ++ nonce) <+: blob := by
  simp only [rngPbkwWrap, draw, hs, hn, if_true, Res.bind, pbkwWrap, Res.map] at h
  split at h
  · injection h with h; subst h
    rw [List.append_assoc (salt ++ params ++ nonce)]; exact List.prefix_append _ _
  · cases h
  · cases h

/-- generated local keys are the drawn bytes -/
theorem localkey_is_draw (k : Bytes) (rest : Src) (h : k.length = 32) : rngLocalKey (some k :: rest) = .ok k := by
  simp [rngLocalKey, draw, h, Res.map, Res.bind]

/-- generated Ed25519 secret keys start with the drawn seed: distinct seeds, distinct keys -/
theorem secretkey_is_draw (b : Backend) (hb : b.version = 2 ∨ b.version = 4) (seed : Bytes) (rest : Src)
    (h : seed.length = 32) : rngSecretKey b (some seed :: rest) = .ok (seed ++ edPub seed) := by
  rcases hb with hb | hb <;> simp [rngSecretKey, hb, draw, h, Res.map, Res.bind]

/-! ## the request-level model is independent of how requests are cut

The harness's scripted random source is a byte stream with failure points: how the library chunks its requests is not
something the property constrains.  These theorems tie the request-level `draw` used above to that stream-level source. -/

/-- a successful `draw` takes exactly these bytes from the stream, and leaves the stream of the remaining answers -/
theorem draw_is_stream_take (n : Nat) (s s' : Src) (b : Bytes) (h : draw n s = .ok (b, s')) :
    takeS n (flat s) = .ok (b, flat s') := draw_refines_stream n s s' b h

/-- a failing answer fails the request that reaches it, at stream level too -/
theorem stream_fail_closed (n : Nat) (rest : Src) : takeS (n + 1) (flat (none :: rest)) = .err .crypto := rfl

/-- **chunking independence**: one request of `m + n` bytes = a request of `m` then a request of `n`
    (same bytes, same remaining stream, same failure) -/
theorem requests_are_chunking_independent (m n : Nat) (s : List SByte) :
    takeS (m + n) s = (takeS m s).bind (fun (x, s') => (takeS n s').map (fun (y, s'') => (x ++ y, s''))) :=
  takeS_add m n s

/-- PBKW draws salt then nonce: at stream level that is one request of `saltLen + nonceLen` bytes cut in two, so a
    library that fetched both with a single request would embed the same salt and nonce -/
theorem pbkw_draws_as_one_request (b : Backend) (s s1 s2 : Src) (salt nonce : Bytes)
    (h1 : draw (pbkwOf b).saltLen s = .ok (salt, s1)) (h2 : draw (pbkwOf b).nonceLen s1 = .ok (nonce, s2)) :
    takeS ((pbkwOf b).saltLen + (pbkwOf b).nonceLen) (flat s) = .ok (salt ++ nonce, flat s2) := by
  rw [takeS_add, draw_refines_stream _ _ _ _ h1]
  simp only [Res.bind]
  rw [draw_refines_stream _ _ _ _ h2]
  rfl

/-! non-vacuity -/
example : (draw 2 [some [1, 2], none]) = .ok ([1, 2], [none]) := rfl
example : takeS 3 (flat [some [1, 2], some [3, 4], none]) = .ok ([1, 2, 3], [some 4, none]) := rfl
example : drawScalar 3 [some (List.replicate 48 0), none] = .err .crypto := by decide

end PM.C16
