import PasetoModel.Validate
import PasetoModel.Token
/-! # C11 — claims are released only if the validator accepts; built-in validators are exact -/
namespace PM.C11

/-! ## exactness of every validator expression (all combinators, any depth) -/

mutual
/-- For every validator expression whose leeway nodes are representable (`now ± leeway` in jiff's
    range — the property's guard), evaluation never panics and succeeds exactly when the
    specification's `accepts` says so; otherwise it is a claims error. -/
theorem eval_exact (r : TsRange) : (v : V) → (c : Claims) → v.inRange r = true →
    (v.eval r c = .ok () ∧ v.accepts c = true) ∨ (v.eval r c = .err .claims ∧ v.accepts c = false)
  | .time now, c, _ => by
      simp only [V.eval, V.accepts, claimsErr]
      cases c.exp with
      | none =>
        cases c.nbf with
        | none => simp
        | some n =>
          by_cases h : now < n
          · have h' : ¬ n ≤ now := by omega
            simp [h, h']
          · have h' : n ≤ now := by omega
            simp [h, h']
      | some e =>
        by_cases h1 : e < now
        · have h1' : ¬ now ≤ e := by omega
          simp [h1, h1']
        · have h1' : now ≤ e := by omega
          cases c.nbf with
          | none => simp [h1, h1']
          | some n =>
            by_cases h : now < n
            · have h' : ¬ n ≤ now := by omega
              simp [h1, h1', h, h']
            · have h' : n ≤ now := by omega
              simp [h1, h1', h, h']
  | .leeway now l, c, h => by
      simp only [V.inRange, Bool.and_eq_true, decide_eq_true_eq] at h
      simp only [V.eval, V.accepts, claimsErr]
      have g1 : ¬ (now - (l : Int) < r.lo) := by omega
      have g2 : ¬ (now + (l : Int) > r.hi) := by omega
      cases c.exp with
      | none =>
        cases c.nbf with
        | none => simp
        | some n =>
          by_cases h : now + (l : Int) < n
          · have h' : ¬ n ≤ now + (l : Int) := by omega
            simp [g2, h, h']
          · have h' : n ≤ now + (l : Int) := by omega
            simp [g2, h, h']
      | some e =>
        by_cases h1 : e < now - (l : Int)
        · have h1' : ¬ now - (l : Int) ≤ e := by omega
          simp [g1, h1, h1']
        · have h1' : now - (l : Int) ≤ e := by omega
          cases c.nbf with
          | none => simp [g1, h1, h1']
          | some n =>
            by_cases h : now + (l : Int) < n
            · have h' : ¬ n ≤ now + (l : Int) := by omega
              simp [g1, g2, h1, h1', h, h']
            · have h' : n ≤ now + (l : Int) := by omega
              simp [g1, g2, h1, h1', h, h']
  | .hasExp, c, _ => by
      simp only [V.eval, V.accepts, claimsErr]; cases c.exp <;> simp
  | .sub s, c, _ => by
      simp only [V.eval, V.accepts, claimsErr]; by_cases h : c.sub = some s <;> simp [h]
  | .iss s, c, _ => by
      simp only [V.eval, V.accepts, claimsErr]; by_cases h : c.iss = some s <;> simp [h]
  | .aud s, c, _ => by
      simp only [V.eval, V.accepts, claimsErr]; by_cases h : c.aud = some s <;> simp [h]
  | .andThen a b, c, h => by
      simp only [V.inRange, Bool.and_eq_true] at h
      simp only [V.eval, V.accepts]
      rcases eval_exact r a c h.1 with ⟨ea, aa⟩ | ⟨ea, aa⟩
      · rcases eval_exact r b c h.2 with ⟨eb, ab⟩ | ⟨eb, ab⟩ <;> simp [ea, aa, eb, ab]
      · simp [ea, aa]
  | .all vs, c, h => by
      simp only [V.inRange] at h
      simp only [V.eval, V.accepts]
      exact evalAll_exact r vs c h
  | .boxed v, c, h => by simp only [V.inRange] at h; simpa [V.eval, V.accepts] using eval_exact r v c h
  | .rc v, c, h => by simp only [V.inRange] at h; simpa [V.eval, V.accepts] using eval_exact r v c h
  | .arc v, c, h => by simp only [V.inRange] at h; simpa [V.eval, V.accepts] using eval_exact r v c h
  | .mapped v, c, h => by simp only [V.inRange] at h; simpa [V.eval, V.accepts] using eval_exact r v c h
  | .noValidation, c, _ => by simp [V.eval, V.accepts]
theorem evalAll_exact (r : TsRange) : (vs : List V) → (c : Claims) → V.inRangeAll r vs = true →
    (V.evalAll r vs c = .ok () ∧ V.acceptsAll vs c = true) ∨
    (V.evalAll r vs c = .err .claims ∧ V.acceptsAll vs c = false)
  | [], c, _ => by simp [V.evalAll, V.acceptsAll]
  | v :: vs, c, h => by
      simp only [V.inRangeAll, Bool.and_eq_true] at h
      simp only [V.evalAll, V.acceptsAll]
      rcases eval_exact r v c h.1 with ⟨ea, aa⟩ | ⟨ea, aa⟩
      · rcases evalAll_exact r vs c h.2 with ⟨eb, ab⟩ | ⟨eb, ab⟩ <;> simp [ea, aa, eb, ab]
      · simp [ea, aa]
end

/-- accepted iff the specification accepts -/
theorem eval_ok_iff_accepts (r : TsRange) (v : V) (c : Claims) (h : v.inRange r = true) :
    v.eval r c = .ok () ↔ v.accepts c = true := by
  rcases eval_exact r v c h with ⟨e, a⟩ | ⟨e, a⟩ <;> simp [e, a]

/-- rejected means a claims error, never another error kind and never a panic -/
theorem eval_reject_is_claims_error (r : TsRange) (v : V) (c : Claims) (h : v.inRange r = true)
    (ha : v.accepts c = false) : v.eval r c = .err .claims := by
  rcases eval_exact r v c h with ⟨_, a⟩ | ⟨e, _⟩
  · rw [a] at ha; exact absurd ha (by simp)
  · exact e

/-! ## the built-in validators, spelled out -/

theorem time_exact (r : TsRange) (now : Int) (c : Claims) :
    (V.time now).eval r c = .ok () ↔
      (∀ e, c.exp = some e → e ≥ now) ∧ (∀ n, c.nbf = some n → n ≤ now) := by
  rw [eval_ok_iff_accepts r _ c rfl]
  simp only [V.accepts, Bool.and_eq_true]
  cases c.exp <;> cases c.nbf <;> simp

theorem leeway_exact (r : TsRange) (now : Int) (l : Nat) (c : Claims)
    (hlo : r.lo ≤ now - l) (hhi : now + l ≤ r.hi) :
    (V.leeway now l).eval r c = .ok () ↔
      (∀ e, c.exp = some e → e ≥ now - l) ∧ (∀ n, c.nbf = some n → n ≤ now + l) := by
  rw [eval_ok_iff_accepts r _ c (by simp [V.inRange, hlo, hhi])]
  simp only [V.accepts, Bool.and_eq_true]
  cases c.exp <;> cases c.nbf <;> simp

/-- the code panics (jiff's checked `Timestamp ± Duration`) only outside the property's guard:
    recorded so that the guard is visible, not hidden by totalisation -/
theorem leeway_panic_only_out_of_range (r : TsRange) (now : Int) (l : Nat) (c : Claims)
    (h : ((V.leeway now l).eval r c).isPanic = true) : now - l < r.lo ∨ now + l > r.hi := by
  by_cases g : r.lo ≤ now - l ∧ now + l ≤ r.hi
  · have hr : (V.leeway now l).inRange r = true := by simp [V.inRange, g.1, g.2]
    rcases eval_exact r _ c hr with ⟨e, _⟩ | ⟨e, _⟩ <;> rw [e] at h <;> simp [Res.isPanic] at h
  · omega

/-- and outside the guard it does panic as soon as the offending claim is present -/
theorem leeway_panics_below (r : TsRange) (now : Int) (l : Nat) (c : Claims) (e : Int)
    (he : c.exp = some e) (h : now - l < r.lo) : ((V.leeway now l).eval r c).isPanic = true := by
  simp [V.eval, he, h, Res.isPanic]

theorem hasExpiry_exact (r : TsRange) (c : Claims) : V.hasExp.eval r c = .ok () ↔ c.exp.isSome = true := by
  rw [eval_ok_iff_accepts r _ c rfl]; simp [V.accepts]
theorem subject_exact (r : TsRange) (s : Bytes) (c : Claims) : (V.sub s).eval r c = .ok () ↔ c.sub = some s := by
  rw [eval_ok_iff_accepts r _ c rfl]; simp [V.accepts]
theorem issuer_exact (r : TsRange) (s : Bytes) (c : Claims) : (V.iss s).eval r c = .ok () ↔ c.iss = some s := by
  rw [eval_ok_iff_accepts r _ c rfl]; simp [V.accepts]
theorem audience_exact (r : TsRange) (s : Bytes) (c : Claims) : (V.aud s).eval r c = .ok () ↔ c.aud = some s := by
  rw [eval_ok_iff_accepts r _ c rfl]; simp [V.accepts]

/-! ## combinators -/

theorem andThen_exact (r : TsRange) (a b : V) (c : Claims) (h : (V.andThen a b).inRange r = true) :
    (V.andThen a b).eval r c = .ok () ↔ (a.eval r c = .ok () ∧ b.eval r c = .ok ()) := by
  have h' := h; simp only [V.inRange, Bool.and_eq_true] at h'
  rw [eval_ok_iff_accepts r _ c h, eval_ok_iff_accepts r a c h'.1, eval_ok_iff_accepts r b c h'.2]
  simp [V.accepts]

theorem acceptsAll_iff (vs : List V) (c : Claims) : V.acceptsAll vs c = true ↔ ∀ v ∈ vs, v.accepts c = true := by
  induction vs with
  | nil => simp [V.acceptsAll]
  | cons v vs ih => simp [V.acceptsAll, ih]

theorem inRangeAll_iff (r : TsRange) (vs : List V) : V.inRangeAll r vs = true ↔ ∀ v ∈ vs, v.inRange r = true := by
  induction vs with
  | nil => simp [V.inRangeAll]
  | cons v vs ih => simp [V.inRangeAll, ih]

/-- slices and vectors accept iff every member accepts -/
theorem all_exact (r : TsRange) (vs : List V) (c : Claims) (h : (V.all vs).inRange r = true) :
    (V.all vs).eval r c = .ok () ↔ ∀ v ∈ vs, v.eval r c = .ok () := by
  rw [eval_ok_iff_accepts r _ c h]
  simp only [V.accepts, acceptsAll_iff]
  simp only [V.inRange, inRangeAll_iff] at h
  constructor
  · intro ha v hv; exact (eval_ok_iff_accepts r v c (h v hv)).mpr (ha v hv)
  · intro ha v hv; exact (eval_ok_iff_accepts r v c (h v hv)).mp (ha v hv)

/-- `Box`, `Rc`, `Arc` and `map` (over a projection) are transparent; `NoValidation` accepts everything -/
theorem wrappers_transparent (r : TsRange) (v : V) (c : Claims) :
    (V.boxed v).eval r c = v.eval r c ∧ (V.rc v).eval r c = v.eval r c ∧
    (V.arc v).eval r c = v.eval r c ∧ (V.mapped v).eval r c = v.eval r c := by
  simp [V.eval]
theorem noValidation_accepts (r : TsRange) (c : Claims) : V.noValidation.eval r c = .ok () := by simp [V.eval]

/-! ## unsealing releases claims only if the validator accepts -/

/-- whatever the version's `unseal`, the decoder and the validator are: claims come back only if
    the validator returned `Ok` on exactly those claims -/
theorem unseal_releases_only_validated {M : Type} (vU : Res Bytes) (dec : Bytes → Option M)
    (val : M → Res Unit) (m : M) (h : (tokenUnseal vU dec val).1 = .ok m) : val m = .ok () := by
  unfold tokenUnseal at h
  split at h
  · simp at h
  · simp at h
  · split at h
    · simp at h
    · split at h <;> simp at h
      subst h; assumption

/-- with a validator expression: released ⇒ the specification accepts the released claims -/
theorem unseal_released_accepted (r : TsRange) (vU : Res Bytes) (dec : Bytes → Option Claims) (v : V)
    (hv : v.inRange r = true) (c : Claims) (h : (tokenUnseal vU dec (v.eval r)).1 = .ok c) :
    v.accepts c = true :=
  (eval_ok_iff_accepts r v c hv).mp (unseal_releases_only_validated vU dec _ c h)

/-- an authentic token whose claims the validator rejects yields a claims error, never claims -/
theorem unseal_rejects (r : TsRange) (ct : Bytes) (dec : Bytes → Option Claims) (v : V) (c : Claims)
    (hv : v.inRange r = true) (hd : dec ct = some c) (ha : v.accepts c = false) :
    (tokenUnseal (.ok ct) dec (v.eval r)).1 = .err .claims := by
  have := eval_reject_is_claims_error r v c hv ha
  simp [tokenUnseal, hd, this]

/-! non-vacuity -/
example : (V.andThen (.leeway 100 5) (.all [.hasExp, .boxed (.sub [1])])).inRange ⟨-1000, 1000⟩ = true := by decide
example : (V.andThen (.leeway 100 5) (.all [.hasExp, .boxed (.sub [1])])).eval ⟨-1000, 1000⟩
    { exp := some 95, sub := some [1] } = .ok () := by decide
example : (V.leeway 100 5).eval ⟨-1000, 1000⟩ { exp := some 94 } = .err .claims := by decide
example : ((V.leeway 100 5).eval ⟨98, 1000⟩ { exp := some 94 }).isPanic = true := by decide

end PM.C11
