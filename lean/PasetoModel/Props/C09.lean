import PasetoModel.TextLemmas
import PasetoModel.Forms
import PasetoModel.Extracted.B64Src
/-! # C09 — text encodings are strict and canonical
Property theorems only (lemmas: `B64/*.lean`, `TextLemmas.lean`).  `decodeVec`/`encode` are the
bit-exact mirror of `paseto-core/src/base64.rs`; the forms are instantiated at the header
constants re-read from the code. -/
namespace PM.C09
open B64

/-- `decode_6bits` is the alphabet index or −1, for every byte value (table, all 256 cases). -/
theorem dec6_spec (c : UInt8) : dec6 c = specDec6 c := by
  have := dec6_table ⟨c.toNat, c.toNat_lt⟩
  simpa [b_toNat] using this

/-- `encode_6bits` is the alphabet lookup, for every 6-bit value (table, all 64 cases). -/
theorem enc6_spec (n : Nat) (h : n < 64) : alphabet[n]? = some (enc6 (BitVec.ofNat 16 n)) :=
  enc6_table ⟨n, h⟩

/-- Every byte sequence encodes to a string that decodes back to it. -/
theorem decode_encode (bs : Bytes) : decodeVec (encode bs) = some bs := B64.decode_encode bs

/-- Every accepted string is the encoding of what it decodes to: one string per value. -/
theorem encode_decode (s bs : Bytes) (h : decodeVec s = some bs) : encode bs = s :=
  B64.encode_decode s bs h

/-- No two different accepted strings carry the same bytes. -/
theorem decode_injective (s₁ s₂ bs : Bytes) (h₁ : decodeVec s₁ = some bs) (h₂ : decodeVec s₂ = some bs) :
    s₁ = s₂ := by rw [← encode_decode _ _ h₁, ← encode_decode _ _ h₂]

/-- Strictness: an accepted string consists of alphabet characters only (so no `=`, `+`, `/`,
    whitespace or `.`), and its length is never 1 mod 4. -/
theorem decode_strict (s bs : Bytes) (h : decodeVec s = some bs) :
    (∀ c ∈ s, c ∈ alphabet) ∧ s.length % 4 ≠ 1 ∧ s.length = (4 * bs.length + 2) / 3 := by
  have e := encode_decode s bs h
  subst e
  refine ⟨encode_mem bs, ?_, encode_length bs⟩
  rw [encode_length]; omega

theorem rejects_non_alphabet (s : Bytes) (c : UInt8) (hc : c ∈ s) (hn : c ∉ alphabet) :
    decodeVec s = none := by
  cases h : decodeVec s with
  | none => rfl
  | some bs => exact absurd ((decode_strict s bs h).1 c hc) hn

/-- padding, standard-alphabet characters, whitespace and separators are rejected anywhere -/
theorem rejects_padding (s : Bytes) (h : (61 : UInt8) ∈ s) : decodeVec s = none :=
  rejects_non_alphabet s _ h eq_not_alpha
theorem rejects_plus (s : Bytes) (h : (43 : UInt8) ∈ s) : decodeVec s = none :=
  rejects_non_alphabet s _ h plus_not_alpha
theorem rejects_slash (s : Bytes) (h : (47 : UInt8) ∈ s) : decodeVec s = none :=
  rejects_non_alphabet s _ h slash_not_alpha
theorem rejects_space (s : Bytes) (h : (32 : UInt8) ∈ s) : decodeVec s = none :=
  rejects_non_alphabet s _ h space_not_alpha
theorem rejects_dot (s : Bytes) (h : (46 : UInt8) ∈ s) : decodeVec s = none :=
  rejects_non_alphabet s _ h dot_not_alpha

/-- impossible lengths are rejected -/
theorem rejects_len_1_mod_4 (s : Bytes) (h : s.length % 4 = 1) : decodeVec s = none := by
  cases hd : decodeVec s with
  | none => rfl
  | some bs => exact absurd h (decode_strict s bs hd).2.1

/-! ## the arithmetic kernels *as translated from the current source* (`tools/b64scan.py` → `Extracted/B64Src.lean`)

These three statements are about the Rust functions themselves (translated expression by expression on every run), not
about the hand-written mirror: the branch-free `decode_6bits` is the alphabet lookup on every byte, `encode_6bits` is the
alphabet on every 6-bit value, and `decoded_len` is ⌊3n/4⌋ computed without overflow.  Each is vacuous if the function
has left the translator's subset (`available_* = false`; the exhaustive correspondence is then the only tie). -/

theorem src_decode_6bits_is_alphabet_lookup :
    (!Extracted.B64Src.available_decode_6bits ||
      (List.range 256).all (fun n => Extracted.B64Src.decode_6bits (b n) == specDec6 (b n))) = true := by decide +kernel

theorem src_encode_6bits_is_alphabet :
    (!Extracted.B64Src.available_encode_6bits ||
      (List.range 64).all (fun n => alphabet[n]? == some (Extracted.B64Src.encode_6bits (v n)))) = true := by decide +kernel

theorem src_decoded_len (n : Nat) :
    Extracted.B64Src.available_decoded_len = true → Extracted.B64Src.decoded_len n = 3 * n / 4 ∧
      Extracted.B64Src.decoded_len n = decodedLen n := by
  intro _
  constructor <;> (simp +zeta only [Extracted.B64Src.decoded_len, decodedLen] <;> omega)

/-! ## the text forms, for every back end -/

/-- tokens: show then parse is the identity (any payload, any footer the footer type accepts) -/
theorem token_show_parse (b : Backend) (p : Purpose) (fk : FooterKind) (t : SealedTok)
    (hf : fk.ok t.footer = true) :
    parseToken (Extracted.versionHeader b) jsonSuffix (Extracted.kindHeader p.toKind) fk.ok
      (showToken (Extracted.versionHeader b) jsonSuffix (Extracted.kindHeader p.toKind) t) = .ok t :=
  parseToken_showToken _ _ _ _ t hf

/-- tokens: an accepted string re-serialises to itself, up to one trailing `.` (empty footer) -/
theorem token_canonical (b : Backend) (p : Purpose) (fk : FooterKind) (s : Bytes) (t : SealedTok)
    (h : parseToken (Extracted.versionHeader b) jsonSuffix (Extracted.kindHeader p.toKind) fk.ok s = .ok t) :
    showToken (Extracted.versionHeader b) jsonSuffix (Extracted.kindHeader p.toKind) t = s ∨
    showToken (Extracted.versionHeader b) jsonSuffix (Extracted.kindHeader p.toKind) t ++ [dot] = s :=
  showToken_parseToken _ _ _ _ s t h

/-- two accepted token strings with the same content differ at most by that trailing `.` -/
theorem token_strings_unique (b : Backend) (p : Purpose) (fk : FooterKind) (s₁ s₂ : Bytes) (t : SealedTok)
    (h₁ : parseToken (Extracted.versionHeader b) jsonSuffix (Extracted.kindHeader p.toKind) fk.ok s₁ = .ok t)
    (h₂ : parseToken (Extracted.versionHeader b) jsonSuffix (Extracted.kindHeader p.toKind) fk.ok s₂ = .ok t) :
    s₁ = s₂ ∨ s₁ = s₂ ++ [dot] ∨ s₂ = s₁ ++ [dot] := by
  rcases token_canonical b p fk s₁ t h₁ with a | a <;> rcases token_canonical b p fk s₂ t h₂ with c | c
  · left; rw [← a, ← c]
  · right; right; rw [← a, ← c]
  · right; left; rw [← a, ← c]
  · left; rw [← a, ← c]

/-! the same three statements for a payload type with *any* encoding suffix (`Payload::SUFFIX`; the harness exercises `"c"`):
    `Display` writes version ‖ suffix ‖ purpose and `FromStr` accepts exactly that order -/

theorem token_show_parse_suffix (b : Backend) (p : Purpose) (fk : FooterKind) (sf : Bytes) (t : SealedTok)
    (hf : fk.ok t.footer = true) :
    tokRtSuf b p fk sf (showToken (Extracted.versionHeader b) sf (Extracted.kindHeader p.toKind) t) =
      .ok (showToken (Extracted.versionHeader b) sf (Extracted.kindHeader p.toKind) t, t.footer) := by
  unfold tokRtSuf
  rw [parseToken_showToken _ _ _ _ t hf]
  rfl

theorem token_canonical_suffix (b : Backend) (p : Purpose) (fk : FooterKind) (sf s : Bytes) (t : SealedTok)
    (h : parseToken (Extracted.versionHeader b) sf (Extracted.kindHeader p.toKind) fk.ok s = .ok t) :
    showToken (Extracted.versionHeader b) sf (Extracted.kindHeader p.toKind) t = s ∨
    showToken (Extracted.versionHeader b) sf (Extracted.kindHeader p.toKind) t ++ [dot] = s :=
  showToken_parseToken _ _ _ _ s t h

/-- every accepted token string starts with version ‖ suffix ‖ purpose, in this order -/
theorem token_header_order (b : Backend) (p : Purpose) (fk : FooterKind) (sf s : Bytes) (t : SealedTok)
    (h : parseToken (Extracted.versionHeader b) sf (Extracted.kindHeader p.toKind) fk.ok s = .ok t) :
    (Extracted.versionHeader b ++ sf ++ Extracted.kindHeader p.toKind) <+: s := by
  rcases token_canonical_suffix b p fk sf s t h with e | e
  · rw [← e]; unfold showToken
    exact ⟨encode t.payload ++ (if t.footer.isEmpty then [] else dot :: encode t.footer), by simp only [List.append_assoc]⟩
  · rw [← e]; unfold showToken
    exact ⟨encode t.payload ++ (if t.footer.isEmpty then [] else dot :: encode t.footer) ++ [dot], by simp only [List.append_assoc]⟩

/-- KeyText, PIE-wrapped, password-wrapped and sealed keys: show ∘ parse and parse ∘ show -/
theorem simple_show_parse (b : Backend) (f : Form) (d : Bytes) :
    parseSimple (f.h1 b) (f.h2 b) (showSimple (f.h1 b) (f.h2 b) d) = .ok d :=
  parseSimple_showSimple _ _ d

theorem simple_canonical (b : Backend) (f : Form) (s d : Bytes)
    (h : parseSimple (f.h1 b) (f.h2 b) s = .ok d) : showSimple (f.h1 b) (f.h2 b) d = s :=
  showSimple_parseSimple _ _ s d h

/-- key ids: exactly 33 decoded bytes, canonical text -/
theorem keyid_show_parse (b : Backend) (k : Kind) (d : Bytes) (hl : d.length = 33) :
    parseKeyId (Extracted.paserkHeader b) (Extracted.idHeader k)
      (showSimple (Extracted.paserkHeader b) (Extracted.idHeader k) d) = .ok d :=
  parseKeyId_showSimple _ _ d hl

theorem keyid_canonical_33 (b : Backend) (k : Kind) (s d : Bytes)
    (h : parseKeyId (Extracted.paserkHeader b) (Extracted.idHeader k) s = .ok d) :
    showSimple (Extracted.paserkHeader b) (Extracted.idHeader k) d = s ∧ d.length = 33 :=
  showSimple_parseKeyId _ _ s d h

/-- every form at every back end (the uniform `Form.parse`): accepted ⇒ canonical -/
theorem form_canonical (b : Backend) (f : Form) (s d : Bytes) (hf : ∀ p, f ≠ .tok p)
    (h : f.parse b s = .ok d) : showSimple (f.h1 b) (f.h2 b) d = s := by
  cases f with
  | tok p => exact absurd rfl (hf p)
  | id k => exact (showSimple_parseKeyId _ _ s d h).1
  | key k => exact showSimple_parseSimple _ _ s d h
  | pie k => exact showSimple_parseSimple _ _ s d h
  | pw k => exact showSimple_parseSimple _ _ s d h
  | sealK => exact showSimple_parseSimple _ _ s d h

/-- the serde representation is exactly the string: serialising gives the `Display` string and
    deserialising a JSON string is `FromStr`; any other JSON value is rejected -/
theorem serde_is_string {α} (parse : Bytes → Res α) (shown s : Bytes) :
    serdeSer shown = .str shown ∧ serdeDe parse (.str s) = parse s ∧
      serdeDe parse .other = .err .payload := ⟨rfl, rfl, rfl⟩

/-! non-vacuity -/
example : decodeVec [81, 81] = some [65] := by decide +kernel       -- "QQ" ↦ "A"
example : decodeVec [81, 82] = none := by decide +kernel            -- "QR": non-canonical trailing bits
example : decodeVec [81, 81, 61, 61] = none := by decide +kernel    -- "QQ==": padding
example : (tokRt .v4 .localP .vec (Extracted.versionHeader .v4 ++ Extracted.kindHeader .localK ++ [81, 81, 46])).isOk = true := by
  decide +kernel

end PM.C09
