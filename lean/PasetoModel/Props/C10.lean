import PasetoModel.TextLemmas
import PasetoModel.Forms
/-! # C10 — no cross-acceptance between versions, purposes and kinds
The header table is `Extracted/Headers.lean`, regenerated from the code on every run; the
prefix-freeness obligation is re-decided against it by the kernel. -/
namespace PM.C10
open B64

/-- all (back end, form) pairs: 6 × 17 -/
def allForms : List (Backend × Form) := Backend.all.flatMap (fun b => Form.all.map (fun f => (b, f)))

/-- The full text headers are pairwise prefix-free: whenever two differ, neither is a prefix of
    the other.  Decided over the whole 102 × 102 table extracted from the code. -/
theorem headers_prefix_free :
    ∀ x ∈ allForms, ∀ y ∈ allForms, x.2.header x.1 ≠ y.2.header y.1 →
      (x.2.header x.1).isPrefixOf (y.2.header y.1) = false := by decide +kernel

theorem allForms_complete (b : Backend) (f : Form) : (b, f) ∈ allForms := by
  cases b <;> cases f <;> (try rename_i k; cases k) <;> decide

/-- headers are equal exactly for the intended aliases: the same PASERK/PASETO version string and
    the same kind string (sibling back ends; `Secret`/`PkeSecret`; `Public`/`PkePublic`) -/
theorem header_eq_iff :
    ∀ x ∈ allForms, ∀ y ∈ allForms,
      (x.2.header x.1 = y.2.header y.1 ↔ (x.2.h1 x.1 = y.2.h1 y.1 ∧ x.2.h2 x.1 = y.2.h2 y.1)) := by
  decide +kernel

/-- key classes that are *meant* to share a text form (stated from the documents, independently of the code's
    constants): `Public`/`PkePublic` and `Secret`/`PkeSecret` -/
def kindClass : Kind → Nat
  | .localK => 0 | .publicK => 1 | .pkePublic => 1 | .secretK => 2 | .pkeSecret => 2

/-- class of a text form: equal classes are the intended aliases -/
def formClass : Form → Nat × Nat
  | .tok p => (0, match p with | .localP => 0 | .publicP => 1)
  | .key k => (1, kindClass k)
  | .id k => (2, kindClass k)
  | .pie k => (3, match k with | .localK => 0 | .secretK => 2)
  | .pw k => (4, match k with | .localK => 0 | .secretK => 2)
  | .sealK => (5, 0)

/-- **The only aliases are the intended ones.**  Over the whole table extracted from the running code: two
    (back end, form) pairs have the same full header exactly when they have the same protocol version
    and the same form class.  In particular no id / key / wrap form of one kind shares a header with another
    kind, purpose or version. -/
theorem aliases_exactly_intended :
    ∀ x ∈ allForms, ∀ y ∈ allForms,
      (x.2.header x.1 = y.2.header y.1 ↔ (x.1.version = y.1.version ∧ formClass x.2 = formClass y.2)) := by
  decide +kernel

/-- distinct versions have distinct headers (tokens and PASERK) -/
theorem versions_distinct : ∀ b ∈ Backend.all, ∀ b' ∈ Backend.all, b.version ≠ b'.version →
    Extracted.versionHeader b ≠ Extracted.versionHeader b' ∧
    Extracted.paserkHeader b ≠ Extracted.paserkHeader b' := by decide +kernel

/-- whatever a parser accepts starts with that parser's full header -/
theorem parse_ok_prefix (b : Backend) (f : Form) (s d : Bytes) (h : f.parse b s = .ok d) :
    f.header b <+: s := by
  have simple : ∀ h1 h2, parseSimple h1 h2 s = .ok d → (h1 ++ h2) <+: s := by
    intro h1 h2 h
    unfold parseSimple at h
    cases e1 : stripPrefix h1 s with
    | none => simp [e1] at h
    | some s1 =>
    simp only [e1] at h
    cases e2 : stripPrefix h2 s1 with
    | none => simp [e2] at h
    | some r =>
      rw [stripPrefix_some e1, stripPrefix_some e2]
      exact ⟨r, by simp⟩
  cases f with
  | key k => exact simple _ _ h
  | pie k => exact simple _ _ h
  | pw k => exact simple _ _ h
  | sealK => exact simple _ _ h
  | id k =>
    simp only [Form.parse] at h
    unfold parseKeyId at h
    cases e1 : stripPrefix (Extracted.paserkHeader b) s with
    | none => simp [e1] at h
    | some s1 =>
    simp only [e1] at h
    cases e2 : stripPrefix (Extracted.idHeader k) s1 with
    | none => simp [e2] at h
    | some r =>
      rw [stripPrefix_some e1, stripPrefix_some e2]
      exact ⟨r, by simp [Form.header, Form.h1, Form.h2]⟩
  | tok p =>
    simp only [Form.parse, Res.map, Res.bind] at h
    split at h
    · rename_i t ht
      unfold parseToken at ht
      cases e1 : stripPrefix (Extracted.versionHeader b) s with
      | none => simp [e1] at ht
      | some s1 =>
      simp only [e1] at ht
      cases e2 : stripPrefix jsonSuffix s1 with
      | none => simp [e2] at ht
      | some s2 =>
      simp only [e2] at ht
      cases e3 : stripPrefix (Extracted.kindHeader p.toKind) s2 with
      | none => simp [e3] at ht
      | some r =>
        rw [stripPrefix_some e1, stripPrefix_some e2, stripPrefix_some e3]
        exact ⟨r, by simp [Form.header, Form.h1, Form.h2, jsonSuffix]⟩
    · simp at h
    · simp at h

/-- **No cross-acceptance.** A value serialised as form `f` of back end `b` (any data, for tokens
    any footer) is rejected by the parser of every form/back end whose header differs. -/
theorem cross_reject (b b' : Backend) (f f' : Form) (hne : f.header b ≠ f'.header b') (body : Bytes) :
    (f'.parse b' (f.header b ++ body)).isOk = false := by
  cases hp : f'.parse b' (f.header b ++ body) with
  | err e => rfl
  | panic s => rfl
  | ok d =>
    exfalso
    have p1 := parse_ok_prefix b' f' _ d hp
    have p2 : f.header b <+: f.header b ++ body := List.prefix_append _ _
    have hx := allForms_complete b f
    have hy := allForms_complete b' f'
    rcases List.prefix_or_prefix_of_prefix p1 p2 with q | q
    · have := headers_prefix_free (b', f') hy (b, f) hx (Ne.symm hne)
      simp only at this
      rw [List.isPrefixOf_iff_prefix.mpr q] at this
      exact Bool.noConfusion this
    · have := headers_prefix_free (b, f) hx (b', f') hy hne
      simp only at this
      rw [List.isPrefixOf_iff_prefix.mpr q] at this
      exact Bool.noConfusion this

/-- instance: what `Display` produces for a PASERK form is rejected by every other parser -/
theorem cross_reject_simple (b b' : Backend) (f f' : Form) (hne : f.header b ≠ f'.header b') (d : Bytes) :
    (f'.parse b' (showSimple (f.h1 b) (f.h2 b) d)).isOk = false := by
  have := cross_reject b b' f f' hne (encode d)
  simpa [showSimple, Form.header] using this

/-- instance: what `Display` produces for a token is rejected by every other parser -/
theorem cross_reject_token (b b' : Backend) (p : Purpose) (f' : Form)
    (hne : (Form.tok p).header b ≠ f'.header b') (t : SealedTok) :
    (f'.parse b' (showToken (Extracted.versionHeader b) jsonSuffix (Extracted.kindHeader p.toKind) t)).isOk = false := by
  have := cross_reject b b' (.tok p) f' hne
    (encode t.payload ++ (if t.footer.isEmpty then [] else dot :: encode t.footer))
  simpa [showToken, Form.header, Form.h1, Form.h2, jsonSuffix, List.append_assoc] using this

/-! non-vacuity: concrete differing header pairs exist, e.g. k3.local vs k4.local, v4.local vs k4.local -/
example : (Form.key .localK).header .v3 ≠ (Form.key .localK).header .v4 := by decide
example : (Form.tok .localP).header .v4 ≠ (Form.key .localK).header .v4 := by decide
example : (Form.key .secretK).header .v4 = (Form.key .pkeSecret).header .v4s := by decide
example : ((Form.key .localK).parse .v4 ((Form.key .localK).header .v4 ++ [81, 81])).isOk = true := by decide +kernel

end PM.C10
