import PasetoModel.Conc
import PasetoModel.Ffi
import PasetoModel.Asym
import PasetoModel.Extracted.Ffi
import PasetoModel.Extracted.Source
/-! # C17 — shared keys under concurrency and after failures
(Partial: data races inside aws-lc / libsodium and the soundness of `unsafe impl Send/Sync` cannot
be exhibited by a Lean model; the model shows that the Rust side holds no shared mutable state,
that results are schedule-independent, and that wrapper ownership is unique.) -/
namespace PM.C17
open Conc

/-- no operation ever modifies the shared key: after any schedule the key is the initial key -/
theorem key_never_modified {K O} (key : K) (progs : List (List (Op K O))) (sched : List Nat) :
    (run (init key progs) sched).key = key := (inv_run key progs sched).1

/-- **Interleaving independence.** For every schedule that lets every thread finish, each thread's
    results are exactly the results it would compute alone on the same key. -/
theorem interleaving_independent {K O} (key : K) (progs : List (List (Op K O))) (sched : List Nat)
    (hdone : ∀ i, i < progs.length → ((run (init key progs) sched).pending[i]?.getD []) = []) :
    ∀ i, i < progs.length →
      ((run (init key progs) sched).outputs[i]?.getD []) = (sequential key progs)[i]?.getD [] := by
  intro i hi
  obtain ⟨_, _, _, h⟩ := inv_run key progs sched
  have := h i hi
  rw [hdone i hi] at this
  simp only [List.map_nil, List.append_nil] at this
  rw [this]
  simp [sequential, hi]

/-- at any moment (also for unfinished schedules) what a thread has produced is a prefix of its
    sequential results: every concurrent result is one sequential use could produce -/
theorem partial_results_are_sequential_prefix {K O} (key : K) (progs : List (List (Op K O))) (sched : List Nat)
    (i : Nat) (hi : i < progs.length) :
    ((run (init key progs) sched).outputs[i]?.getD []) <+: (sequential key progs)[i]?.getD [] := by
  obtain ⟨_, _, _, h⟩ := inv_run key progs sched
  have := h i hi
  refine ⟨((run (init key progs) sched).pending[i]?.getD []).map (fun op => op key), ?_⟩
  rw [this]; simp [sequential, hi]

/-- two schedules that both complete give identical outputs -/
theorem schedules_agree {K O} (key : K) (progs : List (List (Op K O))) (s₁ s₂ : List Nat)
    (h₁ : ∀ i, i < progs.length → ((run (init key progs) s₁).pending[i]?.getD []) = [])
    (h₂ : ∀ i, i < progs.length → ((run (init key progs) s₂).pending[i]?.getD []) = [])
    (i : Nat) (hi : i < progs.length) :
    ((run (init key progs) s₁).outputs[i]?.getD []) = ((run (init key progs) s₂).outputs[i]?.getD []) := by
  rw [interleaving_independent key progs s₁ h₁ i hi, interleaving_independent key progs s₂ h₂ i hi]

/-- **Failures leave the key unchanged**: operations are functions into `Res`; whatever mixture of
    failing and succeeding calls a history contains, a later operation gives the same result as on
    a fresh copy of the key. -/
theorem after_failures_same {K α} (key : K) (history : List (Op K (Res α))) (op : Op K (Res α)) :
    ((run (init key [history ++ [op]]) (List.replicate (history.length + 1) 0)).outputs[0]?.getD []).getLast? =
      some (op key) := by
  have hdone : ∀ i, i < [history ++ [op]].length →
      ((run (init key [history ++ [op]]) (List.replicate (history.length + 1) 0)).pending[i]?.getD []) = [] := by
    intro i hi
    have h0 : i = 0 := by simp at hi; exact hi
    subst h0
    -- running thread 0 as many times as it has operations empties it
    have : ∀ (n : Nat) (s : Sys K (Res α)), (s.pending[0]?.getD []).length ≤ n → s.pending.length = 1 →
        ((run s (List.replicate n 0)).pending[0]?.getD []) = [] := by
      intro n
      induction n with
      | zero => intro s hl _; simpa [run] using hl
      | succ n ih =>
        intro s hl h1
        simp only [List.replicate_succ, run, List.foldl_cons]
        have hs : ((step s 0).pending[0]?.getD []).length ≤ n ∧ (step s 0).pending.length = 1 := by
          unfold step
          split
          · rename_i o rest hp
            rw [hp] at hl
            simp at hl
            simp [h1]; omega
          · rename_i hne
            refine ⟨?_, h1⟩
            cases hp : s.pending[0]? with
            | none => simp
            | some l =>
              cases l with
              | nil => simp
              | cons o rest => exact absurd hp (by simpa using hne o rest)
        exact ih (step s 0) hs.1 hs.2
    exact this _ _ (by simp [init]) (by simp [init])
  have := interleaving_independent key [history ++ [op]] _ hdone 0 (by simp)
  rw [this]
  simp [sequential]

/-- the aws-lc key wrappers: cloning allocates a new `EC_KEY` owned by the clone alone, and every
    path of `clone` / construction is balanced (from C04's exhaustive path check), so each object is
    freed exactly once by its unique owner whatever the interleaving of clone and drop -/
theorem clone_paths_balanced : Ffi.signingKeyClone.ok = true ∧ Ffi.verifyingKeyClone.ok = true := by decide

/-! ### the model's premise, re-read from the current source (`tools/srcscan.py`, `tools/ffiscan.py`)

`Op K O := K → O` says an operation is a function of the shared key (and of its own arguments and randomness).  In
safe Rust, state reachable through `&Key` can change, and state can outlive a call, only through `UnsafeCell` and the
types built on it, a `static`, a thread local, or `unsafe` code. -/

/-- the library crates contain no interior mutability, `static mut`, thread local, lazily initialised global, lock or
    atomic: there is nothing through which two uses of a key could influence each other on the Rust side -/
theorem no_shared_mutable_state : Extracted.Source.sharedState = [] := by decide

/-- every library crate forbids or denies `unsafe_code` at crate level, it is re-allowed only in `base64.rs` and
    `lc/mod.rs`, and the keyword occurs only in those and in `lc/ptr.rs` (whose ownership discipline is C04's) -/
theorem unsafe_confined :
    Extracted.Source.unsafePolicy.all (fun p => p.2 == "forbid" || p.2 == "deny") = true ∧
    Extracted.Source.crates.length = Extracted.Source.unsafePolicy.length ∧ 8 ≤ Extracted.Source.crates.length ∧
    Extracted.Source.unsafeAllowed.all (fun f => ["paseto-core/src/base64.rs", "paseto-v3-aws-lc/src/lc/mod.rs"].contains f) = true ∧
    Extracted.Source.unsafeFiles.all (fun f => ["paseto-core/src/base64.rs", "paseto-v3-aws-lc/src/lc/mod.rs",
      "paseto-v3-aws-lc/src/lc/ptr.rs"].contains f.1) = true := by decide

/-- the only `unsafe impl`s of the aws-lc wrapper module are `Send` / `Sync`; the types they are declared for hold
    nothing with a non-atomic shared count or interior mutability (`Rc`, `Weak`, `Cell`, `RefCell`, `UnsafeCell`, followed
    through the structs of `lc/mod.rs` and `lc/ptr.rs`); and no function writes through, or releases, an aws-lc object it
    holds only by shared reference (`&self`, `&VerifyingKey`, `&Signature`, `ConstPointer`), so sharing a key across
    threads only ever *reads* it.  (Names and shapes of the wrapper structs are not constrained.) -/
theorem send_sync_keys_are_read_only :
    Extracted.Ffi.unsafeImpls.all (fun p => p.1 == "Send" || p.1 == "Sync") = true ∧
    Extracted.Ffi.sendSyncFieldViolations = [] ∧
    Extracted.Ffi.sharedMutations = [] := by decide

/-- no wrapper consults or changes aws-lc's per-thread / process-wide state (error queue, RNG seeding, global
    configuration): what a call returns cannot depend on what an earlier — possibly failed — call left behind there -/
theorem no_thread_state_calls : Extracted.Ffi.threadStateCalls = [] := by decide

/-- clone / construction paths of the *current* source are balanced (C04's exhaustive path check on the translated lists) -/
theorem extracted_clone_paths_balanced :
    (Extracted.Ffi.fns.filter (fun f => f.name == "<SigningKey as Clone>::clone" || f.name == "<VerifyingKey as Clone>::clone")).length = 2 ∧
    (Extracted.Ffi.fns.filter (fun f => f.name == "<SigningKey as Clone>::clone" || f.name == "<VerifyingKey as Clone>::clone")).all Ffi.Fn.ok = true := by decide

/-! non-vacuity: two threads, three operations, an arbitrary interleaving -/
example : ((run (init (5 : Nat) [[(· + 1), (· * 2)], [(· + 10)]]) [1, 0, 0]).outputs) = [[6, 10], [15]] := by decide
example : ((run (init (5 : Nat) [[(· + 1), (· * 2)], [(· + 10)]]) [0, 1, 0]).outputs) = [[6, 10], [15]] := by decide

end PM.C17
