import PasetoModel.PaserkInst
import PasetoModel.TextLemmas
import PasetoModel.Forms
/-! # C05 — wrap / password-wrap / seal-key then undo returns the same key; fixed lengths -/
namespace PM.C05

/-- PIE, every back end, every wrapping key, nonce and key bytes: unwrap ∘ wrap = id
    (no hypothesis: the concrete instance has the length laws by construction) -/
theorem pie_roundtrip (b : Backend) (ver hdr wk nonce key : Bytes) (hn : nonce.length = 32) :
    pieUnwrap (pieOf b) (pieTagLen b.version) ver hdr wk (pieWrap (pieOf b) ver hdr wk nonce key) = .ok key :=
  PM.pie_roundtrip _ _ (pieSym_laws _ _) ver hdr wk nonce key hn

/-- the PIE blob has the fixed length tag + 32 + key length -/
theorem pie_len (b : Backend) (ver hdr wk nonce key : Bytes) (hn : nonce.length = 32) :
    (pieWrap (pieOf b) ver hdr wk nonce key).length = pieTagLen b.version + 32 + key.length :=
  PM.pie_len _ _ (pieSym_laws _ _) ver hdr wk nonce key hn

/-- PBKW, every back end, every password (any bytes, incl. empty) and every parameter block the
    KDF front end accepts: unwrap ∘ wrap = id -/
theorem pbkw_roundtrip (b : Backend) (ver hdr pass salt params nonce key blob : Bytes)
    (hs : salt.length = (pbkwOf b).saltLen) (hp : params.length = (pbkwOf b).paramLen)
    (hn : nonce.length = (pbkwOf b).nonceLen)
    (h : pbkwWrap (pbkwOf b) ver hdr pass salt params nonce key = .ok blob) :
    pbkwUnwrap (pbkwOf b) ver hdr pass blob = .ok key :=
  PM.pbkw_roundtrip _ (pbkwSchemeOf_laws _ _) ver hdr pass salt params nonce key blob hs hp hn h

theorem pbkw_len (b : Backend) (ver hdr pass salt params nonce key blob : Bytes)
    (hs : salt.length = (pbkwOf b).saltLen) (hp : params.length = (pbkwOf b).paramLen)
    (hn : nonce.length = (pbkwOf b).nonceLen)
    (h : pbkwWrap (pbkwOf b) ver hdr pass salt params nonce key = .ok blob) :
    blob.length = (pbkwOf b).prefixLen + key.length + (pbkwOf b).tagLen :=
  PM.pbkw_len _ (pbkwSchemeOf_laws _ _) ver hdr pass salt params nonce key blob hs hp hn h

/-- wrapping succeeds whenever the KDF front end accepts the parameters -/
theorem pbkw_wrap_ok (b : Backend) (ver hdr pass salt params nonce key k : Bytes)
    (hk : (pbkwOf b).kdf pass salt params = .ok k) :
    (pbkwWrap (pbkwOf b) ver hdr pass salt params nonce key).isOk = true := by
  simp [pbkwWrap, hk, Res.map, Res.bind, Res.isOk]

/-- PKE: for every scheme in which the recipient derives the sender's context (Diffie–Hellman /
    RSA correctness, `PkeLaws`, a hypothesis) and the encapsulation has its fixed length:
    unseal ∘ seal = id and the blob has the prescribed length. -/
theorem pke_roundtrip (S : PkeScheme) (pubOf : Bytes → Bytes) (L : PkeLaws S pubOf) (sk key rnd blob : Bytes)
    (hk : key.length = 32) (h : pkeSeal S (pubOf sk) key rnd = .ok blob) :
    pkeUnseal S sk blob = .ok key ∧ blob.length = S.tagLen + S.encLen + 32 :=
  PM.pke_roundtrip S pubOf L sk key rnd blob hk h

/-- fixed-width big-integer serialisation (RSA-KEM ciphertext: 512 bytes) round-trips … -/
theorem natToBe_roundtrip (n x : Nat) (h : x < 256 ^ n) :
    (natToBe n x).length = n ∧ fromBe (natToBe n x) = x := ⟨natToBe_length n x, fromBe_natToBe n x h⟩

/-- … and the RSA-KEM encapsulation is exactly 512 bytes precisely when the back end pads it -/
theorem rsa_kem_len (c : BackendCfg) (hdr pk rnd e ctx : Bytes) (hp : c.kemCtPadded = true)
    (h : (pkeRsa c hdr).encap pk rnd = .ok (e, ctx)) : e.length = 512 := by
  simp only [pkeRsa] at h
  split at h
  · cases h
  · simp only [hp, if_true] at h
    injection h with h
    injection h with h1 _
    rw [← h1]; exact natToBe_length _ _

/-- every back end pads the RSA-KEM ciphertext (obligation on `cfgOf`) -/
theorem kem_ct_padded : ∀ b ∈ Backend.all, (cfgOf b).kemCtPadded = true := by decide

theorem x25519_enc_len (c : BackendCfg) (hdr pk rnd e ctx : Bytes)
    (h : (pkeSodium c hdr).encap pk rnd = .ok (e, ctx)) : e.length = 32 := by
  simp only [pkeSodium] at h
  injection h with h; injection h with h1 _
  rw [← h1]; simp [x25519, W.fixLen_length]

/-! ### through the text form: wrap → `to_string` → `parse` → unwrap -/

/-- PIE through its PASERK text: serialising the wrapped key, parsing the string back and unwrapping
    returns the key, for every back end, kind, wrapping key, nonce and key bytes -/
theorem pie_text_roundtrip (b : Backend) (k : SKind) (ver hdr wk nonce key : Bytes) (hn : nonce.length = 32) :
    ((Form.pie k).parse b ((Form.pie k).show b (pieWrap (pieOf b) ver hdr wk nonce key))).bind
      (pieUnwrap (pieOf b) (pieTagLen b.version) ver hdr wk) = .ok key := by
  simp only [Form.parse, Form.show, parseSimple_showSimple, Res.bind]
  exact pie_roundtrip b ver hdr wk nonce key hn

/-- PBKW through its PASERK text -/
theorem pbkw_text_roundtrip (b : Backend) (k : SKind) (ver hdr pass salt params nonce key blob : Bytes)
    (hs : salt.length = (pbkwOf b).saltLen) (hp : params.length = (pbkwOf b).paramLen)
    (hn : nonce.length = (pbkwOf b).nonceLen)
    (h : pbkwWrap (pbkwOf b) ver hdr pass salt params nonce key = .ok blob) :
    ((Form.pw k).parse b ((Form.pw k).show b blob)).bind (pbkwUnwrap (pbkwOf b) ver hdr pass) = .ok key := by
  simp only [Form.parse, Form.show, parseSimple_showSimple, Res.bind]
  exact pbkw_roundtrip b ver hdr pass salt params nonce key blob hs hp hn h

/-- PKE through its PASERK text -/
theorem pke_text_roundtrip (b : Backend) (S : PkeScheme) (pubOf : Bytes → Bytes) (L : PkeLaws S pubOf)
    (sk key rnd blob : Bytes) (hk : key.length = 32) (h : pkeSeal S (pubOf sk) key rnd = .ok blob) :
    (Form.sealK.parse b (Form.sealK.show b blob)).bind (pkeUnseal S sk) = .ok key := by
  simp only [Form.parse, Form.show, parseSimple_showSimple, Res.bind]
  exact (pke_roundtrip S pubOf L sk key rnd blob hk h).1

/-- **The serialised form has the fixed length the format prescribes**: header + unpadded base64 of
    the fixed-length blob (⌈4n/3⌉ characters).  E.g. `k4.local-wrap.pie.` + 128 characters. -/
theorem pie_text_len (b : Backend) (k : SKind) (ver hdr wk nonce key : Bytes) (hn : nonce.length = 32) :
    ((Form.pie k).show b (pieWrap (pieOf b) ver hdr wk nonce key)).length =
      ((Form.pie k).header b).length + (4 * (pieTagLen b.version + 32 + key.length) + 2) / 3 := by
  simp only [Form.show, showSimple, Form.header, Form.h1, Form.h2, List.length_append, B64.encode_length,
    pie_len b ver hdr wk nonce key hn]

theorem pbkw_text_len (b : Backend) (k : SKind) (ver hdr pass salt params nonce key blob : Bytes)
    (hs : salt.length = (pbkwOf b).saltLen) (hp : params.length = (pbkwOf b).paramLen)
    (hn : nonce.length = (pbkwOf b).nonceLen)
    (h : pbkwWrap (pbkwOf b) ver hdr pass salt params nonce key = .ok blob) :
    ((Form.pw k).show b blob).length =
      ((Form.pw k).header b).length + (4 * ((pbkwOf b).prefixLen + key.length + (pbkwOf b).tagLen) + 2) / 3 := by
  simp only [Form.show, showSimple, Form.header, Form.h1, Form.h2, List.length_append, B64.encode_length,
    pbkw_len b ver hdr pass salt params nonce key blob hs hp hn h]

/-! non-vacuity -/
example : (pbkwOf .v4).prefixLen = 56 ∧ (pbkwOf .v3).prefixLen = 52 := by decide
example : pieTagLen 3 = 48 ∧ pieTagLen 4 = 32 := by decide

end PM.C05
