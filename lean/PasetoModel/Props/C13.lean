import PasetoModel.PaserkInst
import PasetoModel.TextLemmas
import PasetoModel.Forms
import PasetoModel.Props.C10
import PasetoModel.SpecHeaders
/-! # C13 — key ids are the spec's hash of the key's PASERK text, stable, domain-separated -/
namespace PM.C13

/-- the id of a (decoded) key: hash of PASERK version ‖ id header ‖ canonical PASERK text -/
def keyId (b : Backend) (k : Kind) (key : Bytes) : Bytes :=
  keyIdOf (hash33 b.version) (Extracted.paserkHeader b) (Extracted.idHeader k)
    (showSimple (Extracted.paserkHeader b) (Extracted.kindHeader k) key)

/-- the id is the PASERK-specified digest (SHA-384 truncated to 33 bytes for k1/k3, BLAKE2b-33 for
    k2/k4) of header ‖ id header ‖ the key's canonical PASERK string -/
theorem id_is_spec (b : Backend) (k : Kind) (key : Bytes) :
    keyId b k key = hash33 b.version
      (Extracted.paserkHeader b ++ Extracted.idHeader k ++
        (Extracted.paserkHeader b ++ Extracted.kindHeader k ++ B64.encode key)) := rfl

/-- an id is always 33 bytes -/
theorem id_len (b : Backend) (k : Kind) (key : Bytes) : (keyId b k key).length = 33 :=
  hash33_length _ _

/-- ids depend only on the PASERK version, the kind headers and the canonical key bytes: the two
    back ends of a version give the same id for the same key -/
theorem id_sibling_eq (k : Kind) (key : Bytes) :
    keyId .v3 k key = keyId .v3lc k key ∧ keyId .v4 k key = keyId .v4s k key := ⟨rfl, rfl⟩

/-- stable across serialise / parse: the id of the key re-parsed from its own text is the same -/
theorem id_stable_text (b : Backend) (k : Kind) (key : Bytes) :
    (parseSimple (Extracted.paserkHeader b) (Extracted.kindHeader k)
      (showSimple (Extracted.paserkHeader b) (Extracted.kindHeader k) key)).map (keyId b k) = .ok (keyId b k key) := by
  rw [parseSimple_showSimple]; rfl

/-- two inputs that decode to the same canonical key (PEM vs DER, compressed vs uncompressed) have
    the same id — ids are computed from the canonical encoding -/
theorem id_of_equal_canonical (b : Backend) (k : Kind) (raw₁ raw₂ key : Bytes)
    (h₁ : keyDecode b k raw₁ = .ok key) (h₂ : keyDecode b k raw₂ = .ok key) :
    (keyDecode b k raw₁).map (keyId b k) = (keyDecode b k raw₂).map (keyId b k) := by rw [h₁, h₂]

/-- domain separation: the hash inputs of ids of different kinds (or versions) differ, because the
    id headers are distinct and prefix-free; so related local / secret / public keys get different
    ids unless the hash collides -/
theorem id_inputs_distinct (b b' : Backend) (k k' : Kind) (key key' : Bytes)
    (hne : (Form.id k).header b ≠ (Form.id k').header b') :
    Extracted.paserkHeader b ++ Extracted.idHeader k ++ showSimple (Extracted.paserkHeader b) (Extracted.kindHeader k) key ≠
    Extracted.paserkHeader b' ++ Extracted.idHeader k' ++ showSimple (Extracted.paserkHeader b') (Extracted.kindHeader k') key' := by
  intro e
  have p1 : (Form.id k).header b <+: Extracted.paserkHeader b ++ Extracted.idHeader k ++ showSimple (Extracted.paserkHeader b) (Extracted.kindHeader k) key :=
    List.prefix_append _ _
  have p2 : (Form.id k').header b' <+: Extracted.paserkHeader b ++ Extracted.idHeader k ++ showSimple (Extracted.paserkHeader b) (Extracted.kindHeader k) key := by
    rw [e]; exact List.prefix_append _ _
  rcases List.prefix_or_prefix_of_prefix p1 p2 with q | q
  · have := C10.headers_prefix_free (b, .id k) (C10.allForms_complete _ _) (b', .id k') (C10.allForms_complete _ _) hne
    simp only at this
    rw [List.isPrefixOf_iff_prefix.mpr q] at this; exact Bool.noConfusion this
  · have := C10.headers_prefix_free (b', .id k') (C10.allForms_complete _ _) (b, .id k) (C10.allForms_complete _ _) (Ne.symm hne)
    simp only at this
    rw [List.isPrefixOf_iff_prefix.mpr q] at this; exact Bool.noConfusion this

/-- lid / sid / pid headers are pairwise different within a version -/
theorem id_headers_distinct : ∀ b ∈ Backend.all,
    (Form.id .localK).header b ≠ (Form.id .secretK).header b ∧
    (Form.id .localK).header b ≠ (Form.id .publicK).header b ∧
    (Form.id .secretK).header b ≠ (Form.id .publicK).header b := by decide

/-- text form: an id string round-trips and must decode to exactly 33 bytes -/
theorem keyid_text_roundtrip (b : Backend) (k : Kind) (key : Bytes) :
    parseKeyId (Extracted.paserkHeader b) (Extracted.idHeader k)
      (showSimple (Extracted.paserkHeader b) (Extracted.idHeader k) (keyId b k key)) = .ok (keyId b k key) :=
  parseKeyId_showSimple _ _ _ (id_len b k key)

theorem keyid_33 (b : Backend) (k : Kind) (s d : Bytes)
    (h : parseKeyId (Extracted.paserkHeader b) (Extracted.idHeader k) s = .ok d) :
    d.length = 33 ∧ showSimple (Extracted.paserkHeader b) (Extracted.idHeader k) d = s :=
  ⟨(showSimple_parseKeyId _ _ s d h).2, (showSimple_parseKeyId _ _ s d h).1⟩

/-- equality / ordering / hashing of ids are those of the 33 bytes: in the model an id *is* its
    bytes; equal strings ⇔ equal ids -/
theorem keyid_eq_iff_text_eq (b : Backend) (k : Kind) (d₁ d₂ : Bytes) :
    showSimple (Extracted.paserkHeader b) (Extracted.idHeader k) d₁ =
      showSimple (Extracted.paserkHeader b) (Extracted.idHeader k) d₂ ↔ d₁ = d₂ := by
  constructor
  · intro h
    have h1 := parseSimple_showSimple (Extracted.paserkHeader b) (Extracted.idHeader k) d₁
    rw [h, parseSimple_showSimple] at h1
    injection h1 with h1; exact h1.symm
  · intro h; rw [h]

/-- the id header strings hashed by the running code (regenerated on every run) are the PASERK documents'
    `.lid.` / `.sid.` / `.pid.`, and the PASERK version prefixes are `k1`..`k4` -/
theorem id_headers_are_spec :
    (∀ k ∈ [Kind.localK, .publicK, .secretK, .pkePublic, .pkeSecret], Extracted.idHeader k = Spec.idHeader k) ∧
    (∀ b ∈ Backend.all, Extracted.paserkHeader b = Spec.paserkHeader b) := by decide

/-! non-vacuity -/
example : (Form.id .localK).header .v4 ≠ (Form.id .secretK).header .v4 := by decide

end PM.C13
