import PasetoModel.Base64Lit
import PasetoModel.FfiLemmas
import PasetoModel.Extracted.Ffi
import PasetoModel.Extracted.Source
import PasetoModel.PaserkInst
import PasetoModel.Forms
import PasetoModel.Props.C01
/-! # C04 — no input makes parsing, unsealing, unwrapping or key use panic
Panic sites are explicit `Res.panic` branches of the model; these theorems show they are
unreachable from public input.  (Partial: aborts inside the C libraries, allocator failure and
true memory safety of aws-lc / libsodium cannot be exhibited by a Lean model; the model carries
the ownership and bounds contract of the Rust wrappers only.) -/
namespace PM.C04
open B64

/-! ## base64: the literal transcription with panicking slice operations -/

theorem decChunks_lens (s : Bytes) :
    (decChunks s).1.length = 3 * (s.length / 4) ∧ (decChunks s).2.2.length = s.length % 4 ∧ (decChunks s).2.2.length < 4 := by
  fun_induction decChunks s with
  | case1 s0 s1 s2 s3 rest a b c e out e' rem h1 h2 ih =>
    simp only [h2] at ih
    simp only [List.length_cons]
    omega
  | case2 rem h =>
    match rem, h with
    | [], _ => simp
    | [a], _ => simp
    | [a, b], _ => simp
    | [a, b, c], _ => simp
    | a :: b :: c :: d :: r, h => exact absurd rfl (h a b c d r)

theorem decodedLen_eq (n : Nat) : decodedLen n = 3 * (n / 4) + 3 * (n % 4) / 4 := by
  simp only [decodedLen]; omega

/-- the literal `decode_vec` (with every `[..n]` and `copy_from_slice` as a potential panic) computes
    exactly the mirror used elsewhere — in particular it never reaches a panic branch -/
theorem decodeVecLit_eq (src : Bytes) :
    decodeVecLit src = (match decodeVec src with | some d => .ok d | none => .err .base64) := by
  unfold decodeVecLit decodeInnerLit decodeVec
  obtain ⟨h1, h2, h3⟩ := decChunks_lens src
  generalize hd : decChunks src = r at *
  obtain ⟨out, e, rem⟩ := r
  simp only at h1 h2 h3 ⊢
  have hk : decodedLen src.length / 3 = src.length / 4 := by rw [decodedLen_eq]; omega
  have hr : decodedLen src.length - 3 * (decodedLen src.length / 3) = rem.length * 3 / 4 := by
    rw [hk, decodedLen_eq, h2]; omega
  simp only [hk, Nat.min_self]
  have ht : out.take (3 * (src.length / 4)) = out := by rw [← h1]; exact List.take_length
  rw [ht]
  have s1 : sliceTo "base64.rs: tmp_in[..src_rem.len()]" [A, A, A, A] rem.length = .ok ([A, A, A, A].take rem.length) := by
    unfold sliceTo; rw [if_pos (by simp; omega)]
  rw [s1]
  simp only [Res.bind]
  have l1 : ([A, A, A, A].take rem.length).length = rem.length := by simp; omega
  have s2 : copyFromSlice "base64.rs: tmp_in copy_from_slice" ([A, A, A, A].take rem.length).length rem = .ok rem := by
    unfold copyFromSlice; rw [if_pos l1.symm]
  rw [s2]
  simp only []
  have hr' : decodedLen src.length - 3 * (src.length / 4) = rem.length * 3 / 4 := by rw [← hk]; exact hr
  rw [hr']
  match rem, h3 with
  | [], _ => simp [sliceTo, copyFromSlice]; (repeat' split) <;> simp_all
  | [x], _ => simp [sliceTo, copyFromSlice]
  | [x, y], _ => simp [sliceTo, copyFromSlice]; (repeat' split) <;> simp_all
  | [x, y, z], _ => simp [sliceTo, copyFromSlice]; (repeat' split) <;> simp_all
  | _ :: _ :: _ :: _ :: _, h => simp at h; omega

theorem base64_decode_no_panic (src : Bytes) : ∀ s, decodeVecLit src ≠ .panic s := by
  intro s; rw [decodeVecLit_eq]; cases decodeVec src <;> simp

/-- closes `h : f … = .panic x` by splitting the definition until every branch is a constructor clash -/
macro "no_panic_at" h:ident : tactic =>
  `(tactic| (repeat' (first | (cases $h:ident; done) | split at $h:ident)))

/-! ## parsers -/

theorem parseToken_no_panic (vh sf ph : Bytes) (fok : Bytes → Bool) (s : Bytes) :
    ∀ x, parseToken vh sf ph fok s ≠ .panic x := by
  intro x h; simp only [parseToken] at h; no_panic_at h

theorem parseSimple_no_panic (h1 h2 s : Bytes) : ∀ x, parseSimple h1 h2 s ≠ .panic x := by
  intro x h; simp only [parseSimple] at h; no_panic_at h

theorem parseKeyId_no_panic (h1 h2 s : Bytes) : ∀ x, parseKeyId h1 h2 s ≠ .panic x := by
  intro x h; simp only [parseKeyId] at h; no_panic_at h

/-- every `FromStr` of every back end -/
theorem form_parse_no_panic (b : Backend) (f : Form) (s : Bytes) : ∀ x, f.parse b s ≠ .panic x := by
  intro x h
  cases f with
  | tok p =>
    simp only [Form.parse, Res.map, Res.bind] at h
    split at h
    · cases h
    · cases h
    · rename_i hh; exact parseToken_no_panic _ _ _ _ _ _ hh
  | id k => exact parseKeyId_no_panic _ _ _ x h
  | key k => exact parseSimple_no_panic _ _ _ x h
  | pie k => exact parseSimple_no_panic _ _ _ x h
  | pw k => exact parseSimple_no_panic _ _ _ x h
  | sealK => exact parseSimple_no_panic _ _ _ x h

/-! ## unseal / unwrap / unseal-key -/

theorem unsealLocal_no_panic (b : Backend) (k payload f a : Bytes) :
    ∀ x, unsealLocal (localScheme b) (tokHdr b .localP) k payload f a ≠ .panic x := by
  intro x
  rcases unsealLocal_total (localScheme b) (tokHdr b .localP) k payload f a with ⟨m, h⟩ | h | h | h <;> rw [h] <;> simp

theorem unsealPublic_no_panic (b : Backend) (k payload f a : Bytes) :
    ∀ x, unsealPublic (publicScheme b) (tokHdr b .publicP) k payload f a ≠ .panic x := by
  intro x
  rcases unsealPublic_total (publicScheme b) (tokHdr b .publicP) k payload f a with ⟨m, h⟩ | h | h | h <;> rw [h] <;> simp

theorem pieUnwrap_no_panic (b : Backend) (ver hdr wk blob : Bytes) :
    ∀ x, pieUnwrap (pieOf b) (pieTagLen b.version) ver hdr wk blob ≠ .panic x := by
  intro x h; simp only [pieUnwrap] at h; no_panic_at h

theorem pbkdfKdf_no_panic (c : BackendCfg) (p s q : Bytes) : ∀ x, pbkdfKdf c p s q ≠ .panic x := by
  intro x h; simp only [pbkdfKdf] at h; no_panic_at h
theorem argonKdf_no_panic (c : BackendCfg) (p s q : Bytes) : ∀ x, argonKdf c p s q ≠ .panic x := by
  intro x h; simp only [argonKdf] at h; no_panic_at h

theorem pbkw_kdf_no_panic (b : Backend) (p s q : Bytes) : ∀ x, (pbkwOf b).kdf p s q ≠ .panic x := by
  intro x h
  simp only [pbkwOf, pbkwSchemeOf] at h
  split at h
  · exact pbkdfKdf_no_panic _ _ _ _ x h
  · exact argonKdf_no_panic _ _ _ _ x h

theorem pbkwUnwrap_no_panic (b : Backend) (ver hdr pass blob : Bytes) :
    ∀ x, pbkwUnwrap (pbkwOf b) ver hdr pass blob ≠ .panic x := by
  intro x h
  simp only [pbkwUnwrap, Res.bind] at h
  no_panic_at h
  all_goals (rename_i hh; exact pbkw_kdf_no_panic b _ _ _ _ hh)

theorem pke_decap_no_panic (b : Backend) (s e : Bytes) : ∀ x, (pkeOf b).decap s e ≠ .panic x := by
  intro x h
  simp only [pkeOf, pkeSchemeOf] at h
  split at h
  · simp only [pkeRsa] at h; no_panic_at h
  · simp only [pkeP384] at h; no_panic_at h
  · simp only [pkeSodium] at h; cases h

theorem pkeUnseal_no_panic (b : Backend) (sk blob : Bytes) : ∀ x, pkeUnseal (pkeOf b) sk blob ≠ .panic x := by
  intro x h
  simp only [pkeUnseal, Res.bind] at h
  no_panic_at h
  all_goals (rename_i hh; exact pke_decap_no_panic b _ _ _ hh)

/-! ## keys -/

theorem edPubDecode_no_panic (c : BackendCfg) (raw : Bytes) : ∀ x, edPubDecode c raw ≠ .panic x := by
  intro x h; simp only [edPubDecode] at h; no_panic_at h
theorem edSecDecode_no_panic (c : BackendCfg) (raw : Bytes) : ∀ x, edSecDecode c raw ≠ .panic x := by
  intro x h; simp only [edSecDecode] at h; no_panic_at h
  all_goals exact edPubDecode_no_panic _ _ _ h
theorem p384PubDecode_no_panic (c : BackendCfg) (raw : Bytes) : ∀ x, p384PubDecode c raw ≠ .panic x := by
  intro x h; simp only [p384PubDecode] at h; no_panic_at h
theorem p384SecDecode_no_panic (raw : Bytes) : ∀ x, p384SecDecode raw ≠ .panic x := by
  intro x h; simp only [p384SecDecode] at h; no_panic_at h
theorem rsaPubDecode_no_panic (n : Nat) (raw : Bytes) : ∀ x, rsaPubDecode n raw ≠ .panic x := by
  intro x h; simp only [rsaPubDecode] at h; no_panic_at h
theorem rsaPrivDecode_no_panic (n : Nat) (raw : Bytes) : ∀ x, rsaPrivDecode n raw ≠ .panic x := by
  intro x h; simp only [rsaPrivDecode] at h; no_panic_at h

theorem keyDecode_no_panic (b : Backend) (k : Kind) (raw : Bytes) : ∀ x, keyDecode b k raw ≠ .panic x := by
  intro x h
  simp only [keyDecode, keyDecodeWith] at h
  cases k <;> simp only [] at h <;> split at h <;>
    first
    | (cases h; done)
    | exact rsaPubDecode_no_panic _ _ x h
    | exact rsaPrivDecode_no_panic _ _ x h
    | exact p384PubDecode_no_panic _ _ x h
    | exact p384SecDecode_no_panic _ x h
    | exact edPubDecode_no_panic _ _ x h
    | exact edSecDecode_no_panic _ _ x h

/-- `LocalKey::from([u8; 32])`'s `expect` is unreachable: 32 bytes always decode -/
theorem local_from_array_no_panic (b : Backend) (raw : Bytes) (h : raw.length = 32) :
    keyDecode b .localK raw = .ok raw := by simp [keyDecode, keyDecodeWith, h]

/-- an accepted P-384 public key is a 49-byte compressed point, never the infinity marker … -/
theorem p384_accepted_len (c : BackendCfg) (hc : c.pkRejectsInfinity = true) (raw key : Bytes)
    (h : p384PubDecode c raw = .ok key) : key.length = 49 := by
  unfold p384PubDecode at h
  split at h
  · split at h
    · rename_i b hb
      injection h with h; subst h
      simp only [p384Compress, Option.map_eq_some_iff] at hb
      obtain ⟨x, _, rfl⟩ := hb
      exact W.fixLen_length _ _
    · cases h
  · simp [hc] at h
  · cases h

/-- … hence **any key value a parser accepts can be encoded (displayed, identified, used) without
    panicking**: the `assert!(len == 49)` of `compressed_pub_key` is unreachable -/
theorem accepted_key_usable (b : Backend) (hb : b ∈ Backend.all) (k : Kind) (raw key : Bytes)
    (h : keyDecode b k raw = .ok key) : keyEncode b k key = .ok key := by
  unfold keyEncode
  split
  · rename_i hc
    obtain ⟨hv, hk, hkey⟩ := hc
    have hinf := C08_all_reject_infinity b hb
    exfalso
    have : key.length = 49 := by
      simp only [keyDecode, keyDecodeWith, hv] at h
      rcases hk with rfl | rfl <;> exact p384_accepted_len _ hinf raw key h
    rw [hkey] at this; simp [p384InfinityKey] at this
  · rfl
where
  C08_all_reject_infinity : ∀ b ∈ Backend.all, (cfgOf b).pkRejectsInfinity = true := by decide

/-! ## sealing with the library's own nonce never hits the short-payload panic -/

theorem seal_no_panic_from_nonce (b : Backend) (hb : b ∈ Backend.all) (k draw claims f a : Bytes)
    (hdraw : draw.length = (cfgOf b).nonceDraw) :
    ∀ x, sealLocal (localScheme b) (tokHdr b .localP) k (draw ++ claims) f a ≠ .panic x := by
  intro x
  have hn : draw.length = (localScheme b).nonceLen := by rw [hdraw]; exact C01.nonce_draw_is_consumed b hb
  unfold sealLocal
  split
  · simp
  · rw [splitFirst_append _ _ _ hn]; simp

/-! ## the one `unsafe` operation outside the aws-lc wrappers: `str::from_utf8_unchecked` in `base64::write_to_fmt` -/

/-- in the current source, every call made inside an `unsafe` block outside `lc/` is `str::from_utf8_unchecked` in
    `base64.rs` (`tools/srcscan.py`, regenerated on every run; how many such calls there are, and how the encoder is
    split into helpers, is not constrained) -/
theorem unsafe_calls_outside_ffi :
    Extracted.Source.unsafeCalls.all
      (fun c => c.1 == "paseto-core/src/base64.rs" && c.2 == "from_utf8_unchecked") = true := by decide

/-- their safety obligation: every byte the encoder produces (the 4-byte groups and the final partial group handed
    to `from_utf8_unchecked`) is an alphabet character, hence below 128 — a complete one-byte UTF-8 sequence -/
theorem write_to_fmt_utf8_safe (bs : Bytes) : ∀ ch ∈ encode bs, ch.toNat < 128 := by
  intro ch h
  have hm := encode_mem bs ch h
  have : ∀ c ∈ alphabet, c.toNat < 128 := by decide
  exact this ch hm

/-! ## the FFI wrappers -/

/-- for every function of `lc/mod.rs` and every possible failure point: no double free, no use
    after free, no leak, and the returned object owns only live objects (finite, exhaustive) -/
theorem ffi_paths_balanced : Ffi.allFns.all Ffi.Fn.ok = true := by decide

/-- dropping `r.detach(); s.detach()` from `Signature::from_bytes` would be caught by the checker
    (the model is not vacuous) -/
theorem ffi_checker_detects_missing_detach :
    ({ Ffi.signatureFromBytes with body := Ffi.signatureFromBytes.body.take 4 } : Ffi.Fn).ok = false := by decide

/-! ### the same check on the action lists *translated from the current source* (`tools/ffiscan.py` →
    `Extracted/Ffi.lean`, regenerated on every run).  The translator treats every aws-lc call as a possible exit (`?`,
    `return Err`, or an unwinding panic), so the obligation does not depend on how errors are propagated. -/

/-- every function of the current `lc/mod.rs`, every exit point: nothing freed twice, used after being freed,
    leaked, or returned after being freed -/
theorem extracted_ffi_paths_balanced : Extracted.Ffi.fns.all Ffi.Fn.ok = true := by decide

/-- what the balance check *means* (soundness of the checker, `FfiLemmas.lean`): in every function of the current
    `lc/mod.rs`, whichever aws-lc call fails (or none), no object is released twice, and every object still allocated
    when the function is left is owned by the value it returns -/
theorem extracted_ffi_no_double_free_no_leak (f : Ffi.Fn) (hf : f ∈ Extracted.Ffi.fns) (failAt : Option Nat) :
    (Ffi.run f failAt).frees.Nodup ∧
    ∀ r ∈ (Ffi.run f failAt).live, f.returns.contains r = true ∨
      (Ffi.run f failAt).children.any (fun c => c.1 == r && f.returns.contains c.2) = true := by
  have h := extracted_ffi_paths_balanced
  rw [List.all_eq_true] at h
  exact Ffi.ok_sound_all f (h f hf) failAt

/-- every aws-lc function the current `lc/mod.rs` calls is one whose ownership behaviour the translator knows -/
theorem extracted_ffi_calls_classified : Extracted.Ffi.unclassified = [] := by decide

/-- the translation is not empty and covers the functions of the hand-written model -/
theorem extracted_ffi_covers :
    ["SigningKey::from_sec1_bytes", "Signature::from_bytes", "SigningKey::sign", "VerifyingKey::verify",
     "VerifyingKey::from_sec1_bytes", "<SigningKey as Clone>::clone", "<VerifyingKey as Clone>::clone",
     "SigningKey::diffie_hellman", "Signature::append_to_vec"].all
      (fun n => (Extracted.Ffi.fns.map (·.name)).contains n) = true := by decide

/-- the wrappers of the current `lc/ptr.rs` have the semantics the checker assumes: `LcPtr` frees on drop,
    `DetachableLcPtr` frees on drop iff not detached, `detach` releases nothing, and each pointee type is released
    with its own aws-lc function -/
theorem ffi_wrappers_as_modelled :
    Extracted.Ffi.managedDropFrees = true ∧ Extracted.Ffi.detachableDropFreesIffPresent = true ∧
    Extracted.Ffi.detachTakes = true ∧ Extracted.Ffi.aliasesAsModelled = true ∧
    Extracted.Ffi.macroFreeCallsGiven = true ∧
    Extracted.Ffi.freeTable = [("u8", "OPENSSL_free"), ("EC_GROUP", "EC_GROUP_free"), ("EC_POINT", "EC_POINT_free"),
      ("EC_KEY", "EC_KEY_free"), ("ECDSA_SIG", "ECDSA_SIG_free"), ("BIGNUM", "BN_free")] := by decide

/-- the extended checker is not vacuous: forgetting the DER buffer in `verify`, a raw release of a wrapped key, and an
    early `drop` followed by a use are each rejected -/
theorem ffi_checker_detects_forget_rawfree_earlydrop :
    ({ name := "verify+forget", borrowed := [0, 1, 2],
       body := [.call [2] true, .allocRaw 3, .adopt 3 false, .call [1, 3, 0] true, .detach 3], returns := [] } : Ffi.Fn).ok = false ∧
    ({ name := "from_point+EC_KEY_free", borrowed := [0, 1],
       body := [.alloc 2 false, .call [2, 0] true, .call [2, 1] true, .rawFree 2], returns := [2] } : Ffi.Fn).ok = false ∧
    ({ name := "drop(bn) then use", borrowed := [],
       body := [.alloc 1 false, .dropNow 1, .call [1] true], returns := [] } : Ffi.Fn).ok = false := by decide

/-- `append_to_vec`: `set_len(len + 96)` happens only after both 48-byte writes succeeded, within
    the reserved capacity and over fully initialised bytes; on failure the length is unchanged -/
theorem append_to_vec_in_bounds (v : Ffi.VecSt) (ok1 ok2 : Bool) :
    (Ffi.appendToVecModel v ok1 ok2).2 = true ∧
    (∀ v', (Ffi.appendToVecModel v ok1 ok2).1 = some v' → (v'.len = v.len + 96 ↔ (ok1 = true ∧ ok2 = true)) ∧
      (¬ (ok1 = true ∧ ok2 = true) → v'.len = v.len)) := by
  cases ok1 <;> cases ok2 <;> simp [Ffi.appendToVecModel] <;> omega

/-! non-vacuity -/
example : decodeVecLit [81, 81] = .ok [65] := by decide +kernel
example : (keyDecode .v3lc .publicK [0]).isOk = false := by
  have h2 : p384Decode [0] = .infinity := by rfl
  simp [keyDecode, keyDecodeWith, Backend.version, p384PubDecode, p384AltForm, h2, cfgOf, Res.isOk]

end PM.C04
