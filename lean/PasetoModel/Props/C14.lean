import PasetoModel.Claims
/-! # C14 — RegisteredClaims / Json wire form -/
namespace PM.C14

/-- Encoding any claims value and decoding it yields the same value (every combination of absent /
    present fields; strings byte-for-byte; timestamps exactly). -/
theorem claims_roundtrip (fmt : Int → Bytes) (c : Claims) :
    claimsDecode (some (claimsEncode fmt c)) = .ok c := by
  obtain ⟨iss, sub, aud, exp, nbf, iat, jti⟩ := c
  cases iss <;> cases sub <;> cases aud <;> cases exp <;> cases nbf <;> cases iat <;> cases jti <;>
    simp [claimsDecode, claimsEncode, Fld.all, Claims.get, decodeGo, fieldOf, Fld.name, convO, Fld.isTime,
      Acc.set, Acc.empty, Acc.toClaims, getS, getT, Res.map, Res.bind]

/-- The wire form has a member for a claim iff the claim is present (absent claims are omitted,
    never written as null), and each value is a string. -/
theorem wire_form (fmt : Int → Bytes) (c : Claims) (k : Bytes) (v : JVal) :
    (k, v) ∈ claimsEncode fmt c ↔
      ∃ f, k = f.name ∧ ((∃ b, c.get f = some (.s b) ∧ v = .str b none) ∨
                          (∃ n, c.get f = some (.t n) ∧ v = .str (fmt n) (some n))) := by
  simp only [claimsEncode, List.mem_filterMap]
  constructor
  · rintro ⟨f, _, h⟩
    refine ⟨f, ?_⟩
    cases hg : c.get f with
    | none => simp [hg] at h
    | some x => cases x with
      | s b => simp [hg] at h; exact ⟨h.1.symm, Or.inl ⟨b, rfl, h.2.symm⟩⟩
      | t n => simp [hg] at h; exact ⟨h.1.symm, Or.inr ⟨n, rfl, h.2.symm⟩⟩
  · rintro ⟨f, rfl, h⟩
    refine ⟨f, by cases f <;> simp [Fld.all], ?_⟩
    rcases h with ⟨b, hb, rfl⟩ | ⟨n, hn, rfl⟩
    · simp [hb]
    · simp [hn]

theorem absent_stays_absent (fmt : Int → Bytes) (c : Claims) (f : Fld) (h : c.get f = none) :
    ∀ v, (f.name, v) ∉ claimsEncode fmt c := by
  intro v hv
  rw [wire_form] at hv
  obtain ⟨g, hg, hh⟩ := hv
  have : f = g := by cases f <;> cases g <;> simp [Fld.name] at hg <;> rfl
  subst this
  rcases hh with ⟨b, hb, _⟩ | ⟨n, hn, _⟩ <;> simp [h] at *

/-- members appear in the fixed order iss, sub, aud, exp, nbf, iat, jti, each at most once -/
theorem wire_order (fmt : Int → Bytes) (c : Claims) :
    ((claimsEncode fmt c).map Prod.fst).Sublist (Fld.all.map Fld.name) := by
  obtain ⟨iss, sub, aud, exp, nbf, iat, jti⟩ := c
  cases iss <;> cases sub <;> cases aud <;> cases exp <;> cases nbf <;> cases iat <;> cases jti <;>
    simp [claimsEncode, Fld.all, Claims.get, Fld.name] <;> decide

/-- Decoding ignores unknown members. -/
theorem ignores_unknown (l : Members) (acc : Acc) :
    decodeGo (l.filter (fun m => (fieldOf m.1).isSome)) acc = decodeGo l acc := by
  induction l generalizing acc with
  | nil => rfl
  | cons m rest ih =>
    obtain ⟨k, v⟩ := m
    cases hf : fieldOf k with
    | none => simp [List.filter, hf, decodeGo, ih]
    | some f =>
      simp only [List.filter, hf, Option.isSome_some, decodeGo]
      split
      · rfl
      · cases convO f v <;> simp [ih]

theorem set_comm (a : Acc) (f g : Fld) (x y : Option FVal) (h : f ≠ g) :
    (a.set f x).set g y = (a.set g y).set f x := by
  funext k
  simp only [Acc.set]
  by_cases h1 : k = g <;> by_cases h2 : k = f <;> simp_all

/-- one step of the visitor loop (`none` = the loop returns a payload error) -/
def stepO (m : Bytes × JVal) (acc : Acc) : Option Acc :=
  match fieldOf m.1 with
  | some f => if (acc f).isSome then none else (convO f m.2).map (acc.set f)
  | none => some acc

theorem decodeGo_cons (m : Bytes × JVal) (rest : Members) (acc : Acc) :
    decodeGo (m :: rest) acc =
      match stepO m acc with | some a => decodeGo rest a | none => .err .payload := by
  obtain ⟨k, v⟩ := m
  simp only [decodeGo, stepO]
  cases fieldOf k with
  | none => rfl
  | some f =>
    simp only []
    split
    · rfl
    · cases convO f v <;> rfl

theorem stepO_none {m : Bytes × JVal} (h : fieldOf m.1 = none) (acc : Acc) : stepO m acc = some acc := by
  simp [stepO, h]
theorem stepO_some {m : Bytes × JVal} {f : Fld} (h : fieldOf m.1 = some f) (acc : Acc) :
    stepO m acc = if (acc f).isSome then none else (convO f m.2).map (acc.set f) := by
  simp [stepO, h]

/-- two adjacent members that are not the same registered claim commute -/
theorem stepO_comm (x y : Bytes × JVal) (acc : Acc)
    (h : ∀ f, fieldOf x.1 = some f → fieldOf y.1 ≠ some f) :
    (stepO x acc).bind (stepO y) = (stepO y acc).bind (stepO x) := by
  cases hx : fieldOf x.1 with
  | none =>
    cases hy : fieldOf y.1 with
    | none => simp [stepO_none hx, stepO_none hy]
    | some g =>
      simp only [stepO_none hx, stepO_some hy, Option.bind_some]
      split
      · rfl
      · cases convO g y.2 <;> simp [stepO_none hx]
  | some f =>
    cases hy : fieldOf y.1 with
    | none =>
      simp only [stepO_none hy, stepO_some hx, Option.bind_some]
      split
      · rfl
      · cases convO f x.2 <;> simp [stepO_none hy]
    | some g =>
      have hfg : f ≠ g := fun e => h f hx (by rw [hy, e])
      have hgf : g ≠ f := Ne.symm hfg
      simp only [stepO_some hx, stepO_some hy]
      cases hcx : convO f x.2 with
      | none =>
        cases hcy : convO g y.2 with
        | none => by_cases a1 : (acc f).isSome = true <;> by_cases a2 : (acc g).isSome = true <;> simp [a1, a2]
        | some vy =>
          by_cases a1 : (acc f).isSome = true <;> by_cases a2 : (acc g).isSome = true <;>
            simp [a1, a2, stepO_some hx, hcx, Acc.set, hfg]
      | some vx =>
        cases hcy : convO g y.2 with
        | none =>
          by_cases a1 : (acc f).isSome = true <;> by_cases a2 : (acc g).isSome = true <;>
            simp [a1, a2, stepO_some hy, hcy, Acc.set, hgf]
        | some vy =>
          by_cases a1 : (acc f).isSome = true <;> by_cases a2 : (acc g).isSome = true <;>
            simp [a1, a2, stepO_some hx, stepO_some hy, hcx, hcy, Acc.set, hfg, hgf]
          exact (set_comm acc f g vx vy hfg)

theorem swap_ok (x y : Bytes × JVal) (rest : Members) (acc : Acc)
    (h : ∀ f, fieldOf x.1 = some f → fieldOf y.1 ≠ some f) :
    decodeGo (x :: y :: rest) acc = decodeGo (y :: x :: rest) acc := by
  have hc := stepO_comm x y acc h
  simp only [decodeGo_cons]
  cases hx : stepO x acc <;> cases hy : stepO y acc <;> simp only [hx, hy, Option.bind_some, Option.bind_none] at hc ⊢
  · rw [← hc]
  · rw [hc]
  · rw [hc]

/-- registered keys occur at most once -/
def NoDupRegistered (l : Members) : Prop := (l.filterMap (fun m => fieldOf m.1)).Nodup

/-- **Member order is irrelevant**: any permutation of an object without duplicated registered
    claims decodes to the same result (same claims, or the same error). -/
theorem order_irrelevant (l l' : Members) (hp : l.Perm l') (hn : NoDupRegistered l) :
    claimsDecode (some l) = claimsDecode (some l') := by
  suffices h : ∀ acc, decodeGo l acc = decodeGo l' acc by simp [claimsDecode, h]
  induction hp with
  | nil => intro acc; rfl
  | cons x _ ih =>
    intro acc
    rename_i l1 l2 _
    have hn' : NoDupRegistered l1 := by
      unfold NoDupRegistered at hn ⊢
      simp only [List.filterMap_cons] at hn
      split at hn
      · exact hn
      · exact (List.nodup_cons.mp hn).2
    simp only [decodeGo_cons]
    cases stepO x acc with
    | none => rfl
    | some a => exact ih hn' a
  | swap x y rest =>
    intro acc
    apply swap_ok
    intro f hy hx
    unfold NoDupRegistered at hn
    simp [List.filterMap_cons, hx, hy] at hn
  | trans h1 _ ih1 ih2 =>
    intro acc
    rename_i l1 l2 l3 _
    have hn2 : NoDupRegistered l2 := by
      unfold NoDupRegistered at hn ⊢
      exact (List.Perm.nodup_iff (h1.filterMap _)).mp hn
    rw [ih1 hn acc, ih2 hn2 acc]

/-- value the final accumulator holds for a claim, in terms of the *last* member with that name:
    whenever decoding succeeds, each registered claim has the value a generic (last-wins) JSON
    parser reads for that member — including the `{"iss":null,"iss":"x"}` corner, which succeeds. -/
theorem decodeGo_lookupLast (l : Members) (acc a : Acc) (h : decodeGo l acc = .ok a) (f : Fld) :
    a f = match lookupLast l f.name with
          | some v => (convO f v).getD none
          | none => acc f := by
  induction l generalizing acc with
  | nil => simp [decodeGo] at h; simp [lookupLast, h]
  | cons m rest ih =>
    obtain ⟨k, v⟩ := m
    simp only [decodeGo] at h
    have name_inj : ∀ g : Fld, fieldOf g.name = some g := by intro g; cases g <;> decide
    have of_name : ∀ (k : Bytes) (g : Fld), fieldOf k = some g → k = g.name := by
      intro k g hk
      unfold fieldOf at hk
      repeat' split at hk
      all_goals (first | (injection hk with hk; subst hk; assumption) | (simp at hk))
    cases hf : fieldOf k with
    | none =>
      simp only [hf] at h
      have := ih acc h
      rw [this]
      simp only [lookupLast]
      cases lookupLast rest f.name with
      | some _ => rfl
      | none =>
        have : k ≠ f.name := by intro e; rw [e, name_inj] at hf; simp at hf
        simp [this]
    | some g =>
      simp only [hf] at h
      split at h
      · simp at h
      · rename_i hnone
        cases hc : convO g v with
        | none => simp [hc] at h
        | some x =>
          simp only [hc] at h
          have := ih _ h
          rw [this]
          simp only [lookupLast]
          cases lookupLast rest f.name with
          | some _ => rfl
          | none =>
            by_cases hk : k = f.name
            · have : g = f := by rw [hk, name_inj] at hf; injection hf with hf; exact hf.symm
              subst this
              simp [hk, Acc.set, hc]
            · have : f ≠ g := by intro e; subst e; exact hk (of_name k f hf)
              simp [hk, Acc.set, this]

/-- generic reading of a member: `null` or absent ↦ no claim -/
def optOfJ (f : Fld) : Option JVal → Option FVal
  | some v => (convO f v).getD none
  | none => none

/-- values produced by the field converters have the field's type -/
def typed (f : Fld) : Option FVal → Prop
  | none => True
  | some (.s _) => f.isTime = false
  | some (.t _) => f.isTime = true

theorem convO_typed (f : Fld) (v : JVal) : typed f ((convO f v).getD none) := by
  cases v <;> simp [convO, typed]
  rename_i s ts
  by_cases h : f.isTime = true
  · cases ts <;> simp [h, typed]
  · simp [h, typed]

theorem get_toClaims (a : Acc) (f : Fld) (h : typed f (a f)) : a.toClaims.get f = a f := by
  cases f <;> simp only [Acc.toClaims, Claims.get] <;>
    (cases hv : a _ with
     | none => simp [getS, getT]
     | some x => cases x <;> simp_all [typed, getS, getT, Fld.isTime])

/-- **Agreement with a generic JSON parser.**  Whenever decoding succeeds, every registered claim
    has exactly the value a generic (last-duplicate-wins) parser reads for that member: absent or
    `null` ↦ no claim, a string ↦ that string / that timestamp. -/
theorem agrees_with_generic (l : Members) (c : Claims) (h : claimsDecode (some l) = .ok c) (f : Fld) :
    c.get f = optOfJ f (lookupLast l f.name) := by
  simp only [claimsDecode, Res.map, Res.bind] at h
  split at h
  · rename_i a ha
    injection h with h; subst h
    have hl := decodeGo_lookupLast l Acc.empty a ha f
    have ht : typed f (a f) := by
      rw [hl]
      cases lookupLast l f.name with
      | none => simp [Acc.empty, typed]
      | some v => exact convO_typed f v
    rw [get_toClaims a f ht, hl]
    cases lookupLast l f.name <;> simp [optOfJ, Acc.empty]
  · simp at h
  · simp at h

/-- `Json<T>` is transparent over serde_json as payload and as footer, except that an empty footer
    is an error -/
theorem json_wrappers_transparent {α} (ser : α → Bytes) (de : Bytes → Option α) (x : α) (b : Bytes) :
    jsonPayloadEncode ser x = ser x ∧ jsonPayloadDecode de b = de b ∧
    jsonFooterEncode ser x = ser x ∧ (b ≠ [] → jsonFooterDecode de b = de b) := by
  refine ⟨rfl, rfl, rfl, ?_⟩
  intro h; cases b with | nil => exact absurd rfl h | cons _ _ => rfl

theorem empty_footer_err {α} (de : Bytes → Option α) : jsonFooterDecode de [] = none := rfl

/-- the top-level value must be an object -/
theorem non_object_rejected : claimsDecode none = .err .payload := rfl

/-! non-vacuity -/
example : claimsDecode (some [(Fld.iss.name, .null), (Fld.iss.name, .str [120] none)]) =
    .ok { iss := some [120] } := by decide
example : claimsDecode (some [(Fld.iss.name, .str [120] none), (Fld.iss.name, .null)]) = .err .payload := by decide
example : claimsDecode (some [([1], .arr), (Fld.exp.name, .str [50] (some 7))]) = .ok { exp := some 7 } := by decide
example : NoDupRegistered [([1], .arr), (Fld.exp.name, .str [50] (some 7)), ([1], .null)] := by
  simp [NoDupRegistered, fieldOf, Fld.name]

end PM.C14
