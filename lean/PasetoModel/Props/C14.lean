import PasetoModel.JsonParse
import PasetoModel.CivilLemmas
import PasetoModel.TsRead
import PasetoModel.ClaimsLemmas
/-! # C14 — RegisteredClaims / Json wire form -/
namespace PM.C14

/-- Encoding any claims value and decoding it yields the same value (every combination of absent /
    present fields; strings byte-for-byte; timestamps exactly). -/
theorem claims_roundtrip (fmt : Int → Bytes) (c : Claims) :
    claimsDecode (some (claimsEncode fmt c)) = .ok c := by
  obtain ⟨iss, sub, aud, exp, nbf, iat, jti⟩ := c
  cases iss <;> cases sub <;> cases aud <;> cases exp <;> cases nbf <;> cases iat <;> cases jti <;>
    simp [claimsDecode, claimsEncode, Fld.all, Claims.get, decodeGo, fieldOf, Fld.name, convO, Fld.isTime,
      Acc.set, Acc.empty, Acc.toClaims, getS, getT, Res.map, Res.bind]

/-- The wire form has a member for a claim iff the claim is present (absent claims are omitted,
    never written as null), and each value is a string. -/
theorem wire_form (fmt : Int → Bytes) (c : Claims) (k : Bytes) (v : JVal) :
    (k, v) ∈ claimsEncode fmt c ↔
      ∃ f, k = f.name ∧ ((∃ b, c.get f = some (.s b) ∧ v = .str b none) ∨
                          (∃ n, c.get f = some (.t n) ∧ v = .str (fmt n) (some n))) := by
  simp only [claimsEncode, List.mem_filterMap]
  constructor
  · rintro ⟨f, _, h⟩
    refine ⟨f, ?_⟩
    cases hg : c.get f with
    | none => simp [hg] at h
    | some x => cases x with
      | s b => simp [hg] at h; exact ⟨h.1.symm, Or.inl ⟨b, rfl, h.2.symm⟩⟩
      | t n => simp [hg] at h; exact ⟨h.1.symm, Or.inr ⟨n, rfl, h.2.symm⟩⟩
  · rintro ⟨f, rfl, h⟩
    refine ⟨f, by cases f <;> simp [Fld.all], ?_⟩
    rcases h with ⟨b, hb, rfl⟩ | ⟨n, hn, rfl⟩
    · simp [hb]
    · simp [hn]

theorem absent_stays_absent (fmt : Int → Bytes) (c : Claims) (f : Fld) (h : c.get f = none) :
    ∀ v, (f.name, v) ∉ claimsEncode fmt c := by
  intro v hv
  rw [wire_form] at hv
  obtain ⟨g, hg, hh⟩ := hv
  have : f = g := by cases f <;> cases g <;> simp [Fld.name] at hg <;> rfl
  subst this
  rcases hh with ⟨b, hb, _⟩ | ⟨n, hn, _⟩ <;> simp [h] at *

/-- members appear in the fixed order iss, sub, aud, exp, nbf, iat, jti, each at most once -/
theorem wire_order (fmt : Int → Bytes) (c : Claims) :
    ((claimsEncode fmt c).map Prod.fst).Sublist (Fld.all.map Fld.name) := by
  obtain ⟨iss, sub, aud, exp, nbf, iat, jti⟩ := c
  cases iss <;> cases sub <;> cases aud <;> cases exp <;> cases nbf <;> cases iat <;> cases jti <;>
    simp [claimsEncode, Fld.all, Claims.get, Fld.name] <;> decide

/-- Decoding ignores unknown members. -/
theorem ignores_unknown (l : Members) (acc : Acc) :
    decodeGo (l.filter (fun m => (fieldOf m.1).isSome)) acc = decodeGo l acc := by
  induction l generalizing acc with
  | nil => rfl
  | cons m rest ih =>
    obtain ⟨k, v⟩ := m
    cases hf : fieldOf k with
    | none => simp [List.filter, hf, decodeGo, ih]
    | some f =>
      simp only [List.filter, hf, Option.isSome_some, decodeGo]
      split
      · rfl
      · cases convO f v <;> simp [ih]

/-- registered keys occur at most once -/
def NoDupRegistered (l : Members) : Prop := (l.filterMap (fun m => fieldOf m.1)).Nodup

/-- **Member order is irrelevant**: any permutation of an object without duplicated registered
    claims decodes to the same result (same claims, or the same error). -/
theorem order_irrelevant (l l' : Members) (hp : l.Perm l') (hn : NoDupRegistered l) :
    claimsDecode (some l) = claimsDecode (some l') := by
  suffices h : ∀ acc, decodeGo l acc = decodeGo l' acc by simp [claimsDecode, h]
  induction hp with
  | nil => intro acc; rfl
  | cons x _ ih =>
    intro acc
    rename_i l1 l2 _
    have hn' : NoDupRegistered l1 := by
      unfold NoDupRegistered at hn ⊢
      simp only [List.filterMap_cons] at hn
      split at hn
      · exact hn
      · exact (List.nodup_cons.mp hn).2
    simp only [decodeGo_cons]
    cases stepO x acc with
    | none => rfl
    | some a => exact ih hn' a
  | swap x y rest =>
    intro acc
    apply swap_ok
    intro f hy hx
    unfold NoDupRegistered at hn
    simp [List.filterMap_cons, hx, hy] at hn
  | trans h1 _ ih1 ih2 =>
    intro acc
    rename_i l1 l2 l3 _
    have hn2 : NoDupRegistered l2 := by
      unfold NoDupRegistered at hn ⊢
      exact (List.Perm.nodup_iff (h1.filterMap _)).mp hn
    rw [ih1 hn acc, ih2 hn2 acc]

/-- **Agreement with a generic JSON parser.**  Whenever decoding succeeds, every registered claim
    has exactly the value a generic (last-duplicate-wins) parser reads for that member: absent or
    `null` ↦ no claim, a string ↦ that string / that timestamp. -/
theorem agrees_with_generic (l : Members) (c : Claims) (h : claimsDecode (some l) = .ok c) (f : Fld) :
    c.get f = optOfJ f (lookupLast l f.name) := by
  simp only [claimsDecode, Res.map, Res.bind] at h
  split at h
  · rename_i a ha
    injection h with h; subst h
    have hl := decodeGo_lookupLast l Acc.empty a ha f
    have ht : typed f (a f) := by
      rw [hl]
      cases lookupLast l f.name with
      | none => simp [Acc.empty, typed]
      | some v => exact convO_typed f v
    rw [get_toClaims a f ht, hl]
    cases lookupLast l f.name <;> simp [optOfJ, Acc.empty]
  · simp at h
  · simp at h

/-- `Json<T>` is transparent over serde_json as payload and as footer, except that an empty footer
    is an error -/
theorem json_wrappers_transparent {α} (ser : α → Bytes) (de : Bytes → Option α) (x : α) (b : Bytes) :
    jsonPayloadEncode ser x = ser x ∧ jsonPayloadDecode de b = de b ∧
    jsonFooterEncode ser x = ser x ∧ (b ≠ [] → jsonFooterDecode de b = de b) := by
  refine ⟨rfl, rfl, rfl, ?_⟩
  intro h; cases b with | nil => exact absurd rfl h | cons _ _ => rfl

theorem empty_footer_err {α} (de : Bytes → Option α) : jsonFooterDecode de [] = none := rfl

/-- the top-level value must be an object -/
theorem non_object_rejected : claimsDecode none = .err .payload := rfl

/-! non-vacuity -/
example : claimsDecode (some [(Fld.iss.name, .null), (Fld.iss.name, .str [120] none)]) =
    .ok { iss := some [120] } := by decide
example : claimsDecode (some [(Fld.iss.name, .str [120] none), (Fld.iss.name, .null)]) = .err .payload := by decide
example : claimsDecode (some [([1], .arr), (Fld.exp.name, .str [50] (some 7))]) = .ok { exp := some 7 } := by decide
example : NoDupRegistered [([1], .arr), (Fld.exp.name, .str [50] (some 7)), ([1], .null)] := by
  simp [NoDupRegistered, fieldOf, Fld.name]


/-! ## the wire form as *text* (`Json.lean`): what `RegisteredClaims::encode` writes, byte for byte

`claimsJson` is compared byte-exactly with the library on every run (`claims.json` stream: every absent / present
combination, strings with escapes, NUL, astral characters and long runs, timestamps over jiff's whole range). -/

/-- the payload is one compact JSON object: `{`, the present members in the fixed order `iss sub aud exp nbf iat jti`
    separated by `,`, `}` — absent claims contribute nothing -/
theorem wire_is_compact_object (c : Claims) :
    Json.claimsJson c = [123] ++ Json.joinComma ((claimsEncode Json.fmtTs c).map Json.memberText) ++ [125] := rfl

/-- an empty claim set is written as `{}` -/
theorem wire_empty : Json.claimsJson {} = [123, 125] := by decide

/-- string claims are written so that they can be read back byte for byte: the escaping is decodable … -/
theorem wire_strings_decodable (s : Bytes) : Json.unescape (Json.escape s) = some s := Json.unescape_escape s

/-- … and leaves no raw control byte inside the literal (so the literal ends where the text says it ends) -/
theorem wire_strings_no_control (s : Bytes) : ∀ ch ∈ Json.escape s, 32 ≤ ch.toNat := Json.escape_no_control s

/-- timestamps are written in the RFC 3339 character set, in UTC (`…Z`) -/
theorem wire_timestamps_rfc3339_shape (ns : Int) :
    (∀ ch ∈ Json.fmtTs ns, Json.tsChar ch) ∧ ∃ body, Json.fmtTs ns = body ++ [90] :=
  ⟨Json.fmtTs_chars ns, Json.fmtTs_ends_Z ns⟩


/-- the value bytes of a member (claims are only ever written as strings) -/
def strOf : JVal → Bytes
  | .str s _ => s
  | _ => []

theorem encode_members_are_strings (fmt : Int → Bytes) (c : Claims) :
    ∀ m ∈ claimsEncode fmt c, ∃ s t, m.2 = JVal.str s t := by
  intro m hm
  simp only [claimsEncode, List.mem_filterMap] at hm
  obtain ⟨f, _, hf⟩ := hm
  cases hg : c.get f with
  | none => simp [hg] at hf
  | some v =>
    cases v with
    | s b => simp only [hg, Option.some.injEq] at hf; exact ⟨b, none, by rw [← hf]⟩
    | t n => simp only [hg, Option.some.injEq] at hf; exact ⟨fmt n, some n, by rw [← hf]⟩

/-- **the wire text is unambiguous**: reading the bytes `RegisteredClaims::encode` writes — with a reader for compact
    objects of string members — gives back exactly the members that were written: every present claim once, in order,
    strings byte for byte, timestamps as their RFC 3339 text; nothing for absent claims -/
theorem wire_text_reads_back (c : Claims) :
    Json.readObject (Json.claimsJson c) =
      some ((claimsEncode Json.fmtTs c).map (fun m => (m.1, strOf m.2))) := by
  have hmap : (claimsEncode Json.fmtTs c).map Json.memberText =
      ((claimsEncode Json.fmtTs c).map (fun m => (m.1, strOf m.2))).map Json.strMemberText := by
    rw [List.map_map]
    apply List.map_congr_left
    intro m hm
    obtain ⟨s, t, hs⟩ := encode_members_are_strings Json.fmtTs c m hm
    obtain ⟨k, v⟩ := m
    simp only at hs
    subst hs
    rfl
  unfold Json.claimsJson Json.objectText
  rw [hmap]
  exact Json.readObject_text _

/-- **distinct days are written as distinct dates** (every day number, no bound): the calendar step of the RFC 3339 text
    (`Json.civil`, compared byte for byte with jiff's output through `claims.json`) has Hinnant's `days_from_civil` as a
    left inverse, so the year-month-day of a timestamp determines its day -/
theorem date_determines_day (z : Int) :
    Json.daysFromCivil (Json.civil z).1 (Json.civil z).2.1 (Json.civil z).2.2 = z :=
  Json.daysFromCivil_civil z

theorem date_injective (z₁ z₂ : Int) (h : Json.civil z₁ = Json.civil z₂) : z₁ = z₂ :=
  Json.civil_injective z₁ z₂ h

/-- the month and day written are in range for every day number (so two digits each always suffice) -/
theorem date_fields_in_range (z : Int) :
    1 ≤ (Json.civil z).2.1 ∧ (Json.civil z).2.1 ≤ 12 ∧ 1 ≤ (Json.civil z).2.2 ∧ (Json.civil z).2.2 ≤ 31 :=
  Json.civil_in_range z

/-- **the numbers in the timestamp text determine the instant**, for every `ns : Int`: `fmtTs` is a rendering of
    (year, month, day, hour, minute, second, nanosecond) and that tuple is injective in `ns` -/
theorem timestamp_fields_determine_instant (a b : Int) (h : Json.tsFields a = Json.tsFields b) : a = b :=
  Json.tsFields_injective a b h

theorem timestamp_text_is_fields (ns : Int) : Json.fmtTs ns = Json.renderFields (Json.tsFields ns) :=
  Json.fmtTs_eq_render ns

/-- every fixed-width digit field reads back as the number written, whenever the number fits the width -/
theorem digit_field_reads_back (w n : Nat) (h : n < 10 ^ w) :
    Json.digitsVal (Json.pad w n) = n ∧ (Json.pad w n).length = w :=
  ⟨Json.digitsVal_pad w n h, Json.pad_length w n⟩

/-! non-vacuity -/
example : Json.tsFields 1000000000123456789 = ((2001, 9, 9), 1, 46, 40, 123456789) ∧
    Json.digitsVal (Json.pad 4 2001) = 2001 := by decide +kernel

/-- the fraction reads back for every non-zero nanosecond count: the digits after the point (at most nine, trailing
    zeros removed), padded on the right with `0` to nine, denote exactly the nanoseconds written -/
theorem fraction_reads_back (f : Nat) (h0 : 0 < f) (h : f < 10 ^ 9) :
    ∃ ds, Json.fracDigits f = 46 :: ds ∧ ds.length ≤ 9 ∧
      Json.digitsVal (ds ++ List.replicate (9 - ds.length) 48) = f :=
  Json.frac_reads_back f h0 h

example : Json.fracDigits 120000000 = [46, 49, 50] := by decide +kernel

/-- **the timestamp text reads back to the instant written** (`…_partial`: every instant whose year is 0 … 9999, to the
    nanosecond; not covered: years below 0, which `fmtTs` writes with a sign and six digits — their fields are covered by
    `timestamp_fields_determine_instant` and `digit_field_reads_back` but not by this fixed-offset reader).  `Json.readTs`
    slices the text at RFC 3339's fixed offsets, restores the stripped zeros of the fraction and applies Hinnant's
    `days_from_civil`. -/
theorem timestamp_text_reads_back_partial (ns : Int)
    (hy0 : 0 ≤ (Json.civil ((ns.fdiv 1000000000).fdiv 86400)).1)
    (hy1 : (Json.civil ((ns.fdiv 1000000000).fdiv 86400)).1 < 10000) :
    Json.readTs (Json.fmtTs ns) = ns :=
  Json.readTs_fmtTs ns hy0 hy1

/-! non-vacuity: the hypotheses hold for 2001-09-09T01:46:40.123456789Z and the reader returns the instant -/
example : 0 ≤ (Json.civil (((1000000000123456789 : Int).fdiv 1000000000).fdiv 86400)).1 ∧
    (Json.civil (((1000000000123456789 : Int).fdiv 1000000000).fdiv 86400)).1 < 10000 ∧
    Json.readTs (Json.fmtTs 1000000000123456789) = 1000000000123456789 := by decide +kernel

/-- **the timestamp text reads back to the instant written**, to the nanosecond, for every instant whose year is
    −999999 … 9999 — a superset of jiff's `Timestamp` range (years −9999 … 9999), so for every timestamp the library can
    hold.  `Json.readTsAny` takes the six-digit year after a leading `-`, the four-digit year otherwise. -/
theorem timestamp_text_reads_back (ns : Int)
    (hy0 : -1000000 < (Json.civil ((ns.fdiv 1000000000).fdiv 86400)).1)
    (hy1 : (Json.civil ((ns.fdiv 1000000000).fdiv 86400)).1 < 10000) :
    Json.readTsAny (Json.fmtTs ns) = ns :=
  Json.readTsAny_fmtTs ns hy0 hy1

/-- hence the text is injective on that range: two instants written the same are the same instant -/
theorem timestamp_text_injective (a b : Int)
    (ha0 : -1000000 < (Json.civil ((a.fdiv 1000000000).fdiv 86400)).1)
    (ha1 : (Json.civil ((a.fdiv 1000000000).fdiv 86400)).1 < 10000)
    (hb0 : -1000000 < (Json.civil ((b.fdiv 1000000000).fdiv 86400)).1)
    (hb1 : (Json.civil ((b.fdiv 1000000000).fdiv 86400)).1 < 10000)
    (h : Json.fmtTs a = Json.fmtTs b) : a = b := by
  rw [← Json.readTsAny_fmtTs a ha0 ha1, ← Json.readTsAny_fmtTs b hb0 hb1, h]

/-! non-vacuity: an instant in a year below 0, with a fraction -/
example : (Json.civil (((-70000000000500000000 : Int).fdiv 1000000000).fdiv 86400)).1 < 0 ∧
    -1000000 < (Json.civil (((-70000000000500000000 : Int).fdiv 1000000000).fdiv 86400)).1 ∧
    Json.readTsAny (Json.fmtTs (-70000000000500000000)) = -70000000000500000000 := by decide +kernel

/-! non-vacuity: 2000-02-29 and 1969-12-31 -/
example : Json.civil 11016 = (2000, 2, 29) ∧ Json.daysFromCivil 2000 2 29 = 11016 ∧ Json.civil (-1) = (1969, 12, 31) := by
  decide +kernel

/-! non-vacuity: a concrete claim set and its text -/
example : Json.claimsJson { iss := some [97, 34], exp := some 0 } =
    "{\"iss\":\"a\\\"\",\"exp\":\"1970-01-01T00:00:00Z\"}".toUTF8.toList := by decide +kernel

end PM.C14
