import PasetoModel.Features
/-! # C19 — every feature subset builds; reduced builds behave like the full one
The feature tables and the item-level `cfg` gates are re-scanned from the working tree on every
run; the kernel re-decides consistency for all 2⁹ subsets per crate.  (Partial: cargo / rustc
decide what "builds"; the scan is syntactic — explicit paths to optional crates and to gated
sibling items.  Tie: `cargo check` of feature subsets.) -/
namespace PM.C19
open Feat Extracted.Feat

/-- the subsets enumerated are all 2ⁿ bit masks -/
theorem subsets_length (n : Nat) : (subsets n).length = 2 ^ n := by simp [subsets]
theorem subsets_mem (n S : Nat) (h : S < 2 ^ n) : S ∈ subsets n := by simp [subsets, h]

/-- every subset of the nine features of each RustCrypto-based crate is consistent: whenever a
    gated context is compiled in, every optional crate and every gated item it refers to is too -/
theorem all_subsets_consistent_v1 : (subsets paseto_v1.nFeatures).all (consistent paseto_v1) = true := by decide +kernel
theorem all_subsets_consistent_v2 : (subsets paseto_v2.nFeatures).all (consistent paseto_v2) = true := by decide +kernel
theorem all_subsets_consistent_v3 : (subsets paseto_v3.nFeatures).all (consistent paseto_v3) = true := by decide +kernel
theorem all_subsets_consistent_v4 : (subsets paseto_v4.nFeatures).all (consistent paseto_v4) = true := by decide +kernel

/-- gates are at top item level only: no `cfg!`, no gated statements inside function bodies, and no gated
    associated items inside `impl` / `trait` bodies (a gated associated item of a trait impl would silently fall
    back to the trait's default when the feature is off).  Hence the source of an included item does not depend
    on the feature selection, so an operation available in a reduced build is the same code as in the full build. -/
theorem gates_item_level :
    paseto_v1.stmtLevelGates = 0 ∧ paseto_v2.stmtLevelGates = 0 ∧ paseto_v3.stmtLevelGates = 0 ∧
    paseto_v4.stmtLevelGates = 0 ∧
    paseto_v1.innerGates = 0 ∧ paseto_v2.innerGates = 0 ∧ paseto_v3.innerGates = 0 ∧ paseto_v4.innerGates = 0 := by decide

/-- closure is extensive and idempotent on the extracted tables (all subsets) -/
theorem closure_extensive_idempotent_v4 :
    (subsets paseto_v4.nFeatures).all (fun S =>
      let C := closure paseto_v4.edges paseto_v4.nFeatures S
      (C &&& S == S) && (closure paseto_v4.edges paseto_v4.nFeatures C == C)) = true := by decide +kernel

/-! non-vacuity: the predicate is falsifiable — a reference from a `verifying` context to an item only
    present with `signing` is inconsistent for the subset {verifying} -/
example : consistent { nFeatures := 2, edges := [(0, 1)], refs := [⟨.feat 1, .feat 0⟩], stmtLevelGates := 0, innerGates := 0 } 2 = false := by decide
example : paseto_v4.nFeatures = 9 := by decide

end PM.C19
