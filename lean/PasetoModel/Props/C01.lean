import PasetoModel.Asym
import PasetoModel.Token
import PasetoModel.TextLemmas
import PasetoModel.Forms
/-! # C01 — seal ∘ serialise ∘ parse ∘ unseal = id, including the library's own nonce path -/
namespace PM.C01

/-- Local tokens, every back end, every key/payload/footer/assertion and every nonce value of the
    right length: sealing succeeds and unsealing the result returns the message.
    (No hypothesis on the primitives: the concrete instance satisfies the length laws by construction.) -/
theorem local_roundtrip (b : Backend) (k n0 m f a : Bytes)
    (hn : n0.length = (localScheme b).nonceLen) (ha : (localScheme b).hasAad = true ∨ a = []) :
    ∃ tok, sealLocal (localScheme b) (tokHdr b .localP) k (n0 ++ m) f a = .ok tok ∧
           unsealLocal (localScheme b) (tokHdr b .localP) k tok f a = .ok m :=
  PM.local_roundtrip _ (localSchemeOf_laws _ _) _ k n0 m f a hn ha

/-- The nonce the library draws has exactly the length sealing consumes — re-decided against the
    lengths re-read from the running code (`V::nonce()?.len()`), for all six back ends. -/
theorem nonce_draw_is_consumed : ∀ b ∈ Backend.all, (cfgOf b).nonceDraw = (localScheme b).nonceLen := by
  decide

/-- `V::nonce()` for public tokens is empty on every back end (the whole payload is the message). -/
theorem public_nonce_empty : ∀ b ∈ Backend.all, Extracted.nonceDrawPublic b = 0 := by decide

/-- **The whole pipeline with the library's own nonce**, local tokens: `seal` (= draw nonce, encode
    claims, seal), `Display`, `FromStr`, `unseal` (= unseal, decode, validate) returns the claims
    and the footer, for any payload codec that round-trips and any accepting validator. -/
theorem pipeline_roundtrip_local {M : Type} (b : Backend) (hb : b ∈ Backend.all) (k draw f a : Bytes)
    (enc : M → Bytes) (dec : Bytes → Option M) (claims : M) (val : M → Res Unit)
    (hcodec : dec (enc claims) = some claims) (hval : val claims = .ok ())
    (hdraw : draw.length = (cfgOf b).nonceDraw)
    (ha : (localScheme b).hasAad = true ∨ a = []) :
    ∃ payload, tokenSeal (.ok draw) (some f) (some (enc claims))
                 (fun p f => sealLocal (localScheme b) (tokHdr b .localP) k p f a) = .ok (payload, f) ∧
      ∃ t, parseToken (Extracted.versionHeader b) jsonSuffix (Extracted.kindHeader .localK) FooterKind.vec.ok
             (showToken (Extracted.versionHeader b) jsonSuffix (Extracted.kindHeader .localK) ⟨payload, f⟩) = .ok t ∧
           t.footer = f ∧
           (tokenUnseal (unsealLocal (localScheme b) (tokHdr b .localP) k t.payload t.footer a) dec val).1 = .ok claims := by
  have hn : draw.length = (localScheme b).nonceLen := by rw [hdraw]; exact nonce_draw_is_consumed b hb
  obtain ⟨tok, hs, hu⟩ := local_roundtrip b k draw (enc claims) f a hn ha
  refine ⟨tok, by simp [tokenSeal, hs, Res.map, Res.bind], ⟨tok, f⟩, ?_, rfl, ?_⟩
  · exact parseToken_showToken _ _ _ _ ⟨tok, f⟩ rfl
  · simp [tokenUnseal, hu, hcodec, hval]

/-- Public tokens: for every scheme in which a key's signatures verify under its public key
    (`PublicLaws`: the correctness of the signature primitive, a hypothesis), whatever sealing
    returns is accepted with the same message. -/
theorem public_roundtrip (S : PublicScheme) (L : PublicLaws S) (hdr : List Bytes) (sk msg f a rnd tok : Bytes)
    (h : sealPublic S hdr sk msg f a rnd = .ok tok) :
    unsealPublic S hdr (S.pubOf sk) tok f a = .ok msg :=
  PM.public_roundtrip S L hdr sk msg f a rnd tok h

/-- **The whole pipeline for public tokens**: `sign` (= encode claims, sign; the nonce draw is empty),
    `Display`, `FromStr`, `verify` (= verify, decode, validate) returns the claims and the footer — for every
    scheme whose signatures verify (`PublicLaws`), any codec that round-trips and any accepting validator. -/
theorem pipeline_roundtrip_public {M : Type} (S : PublicScheme) (L : PublicLaws S) (b : Backend)
    (hdr : List Bytes) (sk f a rnd payload : Bytes)
    (enc : M → Bytes) (dec : Bytes → Option M) (claims : M) (val : M → Res Unit)
    (hcodec : dec (enc claims) = some claims) (hval : val claims = .ok ())
    (hs : tokenSeal (.ok []) (some f) (some (enc claims)) (fun p f => sealPublic S hdr sk p f a rnd) = .ok (payload, f)) :
    ∃ t, parseToken (Extracted.versionHeader b) jsonSuffix (Extracted.kindHeader .publicK) FooterKind.vec.ok
           (showToken (Extracted.versionHeader b) jsonSuffix (Extracted.kindHeader .publicK) ⟨payload, f⟩) = .ok t ∧
         t.footer = f ∧
         (tokenUnseal (unsealPublic S hdr (S.pubOf sk) t.payload t.footer a) dec val).1 = .ok claims := by
  simp only [tokenSeal, List.nil_append] at hs
  cases hsp : sealPublic S hdr sk (enc claims) f a rnd with
  | err e => simp [hsp, Res.map, Res.bind] at hs
  | panic x => simp [hsp, Res.map, Res.bind] at hs
  | ok tok =>
    simp only [hsp, Res.map, Res.bind] at hs
    injection hs with hs
    injection hs with h1 _
    subst h1
    have hu := PM.public_roundtrip S L hdr sk (enc claims) f a rnd tok hsp
    refine ⟨⟨tok, f⟩, parseToken_showToken _ _ _ _ ⟨tok, f⟩ rfl, rfl, ?_⟩
    simp [tokenUnseal, hu, hcodec, hval]

/-- fixed-width signature serialisation: r‖s is always 96 bytes and parses back, when padded -/
theorem serSig_fixed (r s : Nat) (hr : r < 256 ^ 48) (hs : s < 256 ^ 48) :
    ∃ sig, serSig true r s = .ok sig ∧ sig.length = 96 ∧
      fromBe (sig.take 48) = r ∧ fromBe (sig.drop 48) = s := by
  refine ⟨natToBe 48 r ++ natToBe 48 s, by simp [serSig], by simp [natToBe_length], ?_, ?_⟩
  · rw [List.take_left' (natToBe_length _ _)]; exact fromBe_natToBe 48 r hr
  · rw [List.drop_left' (natToBe_length _ _)]; exact fromBe_natToBe 48 s hs

theorem serSig_len (p : Bool) (r s : Nat) (sig : Bytes) (h : serSig p r s = .ok sig) : sig.length = 96 := by
  unfold serSig at h
  split at h
  · cases h
  · injection h with h; subst h; simp [natToBe_length]

/-- without padding, serialisation fails exactly for values with a leading zero byte -/
theorem serSig_unpadded_fails_iff (r s : Nat) :
    (serSig false r s).isOk = false ↔ (r < 2 ^ 376 ∨ s < 2 ^ 376) := by
  unfold serSig
  by_cases h1 : r < 2 ^ 376 <;> by_cases h2 : s < 2 ^ 376 <;> simp [h1, h2, Res.isOk]

/-- every back end writes signatures fixed-width (re-decided against `cfgOf`) -/
theorem signatures_padded : ∀ b ∈ Backend.all, (cfgOf b).sigPadded = true := by decide

/-- sealing a public token never fails for the signature-serialisation reason when padded:
    ECDSA sealing fails only if the signer itself fails -/
theorem p384_sign_len (c : BackendCfg) (det strict : Bool) (sk m rnd sig : Bytes)
    (h : (p384Scheme c det strict).sign sk m rnd = .ok sig) : sig.length = 96 := by
  simp only [p384Scheme] at h
  split at h
  · cases h
  · exact serSig_len _ _ _ _ h

theorem ed_sign_len (c : BackendCfg) (aad : Bool) (sk m rnd sig : Bytes)
    (h : (edScheme c aad).sign sk m rnd = .ok sig) : sig.length = 64 := by
  simp only [edScheme] at h
  injection h with h; subst h
  simp [edSignWith, W.fixLen_length]

theorem rsa_sign_len (c : BackendCfg) (sk m rnd sig : Bytes)
    (h : (rsaScheme c).sign sk m rnd = .ok sig) : sig.length = 256 := by
  simp only [rsaScheme] at h
  split at h
  · injection h with h; subst h; simp [W.fixLen_length]
  · cases h

/-- text form of tokens round-trips (from C09), restated for the pipeline -/
theorem token_text_roundtrip (b : Backend) (p : Purpose) (t : SealedTok) :
    parseToken (Extracted.versionHeader b) jsonSuffix (Extracted.kindHeader p.toKind) FooterKind.vec.ok
      (showToken (Extracted.versionHeader b) jsonSuffix (Extracted.kindHeader p.toKind) t) = .ok t :=
  parseToken_showToken _ _ _ _ t rfl

/-! non-vacuity -/
example : (localScheme .v4).nonceLen = 32 ∧ (localScheme .v2).nonceLen = 24 := by decide
example : (serSig false (2 ^ 383) 5).isOk = false := by decide

end PM.C01
