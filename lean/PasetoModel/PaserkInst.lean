import PasetoModel.Paserk
import PasetoModel.Asym
import PasetoModel.Prim.Argon2
/-! Concrete PASERK schemes of the six back ends. -/
namespace PM
open W

def argon2id (pw salt : Bytes) (t mKiB lanes : Nat) : Bytes :=
  fixLen 32 (ob (Prim.Argon2.argon2id (ba pw) (ba salt) t mKiB lanes 32))
def x25519 (scalar u : Bytes) : Bytes := fixLen 32 (ob (Prim.Ed25519.x25519 (ba scalar) (ba u)))
def edPkToX (pk : Bytes) : Bytes := fixLen 32 (ob (Prim.Ed25519.edPkToX (ba pk)))
def edSkToX (seed : Bytes) : Bytes := fixLen 32 (ob (Prim.Ed25519.edSkToX (ba seed)))
/-- X25519 base point u = 9 -/
def x25519Base : Bytes := 9 :: List.replicate 31 0

/-! ### PIE -/
/-- v1/v3: HMAC-SHA384(key, sep ‖ nonce); Ek = first 32, n2 = last 16; Ak = first 32 of the 0x81 output -/
def pieSymNist (ctrBits : Nat) : SymPrims :=
  { ek := fun k n => (hmac384 k (0x80 :: n)).take 32,
    n2 := fun k n => (hmac384 k (0x80 :: n)).drop 32,
    ak := fun k n => (hmac384 k (0x81 :: n)).take 32,
    stream := aesCtr ctrBits, mac := hmac384 }
/-- v2/v4: BLAKE2b-MAC(key, 56 / 32 bytes)(sep ‖ nonce) -/
def pieSymSodium : SymPrims :=
  { ek := fun k n => (blake2b k 56 (0x80 :: n)).take 32,
    n2 := fun k n => (blake2b k 56 (0x80 :: n)).drop 32,
    ak := fun k n => blake2b k 32 (0x81 :: n),
    stream := xchacha, mac := fun k m => blake2b k 32 m }

def pieSym (version : Nat) (c : BackendCfg) : SymPrims :=
  if version = 1 ∨ version = 3 then pieSymNist c.ctrBits else pieSymSodium
def pieTagLen (version : Nat) : Nat := if version = 1 ∨ version = 3 then 48 else 32

theorem pieSym_laws (version : Nat) (c : BackendCfg) : SymLaws (pieSym version c) (pieTagLen version) := by
  unfold pieSym pieTagLen
  split <;> exact { mac_len := fun _ _ => fixLen_length _ _, stream_len := fun _ _ _ => fixLen_length _ _ }

/-! ### PBKW -/
/-- PBKDF2 parameter block: iterations, big-endian u32 -/
def pbkdfKdf (c : BackendCfg) (pass salt params : Bytes) : Res Bytes :=
  let iters := fromBe params
  if iters = 0 ∧ c.pbkwRejectsZeroIter then .err .invalidKey
  else .ok (pbkdf2_384 pass salt (if iters = 0 then 1 else iters) 32)

/-- Argon2id parameter block: memory bytes (be64), time (be32), parallelism (be32) -/
def argonKdf (c : BackendCfg) (pass salt params : Bytes) : Res Bytes :=
  let mem := fromBe (params.take 8)
  let time := fromBe ((params.drop 8).take 4)
  let para := fromBe (params.drop 12)
  if c.argonParallel then
    -- RustCrypto argon2: memory must be a multiple of 1024 bytes; m ≥ 8, m ≥ 8·p, t ≥ 1, 1 ≤ p ≤ 2^24−1
    if c.argonMemMod1024 ∧ mem % 1024 ≠ 0 then .err .invalidKey else
    let m := mem / 1024
    if m ≥ 2 ^ 32 ∨ m < 8 ∨ m < (8 * para) % 2 ^ 32 ∨ time < 1 ∨ para < 1 ∨ para > 0xFFFFFF then .err .invalidKey
    else .ok (argon2id pass salt time m para)
  else
    -- libsodium crypto_pwhash: parallelism fixed to 1; memory floored to KiB; limits checked by libsodium
    if para ≠ 1 then .err .invalidKey else
    let m := mem / 1024
    if mem < 8192 ∨ time < 1 ∨ m ≥ 2 ^ 22 then .err .crypto
    else .ok (argon2id pass salt time m 1)

def pbkwSchemeOf (version : Nat) (c : BackendCfg) : PbkwScheme :=
  if version = 1 ∨ version = 3 then
    { saltLen := 32, paramLen := 4, nonceLen := 16, tagLen := 48,
      kdf := pbkdfKdf c,
      ek := fun k => (sha384 (0xFF :: k)).take 32, ak := fun k => sha384 (0xFE :: k),
      stream := aesCtr c.ctrBits, mac := hmac384 }
  else
    { saltLen := 16, paramLen := 16, nonceLen := 24, tagLen := 32,
      kdf := argonKdf c,
      ek := fun k => blake2b [] 32 (0xFF :: k), ak := fun k => blake2b [] 32 (0xFE :: k),
      stream := xchacha, mac := fun k m => blake2b k 32 m }

theorem pbkwSchemeOf_laws (version : Nat) (c : BackendCfg) : PbkwLaws (pbkwSchemeOf version c) := by
  unfold pbkwSchemeOf
  split <;> exact { mac_len := fun _ _ => fixLen_length _ _, stream_len := fun _ _ _ => fixLen_length _ _ }

/-! ### PKE -/

/-- v2/v4: X25519 on the birationally mapped Ed25519 keys.  context = xk ‖ epk ‖ xpk -/
def pkeSodium (c : BackendCfg) (hdr : Bytes) : PkeScheme :=
  { tagLen := 32, encLen := 32, encLast := false, hdr,
    encap := fun pk rnd =>
      let xpk := edPkToX pk
      let epk := x25519 rnd x25519Base
      .ok (epk, x25519 rnd xpk ++ epk ++ xpk),
    decap := fun sk epk =>
      -- dalek: public key recomputed from the scalar; libsodium: the stored public half
      let xpk := edPkToX (if c.skChecksPubHalf then edPub (sk.take 32) else sk.drop 32)
      .ok (x25519 (edSkToX (sk.take 32)) epk ++ epk ++ xpk),
    ek := fun ctx => blake2b [] 32 (0x01 :: hdr ++ ctx),
    nonce := fun ctx => blake2b [] 24 (ctx.drop 32),
    ak := fun ctx => blake2b [] 32 (0x02 :: hdr ++ ctx),
    stream := xchacha, mac := fun k m => blake2b k 32 m }

/-- v3: ECDH on P-384.  context = xk ‖ epk ‖ pk (compressed points) -/
def pkeP384 (c : BackendCfg) (hdr : Bytes) : PkeScheme :=
  { tagLen := 48, encLen := 49, encLast := false, hdr,
    encap := fun pk rnd =>
      let d := fromBe rnd
      match p384Decode pk, p384Pub d with
      | .point Q, some epk =>
        match Prim.P384.ecdh d Q with
        | some xk => .ok (epk, fixLen 48 (ob xk) ++ epk ++ pk)
        | none => .err .crypto
      | _, _ => .err .crypto,
    decap := fun sk epk =>
      let d := fromBe sk
      match p384Decode epk, p384Pub d with
      | .point Q, some pk =>
        match Prim.P384.ecdh d Q with
        | some xk => .ok (fixLen 48 (ob xk) ++ epk ++ pk)
        | none => .err .crypto
      | _, _ => .err .crypto,
    ek := fun ctx => (sha384 (0x01 :: hdr ++ ctx)).take 32,
    nonce := fun ctx => (sha384 (0x01 :: hdr ++ ctx)).drop 32,
    ak := fun ctx => sha384 (0x02 :: hdr ++ ctx),
    stream := aesCtr c.ctrBits, mac := hmac384 }

/-- v1: RSA-KEM with a 4096-bit key.  context = c ‖ r (c as serialised, r minimal big-endian) -/
def pkeRsa (c : BackendCfg) (hdr : Bytes) : PkeScheme :=
  { tagLen := 48, encLen := 512, encLast := true, hdr,
    encap := fun pk rnd =>
      match Der.parseSpkiRsa pk with
      | none => .err .crypto
      | some (n, e) =>
        -- r: 512 random bytes with the top two bits forced to 01
        let r := match fixLen 512 rnd with
          | b :: rest => ((b &&& 0x7f) ||| 0x40) :: rest
          | [] => []
        let cv := Der.powMod (fromBe r) e n
        let cb := if c.kemCtPadded then natToBe 512 cv else natToBeMin cv
        .ok (cb, cb ++ r),
    decap := fun sk cb =>
      match Der.parsePkcs1 sk with
      | none => .err .crypto
      | some k =>
        let cv := fromBe cb
        if cv ≥ k.n then .err .crypto else
        .ok (cb ++ natToBeMin (Der.powMod cv k.d k.n)),
    -- k = SHA-384(c); (Ek ‖ n) = HMAC(k, 0x01 ‖ h ‖ r); Ak = HMAC(k, 0x02 ‖ h ‖ r)
    ek := fun ctx => (hmac384 (sha384 (ctx.take 512)) (0x01 :: hdr ++ ctx.drop 512)).take 32,
    nonce := fun ctx => (hmac384 (sha384 (ctx.take 512)) (0x01 :: hdr ++ ctx.drop 512)).drop 32,
    ak := fun ctx => hmac384 (sha384 (ctx.take 512)) (0x02 :: hdr ++ ctx.drop 512),
    stream := aesCtr c.ctrBits, mac := hmac384 }

def pkeSchemeOf (version : Nat) (c : BackendCfg) (hdr : Bytes) : PkeScheme :=
  match version with
  | 1 => pkeRsa c hdr
  | 3 => pkeP384 c hdr
  | _ => pkeSodium c hdr

/-! ### per back end -/
def sealHdr (b : Backend) : Bytes := Extracted.paserkHeader b ++ Extracted.sealHeader b

def pieOf (b : Backend) : SymPrims := pieSym b.version (cfgOf b)
def pbkwOf (b : Backend) : PbkwScheme := pbkwSchemeOf b.version (cfgOf b)
def pkeOf (b : Backend) : PkeScheme := pkeSchemeOf b.version (cfgOf b) (sealHdr b)

/-- `IdVersion::hash_key`: SHA-384 truncated to 33 bytes (v1, v3) / BLAKE2b-33 (v2, v4) -/
def hash33 (version : Nat) (m : Bytes) : Bytes :=
  if version = 1 ∨ version = 3 then (sha384 m).take 33 else blake2b [] 33 m

theorem hash33_length (version : Nat) (m : Bytes) : (hash33 version m).length = 33 := by
  unfold hash33; split <;> simp [sha384, blake2b, fixLen]

end PM
