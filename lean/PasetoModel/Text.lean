import PasetoModel.Base64
/-! Text forms: `Display`/`FromStr` of `SealedToken`, `KeyText`, `KeyId`, `PieWrappedKey`,
    `PasswordWrappedKey`, `SealedKey` (paseto-core/src/encodings.rs, paserk/*.rs).
    Strings are byte lists (UTF-8); all patterns are ASCII. -/
namespace PM

/-- `str::split_once(c)` for an ASCII `c`: split at the first occurrence -/
def splitOnce (c : UInt8) : Bytes → Option (Bytes × Bytes)
  | [] => none
  | x :: xs => if x = c then some ([], xs) else
      match splitOnce c xs with
      | some (a, b) => some (x :: a, b)
      | none => none

def dot : UInt8 := 46

/-- what `FromStr for SealedToken` keeps: decoded payload and decoded footer bytes -/
structure SealedTok where
  payload : Bytes
  footer : Bytes
  deriving DecidableEq, Repr

/-- `Display for SealedToken`: `V::HEADER`, `M::SUFFIX`, `P::HEADER`, base64(payload),
    and `.` base64(footer) iff the footer is non-empty -/
def showToken (vh suffix ph : Bytes) (t : SealedTok) : Bytes :=
  vh ++ suffix ++ ph ++ B64.encode t.payload ++
    (if t.footer.isEmpty then [] else dot :: B64.encode t.footer)

/-- `FromStr for SealedToken`; `footerOk` is `F::decode(..).is_ok()` (`()`: only the empty footer) -/
def parseToken (vh suffix ph : Bytes) (footerOk : Bytes → Bool) (s : Bytes) : Res SealedTok :=
  match stripPrefix vh s with
  | none => .err .invalidToken
  | some s =>
  match stripPrefix suffix s with
  | none => .err .invalidToken
  | some s =>
  match stripPrefix ph s with
  | none => .err .invalidToken
  | some s =>
    let (p, f) := match splitOnce dot s with
      | some (p, f) => (p, some f)
      | none => (s, none)
    match B64.decodeVec p with
    | none => .err .base64
    | some payload =>
      let fr : Option (Option Bytes) := match f with
        | none => some none
        | some f => match B64.decodeVec f with
          | none => none
          | some x => some (some x)
      match fr with
      | none => .err .base64
      | some fo =>
        let footer := fo.getD []          -- `unwrap_or_default()`
        if footerOk footer then .ok ⟨payload, footer⟩ else .err .payload

/-- `Display` of `KeyText`, `PieWrappedKey`, `PasswordWrappedKey`, `SealedKey`, `KeyId`:
    PASERK version header, kind header, base64(data) -/
def showSimple (h1 h2 : Bytes) (data : Bytes) : Bytes := h1 ++ h2 ++ B64.encode data

/-- `FromStr` of `KeyText`, `PieWrappedKey`, `PasswordWrappedKey`, `SealedKey` -/
def parseSimple (h1 h2 : Bytes) (s : Bytes) : Res Bytes :=
  match stripPrefix h1 s with
  | none => .err .invalidKey
  | some s =>
  match stripPrefix h2 s with
  | none => .err .invalidKey
  | some s =>
    match B64.decodeVec s with
    | none => .err .base64
    | some d => .ok d

/-- `FromStr for KeyId`: decode into a 33-byte buffer, then require exactly 33 bytes -/
def parseKeyId (h1 h2 : Bytes) (s : Bytes) : Res Bytes :=
  match stripPrefix h1 s with
  | none => .err .invalidKey
  | some s =>
  match stripPrefix h2 s with
  | none => .err .invalidKey
  | some s =>
    match B64.decodeInto 33 s with
    | none => .err .base64
    | some d => if d.length ≠ 33 then .err .invalidKey else .ok d

/-- serde representation (`serde_str!`): `serialize` = `collect_str(self)`, `deserialize` =
    `deserialize_str` + `visit_str(v) = v.parse()`; modelled on a minimal JSON value -/
inductive JText | str (s : Bytes) | other
def serdeSer (shown : Bytes) : JText := .str shown
def serdeDe {α} (parse : Bytes → Res α) : JText → Res α
  | .str s => parse s
  | .other => .err .payload

end PM
