import PasetoModel.Text
import PasetoModel.B64.Alpha
/-! Lemmas about the text forms (used by Props/C09, C10, C13). -/
namespace PM
open B64

theorem splitOnce_none_of (c : UInt8) (s : Bytes) (h : c ∉ s) : splitOnce c s = none := by
  induction s with
  | nil => rfl
  | cons x xs ih =>
    simp only [List.mem_cons, not_or] at h
    simp [splitOnce, Ne.symm h.1, ih h.2]

theorem splitOnce_append (c : UInt8) (a b : Bytes) (h : c ∉ a) :
    splitOnce c (a ++ c :: b) = some (a, b) := by
  induction a with
  | nil => simp [splitOnce]
  | cons x xs ih =>
    simp only [List.mem_cons, not_or] at h
    simp [splitOnce, Ne.symm h.1, ih h.2]

theorem splitOnce_some {c : UInt8} {s a b : Bytes} (h : splitOnce c s = some (a, b)) :
    s = a ++ c :: b := by
  induction s generalizing a with
  | nil => simp [splitOnce] at h
  | cons x xs ih =>
    simp only [splitOnce] at h
    split at h
    · rename_i hx; simp at h; obtain ⟨rfl, rfl⟩ := h; simp [hx]
    · cases hs : splitOnce c xs with
      | none => simp [hs] at h
      | some p =>
        obtain ⟨a', b'⟩ := p
        simp only [hs, Option.some.injEq, Prod.mk.injEq] at h
        obtain ⟨rfl, rfl⟩ := h
        simp [ih hs]

theorem dot_not_mem_encode (bs : Bytes) : dot ∉ encode bs := fun h =>
  dot_not_alpha (encode_mem bs _ h)

theorem stripPrefix_append3 (a b c r : Bytes) :
    (stripPrefix a (a ++ b ++ c ++ r)) = some (b ++ c ++ r) := by
  rw [List.append_assoc, List.append_assoc, stripPrefix_append]; simp

theorem parseToken_showToken (vh sf ph : Bytes) (fok : Bytes → Bool) (t : SealedTok)
    (hf : fok t.footer = true) :
    parseToken vh sf ph fok (showToken vh sf ph t) = .ok t := by
  obtain ⟨p, f⟩ := t
  simp only at hf
  unfold parseToken showToken
  have e1 : vh ++ sf ++ ph ++ encode p ++ (if f.isEmpty = true then [] else dot :: encode f)
      = vh ++ (sf ++ (ph ++ (encode p ++ (if f.isEmpty = true then [] else dot :: encode f)))) := by
    simp [List.append_assoc]
  rw [e1, stripPrefix_append]; simp only []
  rw [stripPrefix_append]; simp only []
  rw [stripPrefix_append]; simp only []
  by_cases hfe : f.isEmpty = true
  · have : f = [] := List.isEmpty_iff.mp hfe
    subst this
    simp only [List.isEmpty_nil, if_true, List.append_nil]
    rw [splitOnce_none_of _ _ (dot_not_mem_encode p)]
    simp [decode_encode, hf]
  · simp only [hfe]
    rw [if_neg (by simp), splitOnce_append _ _ _ (dot_not_mem_encode p)]
    simp [decode_encode, hf]

theorem showToken_parseToken (vh sf ph : Bytes) (fok : Bytes → Bool) (s : Bytes) (t : SealedTok)
    (h : parseToken vh sf ph fok s = .ok t) :
    showToken vh sf ph t = s ∨ showToken vh sf ph t ++ [dot] = s := by
  unfold parseToken at h
  cases h1 : stripPrefix vh s with
  | none => simp [h1] at h
  | some s1 =>
  simp only [h1] at h
  cases h2 : stripPrefix sf s1 with
  | none => simp [h2] at h
  | some s2 =>
  simp only [h2] at h
  cases h3 : stripPrefix ph s2 with
  | none => simp [h3] at h
  | some r =>
  simp only [h3] at h
  have hs : s = vh ++ sf ++ ph ++ r := by
    rw [stripPrefix_some h1, stripPrefix_some h2, stripPrefix_some h3]; simp
  cases hso : splitOnce dot r with
  | none =>
    simp only [hso] at h
    cases hd : decodeVec r with
    | none => simp [hd] at h
    | some payload =>
      simp only [hd, Option.getD_none] at h
      split at h
      · injection h with h
        subst h
        left
        simp [showToken, hs, encode_decode _ _ hd]
      · simp at h
  | some pf =>
    obtain ⟨p, f⟩ := pf
    simp only [hso] at h
    cases hd : decodeVec p with
    | none => simp [hd] at h
    | some payload =>
      simp only [hd] at h
      cases hdf : decodeVec f with
      | none => simp [hdf] at h
      | some x =>
        simp only [hdf, Option.getD_some] at h
        split at h
        · injection h with h
          subst h
          have hr := splitOnce_some hso
          have ep := encode_decode _ _ hd
          have ef := encode_decode _ _ hdf
          by_cases hx : x = []
          · right
            subst hx
            have : f = [] := by rw [← ef]; rfl
            simp [showToken, hs, hr, ep, this]
          · left
            have : x.isEmpty = false := by
              cases x with | nil => exact absurd rfl hx | cons _ _ => rfl
            simp [showToken, hs, hr, ep, ef, this]
        · simp at h

theorem parseSimple_showSimple (h1 h2 d : Bytes) :
    parseSimple h1 h2 (showSimple h1 h2 d) = .ok d := by
  unfold parseSimple showSimple
  rw [List.append_assoc, stripPrefix_append]; simp only []
  rw [stripPrefix_append]; simp [decode_encode]

theorem showSimple_parseSimple (h1 h2 s d : Bytes) (h : parseSimple h1 h2 s = .ok d) :
    showSimple h1 h2 d = s := by
  unfold parseSimple at h
  cases e1 : stripPrefix h1 s with
  | none => simp [e1] at h
  | some s1 =>
  simp only [e1] at h
  cases e2 : stripPrefix h2 s1 with
  | none => simp [e2] at h
  | some r =>
  simp only [e2] at h
  cases hd : decodeVec r with
  | none => simp [hd] at h
  | some x =>
    simp only [hd] at h
    injection h with h; subst h
    rw [stripPrefix_some e1, stripPrefix_some e2]
    simp [showSimple, encode_decode _ _ hd]

theorem parseKeyId_showSimple (h1 h2 d : Bytes) (hl : d.length = 33) :
    parseKeyId h1 h2 (showSimple h1 h2 d) = .ok d := by
  unfold parseKeyId showSimple
  rw [List.append_assoc, stripPrefix_append]; simp only []
  rw [stripPrefix_append]
  simp [decodeInto, decodedLen_encode, decode_encode, hl]

theorem showSimple_parseKeyId (h1 h2 s d : Bytes) (h : parseKeyId h1 h2 s = .ok d) :
    showSimple h1 h2 d = s ∧ d.length = 33 := by
  unfold parseKeyId at h
  cases e1 : stripPrefix h1 s with
  | none => simp [e1] at h
  | some s1 =>
  simp only [e1] at h
  cases e2 : stripPrefix h2 s1 with
  | none => simp [e2] at h
  | some r =>
  simp only [e2] at h
  cases hd : decodeInto 33 r with
  | none => simp [hd] at h
  | some x =>
    simp only [hd] at h
    split at h
    · simp at h
    · rename_i hl
      injection h with h; subst h
      have hv : decodeVec r = some x := by
        unfold decodeInto at hd; split at hd
        · simp at hd
        · exact hd
      refine ⟨?_, by simpa using hl⟩
      rw [stripPrefix_some e1, stripPrefix_some e2]
      simp [showSimple, encode_decode _ _ hv]

end PM
