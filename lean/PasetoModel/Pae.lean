import PasetoModel.Basic
/-! Mirror of `paseto_core::pae::pre_auth_encode` and the specification's PAE. -/
namespace PM

/-- the spec's PAE over whole pieces -/
def paeBody : List Bytes → Bytes
  | [] => []
  | p :: ps => le64 p.length ++ p ++ paeBody ps

/-- PAE of the PASETO specification: LE64(count) ‖ for each piece LE64(len) ‖ piece -/
def paeSpec (ps : List Bytes) : Bytes := le64 ps.length ++ paeBody ps

/-- mirror of `pre_auth_encode`: pieces given as fragment lists; returns the list of `write`
    calls the writer receives (`N as u64`, `x.len() as u64` summed in u64, i.e. wrapping). -/
def paeWrites (pieces : List (List Bytes)) : List Bytes :=
  le64 (pieces.length % 2^64) ::
    pieces.flatMap (fun frags => le64 ((frags.map List.length).sum % 2^64) :: frags)

/-- what a `Vec<u8>` writer holds afterwards -/
def pae (pieces : List (List Bytes)) : Bytes := (paeWrites pieces).flatten

def unBody : Nat → Bytes → Option (List Bytes × Bytes)
  | 0, rest => some ([], rest)
  | k+1, bs =>
    if bs.length < 8 then none else
    let n := fromLe64 (bs.take 8)
    let r := bs.drop 8
    if r.length < n then none else
    match unBody k (r.drop n) with
    | some (ps, rest) => some (r.take n :: ps, rest)
    | none => none

/-- a decoder for PAE: witnesses injectivity -/
def unpae (bs : Bytes) : Option (List Bytes) :=
  if bs.length < 8 then none else
  match unBody (fromLe64 (bs.take 8)) (bs.drop 8) with
  | some (ps, []) => some ps
  | _ => none

theorem unBody_paeBody (ps : List Bytes) (rest : Bytes) (h : ∀ p ∈ ps, p.length < 2^64) :
    unBody ps.length (paeBody ps ++ rest) = some (ps, rest) := by
  induction ps with
  | nil => simp [unBody, paeBody]
  | cons p ps ih =>
    have hp : p.length < 2^64 := h p (by simp)
    have ih' := ih (fun q hq => h q (by simp [hq]))
    simp only [List.length_cons, unBody, paeBody, List.append_assoc]
    have h8 : ¬ (le64 p.length ++ (p ++ (paeBody ps ++ rest))).length < 8 := by
      simp [le64_length]
    rw [if_neg h8]
    have t8 : (le64 p.length ++ (p ++ (paeBody ps ++ rest))).take 8 = le64 p.length := by
      rw [List.take_left' (le64_length _)]
    have d8 : (le64 p.length ++ (p ++ (paeBody ps ++ rest))).drop 8 = p ++ (paeBody ps ++ rest) := by
      rw [List.drop_left' (le64_length _)]
    simp only [t8, d8, fromLe64_le64 _ hp]
    have hl : ¬ (p ++ (paeBody ps ++ rest)).length < p.length := by simp
    rw [if_neg hl, List.drop_left, List.take_left, ih']

theorem unpae_paeSpec (ps : List Bytes) (hn : ps.length < 2^64) (h : ∀ p ∈ ps, p.length < 2^64) :
    unpae (paeSpec ps) = some ps := by
  unfold unpae paeSpec
  have h8 : ¬ (le64 ps.length ++ paeBody ps).length < 8 := by simp [le64_length]
  rw [if_neg h8, List.take_left' (le64_length _), List.drop_left' (le64_length _), fromLe64_le64 _ hn]
  have := unBody_paeBody ps [] h
  simp only [List.append_nil] at this
  rw [this]

theorem paeWrites_flatten (pieces : List (List Bytes))
    (hn : pieces.length < 2^64) (h : ∀ f ∈ pieces, (f.map List.length).sum < 2^64) :
    (paeWrites pieces).flatten = paeSpec (pieces.map List.flatten) := by
  unfold paeWrites paeSpec
  simp only [List.flatten_cons, List.length_map, Nat.mod_eq_of_lt hn]
  congr 1
  induction pieces with
  | nil => simp [paeBody]
  | cons f fs ih =>
    have hf : (f.map List.length).sum < 2^64 := h f (by simp)
    have ih' := ih (by simp at hn; omega) (fun g hg => h g (by simp [hg]))
    simp only [List.flatMap_cons, List.flatten_append, List.flatten_cons, List.map_cons, paeBody,
      Nat.mod_eq_of_lt hf, List.length_flatten, ih', List.append_assoc]

end PM
