import PasetoModel.Text
import PasetoModel.Extracted.Headers
/-! The text forms instantiated at the header constants re-read from the code
    (`Extracted/Headers.lean`). -/
namespace PM

/-- the text forms of paseto-core -/
inductive Form
  | tok (p : Purpose) | key (k : Kind) | id (k : Kind) | pie (k : SKind) | pw (k : SKind) | sealK
  deriving DecidableEq, Repr

def Form.all : List Form :=
  Purpose.all.map .tok ++ Kind.all.map .key ++ Kind.all.map .id ++ SKind.all.map .pie ++
    SKind.all.map .pw ++ [.sealK]

/-- first (version) header and second (kind) header of a form at a back end -/
def Form.h1 (b : Backend) : Form → Bytes
  | .tok _ => Extracted.versionHeader b
  | _ => Extracted.paserkHeader b
def Form.h2 (b : Backend) : Form → Bytes
  | .tok p => Extracted.kindHeader p.toKind
  | .key k => Extracted.kindHeader k
  | .id k => Extracted.idHeader k
  | .pie k => Extracted.pieHeader k
  | .pw k => Extracted.pwHeader k
  | .sealK => Extracted.sealHeader b
def Form.header (b : Backend) (f : Form) : Bytes := f.h1 b ++ f.h2 b

/-- footer decoders used by the harness: `()` and `Vec<u8>` -/
inductive FooterKind | unit | vec
def FooterKind.ok : FooterKind → Bytes → Bool
  | .unit, f => f.isEmpty
  | .vec, _ => true

/-- JSON payload: `M::SUFFIX = ""` -/
def jsonSuffix : Bytes := []

/-- parse then show, as observable through the public API (the token's payload is private;
    what can be seen is `Display` and `unverified_footer`) -/
def tokRt (b : Backend) (p : Purpose) (fk : FooterKind) (s : Bytes) : Res (Bytes × Bytes) :=
  (parseToken (Extracted.versionHeader b) jsonSuffix (Extracted.kindHeader p.toKind) fk.ok s).map
    (fun t => (showToken (Extracted.versionHeader b) jsonSuffix (Extracted.kindHeader p.toKind) t, t.footer))

/-- the same for a payload type with encoding suffix `sf` (`Payload::SUFFIX`): the header is version ‖ suffix ‖ purpose -/
def tokRtSuf (b : Backend) (p : Purpose) (fk : FooterKind) (sf s : Bytes) : Res (Bytes × Bytes) :=
  (parseToken (Extracted.versionHeader b) sf (Extracted.kindHeader p.toKind) fk.ok s).map
    (fun t => (showToken (Extracted.versionHeader b) sf (Extracted.kindHeader p.toKind) t, t.footer))

def Form.parse (b : Backend) : Form → Bytes → Res Bytes
  | .tok p, s => (parseToken (Extracted.versionHeader b) jsonSuffix (Extracted.kindHeader p.toKind)
      FooterKind.vec.ok s).map (fun t => t.payload)
  | .id k, s => parseKeyId (Extracted.paserkHeader b) (Extracted.idHeader k) s
  | f, s => parseSimple (f.h1 b) (f.h2 b) s

/-- `Display` of the PASERK forms (tokens are shown by `showToken`) -/
def Form.show (b : Backend) (f : Form) (d : Bytes) : Bytes := showSimple (f.h1 b) (f.h2 b) d

/-- parse then show for the PASERK forms: the shown string and the decoded data -/
def txtRt (b : Backend) (f : Form) (s : Bytes) : Res (Bytes × Bytes) :=
  (f.parse b s).map (fun d => (showSimple (f.h1 b) (f.h2 b) d, d))

end PM
