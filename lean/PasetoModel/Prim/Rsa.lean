import PasetoModel.Prim.Sha2
namespace Prim.Rsa

def powMod (b e m : Nat) : Nat := Id.run do
  let mut r := 1
  let mut b := b % m
  let mut e := e
  while e > 0 do
    if e % 2 == 1 then r := r * b % m
    b := b * b % m
    e := e / 2
  return r

def mgf1Sha384 (seed : ByteArray) (len : Nat) : ByteArray := Id.run do
  let mut t := ByteArray.empty
  for c in [0:(len + 47) / 48] do
    t := t ++ sha384 (seed ++ natToBE c 4)
  return t.extract 0 len

def bitLen (n : Nat) : Nat := Nat.log2 n + (if n == 0 then 0 else 1)

/-- EMSA-PSS-VERIFY with SHA-384, MGF1-SHA384, salt length 48 -/
def pssVerifyEM (mHash em : ByteArray) (emBits : Nat) : Bool :=
  let hLen := 48; let sLen := 48
  let emLen := (emBits + 7) / 8
  if em.size != emLen || emLen < hLen + sLen + 2 then false else
  if em.get! (emLen - 1) != 0xbc then false else
  let maskedDB := em.extract 0 (emLen - hLen - 1)
  let h := em.extract (emLen - hLen - 1) (emLen - 1)
  let topBits := 8 * emLen - emBits
  let topMask : UInt8 := UInt8.ofNat (0xff >>> topBits)
  if maskedDB.get! 0 &&& (~~~ topMask) != 0 then false else
  let db := xorBA maskedDB (mgf1Sha384 h (emLen - hLen - 1))
  let db := db.set! 0 (db.get! 0 &&& topMask)
  let psLen := emLen - hLen - sLen - 2
  if (db.extract 0 psLen).data.any (· != 0) then false else
  if db.get! psLen != 1 then false else
  let salt := db.extract (psLen + 1) db.size
  let h' := sha384 (zeros 8 ++ mHash ++ salt)
  toHex h' == toHex h

def pssVerify (n e : Nat) (mHash sig : ByteArray) : Bool :=
  let k := (bitLen n + 7) / 8
  if sig.size != k then false else
  let s := natOfBE sig
  if s ≥ n then false else
  let emBits := bitLen n - 1
  let emLen := (emBits + 7) / 8
  let m := powMod s e n
  if bitLen m > 8 * emLen then false else
  pssVerifyEM mHash (natToBE m emLen) emBits

/-- EMSA-PSS-ENCODE with given salt (48 bytes) -/
def pssEncode (mHash salt : ByteArray) (emBits : Nat) : ByteArray :=
  let hLen := 48
  let emLen := (emBits + 7) / 8
  let h := sha384 (zeros 8 ++ mHash ++ salt)
  let db := zeros (emLen - salt.size - hLen - 2) ++ (ByteArray.empty.push 1) ++ salt
  let masked := xorBA db (mgf1Sha384 h (emLen - hLen - 1))
  let topMask : UInt8 := UInt8.ofNat (0xff >>> (8 * emLen - emBits))
  let masked := masked.set! 0 (masked.get! 0 &&& topMask)
  masked ++ h ++ (ByteArray.empty.push 0xbc)

def pssSign (n d : Nat) (mHash salt : ByteArray) : ByteArray :=
  let emBits := bitLen n - 1
  natToBE (powMod (natOfBE (pssEncode mHash salt emBits)) d n) ((bitLen n + 7) / 8)

end Prim.Rsa
