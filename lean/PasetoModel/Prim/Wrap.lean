import PasetoModel.Basic
import PasetoModel.Prim.Sha2
import PasetoModel.Prim.Aes
import PasetoModel.Prim.Blake2b
import PasetoModel.Prim.ChaCha
/-! The executable primitives (ByteArray based) presented on `Bytes`, each wrapped in `fixLen n`
    (pad / truncate to the length the primitive is specified to return).  `fixLen` is the identity
    on a correct primitive; it makes the length laws hold by construction so that the concrete
    instance satisfies the law structures without any assumption.  That the primitives compute the
    right *values* is validated by the correspondence, not proved (modelled, not verified). -/
namespace PM.W

def ba (b : Bytes) : ByteArray := ⟨b.toArray⟩
def ob (a : ByteArray) : Bytes := a.data.toList

def fixLen (n : Nat) (b : Bytes) : Bytes := (b ++ List.replicate n 0).take n

theorem fixLen_length (n : Nat) (b : Bytes) : (fixLen n b).length = n := by
  simp [fixLen]

def sha384 (m : Bytes) : Bytes := fixLen 48 (ob (Prim.sha384 (ba m)))
def sha512 (m : Bytes) : Bytes := fixLen 64 (ob (Prim.sha512 (ba m)))
def hmac384 (k m : Bytes) : Bytes := fixLen 48 (ob (Prim.hmacSha384 (ba k) (ba m)))
/-- HKDF-SHA384; empty salt means "no salt" -/
def hkdf384 (salt ikm info : Bytes) (len : Nat) : Bytes :=
  fixLen len (ob (Prim.hkdfSha384 (ba salt) (ba ikm) (ba info) len))
def pbkdf2_384 (pw salt : Bytes) (iters len : Nat) : Bytes :=
  fixLen len (ob (Prim.pbkdf2Sha384 (ba pw) (ba salt) iters len))
/-- AES-256-CTR keystream; `bits` = width of the big-endian counter inside the 16-byte block -/
def aesCtr (bits : Nat) (key iv : Bytes) (len : Nat) : Bytes :=
  fixLen len (ob (Prim.Aes.ctrKeystream bits (ba key) (ba iv) len))
/-- BLAKE2b, optionally keyed, `outLen` bytes -/
def blake2b (key : Bytes) (outLen : Nat) (m : Bytes) : Bytes :=
  fixLen outLen (ob (Prim.Blake2b.hash (ba key) outLen (ba m)))
def xchacha (key nonce : Bytes) (len : Nat) : Bytes :=
  fixLen len (ob (Prim.ChaCha.xchacha20Keystream (ba key) (ba nonce) len))

/-- XChaCha20-Poly1305 keystream (block counter starts at 1) -/
def xcpStream (key nonce : Bytes) (len : Nat) : Bytes :=
  fixLen len (ob (Prim.ChaCha.xchacha20poly1305Encrypt (ba key) (ba nonce) ByteArray.empty
    (Prim.zeros len)).1)

/-- XChaCha20-Poly1305 tag over (aad, ciphertext) -/
def xcpTag (key nonce aad ct : Bytes) : Bytes :=
  let sub := Prim.ChaCha.hchacha20 (ba key) ((ba nonce).extract 0 16)
  let n12 := Prim.zeros 4 ++ (ba nonce).extract 16 24
  let otk := (Prim.ChaCha.block sub 0 n12).extract 0 32
  let a := ba aad
  let c := ba ct
  let macData := a ++ Prim.ChaCha.pad16 a.size ++ c ++ Prim.ChaCha.pad16 c.size
    ++ Prim.pushLE64 ByteArray.empty (UInt64.ofNat a.size) ++ Prim.pushLE64 ByteArray.empty (UInt64.ofNat c.size)
  fixLen 16 (ob (Prim.ChaCha.poly1305 otk macData))

end PM.W
