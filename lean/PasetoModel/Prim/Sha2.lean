import PasetoModel.Prim.Bytes
namespace Prim.Sha512

def K : Array UInt64 := #[
0x428a2f98d728ae22, 0x7137449123ef65cd, 0xb5c0fbcfec4d3b2f, 0xe9b5dba58189dbbc, 0x3956c25bf348b538, 0x59f111f1b605d019, 0x923f82a4af194f9b, 0xab1c5ed5da6d8118,
0xd807aa98a3030242, 0x12835b0145706fbe, 0x243185be4ee4b28c, 0x550c7dc3d5ffb4e2, 0x72be5d74f27b896f, 0x80deb1fe3b1696b1, 0x9bdc06a725c71235, 0xc19bf174cf692694,
0xe49b69c19ef14ad2, 0xefbe4786384f25e3, 0x0fc19dc68b8cd5b5, 0x240ca1cc77ac9c65, 0x2de92c6f592b0275, 0x4a7484aa6ea6e483, 0x5cb0a9dcbd41fbd4, 0x76f988da831153b5,
0x983e5152ee66dfab, 0xa831c66d2db43210, 0xb00327c898fb213f, 0xbf597fc7beef0ee4, 0xc6e00bf33da88fc2, 0xd5a79147930aa725, 0x06ca6351e003826f, 0x142929670a0e6e70,
0x27b70a8546d22ffc, 0x2e1b21385c26c926, 0x4d2c6dfc5ac42aed, 0x53380d139d95b3df, 0x650a73548baf63de, 0x766a0abb3c77b2a8, 0x81c2c92e47edaee6, 0x92722c851482353b,
0xa2bfe8a14cf10364, 0xa81a664bbc423001, 0xc24b8b70d0f89791, 0xc76c51a30654be30, 0xd192e819d6ef5218, 0xd69906245565a910, 0xf40e35855771202a, 0x106aa07032bbd1b8,
0x19a4c116b8d2d0c8, 0x1e376c085141ab53, 0x2748774cdf8eeb99, 0x34b0bcb5e19b48a8, 0x391c0cb3c5c95a63, 0x4ed8aa4ae3418acb, 0x5b9cca4f7763e373, 0x682e6ff3d6b2b8a3,
0x748f82ee5defb2fc, 0x78a5636f43172f60, 0x84c87814a1f0ab72, 0x8cc702081a6439ec, 0x90befffa23631e28, 0xa4506cebde82bde9, 0xbef9a3f7b2c67915, 0xc67178f2e372532b,
0xca273eceea26619c, 0xd186b8c721c0c207, 0xeada7dd6cde0eb1e, 0xf57d4f7fee6ed178, 0x06f067aa72176fba, 0x0a637dc5a2c898a6, 0x113f9804bef90dae, 0x1b710b35131c471b,
0x28db77f523047d84, 0x32caab7b40c72493, 0x3c9ebe0a15c9bebc, 0x431d67c49c100d4c, 0x4cc5d4becb3e42b6, 0x597f299cfc657e2a, 0x5fcb6fab3ad6faec, 0x6c44198c4a475817]

@[inline] def rotr (x : UInt64) (n : UInt64) : UInt64 := (x >>> n) ||| (x <<< (64 - n))

def iv384 : Array UInt64 := #[0xcbbb9d5dc1059ed8, 0x629a292a367cd507, 0x9159015a3070dd17, 0x152fecd8f70e5939, 0x67332667ffc00b31, 0x8eb44a8768581511, 0xdb0c2e0d64f98fa7, 0x47b5481dbefa4fa4]
def iv512 : Array UInt64 := #[0x6a09e667f3bcc908, 0xbb67ae8584caa73b, 0x3c6ef372fe94f82b, 0xa54ff53a5f1d36f1, 0x510e527fade682d1, 0x9b05688c2b3e6c1f, 0x1f83d9abfb41bd6b, 0x5be0cd19137e2179]

def compress (h : Array UInt64) (blk : ByteArray) (off : Nat) : Array UInt64 := Id.run do
  let mut w : Array UInt64 := Array.mkEmpty 80
  for t in [0:16] do
    w := w.push (be64At blk (off + 8*t))
  for t in [16:80] do
    let w15 := w[t-15]!
    let w2 := w[t-2]!
    let s0 := rotr w15 1 ^^^ rotr w15 8 ^^^ (w15 >>> 7)
    let s1 := rotr w2 19 ^^^ rotr w2 61 ^^^ (w2 >>> 6)
    w := w.push (w[t-16]! + s0 + w[t-7]! + s1)
  let mut a := h[0]!; let mut b := h[1]!; let mut c := h[2]!; let mut d := h[3]!
  let mut e := h[4]!; let mut f := h[5]!; let mut g := h[6]!; let mut hh := h[7]!
  for t in [0:80] do
    let S1 := rotr e 14 ^^^ rotr e 18 ^^^ rotr e 41
    let ch := (e &&& f) ^^^ ((~~~ e) &&& g)
    let t1 := hh + S1 + ch + K[t]! + w[t]!
    let S0 := rotr a 28 ^^^ rotr a 34 ^^^ rotr a 39
    let maj := (a &&& b) ^^^ (a &&& c) ^^^ (b &&& c)
    let t2 := S0 + maj
    hh := g; g := f; f := e; e := d + t1; d := c; c := b; b := a; a := t1 + t2
  return #[h[0]! + a, h[1]! + b, h[2]! + c, h[3]! + d, h[4]! + e, h[5]! + f, h[6]! + g, h[7]! + hh]

/-- padding for a message of total length `total` whose last partial block is `tail` -/
def padTail (tail : ByteArray) (total : Nat) : ByteArray := Id.run do
  let mut m := tail.push 0x80
  while m.size % 128 != 112 do
    m := m.push 0
  let bits := total * 8
  for i in [0:16] do
    m := m.push (UInt8.ofNat ((bits >>> (8 * (15 - i))) % 256))
  return m

/-- continue from midstate `h` having already absorbed `done` bytes (multiple of 128) -/
def finishFrom (h : Array UInt64) (done : Nat) (msg : ByteArray) (outLen : Nat) : ByteArray := Id.run do
  let full := msg.size / 128
  let mut h := h
  for i in [0:full] do
    h := compress h msg (128*i)
  let tail := padTail (msg.extract (128*full) msg.size) (done + msg.size)
  for i in [0:tail.size/128] do
    h := compress h tail (128*i)
  let mut out := ByteArray.emptyWithCapacity 64
  for x in h do
    out := pushBE64 out x
  return out.extract 0 outLen

def sha384 (msg : ByteArray) : ByteArray := finishFrom iv384 0 msg 48
def sha512 (msg : ByteArray) : ByteArray := finishFrom iv512 0 msg 64

end Prim.Sha512

namespace Prim
def sha384 := Sha512.sha384
def sha512 := Sha512.sha512

/-- HMAC-SHA384 with precomputable key state -/
structure Hmac384Key where
  inner : Array UInt64
  outer : Array UInt64

def hmac384Key (key : ByteArray) : Hmac384Key :=
  let k := if key.size > 128 then sha384 key else key
  let k := k ++ zeros (128 - k.size)
  let ipad := ByteArray.mk (k.data.map (· ^^^ 0x36))
  let opad := ByteArray.mk (k.data.map (· ^^^ 0x5c))
  { inner := Sha512.compress Sha512.iv384 ipad 0, outer := Sha512.compress Sha512.iv384 opad 0 }

def hmac384With (k : Hmac384Key) (msg : ByteArray) : ByteArray :=
  let ih := Sha512.finishFrom k.inner 128 msg 48
  Sha512.finishFrom k.outer 128 ih 48

def hmacSha384 (key msg : ByteArray) : ByteArray := hmac384With (hmac384Key key) msg

/-- HKDF-SHA384 (RFC 5869); empty salt = 48 zero bytes -/
def hkdfSha384 (salt ikm info : ByteArray) (len : Nat) : ByteArray := Id.run do
  let salt := if salt.size == 0 then zeros 48 else salt
  let prk := hmacSha384 salt ikm
  let pk := hmac384Key prk
  let mut t := ByteArray.empty
  let mut okm := ByteArray.empty
  let n := (len + 47) / 48
  for i in [1:n+1] do
    t := hmac384With pk ((t ++ info).push (UInt8.ofNat i))
    okm := okm ++ t
  return okm.extract 0 len

/-- PBKDF2-HMAC-SHA384 -/
def pbkdf2Sha384 (pw salt : ByteArray) (iters : Nat) (len : Nat) : ByteArray := Id.run do
  let k := hmac384Key pw
  let mut out := ByteArray.empty
  let blocks := (len + 47) / 48
  for i in [1:blocks+1] do
    let mut u := hmac384With k (pushBE32 salt (UInt32.ofNat i))
    let mut t := u
    for _ in [1:iters] do
      u := hmac384With k u
      t := xorBA t u
    out := out ++ t
  return out.extract 0 len
end Prim
