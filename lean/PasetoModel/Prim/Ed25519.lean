import PasetoModel.Prim.Sha2
namespace Prim.Ed25519

def p : Nat := 2^255 - 19
def L : Nat := 2^252 + 27742317777372353535851937790883648493

def powMod (b e m : Nat) : Nat := Id.run do
  let mut r := 1
  let mut b := b % m
  let mut e := e
  while e > 0 do
    if e % 2 == 1 then r := r * b % m
    b := b * b % m
    e := e / 2
  return r

def inv (x : Nat) : Nat := powMod x (p - 2) p
def sub (a b : Nat) : Nat := (a + p - b % p) % p
def d : Nat := sub 0 (121665 * inv 121666 % p)
def sqrtM1 : Nat := powMod 2 ((p - 1) / 4) p

structure Pt where
  x : Nat
  y : Nat
  z : Nat
  t : Nat

def ident : Pt := ⟨0, 1, 1, 0⟩

def add (P Q : Pt) : Pt :=
  let a := sub P.y P.x * sub Q.y Q.x % p
  let b := (P.y + P.x) * (Q.y + Q.x) % p
  let c := P.t * (2 * d % p) % p * Q.t % p
  let dd := P.z * 2 % p * Q.z % p
  let e := sub b a; let f := sub dd c; let g := (dd + c) % p; let h := (b + a) % p
  ⟨e * f % p, g * h % p, f * g % p, e * h % p⟩

def mul (k : Nat) (P : Pt) : Pt := Id.run do
  let mut r := ident
  let mut q := P
  let mut k := k
  while k > 0 do
    if k % 2 == 1 then r := add r q
    q := add q q
    k := k / 2
  return r

def neg (P : Pt) : Pt := ⟨sub 0 P.x, P.y, P.z, sub 0 P.t⟩

def affine (P : Pt) : Nat × Nat := let zi := inv P.z; (P.x * zi % p, P.y * zi % p)

def compress (P : Pt) : ByteArray :=
  let (x, y) := affine P
  natToLE (y + (x % 2) * 2^255) 32

/-- RFC 8032 decoding; `strictY` = reject y ≥ p (RFC); dalek/libsodium variants are configured by the caller -/
def decompress (b : ByteArray) (strictY : Bool := true) : Option Pt :=
  if b.size != 32 then none else
  let n := natOfLE b
  let sign := n / 2^255
  let y := n % 2^255
  if strictY && y ≥ p then none else
  let y := y % p
  let u := sub (y * y % p) 1
  let v := (d * (y * y % p) + 1) % p
  -- x = u v^3 (u v^7)^((p-5)/8)
  let v3 := v * v % p * v % p
  let v7 := v3 * v3 % p * v % p
  let x := u * v3 % p * powMod (u * v7 % p) ((p - 5) / 8) p % p
  let vxx := v * (x * x % p) % p
  let x? : Option Nat :=
    if vxx == u then some x
    else if vxx == sub 0 u then some (x * sqrtM1 % p)
    else none
  match x? with
  | none => none
  | some x =>
    if x == 0 && sign == 1 then (if strictY then none else some ⟨0, y, 1, 0⟩) else
    let x := if x % 2 != sign then sub 0 x else x
    some ⟨x, y, 1, x * y % p⟩

def basePoint : Pt :=
  let y := 4 * inv 5 % p
  match decompress (natToLE y 32) with
  | some P => P
  | none => ident

def clamp (h : ByteArray) : Nat :=
  let a := natOfLE (h.extract 0 32)
  (a % 2^254 / 8 * 8) + 2^254

structure Expanded where
  a : Nat
  prefix_ : ByteArray

def expand (seed : ByteArray) : Expanded :=
  let h := sha512 seed
  ⟨clamp h, h.extract 32 64⟩

def publicKey (seed : ByteArray) : ByteArray := compress (mul (expand seed).a basePoint)

def sign (seed msg : ByteArray) : ByteArray :=
  let e := expand seed
  let A := compress (mul e.a basePoint)
  let r := natOfLE (sha512 (e.prefix_ ++ msg)) % L
  let R := compress (mul r basePoint)
  let k := natOfLE (sha512 (R ++ A ++ msg)) % L
  let S := (r + k * e.a) % L
  R ++ natToLE S 32

/-- cofactorless verification as in ed25519-dalek `verify`: recompute R' = [S]B − [k]A and compare encodings -/
def verify (pk msg sig : ByteArray) : Bool :=
  if sig.size != 64 then false else
  match decompress pk (strictY := false) with
  | none => false
  | some A =>
    let Rb := sig.extract 0 32
    let S := natOfLE (sig.extract 32 64)
    if S ≥ L then false else
    let k := natOfLE (sha512 (Rb ++ pk ++ msg)) % L
    let R' := add (mul S basePoint) (neg (mul k A))
    toHex (compress R') == toHex Rb

/-! X25519 (RFC 7748) and the birational map -/
def x25519 (scalar u : ByteArray) : ByteArray := Id.run do
  let k := let a := natOfLE scalar; (a % 2^254 / 8 * 8) + 2^254
  let x1 := natOfLE u % 2^255 % p
  let mut x2 := 1; let mut z2 := 0; let mut x3 := x1; let mut z3 := 1
  let mut swap := 0
  for i in [0:255] do
    let t := 254 - i
    let kt := (k >>> t) % 2
    if swap != kt then
      let tx := x2; x2 := x3; x3 := tx
      let tz := z2; z2 := z3; z3 := tz
    swap := kt
    let A := (x2 + z2) % p; let AA := A * A % p
    let B := sub x2 z2; let BB := B * B % p
    let E := sub AA BB
    let C := (x3 + z3) % p; let D := sub x3 z3
    let DA := D * A % p; let CB := C * B % p
    x3 := (DA + CB) % p; x3 := x3 * x3 % p
    z3 := sub DA CB; z3 := x1 * (z3 * z3 % p) % p
    x2 := AA * BB % p
    z2 := E * ((AA + 121665 * E) % p) % p
  if swap == 1 then
    let tx := x2; x2 := x3; x3 := tx
    let tz := z2; z2 := z3; z3 := tz
  return natToLE (x2 * inv z2 % p) 32

/-- Ed25519 public key (compressed y) to X25519 u = (1+y)/(1−y) -/
def edPkToX (pk : ByteArray) : ByteArray :=
  let y := natOfLE pk % 2^255 % p
  natToLE ((1 + y) * inv (sub 1 y) % p) 32

/-- Ed25519 seed to X25519 secret scalar bytes (first half of SHA-512, clamped by the ladder) -/
def edSkToX (seed : ByteArray) : ByteArray := (sha512 seed).extract 0 32

end Prim.Ed25519
