import PasetoModel.Prim.Sha2
namespace Prim.P384

def p : Nat := 2^384 - 2^128 - 2^96 + 2^32 - 1
def n : Nat := 0xffffffffffffffffffffffffffffffffffffffffffffffffc7634d81f4372ddf581a0db248b0a77aecec196accc52973
def b : Nat := 0xb3312fa7e23ee7e4988e056be3f82d19181d9c6efe8141120314088f5013875ac656398d8a2ed19d2a85c8edd3ec2aef
def gx : Nat := 0xaa87ca22be8b05378eb1c71ef320ad746e1d3b628ba79b9859f741e082542a385502f25dbf55296c3a545e3872760ab7
def gy : Nat := 0x3617de4a96262c6f5d9e98bf9292dc29f8f41dbd289a147ce9da3113b5f0b8c00a60b1ce1d7e819d7a431d7c90ea0e5f

def powMod (b e m : Nat) : Nat := Id.run do
  let mut r := 1
  let mut b := b % m
  let mut e := e
  while e > 0 do
    if e % 2 == 1 then r := r * b % m
    b := b * b % m
    e := e / 2
  return r

def sub (a c : Nat) : Nat := (a + p - c % p) % p
def invP (x : Nat) : Nat := powMod x (p - 2) p
def invN (x : Nat) : Nat := powMod x (n - 2) n

/-- Jacobian point; z = 0 is the point at infinity -/
structure Pt where
  x : Nat
  y : Nat
  z : Nat

def inf : Pt := ⟨1, 1, 0⟩
def G : Pt := ⟨gx, gy, 1⟩

def onCurve (x y : Nat) : Bool := y * y % p == (x * x % p * x + (p - 3) * x + b) % p

def dbl (P : Pt) : Pt :=
  if P.z == 0 || P.y == 0 then inf else
  let delta := P.z * P.z % p
  let gamma := P.y * P.y % p
  let beta := P.x * gamma % p
  let alpha := 3 * (sub P.x delta) % p * ((P.x + delta) % p) % p
  let x3 := sub (alpha * alpha % p) (8 * beta % p)
  let z3 := sub (sub ((P.y + P.z) % p * ((P.y + P.z) % p) % p) gamma) delta
  let y3 := sub (alpha * (sub (4 * beta % p) x3) % p) (8 * (gamma * gamma % p) % p)
  ⟨x3, y3, z3⟩

def add (P Q : Pt) : Pt :=
  if P.z == 0 then Q else if Q.z == 0 then P else
  let z1z1 := P.z * P.z % p; let z2z2 := Q.z * Q.z % p
  let u1 := P.x * z2z2 % p; let u2 := Q.x * z1z1 % p
  let s1 := P.y * Q.z % p * z2z2 % p; let s2 := Q.y * P.z % p * z1z1 % p
  if u1 == u2 then (if s1 == s2 then dbl P else inf) else
  let h := sub u2 u1; let r := sub s2 s1
  let hh := h * h % p; let hhh := hh * h % p
  let v := u1 * hh % p
  let x3 := sub (sub (r * r % p) hhh) (2 * v % p)
  let y3 := sub (r * (sub v x3) % p) (s1 * hhh % p)
  let z3 := h * P.z % p * Q.z % p
  ⟨x3, y3, z3⟩

def mul (k : Nat) (P : Pt) : Pt := Id.run do
  let mut r := inf
  let mut q := P
  let mut k := k
  while k > 0 do
    if k % 2 == 1 then r := add r q
    q := dbl q
    k := k / 2
  return r

def affine (P : Pt) : Option (Nat × Nat) :=
  if P.z == 0 then none else
  let zi := invP P.z; let zi2 := zi * zi % p
  some (P.x * zi2 % p, P.y * zi2 % p * zi % p)

def compress (P : Pt) : Option ByteArray :=
  match affine P with
  | none => none
  | some (x, y) => some ((ByteArray.empty.push (UInt8.ofNat (2 + y % 2))) ++ natToBE x 48)

/-- SEC1 decoding: compressed (49 bytes, 02/03) or uncompressed (97 bytes, 04); infinity (single 00) reported separately -/
inductive Dec | point (P : Pt) | infinity | invalid

def decode (bs : ByteArray) : Dec :=
  if bs.size == 1 && bs.get! 0 == 0 then .infinity
  else if bs.size == 49 && (bs.get! 0 == 2 || bs.get! 0 == 3) then
    let x := natOfBE (bs.extract 1 49)
    if x ≥ p then .invalid else
    let rhs := (x * x % p * x + (p - 3) * x + b) % p
    let y := powMod rhs ((p + 1) / 4) p
    if y * y % p != rhs then .invalid else
    let y := if y % 2 == (bs.get! 0).toNat % 2 then y else (p - y) % p
    .point ⟨x, y, 1⟩
  else if bs.size == 97 && bs.get! 0 == 4 then
    let x := natOfBE (bs.extract 1 49); let y := natOfBE (bs.extract 49 97)
    if x ≥ p || y ≥ p || !onCurve x y then .invalid else .point ⟨x, y, 1⟩
  else .invalid

def publicKey (d : Nat) : Option ByteArray := compress (mul d G)

/-- ECDSA over a 48-byte digest -/
def verifyDigest (Q : Pt) (digest : ByteArray) (r s : Nat) : Bool :=
  if r == 0 || r ≥ n || s == 0 || s ≥ n then false else
  let z := natOfBE digest % n
  let w := invN s
  let u1 := z * w % n; let u2 := r * w % n
  match affine (add (mul u1 G) (mul u2 Q)) with
  | none => false
  | some (x, _) => x % n == r

def signDigest (d : Nat) (digest : ByteArray) (k : Nat) : Option (Nat × Nat) :=
  match affine (mul k G) with
  | none => none
  | some (x, _) =>
    let r := x % n
    let z := natOfBE digest % n
    let s := invN k * ((z + r * d) % n) % n
    if r == 0 || s == 0 then none else some (r, s)

/-- ECDH: x-coordinate of d·Q, 48 bytes -/
def ecdh (d : Nat) (Q : Pt) : Option ByteArray :=
  match affine (mul d Q) with
  | none => none
  | some (x, _) => some (natToBE x 48)

end Prim.P384
