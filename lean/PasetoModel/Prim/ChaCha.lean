import PasetoModel.Prim.Bytes
namespace Prim.ChaCha

@[inline] def rotl (x : UInt32) (n : UInt32) : UInt32 := (x <<< n) ||| (x >>> (32 - n))

@[inline] def qr (s : Array UInt32) (a b c d : Nat) : Array UInt32 :=
  let sa := s[a]! + s[b]!; let sd := rotl (s[d]! ^^^ sa) 16
  let sc := s[c]! + sd;    let sb := rotl (s[b]! ^^^ sc) 12
  let sa := sa + sb;       let sd := rotl (sd ^^^ sa) 8
  let sc := sc + sd;       let sb := rotl (sb ^^^ sc) 7
  (((s.set! a sa).set! b sb).set! c sc).set! d sd

def rounds (s : Array UInt32) : Array UInt32 := Id.run do
  let mut x := s
  for _ in [0:10] do
    x := qr x 0 4 8 12; x := qr x 1 5 9 13; x := qr x 2 6 10 14; x := qr x 3 7 11 15
    x := qr x 0 5 10 15; x := qr x 1 6 11 12; x := qr x 2 7 8 13; x := qr x 3 4 9 14
  return x

def consts : Array UInt32 := #[0x61707865, 0x3320646e, 0x79622d32, 0x6b206574]

def keyWords (key : ByteArray) : Array UInt32 := (Array.range 8).map (fun i => le32At key (4*i))

/-- IETF ChaCha20 block: 32-bit counter, 12-byte nonce -/
def block (key : ByteArray) (counter : UInt32) (nonce : ByteArray) : ByteArray := Id.run do
  let s := consts ++ keyWords key ++ #[counter, le32At nonce 0, le32At nonce 4, le32At nonce 8]
  let x := rounds s
  let mut out := ByteArray.emptyWithCapacity 64
  for i in [0:16] do
    out := pushLE32 out (x[i]! + s[i]!)
  return out

/-- original (djb) ChaCha20 block with 64-bit counter and 8-byte nonce, as used by XChaCha20 in libsodium / `chacha20::XChaCha20` -/
def block64 (key : ByteArray) (counter : UInt64) (nonce8 : ByteArray) : ByteArray := Id.run do
  let s := consts ++ keyWords key ++ #[counter.toUInt32, (counter >>> 32).toUInt32, le32At nonce8 0, le32At nonce8 4]
  let x := rounds s
  let mut out := ByteArray.emptyWithCapacity 64
  for i in [0:16] do
    out := pushLE32 out (x[i]! + s[i]!)
  return out

def hchacha20 (key : ByteArray) (nonce16 : ByteArray) : ByteArray := Id.run do
  let s := consts ++ keyWords key ++ #[le32At nonce16 0, le32At nonce16 4, le32At nonce16 8, le32At nonce16 12]
  let x := rounds s
  let mut out := ByteArray.emptyWithCapacity 32
  for i in [0:4] do out := pushLE32 out x[i]!
  for i in [12:16] do out := pushLE32 out x[i]!
  return out

/-- XChaCha20 keystream (24-byte nonce), starting at block `ctr0` -/
def xchacha20Keystream (key nonce24 : ByteArray) (len : Nat) (ctr0 : Nat := 0) : ByteArray := Id.run do
  let sub := hchacha20 key (nonce24.extract 0 16)
  let n8 := nonce24.extract 16 24
  let mut out := ByteArray.emptyWithCapacity (len + 64)
  for i in [0:(len + 63) / 64] do
    out := out ++ block64 sub (UInt64.ofNat (ctr0 + i)) n8
  return out.extract 0 len

def xchacha20Xor (key nonce24 data : ByteArray) : ByteArray :=
  xorBA data (xchacha20Keystream key nonce24 data.size)

/-- Poly1305 one-shot MAC -/
def poly1305 (key32 msg : ByteArray) : ByteArray := Id.run do
  let r := natOfLE (key32.extract 0 16) &&& 0x0ffffffc0ffffffc0ffffffc0fffffff
  let s := natOfLE (key32.extract 16 32)
  let p := 2^130 - 5
  let mut acc := 0
  let n := msg.size
  for i in [0:(n + 15) / 16] do
    let chunk := msg.extract (16*i) (min n (16*i + 16))
    let v := natOfLE chunk + 2^(8 * chunk.size)
    acc := (acc + v) * r % p
  return natToLE ((acc + s) % 2^128) 16

def pad16 (n : Nat) : ByteArray := zeros ((16 - n % 16) % 16)

/-- XChaCha20-Poly1305 (IETF construction): returns ciphertext ‖ tag -/
def xchacha20poly1305Encrypt (key nonce24 aad pt : ByteArray) : ByteArray × ByteArray :=
  let sub := hchacha20 key (nonce24.extract 0 16)
  let n12 := zeros 4 ++ nonce24.extract 16 24
  let otk := (block sub 0 n12).extract 0 32
  let ks := Id.run do
    let mut out := ByteArray.emptyWithCapacity (pt.size + 64)
    for i in [0:(pt.size + 63) / 64] do
      out := out ++ block sub (UInt32.ofNat (1 + i)) n12
    return out.extract 0 pt.size
  let ct := xorBA pt ks
  let macData := aad ++ pad16 aad.size ++ ct ++ pad16 ct.size
    ++ pushLE64 ByteArray.empty (UInt64.ofNat aad.size) ++ pushLE64 ByteArray.empty (UInt64.ofNat ct.size)
  (ct, poly1305 otk macData)

end Prim.ChaCha
