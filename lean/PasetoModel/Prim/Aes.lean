import PasetoModel.Prim.Bytes
namespace Prim.Aes

def xtime (x : UInt8) : UInt8 := (x <<< 1) ^^^ (if x &&& 0x80 != 0 then 0x1b else 0)

def gmul (a b : UInt8) : UInt8 := Id.run do
  let mut p : UInt8 := 0
  let mut a := a
  let mut b := b
  for _ in [0:8] do
    if b &&& 1 != 0 then p := p ^^^ a
    a := xtime a
    b := b >>> 1
  return p

/-- S-box computed from the field inverse and the affine map (no transcribed table). -/
def sboxEntry (x : UInt8) : UInt8 := Id.run do
  -- inverse by exponentiation x^254
  let mut inv : UInt8 := 1
  if x != 0 then
    let mut acc : UInt8 := 1
    for _ in [0:254] do
      acc := gmul acc x
    inv := acc
  else
    inv := 0
  let rotl (v : UInt8) (n : UInt8) : UInt8 := (v <<< n) ||| (v >>> (8 - n))
  return inv ^^^ rotl inv 1 ^^^ rotl inv 2 ^^^ rotl inv 3 ^^^ rotl inv 4 ^^^ 0x63

def sbox : ByteArray := ⟨(Array.range 256).map (fun i => sboxEntry (UInt8.ofNat i))⟩

/-- AES-256 key expansion: 60 words as 240 bytes -/
def expandKey (key : ByteArray) : ByteArray := Id.run do
  let sb := sbox
  let mut w := key
  let mut rcon : UInt8 := 1
  for i in [8:60] do
    let mut t0 := w.get! (4*(i-1)); let mut t1 := w.get! (4*(i-1)+1)
    let mut t2 := w.get! (4*(i-1)+2); let mut t3 := w.get! (4*(i-1)+3)
    if i % 8 == 0 then
      let a0 := sb.get! t1.toNat ^^^ rcon
      let a1 := sb.get! t2.toNat
      let a2 := sb.get! t3.toNat
      let a3 := sb.get! t0.toNat
      t0 := a0; t1 := a1; t2 := a2; t3 := a3
      rcon := xtime rcon
    else if i % 8 == 4 then
      t0 := sb.get! t0.toNat; t1 := sb.get! t1.toNat; t2 := sb.get! t2.toNat; t3 := sb.get! t3.toNat
    w := w.push (w.get! (4*(i-8)) ^^^ t0)
    w := w.push (w.get! (4*(i-8)+1) ^^^ t1)
    w := w.push (w.get! (4*(i-8)+2) ^^^ t2)
    w := w.push (w.get! (4*(i-8)+3) ^^^ t3)
  return w

def addRoundKey (s : ByteArray) (rk : ByteArray) (r : Nat) : ByteArray := Id.run do
  let mut o := ByteArray.emptyWithCapacity 16
  for i in [0:16] do
    o := o.push (s.get! i ^^^ rk.get! (16*r + i))
  return o

def encryptBlock (rk : ByteArray) (blk : ByteArray) : ByteArray := Id.run do
  let sb := sbox
  let mut s := addRoundKey blk rk 0
  for r in [1:15] do
    -- SubBytes + ShiftRows (state is column-major: byte i is row i%4, column i/4)
    let mut t := ByteArray.emptyWithCapacity 16
    for c in [0:4] do
      for row in [0:4] do
        t := t.push (sb.get! (s.get! (4*((c+row)%4) + row)).toNat)
    if r < 14 then
      let mut m := ByteArray.emptyWithCapacity 16
      for c in [0:4] do
        let a0 := t.get! (4*c); let a1 := t.get! (4*c+1); let a2 := t.get! (4*c+2); let a3 := t.get! (4*c+3)
        m := m.push (xtime a0 ^^^ (xtime a1 ^^^ a1) ^^^ a2 ^^^ a3)
        m := m.push (a0 ^^^ xtime a1 ^^^ (xtime a2 ^^^ a2) ^^^ a3)
        m := m.push (a0 ^^^ a1 ^^^ xtime a2 ^^^ (xtime a3 ^^^ a3))
        m := m.push ((xtime a0 ^^^ a0) ^^^ a1 ^^^ a2 ^^^ xtime a3)
      t := m
    s := addRoundKey t rk r
  return s

/-- counter block `i` for a 16-byte IV with a big-endian counter occupying the low `bits` bits
    (bits = 128: OpenSSL / spec; bits = 64: `ctr::Ctr64BE`, upper 64 bits fixed) -/
def ctrBlock (bits : Nat) (iv : ByteArray) (i : Nat) : ByteArray :=
  let n := natOfBE iv
  let m := 2 ^ bits
  let hi := n / m
  let lo := (n % m + i) % m
  natToBE (hi * m + lo) 16

def ctrKeystream (bits : Nat) (key iv : ByteArray) (len : Nat) : ByteArray := Id.run do
  let rk := expandKey key
  let mut out := ByteArray.emptyWithCapacity (len + 16)
  for i in [0:(len + 15) / 16] do
    out := out ++ encryptBlock rk (ctrBlock bits iv i)
  return out.extract 0 len

def ctrXor (bits : Nat) (key iv data : ByteArray) : ByteArray :=
  xorBA data (ctrKeystream bits key iv data.size)

end Prim.Aes
