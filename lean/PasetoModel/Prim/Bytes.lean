/-! Byte helpers for the executable primitives (ByteArray based, import-free). -/
namespace Prim

def hexDigit (n : Nat) : Char := if n < 10 then Char.ofNat (48 + n) else Char.ofNat (87 + n)
def toHex (b : ByteArray) : String :=
  b.foldl (fun s x => (s.push (hexDigit (x.toNat / 16))).push (hexDigit (x.toNat % 16))) ""

def hexVal (c : Char) : Option Nat :=
  if '0' ≤ c ∧ c ≤ '9' then some (c.toNat - 48)
  else if 'a' ≤ c ∧ c ≤ 'f' then some (c.toNat - 87)
  else if 'A' ≤ c ∧ c ≤ 'F' then some (c.toNat - 55)
  else none

def ofHex (s : String) : Option ByteArray :=
  let rec go : List Char → ByteArray → Option ByteArray
    | [], acc => some acc
    | [_], _ => none
    | a :: b :: rest, acc =>
      match hexVal a, hexVal b with
      | some x, some y => go rest (acc.push (UInt8.ofNat (16 * x + y)))
      | _, _ => none
  go s.toList ByteArray.empty

def ofHex! (s : String) : ByteArray := (ofHex s).getD ByteArray.empty

def zeros (n : Nat) : ByteArray := ⟨Array.replicate n 0⟩

def xorBA (a b : ByteArray) : ByteArray := Id.run do
  let n := min a.size b.size
  let mut out := ByteArray.emptyWithCapacity n
  for i in [0:n] do
    out := out.push (a.get! i ^^^ b.get! i)
  return out

def be64At (b : ByteArray) (i : Nat) : UInt64 := Id.run do
  let mut r : UInt64 := 0
  for j in [0:8] do
    r := (r <<< 8) ||| (b.get! (i+j)).toUInt64
  return r

def le64At (b : ByteArray) (i : Nat) : UInt64 := Id.run do
  let mut r : UInt64 := 0
  for j in [0:8] do
    r := r ||| ((b.get! (i+j)).toUInt64 <<< (8 * j.toUInt64))
  return r

def le32At (b : ByteArray) (i : Nat) : UInt32 := Id.run do
  let mut r : UInt32 := 0
  for j in [0:4] do
    r := r ||| ((b.get! (i+j)).toUInt32 <<< (8 * j.toUInt32))
  return r

def pushBE64 (out : ByteArray) (x : UInt64) : ByteArray := Id.run do
  let mut o := out
  for j in [0:8] do
    o := o.push ((x >>> (8 * (7 - j).toUInt64)).toUInt8)
  return o

def pushLE64 (out : ByteArray) (x : UInt64) : ByteArray := Id.run do
  let mut o := out
  for j in [0:8] do
    o := o.push ((x >>> (8 * j.toUInt64)).toUInt8)
  return o

def pushLE32 (out : ByteArray) (x : UInt32) : ByteArray := Id.run do
  let mut o := out
  for j in [0:4] do
    o := o.push ((x >>> (8 * j.toUInt32)).toUInt8)
  return o

def pushBE32 (out : ByteArray) (x : UInt32) : ByteArray := Id.run do
  let mut o := out
  for j in [0:4] do
    o := o.push ((x >>> (8 * (3 - j).toUInt32)).toUInt8)
  return o

/-- big-endian bytes of a natural number, exactly `n` bytes (truncating high part) -/
def natToBE (x : Nat) (n : Nat) : ByteArray := Id.run do
  let mut o := ByteArray.emptyWithCapacity n
  for j in [0:n] do
    o := o.push (UInt8.ofNat ((x >>> (8 * (n - 1 - j))) % 256))
  return o

def natOfBE (b : ByteArray) : Nat := b.foldl (fun acc x => acc * 256 + x.toNat) 0
def natToLE (x : Nat) (n : Nat) : ByteArray := Id.run do
  let mut o := ByteArray.emptyWithCapacity n
  for j in [0:n] do
    o := o.push (UInt8.ofNat ((x >>> (8 * j)) % 256))
  return o
def natOfLE (b : ByteArray) : Nat := b.data.foldr (fun x acc => acc * 256 + x.toNat) 0

end Prim
