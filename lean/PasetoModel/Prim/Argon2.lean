import PasetoModel.Prim.Blake2b
namespace Prim.Argon2

def le32 (n : Nat) : ByteArray := natToLE (n % 2^32) 4

/-- variable-length hash H' -/
def hprime (outLen : Nat) (a : ByteArray) : ByteArray := Id.run do
  if outLen ≤ 64 then return Blake2b.hash ByteArray.empty outLen (le32 outLen ++ a)
  let r := (outLen + 31) / 32 - 2
  let mut v := Blake2b.hash ByteArray.empty 64 (le32 outLen ++ a)
  let mut out := v.extract 0 32
  for _ in [1:r] do
    v := Blake2b.hash ByteArray.empty 64 v
    out := out ++ v.extract 0 32
  v := Blake2b.hash ByteArray.empty (outLen - 32 * r) v
  return out ++ v

abbrev Block := Array UInt64   -- 128 words

def blockOfBytes (b : ByteArray) : Block := (Array.range 128).map (fun i => le64At b (8*i))
def bytesOfBlock (b : Block) : ByteArray := b.foldl pushLE64 (ByteArray.emptyWithCapacity 1024)
def xorBlock (a b : Block) : Block := (Array.range 128).map (fun i => a[i]! ^^^ b[i]!)
def zeroBlock : Block := Array.replicate 128 0

@[inline] def rotr (x : UInt64) (n : UInt64) : UInt64 := (x >>> n) ||| (x <<< (64 - n))
@[inline] def lo (x : UInt64) : UInt64 := x &&& 0xffffffff

@[inline] def gb (v : Block) (a b c d : Nat) : Block :=
  let va := v[a]!; let vb := v[b]!; let vc := v[c]!; let vd := v[d]!
  let va := va + vb + 2 * lo va * lo vb
  let vd := rotr (vd ^^^ va) 32
  let vc := vc + vd + 2 * lo vc * lo vd
  let vb := rotr (vb ^^^ vc) 24
  let va := va + vb + 2 * lo va * lo vb
  let vd := rotr (vd ^^^ va) 16
  let vc := vc + vd + 2 * lo vc * lo vd
  let vb := rotr (vb ^^^ vc) 63
  (((v.set! a va).set! b vb).set! c vc).set! d vd

/-- permutation P on 16 words at the given indices -/
def permP (v : Block) (ix : Array Nat) : Block :=
  let v := gb v ix[0]! ix[4]! ix[8]! ix[12]!
  let v := gb v ix[1]! ix[5]! ix[9]! ix[13]!
  let v := gb v ix[2]! ix[6]! ix[10]! ix[14]!
  let v := gb v ix[3]! ix[7]! ix[11]! ix[15]!
  let v := gb v ix[0]! ix[5]! ix[10]! ix[15]!
  let v := gb v ix[1]! ix[6]! ix[11]! ix[12]!
  let v := gb v ix[2]! ix[7]! ix[8]! ix[13]!
  gb v ix[3]! ix[4]! ix[9]! ix[14]!

def rowIx : Array (Array Nat) := (Array.range 8).map (fun i => (Array.range 16).map (fun j => 16*i + j))
def colIx : Array (Array Nat) := (Array.range 8).map (fun i =>
  (Array.range 16).map (fun j => 2*i + 16*(j/2) + j%2))

/-- compression G(X, Y) -/
def G (x y : Block) : Block := Id.run do
  let r := xorBlock x y
  let mut z := r
  for i in [0:8] do z := permP z rowIx[i]!
  for i in [0:8] do z := permP z colIx[i]!
  return xorBlock z r

/-- Argon2 (version 0x13); `ty` = 0 (d), 1 (i), 2 (id) -/
def argon2 (ty : Nat) (pw salt secret ad : ByteArray) (tCost mKiB lanes tagLen : Nat) : ByteArray := Id.run do
  let h0 := Blake2b.hash ByteArray.empty 64
    (le32 lanes ++ le32 tagLen ++ le32 mKiB ++ le32 tCost ++ le32 0x13 ++ le32 ty ++
     le32 pw.size ++ pw ++ le32 salt.size ++ salt ++ le32 secret.size ++ secret ++ le32 ad.size ++ ad)
  let m' := 4 * lanes * (mKiB / (4 * lanes))
  let q := m' / lanes
  let seg := q / 4
  -- memory: lanes × q blocks, index l*q + j
  let mut mem : Array Block := Array.replicate m' zeroBlock
  for l in [0:lanes] do
    mem := mem.set! (l*q) (blockOfBytes (hprime 1024 (h0 ++ le32 0 ++ le32 l)))
    mem := mem.set! (l*q + 1) (blockOfBytes (hprime 1024 (h0 ++ le32 1 ++ le32 l)))
  for pass in [0:tCost] do
    for slice in [0:4] do
      for l in [0:lanes] do
        let dataIndep := ty == 1 || (ty == 2 && pass == 0 && slice < 2)
        let mut addr : Block := zeroBlock
        let mut input : Block := zeroBlock
        if dataIndep then
          input := (((((zeroBlock.set! 0 (UInt64.ofNat pass)).set! 1 (UInt64.ofNat l)).set! 2 (UInt64.ofNat slice)).set! 3
            (UInt64.ofNat m')).set! 4 (UInt64.ofNat tCost)).set! 5 (UInt64.ofNat ty)
        let start := if pass == 0 && slice == 0 then 2 else 0
        if dataIndep && start == 2 then
          input := input.set! 6 (input[6]! + 1)
          addr := G zeroBlock (G zeroBlock input)
        for i in [start:seg] do
          let j := slice * seg + i
          let prevJ := if j == 0 then q - 1 else j - 1
          let prev := mem[l*q + prevJ]!
          let mut rnd : UInt64 := 0
          if dataIndep then
            if i % 128 == 0 then
              input := input.set! 6 (input[6]! + 1)
              addr := G zeroBlock (G zeroBlock input)
            rnd := addr[i % 128]!
          else
            rnd := prev[0]!
          let j1 := (rnd &&& 0xffffffff).toNat
          let j2 := (rnd >>> 32).toNat
          let refLane := if pass == 0 && slice == 0 then l else j2 % lanes
          let same := refLane == l
          let area : Nat :=
            if pass == 0 then
              if slice == 0 then i - 1
              else if same then slice * seg + i - 1
              else slice * seg - (if i == 0 then 1 else 0)
            else
              if same then q - seg + i - 1
              else q - seg - (if i == 0 then 1 else 0)
          let x := (j1 * j1) >>> 32
          let y := (area * x) >>> 32
          let rel := area - 1 - y
          let startPos := if pass == 0 then 0 else if slice == 3 then 0 else (slice + 1) * seg
          let absPos := (startPos + rel) % q
          let refB := mem[refLane*q + absPos]!
          let nb := G prev refB
          let nb := if pass == 0 then nb else xorBlock nb mem[l*q + j]!
          mem := mem.set! (l*q + j) nb
  let mut c := mem[q - 1]!
  for l in [1:lanes] do
    c := xorBlock c mem[l*q + q - 1]!
  return hprime tagLen (bytesOfBlock c)

def argon2id (pw salt : ByteArray) (tCost mKiB lanes tagLen : Nat) : ByteArray :=
  argon2 2 pw salt ByteArray.empty ByteArray.empty tCost mKiB lanes tagLen

end Prim.Argon2
