import PasetoModel.Basic
/-! Minimal DER / PEM codec for the two RSA key containers paseto-v1 uses:
    SubjectPublicKeyInfo(rsaEncryption) and PKCS#1 RSAPrivateKey.  Executable, import-free.
    (The `der`, `spki`, `pkcs1`, `pem-rfc7468` crates are dependencies: modelled, not verified.) -/
namespace PM.Der

/-- one TLV: tag, content, rest.  Definite, minimally encoded lengths only (DER). -/
def tlv : Bytes → Option (UInt8 × Bytes × Bytes)
  | tag :: l :: rest =>
    if l < 0x80 then
      if rest.length < l.toNat then none else some (tag, rest.take l.toNat, rest.drop l.toNat)
    else
      let k := l.toNat - 0x80
      if k = 0 ∨ k > 4 ∨ rest.length < k then none else
      let len := fromBe (rest.take k)
      let body := rest.drop k
      -- minimal length encoding
      if len < 0x80 ∨ (rest.head? = some 0) then none else
      if body.length < len then none else some (tag, body.take len, body.drop len)
  | _ => none

/-- DER INTEGER content ↦ non-negative value (minimal encoding enforced) -/
def intVal (c : Bytes) : Option Nat :=
  match c with
  | [] => none
  | [b] => if b ≥ 0x80 then none else some b.toNat
  | b0 :: b1 :: _ =>
    if b0 ≥ 0x80 then none
    else if b0 = 0 ∧ b1 < 0x80 then none
    else some (fromBe c)

/-- sequence of INTEGERs filling `c` exactly -/
def ints (fuel : Nat) (c : Bytes) : Option (List Nat) :=
  match fuel with
  | 0 => none
  | f + 1 =>
    if c.isEmpty then some [] else
    match tlv c with
    | some (2, v, rest) => do
        let n ← intVal v
        let ns ← ints f rest
        some (n :: ns)
    | _ => none

def natBytes (n : Nat) : Bytes :=
  let rec go (fuel n : Nat) (acc : Bytes) : Bytes :=
    match fuel with
    | 0 => acc
    | f + 1 => if n = 0 then acc else go f (n / 256) (UInt8.ofNat n :: acc)
  if n = 0 then [0] else go (Nat.log2 n / 8 + 2) n []

def encLen (n : Nat) : Bytes :=
  if n < 0x80 then [UInt8.ofNat n] else
  let b := natBytes n
  UInt8.ofNat (0x80 + b.length) :: b

def encTlv (tag : UInt8) (c : Bytes) : Bytes := tag :: encLen c.length ++ c

def encInt (n : Nat) : Bytes :=
  let b := natBytes n
  encTlv 2 (if (b.head?.getD 0) ≥ 0x80 then 0 :: b else b)

/-- AlgorithmIdentifier { rsaEncryption, NULL } -/
def rsaAlgId : Bytes := [0x30, 0x0d, 0x06, 0x09, 0x2a, 0x86, 0x48, 0x86, 0xf7, 0x0d, 0x01, 0x01, 0x01, 0x05, 0x00]

/-- SubjectPublicKeyInfo for RSA ↦ (n, e) -/
def parseSpkiRsa (bs : Bytes) : Option (Nat × Nat) := do
  let (t, c, rest) ← tlv bs
  if t ≠ 0x30 ∨ !rest.isEmpty then none else
  if !(rsaAlgId.isPrefixOf c) then none else
  let (t2, bits, rest2) ← tlv (c.drop rsaAlgId.length)
  if t2 ≠ 0x03 ∨ !rest2.isEmpty then none else
  match bits with
  | 0 :: key => do
      let (t3, kc, rest3) ← tlv key
      if t3 ≠ 0x30 ∨ !rest3.isEmpty then none else
      match ← ints 4 kc with
      | [n, e] => some (n, e)
      | _ => none
  | _ => none

def encodeSpkiRsa (n e : Nat) : Bytes :=
  let key := encTlv 0x30 (encInt n ++ encInt e)
  encTlv 0x30 (rsaAlgId ++ encTlv 0x03 (0 :: key))

structure RsaPriv where
  n : Nat
  e : Nat
  d : Nat
  p : Nat
  q : Nat
  deriving DecidableEq, Repr

/-- PKCS#1 RSAPrivateKey (two-prime, version 0) -/
def parsePkcs1 (bs : Bytes) : Option RsaPriv := do
  let (t, c, rest) ← tlv bs
  if t ≠ 0x30 ∨ !rest.isEmpty then none else
  match ← ints 12 c with
  | [0, n, e, d, p, q, _dp, _dq, _qi] => some ⟨n, e, d, p, q⟩
  | _ => none

def powMod (b e m : Nat) : Nat := Id.run do
  let mut r := 1 % m
  let mut b := b % m
  let mut e := e
  for _ in [0:Nat.log2 e + 1] do
    if e % 2 == 1 then r := r * b % m
    b := b * b % m
    e := e / 2
  return r

/-- modular inverse by extended Euclid (0 when not invertible) -/
def invMod (a m : Nat) : Nat := Id.run do
  let mut r0 : Int := m
  let mut r1 : Int := a % m
  let mut t0 : Int := 0
  let mut t1 : Int := 1
  for _ in [0:2 * (Nat.log2 m + 2)] do
    if r1 == 0 then break
    let q := r0 / r1
    (r0, r1) := (r1, r0 - q * r1)
    (t0, t1) := (t1, t0 - q * t1)
  if r0 != 1 then return 0
  return (t0 % (m : Int)).toNat

/-- `to_pkcs1_der`: CRT parameters are recomputed from d, p, q -/
def encodePkcs1 (k : RsaPriv) : Bytes :=
  encTlv 0x30 (encInt 0 ++ encInt k.n ++ encInt k.e ++ encInt k.d ++ encInt k.p ++ encInt k.q ++
    encInt (k.d % (k.p - 1)) ++ encInt (k.d % (k.q - 1)) ++ encInt (invMod k.q k.p))

/-! PEM (RFC 7468, strict enough for the keys in scope): label lines and standard base64 body -/

def b64StdVal (c : UInt8) : Option Nat :=
  if 65 ≤ c ∧ c ≤ 90 then some (c.toNat - 65)
  else if 97 ≤ c ∧ c ≤ 122 then some (c.toNat - 71)
  else if 48 ≤ c ∧ c ≤ 57 then some (c.toNat + 4)
  else if c = 43 then some 62 else if c = 47 then some 63 else none

def b64StdDecode (s : Bytes) : Option Bytes :=
  let body := s.filter (fun c => c ≠ 10 ∧ c ≠ 13)
  let data := body.filter (· ≠ 61)
  let pads := body.length - data.length
  if body.length % 4 ≠ 0 ∨ pads > 2 then none else
  let rec go : Bytes → Array UInt8 → Option (Array UInt8)
    | a :: b :: c :: d :: rest, acc => do
        let x ← b64StdVal a; let y ← b64StdVal b; let z ← b64StdVal c; let w ← b64StdVal d
        let n := x * 262144 + y * 4096 + z * 64 + w
        go rest (((acc.push (UInt8.ofNat (n / 65536))).push (UInt8.ofNat (n / 256))).push (UInt8.ofNat n))
    | [a, b, c], acc => do
        let x ← b64StdVal a; let y ← b64StdVal b; let z ← b64StdVal c
        let n := x * 4096 + y * 64 + z
        some ((acc.push (UInt8.ofNat (n / 1024))).push (UInt8.ofNat (n / 4)))
    | [a, b], acc => do
        let x ← b64StdVal a; let y ← b64StdVal b
        some (acc.push (UInt8.ofNat ((x * 64 + y) / 16)))
    | [], acc => some acc
    | _, _ => none
  (go data #[]).map Array.toList

def pemDecode (label : Bytes) (s : Bytes) : Option Bytes :=
  let pre := str "-----BEGIN " ++ label ++ str "-----"
  let post := str "-----END " ++ label ++ str "-----"
  if !(pre.isPrefixOf s) then none else
  let rest := s.drop pre.length
  -- strip trailing newlines
  let trimmed := (rest.reverse.dropWhile (fun c => c = 10 ∨ c = 13)).reverse
  if trimmed.length < post.length then none else
  let body := trimmed.take (trimmed.length - post.length)
  if trimmed.drop (trimmed.length - post.length) ≠ post then none else
  b64StdDecode body

end PM.Der
