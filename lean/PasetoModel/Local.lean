import PasetoModel.Pae
/-! Local (symmetric) tokens: one skeleton for `*/src/core/local.rs` of all six back ends.
    The skeleton is parametric in a `LocalScheme` (lengths, aad policy, synthetic nonce, cipher,
    tag); theorems are proved for every scheme satisfying `LocalLaws`. -/
namespace PM

structure LocalScheme where
  nonceLen : Nat
  tagLen : Nat
  hasAad : Bool
  /-- what `dangerous_seal_with_nonce` does when the payload is shorter than the nonce
      (`split_at_mut` panics; `split_first_chunk_mut().ok_or(..)` returns an error) -/
  shortPayload : Res Bytes
  /-- v1/v2: the nonce actually used is a MAC of the message keyed by the random bytes -/
  synth : Bytes → Bytes → Bytes
  enc : Bytes → Bytes → Bytes → Bytes                       -- key nonce message
  dec : Bytes → Bytes → Bytes → Bytes                       -- key nonce ciphertext
  tag : Bytes → List Bytes → Bytes → Bytes → Bytes → Bytes → Bytes   -- key hdr nonce ct footer aad

structure LocalLaws (S : LocalScheme) : Prop where
  tag_len : ∀ k h n c f a, (S.tag k h n c f a).length = S.tagLen
  synth_len : ∀ r m, r.length = S.nonceLen → (S.synth r m).length = S.nonceLen
  dec_enc : ∀ k n m, S.dec k n (S.enc k n m) = m

/-- `SealingVersion<Local>::dangerous_seal_with_nonce`: `payload` = nonce bytes ‖ encoded claims -/
def sealLocal (S : LocalScheme) (hdr : List Bytes) (k payload f a : Bytes) : Res Bytes :=
  if !S.hasAad && !a.isEmpty then .err .claims else
  match splitFirst S.nonceLen payload with
  | none => S.shortPayload
  | some (n0, m) =>
    let n := S.synth n0 m
    let c := S.enc k n m
    .ok (n ++ c ++ S.tag k hdr n c f a)

/-- `UnsealingVersion<Local>::unseal` -/
def unsealLocal (S : LocalScheme) (hdr : List Bytes) (k payload f a : Bytes) : Res Bytes :=
  if !S.hasAad && !a.isEmpty then .err .claims else
  match splitLast S.tagLen payload with
  | none => .err .invalidToken
  | some (rest, t) =>
    match splitFirst S.nonceLen rest with
    | none => .err .invalidToken
    | some (n, c) =>
      if tagEq (S.tag k hdr n c f a) t then .ok (S.dec k n c) else .err .crypto

/-! ### the two constructions -/

/-- encrypt-then-MAC with derived keys (v1, v3, v4 and their siblings) -/
structure SymPrims where
  ek : Bytes → Bytes → Bytes            -- key, nonce ↦ encryption key
  n2 : Bytes → Bytes → Bytes            -- key, nonce ↦ cipher nonce / counter block
  ak : Bytes → Bytes → Bytes            -- key, nonce ↦ authentication key
  stream : Bytes → Bytes → Nat → Bytes  -- cipher key, cipher nonce, length ↦ keystream
  mac : Bytes → Bytes → Bytes

structure SymLaws (P : SymPrims) (tagLen : Nat) : Prop where
  mac_len : ∀ k m, (P.mac k m).length = tagLen
  stream_len : ∀ k iv n, (P.stream k iv n).length = n

def symEnc (P : SymPrims) (k n m : Bytes) : Bytes := xor m (P.stream (P.ek k n) (P.n2 k n) m.length)

/-- the authenticated input: PAE of header (three fragments), nonce, ciphertext, footer and — for
    versions with implicit assertions — the assertion -/
def symPieces (hasAad : Bool) (hdr : List Bytes) (n c f a : Bytes) : List (List Bytes) :=
  if hasAad then [hdr, [n], [c], [f], [a]] else [hdr, [n], [c], [f]]

def symScheme (P : SymPrims) (nonceLen tagLen : Nat) (hasAad : Bool) (short : Res Bytes)
    (synth : Bytes → Bytes → Bytes) : LocalScheme :=
  { nonceLen, tagLen, hasAad, shortPayload := short, synth,
    enc := symEnc P, dec := symEnc P,
    tag := fun k hdr n c f a => P.mac (P.ak k n) (pae (symPieces hasAad hdr n c f a)) }

/-- AEAD (v2): XChaCha20-Poly1305 with the PAE of header, nonce and footer as associated data -/
structure AeadPrims where
  stream : Bytes → Bytes → Nat → Bytes              -- key, nonce, length
  atag : Bytes → Bytes → Bytes → Bytes → Bytes      -- key, nonce, aad, ciphertext

structure AeadLaws (A : AeadPrims) (tagLen : Nat) : Prop where
  tag_len : ∀ k n a c, (A.atag k n a c).length = tagLen
  stream_len : ∀ k n l, (A.stream k n l).length = l

def aeadEnc (A : AeadPrims) (k n m : Bytes) : Bytes := xor m (A.stream k n m.length)

def aeadScheme (A : AeadPrims) (nonceLen tagLen : Nat) (short : Res Bytes)
    (synth : Bytes → Bytes → Bytes) : LocalScheme :=
  { nonceLen, tagLen, hasAad := false, shortPayload := short, synth,
    enc := aeadEnc A, dec := aeadEnc A,
    tag := fun k hdr n c f _ => A.atag k n (pae [hdr, [n], [f]]) c }

/-! ### lemmas -/

theorem symEnc_symEnc (P : SymPrims) {t : Nat} (L : SymLaws P t) (k n m : Bytes) :
    symEnc P k n (symEnc P k n m) = m := by
  unfold symEnc
  have hl : (xor m (P.stream (P.ek k n) (P.n2 k n) m.length)).length = m.length :=
    xor_length _ _ (by rw [L.stream_len])
  rw [hl]
  exact xor_xor _ _ (by rw [L.stream_len])

theorem symScheme_laws (P : SymPrims) (nonceLen tagLen : Nat) (hasAad : Bool) (short : Res Bytes)
    (synth : Bytes → Bytes → Bytes) (L : SymLaws P tagLen)
    (hs : ∀ r m, r.length = nonceLen → (synth r m).length = nonceLen) :
    LocalLaws (symScheme P nonceLen tagLen hasAad short synth) :=
  { tag_len := fun _ _ _ _ _ _ => L.mac_len _ _,
    synth_len := hs,
    dec_enc := fun k n m => symEnc_symEnc P L k n m }

theorem aeadEnc_aeadEnc (A : AeadPrims) {t : Nat} (L : AeadLaws A t) (k n m : Bytes) :
    aeadEnc A k n (aeadEnc A k n m) = m := by
  unfold aeadEnc
  have hl : (xor m (A.stream k n m.length)).length = m.length := xor_length _ _ (by rw [L.stream_len])
  rw [hl]
  exact xor_xor _ _ (by rw [L.stream_len])

theorem aeadScheme_laws (A : AeadPrims) (nonceLen tagLen : Nat) (short : Res Bytes)
    (synth : Bytes → Bytes → Bytes) (L : AeadLaws A tagLen)
    (hs : ∀ r m, r.length = nonceLen → (synth r m).length = nonceLen) :
    LocalLaws (aeadScheme A nonceLen tagLen short synth) :=
  { tag_len := fun _ _ _ _ _ _ => L.tag_len _ _ _ _,
    synth_len := hs,
    dec_enc := fun k n m => aeadEnc_aeadEnc A L k n m }

/-- seal then unseal, for every scheme with the laws: the nonce-carrying payload `n0 ‖ m` comes back as `m` -/
theorem local_roundtrip (S : LocalScheme) (L : LocalLaws S) (hdr : List Bytes) (k n0 m f a : Bytes)
    (hn : n0.length = S.nonceLen) (ha : S.hasAad = true ∨ a = []) :
    ∃ tok, sealLocal S hdr k (n0 ++ m) f a = .ok tok ∧ unsealLocal S hdr k tok f a = .ok m := by
  have hg : (!S.hasAad && !a.isEmpty) = false := by
    rcases ha with h | h
    · simp [h]
    · simp [h]
  unfold sealLocal
  rw [hg, splitFirst_append _ _ _ hn]
  refine ⟨_, rfl, ?_⟩
  unfold unsealLocal
  rw [hg]
  simp only [Bool.false_eq_true, if_false]
  rw [splitLast_append _ _ _ (L.tag_len _ _ _ _ _ _)]
  simp only []
  rw [splitFirst_append _ _ _ (L.synth_len _ _ hn)]
  simp [tagEq, L.dec_enc]

/-- exact acceptance characterisation of `unseal` -/
theorem unsealLocal_ok_iff (S : LocalScheme) (hdr : List Bytes) (k payload f a m : Bytes) :
    unsealLocal S hdr k payload f a = .ok m ↔
      (S.hasAad = true ∨ a = []) ∧
      ∃ n c t, payload = n ++ c ++ t ∧ n.length = S.nonceLen ∧ t.length = S.tagLen ∧
        t = S.tag k hdr n c f a ∧ m = S.dec k n c := by
  unfold unsealLocal
  by_cases hg : (!S.hasAad && !a.isEmpty) = true
  · simp only [hg, if_true]
    constructor
    · intro h; cases h
    · rintro ⟨h, _⟩
      rcases h with h | h <;> simp [h] at hg
  · have hg' : S.hasAad = true ∨ a = [] := by
      cases hh : S.hasAad <;> cases a <;> simp_all
    simp only [hg, Bool.false_eq_true, if_false]
    constructor
    · intro h
      refine ⟨hg', ?_⟩
      cases hs : splitLast S.tagLen payload with
      | none => simp [hs] at h
      | some p =>
        obtain ⟨rest, t⟩ := p
        simp only [hs] at h
        cases hf : splitFirst S.nonceLen rest with
        | none => simp [hf] at h
        | some q =>
          obtain ⟨n, c⟩ := q
          simp only [hf] at h
          split at h
          · rename_i ht
            injection h with h
            obtain ⟨e1, l1⟩ := splitLast_some hs
            obtain ⟨e2, l2⟩ := splitFirst_some hf
            refine ⟨n, c, t, by rw [e1, e2], l2, l1, ((tagEq_iff _ _).mp ht).symm, h.symm⟩
          · cases h
    · rintro ⟨_, n, c, t, rfl, hn, ht, rfl, rfl⟩
      rw [splitLast_append _ _ _ ht]
      simp only []
      rw [splitFirst_append _ _ _ hn]
      simp [tagEq]

/-- `unseal` never panics and fails only with the three expected error kinds -/
theorem unsealLocal_total (S : LocalScheme) (hdr : List Bytes) (k payload f a : Bytes) :
    (∃ m, unsealLocal S hdr k payload f a = .ok m) ∨
    unsealLocal S hdr k payload f a = .err .claims ∨
    unsealLocal S hdr k payload f a = .err .invalidToken ∨
    unsealLocal S hdr k payload f a = .err .crypto := by
  unfold unsealLocal
  split
  · right; left; rfl
  · split
    · right; right; left; rfl
    · split
      · right; right; left; rfl
      · split
        · left; exact ⟨_, rfl⟩
        · right; right; right; rfl

end PM
