import PasetoModel.Extracted.Headers
/-! Header strings as the PASETO / PASERK documents give them (written from the documents, not from
    the code; each byte list is the ASCII of the string in the comment).  `Extracted.*` is what the
    running code says; `Props/C03`, `C07`, `C13` re-decide on every run that the two tables are equal. -/
namespace PM.Spec
open PM

def versionHeader (b : Backend) : Bytes := [118, (48 + b.version).toUInt8]   -- "v" ++ digit
def paserkHeader (b : Backend) : Bytes := [107, (48 + b.version).toUInt8]    -- "k" ++ digit
def kindHeader : Kind → Bytes
  | .localK => [46, 108, 111, 99, 97, 108, 46]   -- ".local."
  | .publicK => [46, 112, 117, 98, 108, 105, 99, 46]   -- ".public."
  | .secretK => [46, 115, 101, 99, 114, 101, 116, 46]   -- ".secret."
  | .pkePublic => [46, 112, 117, 98, 108, 105, 99, 46]   -- ".public."
  | .pkeSecret => [46, 115, 101, 99, 114, 101, 116, 46]   -- ".secret."
def idHeader : Kind → Bytes
  | .localK => [46, 108, 105, 100, 46]   -- ".lid."
  | .publicK => [46, 112, 105, 100, 46]   -- ".pid."
  | .secretK => [46, 115, 105, 100, 46]   -- ".sid."
  | .pkePublic => [46, 112, 105, 100, 46]   -- ".pid."
  | .pkeSecret => [46, 115, 105, 100, 46]   -- ".sid."
def pieHeader : SKind → Bytes
  | .localK => [46, 108, 111, 99, 97, 108, 45, 119, 114, 97, 112, 46, 112, 105, 101, 46]   -- ".local-wrap.pie."
  | .secretK => [46, 115, 101, 99, 114, 101, 116, 45, 119, 114, 97, 112, 46, 112, 105, 101, 46]   -- ".secret-wrap.pie."
def pwHeader : SKind → Bytes
  | .localK => [46, 108, 111, 99, 97, 108, 45, 112, 119, 46]   -- ".local-pw."
  | .secretK => [46, 115, 101, 99, 114, 101, 116, 45, 112, 119, 46]   -- ".secret-pw."
def sealHeader (_ : Backend) : Bytes := [46, 115, 101, 97, 108, 46]   -- ".seal."

/-- the token header tables of the running code equal the PASETO documents' -/
def TokenHeadersConform : Prop :=
  (∀ b ∈ Backend.all, Extracted.versionHeader b = versionHeader b) ∧
  Extracted.kindHeader .localK = kindHeader .localK ∧ Extracted.kindHeader .publicK = kindHeader .publicK

/-- the PASERK header tables of the running code equal the PASERK documents' -/
def PaserkHeadersConform : Prop :=
  (∀ b ∈ Backend.all, Extracted.paserkHeader b = paserkHeader b ∧ Extracted.sealHeader b = sealHeader b) ∧
  (∀ k ∈ [Kind.localK, .publicK, .secretK, .pkePublic, .pkeSecret],
      Extracted.kindHeader k = kindHeader k ∧ Extracted.idHeader k = idHeader k) ∧
  (∀ k ∈ [SKind.localK, .secretK], Extracted.pieHeader k = pieHeader k ∧ Extracted.pwHeader k = pwHeader k)

instance : Decidable TokenHeadersConform := by unfold TokenHeadersConform; exact inferInstance
instance : Decidable PaserkHeadersConform := by unfold PaserkHeadersConform; exact inferInstance

end PM.Spec
