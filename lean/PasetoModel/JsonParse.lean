import PasetoModel.JsonLemmas
/-! A reader for exactly the text `claimsJson` writes (compact object whose keys and values are string literals), and the
    proof that it reads back the member list that was written: the wire form is unambiguous at the level of bytes.  (The
    library's reader is `serde_json`, a dependency; this reader exists to state the round trip inside the model.) -/
namespace PM.Json
open PM

/-- scan the inside of a string literal up to the closing quote: a backslash protects the next byte.
    Returns the raw (still escaped) content and what follows the closing quote. -/
def scanStr : Bytes → Bytes → Option (Bytes × Bytes)
  | [], _ => none
  | b :: r, acc =>
    if b = 34 then some (acc, r)
    else if b = 92 then
      match r with
      | [] => none
      | c :: r' => scanStr r' (acc ++ [92, c])
    else scanStr r (acc ++ [b])

/-- read one string literal at the head of the input -/
def readStr (s : Bytes) : Option (Bytes × Bytes) :=
  match s with
  | 34 :: r => (scanStr r []).bind fun (raw, rest) => (unescape raw).map fun v => (v, rest)
  | _ => none

theorem hexDigit_plain : ∀ n : Fin 16, hexDigit n.val ≠ 34 ∧ hexDigit n.val ≠ 92 := by decide

theorem scanStr_quote (r acc : Bytes) : scanStr (34 :: r) acc = some (acc, r) := by
  rw [scanStr.eq_def]; simp
theorem scanStr_bs (c : UInt8) (r acc : Bytes) : scanStr (92 :: c :: r) acc = scanStr r (acc ++ [92, c]) := by
  rw [scanStr.eq_def]; simp
theorem scanStr_plain (b : UInt8) (r acc : Bytes) (h1 : b ≠ 34) (h2 : b ≠ 92) :
    scanStr (b :: r) acc = scanStr r (acc ++ [b]) := by
  rw [scanStr.eq_def]; simp [h1, h2]

/-- scanning over the escaped form of one byte just copies it -/
theorem scanStr_escByte (b : UInt8) (rest acc : Bytes) :
    scanStr (escByte b ++ rest) acc = scanStr rest (acc ++ escByte b) := by
  by_cases h34 : b = 34
  · subst h34; simp only [escByte]; exact scanStr_bs _ _ _
  by_cases h92 : b = 92
  · subst h92; simp only [escByte]; exact scanStr_bs _ _ _
  by_cases h8 : b = 8
  · subst h8; simp only [escByte]; exact scanStr_bs _ _ _
  by_cases h12 : b = 12
  · subst h12; simp only [escByte]; exact scanStr_bs _ _ _
  by_cases h10 : b = 10
  · subst h10; simp only [escByte]; exact scanStr_bs _ _ _
  by_cases h13 : b = 13
  · subst h13; simp only [escByte]; exact scanStr_bs _ _ _
  by_cases h9 : b = 9
  · subst h9; simp only [escByte]; exact scanStr_bs _ _ _
  by_cases h32 : b < 32
  · have hn : b.toNat < 32 := by simpa [UInt8.lt_iff_toNat_lt] using h32
    have h1 := hexDigit_plain ⟨b.toNat / 16, by omega⟩
    have h2 := hexDigit_plain ⟨b.toNat % 16, by omega⟩
    simp only at h1 h2
    simp only [escByte, h34, h92, h8, h12, h10, h13, h9, h32, if_true, if_false, List.cons_append, List.nil_append]
    rw [scanStr_bs, scanStr_plain 48 _ _ (by decide) (by decide), scanStr_plain 48 _ _ (by decide) (by decide),
        scanStr_plain _ _ _ h1.1 h1.2, scanStr_plain _ _ _ h2.1 h2.2]
    simp
  · simp only [escByte, h34, h92, h8, h12, h10, h13, h9, h32, if_false, List.cons_append, List.nil_append]
    exact scanStr_plain b _ _ h34 h92

theorem scanStr_escape (s rest acc : Bytes) :
    scanStr (escape s ++ 34 :: rest) acc = some (acc ++ escape s, rest) := by
  induction s generalizing acc with
  | nil => simp only [escape, List.flatMap_nil, List.nil_append, List.append_nil]; exact scanStr_quote _ _
  | cons b t ih =>
    simp only [escape, List.flatMap_cons, List.append_assoc] at ih ⊢
    rw [scanStr_escByte, ih]
    simp

/-- **a string literal reads back as the string that was written**, whatever follows it -/
theorem readStr_jsonStr (s rest : Bytes) : readStr (jsonStr s ++ rest) = some (s, rest) := by
  simp only [jsonStr, readStr, List.cons_append, List.append_assoc, List.singleton_append]
  rw [scanStr_escape]
  simp [unescape_escape]

/-- read `"key":"value"` -/
def readMember (s : Bytes) : Option ((Bytes × Bytes) × Bytes) :=
  (readStr s).bind fun (k, r) =>
    match r with
    | 58 :: r' => (readStr r').map fun (v, r'') => ((k, v), r'')
    | _ => none

/-- read members separated by `,` up to the closing `}`; `fuel` bounds the number of members -/
def readMembers : Nat → Bytes → Option (List (Bytes × Bytes))
  | 0, _ => none
  | fuel + 1, s =>
    (readMember s).bind fun (m, r) =>
      match r with
      | [125] => some [m]
      | 44 :: r' => (readMembers fuel r').map (m :: ·)
      | _ => none

/-- read a compact object of string members -/
def readObject (s : Bytes) : Option (List (Bytes × Bytes)) :=
  match s with
  | 123 :: r => if r = [125] then some [] else readMembers r.length r
  | _ => none

end PM.Json

namespace PM.Json
open PM

/-- text of a member whose value is a string -/
def strMemberText (m : Bytes × Bytes) : Bytes := jsonStr m.1 ++ [58] ++ jsonStr m.2

theorem readMember_text (m : Bytes × Bytes) (rest : Bytes) :
    readMember (strMemberText m ++ rest) = some (m, rest) := by
  obtain ⟨k, v⟩ := m
  simp only [strMemberText, readMember, List.append_assoc]
  rw [readStr_jsonStr]
  simp only [Option.bind_some, List.singleton_append]
  rw [readStr_jsonStr]
  rfl

theorem readMembers_text (ms : List (Bytes × Bytes)) (m : Bytes × Bytes) (fuel : Nat) (h : ms.length < fuel) :
    readMembers fuel (joinComma ((m :: ms).map strMemberText) ++ [125]) = some (m :: ms) := by
  induction ms generalizing m fuel with
  | nil =>
    cases fuel with
    | zero => omega
    | succ f =>
      simp only [List.map_cons, List.map_nil, joinComma, readMembers]
      rw [readMember_text]
      rfl
  | cons m2 t ih =>
    cases fuel with
    | zero => omega
    | succ f =>
      simp only [List.map_cons, joinComma, readMembers, List.append_assoc, List.singleton_append, List.cons_append]
      rw [readMember_text]
      simp only [Option.bind_some]
      have := ih m2 f (by simp only [List.length_cons] at h; omega)
      simp only [List.map_cons] at this
      simp only [List.nil_append]
      rw [this]
      rfl

theorem strMemberText_len (m : Bytes × Bytes) : 5 ≤ (strMemberText m).length := by
  simp only [strMemberText, jsonStr, List.length_append, List.length_cons, List.length_nil]; omega

theorem joinComma_len (l : List (Bytes × Bytes)) (x : Bytes × Bytes) :
    5 * (l.length + 1) ≤ (joinComma ((x :: l).map strMemberText)).length := by
  induction l generalizing x with
  | nil => have := strMemberText_len x; simpa [joinComma] using this
  | cons y l ih =>
    have h1 := ih y
    have h2 := strMemberText_len x
    simp only [List.map_cons, joinComma, List.length_append, List.length_cons] at h1 ⊢
    omega

/-- **the object reads back as the member list that was written** -/
theorem readObject_text (ms : List (Bytes × Bytes)) :
    readObject ([123] ++ joinComma (ms.map strMemberText) ++ [125]) = some ms := by
  cases ms with
  | nil => rfl
  | cons m t =>
    have hl := joinComma_len t m
    simp only [List.singleton_append, List.cons_append, List.append_assoc, readObject, List.nil_append]
    have hne : joinComma ((m :: t).map strMemberText) ++ [125] ≠ [125] := by
      intro h
      have := congrArg List.length h
      simp only [List.length_append, List.length_cons, List.length_nil] at this
      omega
    rw [if_neg hne]
    exact readMembers_text t m _ (by simp only [List.length_append, List.length_cons, List.length_nil]; omega)

end PM.Json
