import PasetoModel.Extracted.Features
/-! Cargo feature closure, `cfg` evaluation and the consistency predicate (C19).
    A feature selection is a bit mask over the crate's feature indices. -/
namespace PM.Feat
open PM.Extracted.Feat

/-- one round of implication edges `f → g` (feature `f` enables feature `g`) -/
def stepClosure (edges : List (Nat × Nat)) (S : Nat) : Nat :=
  edges.foldl (fun acc (e : Nat × Nat) => if acc.testBit e.1 then acc ||| (1 <<< e.2) else acc) S

/-- the set of enabled features: closure under the edges (`n` rounds suffice for `n` features) -/
def closure (edges : List (Nat × Nat)) (n : Nat) (S : Nat) : Nat :=
  (List.range n).foldl (fun acc _ => stepClosure edges acc) S

mutual
def evalCfg (S : Nat) : Cfg → Bool
  | .feat f => S.testBit f
  | .all l => evalAll S l
  | .any l => evalAny S l
  | .not c => !evalCfg S c
  | .tt => true
  | .ff => false
def evalAll (S : Nat) : List Cfg → Bool
  | [] => true
  | c :: cs => evalCfg S c && evalAll S cs
def evalAny (S : Nat) : List Cfg → Bool
  | [] => false
  | c :: cs => evalCfg S c || evalAny S cs
end

/-- a feature selection is consistent when every reference made from an included context has its
    target (optional crate or gated item) included too -/
def consistent (F : CrateFacts) (S : Nat) : Bool :=
  let C := closure F.edges F.nFeatures S
  F.refs.all (fun r => !evalCfg C r.ctx || evalCfg C r.needs)

/-- all subsets of `{0, …, n-1}` as bit masks `0 … 2ⁿ − 1` -/
def subsets (n : Nat) : List Nat := List.range (2 ^ n)

end PM.Feat
