import PasetoModel.Basic
/-! Validators: mirror of `paseto-core/src/validation.rs` (combinators) and of the built-in
    validators in `paseto-json/src/lib.rs`.  Timestamps are integer nanoseconds; `lo`/`hi` is
    jiff's representable range (its `Timestamp ± Duration` panics outside it). -/
namespace PM

structure Claims where
  iss : Option Bytes := none
  sub : Option Bytes := none
  aud : Option Bytes := none
  exp : Option Int := none
  nbf : Option Int := none
  iat : Option Int := none
  jti : Option Bytes := none
  deriving DecidableEq, Repr

/-- representable timestamp range (re-read from jiff on every run: `Extracted.tsMin/tsMax`) -/
structure TsRange where
  lo : Int
  hi : Int

/-- validator expressions as they can be built from the public combinators -/
inductive V
  | time (now : Int)                    -- `Time::valid_at(now)`
  | leeway (now : Int) (l : Nat)        -- `Time::valid_at(now).with_leeway(l)`
  | hasExp                              -- `HasExpiry`
  | sub (s : Bytes) | iss (s : Bytes) | aud (s : Bytes)   -- `ForSubject`, `FromIssuer`, `ForAudience`
  | andThen (a b : V)                   -- `a.and_then(b)`
  | all (vs : List V)                   -- `[T]` / `Vec<T>`
  | boxed (v : V) | rc (v : V) | arc (v : V)
  | mapped (v : V)                      -- `v.map(f)`, `f` a projection onto the claims
  | noValidation                        -- `NoValidation`
  deriving Repr

def claimsErr : Res Unit := .err .claims

mutual
/-- mirror of each `validate` body, including early returns (`?`) and the evaluation order of
    the `Timestamp ± Duration` expressions that can panic -/
def V.eval (r : TsRange) : V → Claims → Res Unit
  | .time now, c =>
      if (match c.exp with | some e => decide (e < now) | none => false) then claimsErr else
      if (match c.nbf with | some n => decide (now < n) | none => false) then claimsErr else .ok ()
  | .leeway now l, c =>
      match (match c.exp with
             | some e => if now - l < r.lo then Res.panic "jiff: timestamp - duration overflow"
                         else if e < now - l then claimsErr else .ok ()
             | none => .ok ()) with
      | .ok () =>
          (match c.nbf with
           | some n => if now + l > r.hi then Res.panic "jiff: timestamp + duration overflow"
                       else if now + l < n then claimsErr else .ok ()
           | none => .ok ())
      | e => e
  | .hasExp, c => if c.exp.isNone then claimsErr else .ok ()
  | .sub s, c => if c.sub ≠ some s then claimsErr else .ok ()
  | .iss s, c => if c.iss ≠ some s then claimsErr else .ok ()
  | .aud s, c => if c.aud ≠ some s then claimsErr else .ok ()
  | .andThen a b, c => match V.eval r a c with | .ok () => V.eval r b c | e => e
  | .all vs, c => V.evalAll r vs c
  | .boxed v, c => V.eval r v c
  | .rc v, c => V.eval r v c
  | .arc v, c => V.eval r v c
  | .mapped v, c => V.eval r v c
  | .noValidation, _ => .ok ()
/-- `for v in self { T::validate(v, claims)?; } Ok(())` -/
def V.evalAll (r : TsRange) : List V → Claims → Res Unit
  | [], _ => .ok ()
  | v :: vs, c => match V.eval r v c with | .ok () => V.evalAll r vs c | e => e
end

mutual
/-- the property's wording: which claims each validator accepts -/
def V.accepts : V → Claims → Bool
  | .time now, c => (match c.exp with | some e => decide (e ≥ now) | none => true) &&
                    (match c.nbf with | some n => decide (n ≤ now) | none => true)
  | .leeway now l, c => (match c.exp with | some e => decide (e ≥ now - l) | none => true) &&
                        (match c.nbf with | some n => decide (n ≤ now + l) | none => true)
  | .hasExp, c => c.exp.isSome
  | .sub s, c => decide (c.sub = some s)
  | .iss s, c => decide (c.iss = some s)
  | .aud s, c => decide (c.aud = some s)
  | .andThen a b, c => V.accepts a c && V.accepts b c
  | .all vs, c => V.acceptsAll vs c
  | .boxed v, c => V.accepts v c
  | .rc v, c => V.accepts v c
  | .arc v, c => V.accepts v c
  | .mapped v, c => V.accepts v c
  | .noValidation, _ => true
def V.acceptsAll : List V → Claims → Bool
  | [], _ => true
  | v :: vs, c => V.accepts v c && V.acceptsAll vs c
end

mutual
/-- the guard of the property: every leeway node has `now ± leeway` representable -/
def V.inRange (r : TsRange) : V → Bool
  | .leeway now l => decide (r.lo ≤ now - l) && decide (now + l ≤ r.hi)
  | .andThen a b => V.inRange r a && V.inRange r b
  | .all vs => V.inRangeAll r vs
  | .boxed v => V.inRange r v
  | .rc v => V.inRange r v
  | .arc v => V.inRange r v
  | .mapped v => V.inRange r v
  | _ => true
def V.inRangeAll (r : TsRange) : List V → Bool
  | [] => true
  | v :: vs => V.inRange r v && V.inRangeAll r vs
end

end PM
