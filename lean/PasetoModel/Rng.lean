import PasetoModel.PaserkInst
import PasetoModel.Token
/-! Randomised operations with an explicit random source.  `Src` is what the OS RNG returns to the
    successive `getrandom::fill` calls of one operation: each call either fails or yields bytes.
    Every randomised operation of the getrandom-based back ends (v1–v4) is written against it,
    mirroring the `map_err(|_| CryptoError)?` plumbing. -/
namespace PM

/-- the answers of the random source to successive draws: `none` = the source reports failure -/
abbrev Src := List (Option Bytes)

/-- one `getrandom::fill(&mut buf)` of `n` bytes: consumes one answer.
    (An exhausted script counts as failure; a well-formed script answers every draw with `n` bytes.) -/
def draw (n : Nat) (s : Src) : Res (Bytes × Src) :=
  match s with
  | some b :: rest => if b.length = n then .ok (b, rest) else .err .crypto
  | none :: _ => .err .crypto
  | [] => .err .crypto

/-- `UnsealedToken::encrypt_with_aad`: `V::nonce()?` then seal -/
def rngEncrypt (b : Backend) (k msg f a : Bytes) (s : Src) : Res Bytes :=
  (draw (cfgOf b).nonceDraw s).bind fun (n, _) =>
    sealLocal (localScheme b) (tokHdr b .localP) k (n ++ msg) f a

/-- `Key::wrap_pie`: one 32-byte nonce -/
def rngPieWrap (b : Backend) (ver hdr wk key : Bytes) (s : Src) : Res Bytes :=
  (draw 32 s).map fun (n, _) => pieWrap (pieOf b) ver hdr wk n key

/-- `Key::password_wrap_with_params`: salt first, then nonce -/
def rngPbkwWrap (b : Backend) (ver hdr pass params key : Bytes) (s : Src) : Res Bytes :=
  (draw (pbkwOf b).saltLen s).bind fun (salt, s) =>
  (draw (pbkwOf b).nonceLen s).bind fun (nonce, _) =>
    pbkwWrap (pbkwOf b) ver hdr pass salt params nonce key

/-- rejection sampling of a P-384 scalar: `loop { fill(&mut bytes)?; if valid { break } }` -/
def drawScalar (fuel : Nat) (s : Src) : Res (Bytes × Src) :=
  match fuel with
  | 0 => .err .crypto
  | f + 1 =>
    (draw 48 s).bind fun (x, s) =>
      let d := fromBe x
      if d = 0 ∨ d ≥ Prim.P384.n then drawScalar f s else .ok (x, s)

/-- ephemeral randomness of `LocalKey::seal` per version: 512 bytes (v1), 32 (v2/v4), a valid scalar (v3) -/
def drawPkeRnd (b : Backend) (s : Src) : Res (Bytes × Src) :=
  match b.version with
  | 1 => draw 512 s
  | 3 => drawScalar 64 s
  | _ => draw 32 s

def rngSeal (b : Backend) (pk key : Bytes) (s : Src) : Res Bytes :=
  (drawPkeRnd b s).bind fun (r, _) => pkeSeal (pkeOf b) pk key r

/-- `LocalKey::random` -/
def rngLocalKey (s : Src) : Res Bytes := (draw 32 s).map (·.1)

/-- `SecretKey::random`: v2/v4 seed ↦ seed ‖ public key; v3 valid scalar -/
def rngSecretKey (b : Backend) (s : Src) : Res Bytes :=
  match b.version with
  | 3 => (drawScalar 64 s).map (·.1)
  | _ => (draw 32 s).map fun (seed, _) => seed ++ edPub seed

end PM
