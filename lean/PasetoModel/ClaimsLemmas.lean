import PasetoModel.Claims
/-! helper lemmas for the C14 property theorems (kept apart from `Props/C14.lean`) -/
namespace PM.C14

theorem set_comm (a : Acc) (f g : Fld) (x y : Option FVal) (h : f ≠ g) :
    (a.set f x).set g y = (a.set g y).set f x := by
  funext k
  simp only [Acc.set]
  by_cases h1 : k = g <;> by_cases h2 : k = f <;> simp_all

/-- one step of the visitor loop (`none` = the loop returns a payload error) -/
def stepO (m : Bytes × JVal) (acc : Acc) : Option Acc :=
  match fieldOf m.1 with
  | some f => if (acc f).isSome then none else (convO f m.2).map (acc.set f)
  | none => some acc

theorem decodeGo_cons (m : Bytes × JVal) (rest : Members) (acc : Acc) :
    decodeGo (m :: rest) acc =
      match stepO m acc with | some a => decodeGo rest a | none => .err .payload := by
  obtain ⟨k, v⟩ := m
  simp only [decodeGo, stepO]
  cases fieldOf k with
  | none => rfl
  | some f =>
    simp only []
    split
    · rfl
    · cases convO f v <;> rfl

theorem stepO_none {m : Bytes × JVal} (h : fieldOf m.1 = none) (acc : Acc) : stepO m acc = some acc := by
  simp [stepO, h]
theorem stepO_some {m : Bytes × JVal} {f : Fld} (h : fieldOf m.1 = some f) (acc : Acc) :
    stepO m acc = if (acc f).isSome then none else (convO f m.2).map (acc.set f) := by
  simp [stepO, h]

/-- two adjacent members that are not the same registered claim commute -/
theorem stepO_comm (x y : Bytes × JVal) (acc : Acc)
    (h : ∀ f, fieldOf x.1 = some f → fieldOf y.1 ≠ some f) :
    (stepO x acc).bind (stepO y) = (stepO y acc).bind (stepO x) := by
  cases hx : fieldOf x.1 with
  | none =>
    cases hy : fieldOf y.1 with
    | none => simp [stepO_none hx, stepO_none hy]
    | some g =>
      simp only [stepO_none hx, stepO_some hy, Option.bind_some]
      split
      · rfl
      · cases convO g y.2 <;> simp [stepO_none hx]
  | some f =>
    cases hy : fieldOf y.1 with
    | none =>
      simp only [stepO_none hy, stepO_some hx, Option.bind_some]
      split
      · rfl
      · cases convO f x.2 <;> simp [stepO_none hy]
    | some g =>
      have hfg : f ≠ g := fun e => h f hx (by rw [hy, e])
      have hgf : g ≠ f := Ne.symm hfg
      simp only [stepO_some hx, stepO_some hy]
      cases hcx : convO f x.2 with
      | none =>
        cases hcy : convO g y.2 with
        | none => by_cases a1 : (acc f).isSome = true <;> by_cases a2 : (acc g).isSome = true <;> simp [a1, a2]
        | some vy =>
          by_cases a1 : (acc f).isSome = true <;> by_cases a2 : (acc g).isSome = true <;>
            simp [a1, a2, stepO_some hx, hcx, Acc.set, hfg]
      | some vx =>
        cases hcy : convO g y.2 with
        | none =>
          by_cases a1 : (acc f).isSome = true <;> by_cases a2 : (acc g).isSome = true <;>
            simp [a1, a2, stepO_some hy, hcy, Acc.set, hgf]
        | some vy =>
          by_cases a1 : (acc f).isSome = true <;> by_cases a2 : (acc g).isSome = true <;>
            simp [a1, a2, stepO_some hx, stepO_some hy, hcx, hcy, Acc.set, hfg, hgf]
          exact (set_comm acc f g vx vy hfg)

theorem swap_ok (x y : Bytes × JVal) (rest : Members) (acc : Acc)
    (h : ∀ f, fieldOf x.1 = some f → fieldOf y.1 ≠ some f) :
    decodeGo (x :: y :: rest) acc = decodeGo (y :: x :: rest) acc := by
  have hc := stepO_comm x y acc h
  simp only [decodeGo_cons]
  cases hx : stepO x acc <;> cases hy : stepO y acc <;> simp only [hx, hy, Option.bind_some, Option.bind_none] at hc ⊢
  · rw [← hc]
  · rw [hc]
  · rw [hc]

/-- value the final accumulator holds for a claim, in terms of the *last* member with that name:
    whenever decoding succeeds, each registered claim has the value a generic (last-wins) JSON
    parser reads for that member — including the `{"iss":null,"iss":"x"}` corner, which succeeds. -/
theorem decodeGo_lookupLast (l : Members) (acc a : Acc) (h : decodeGo l acc = .ok a) (f : Fld) :
    a f = match lookupLast l f.name with
          | some v => (convO f v).getD none
          | none => acc f := by
  induction l generalizing acc with
  | nil => simp [decodeGo] at h; simp [lookupLast, h]
  | cons m rest ih =>
    obtain ⟨k, v⟩ := m
    simp only [decodeGo] at h
    have name_inj : ∀ g : Fld, fieldOf g.name = some g := by intro g; cases g <;> decide
    have of_name : ∀ (k : Bytes) (g : Fld), fieldOf k = some g → k = g.name := by
      intro k g hk
      unfold fieldOf at hk
      repeat' split at hk
      all_goals (first | (injection hk with hk; subst hk; assumption) | (simp at hk))
    cases hf : fieldOf k with
    | none =>
      simp only [hf] at h
      have := ih acc h
      rw [this]
      simp only [lookupLast]
      cases lookupLast rest f.name with
      | some _ => rfl
      | none =>
        have : k ≠ f.name := by intro e; rw [e, name_inj] at hf; simp at hf
        simp [this]
    | some g =>
      simp only [hf] at h
      split at h
      · simp at h
      · rename_i hnone
        cases hc : convO g v with
        | none => simp [hc] at h
        | some x =>
          simp only [hc] at h
          have := ih _ h
          rw [this]
          simp only [lookupLast]
          cases lookupLast rest f.name with
          | some _ => rfl
          | none =>
            by_cases hk : k = f.name
            · have : g = f := by rw [hk, name_inj] at hf; injection hf with hf; exact hf.symm
              subst this
              simp [hk, Acc.set, hc]
            · have : f ≠ g := by intro e; subst e; exact hk (of_name k f hf)
              simp [hk, Acc.set, this]

/-- generic reading of a member: `null` or absent ↦ no claim -/
def optOfJ (f : Fld) : Option JVal → Option FVal
  | some v => (convO f v).getD none
  | none => none

/-- values produced by the field converters have the field's type -/
def typed (f : Fld) : Option FVal → Prop
  | none => True
  | some (.s _) => f.isTime = false
  | some (.t _) => f.isTime = true

theorem convO_typed (f : Fld) (v : JVal) : typed f ((convO f v).getD none) := by
  cases v <;> simp [convO, typed]
  rename_i s ts
  by_cases h : f.isTime = true
  · cases ts <;> simp [h, typed]
  · simp [h, typed]

theorem get_toClaims (a : Acc) (f : Fld) (h : typed f (a f)) : a.toClaims.get f = a f := by
  cases f <;> simp only [Acc.toClaims, Claims.get] <;>
    (cases hv : a _ with
     | none => simp [getS, getT]
     | some x => cases x <;> simp_all [typed, getS, getT, Fld.isTime])

end PM.C14
