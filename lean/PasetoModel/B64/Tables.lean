import PasetoModel.Base64
namespace PM.B64

def b (n : Nat) : UInt8 := UInt8.ofNat n
def v (n : Nat) : I16 := BitVec.ofNat 16 n

theorem dec6_enc6 : ∀ x : Fin 64, dec6 (enc6 (v x.val)) = v x.val := by decide +kernel
theorem dec6_range : ∀ x : Fin 256, dec6 (b x.val) = -1 ∨ ((dec6 (b x.val)).toNat < 64 ∧ enc6 (dec6 (b x.val)) = b x.val) := by decide +kernel
theorem e1 : ∀ a : Fin 256, (i16 (b a.val) >>> 2) = v (a.val / 4) := by decide +kernel
theorem e4 : ∀ c : Fin 256, (i16 (b c.val) &&& 63) = v (c.val % 64) := by decide +kernel
theorem j0 : ∀ x y : Fin 64, u8 ((v x.val <<< 2) ||| (sar (v y.val) 4)) = b (x.val * 4 + y.val / 16) := by decide +kernel
theorem j1 : ∀ x y : Fin 64, u8 ((v x.val <<< 4) ||| (sar (v y.val) 2)) = b ((x.val % 16) * 16 + y.val / 4) := by decide +kernel
theorem j2 : ∀ x y : Fin 64, u8 ((v x.val <<< 6) ||| (v y.val)) = b ((x.val % 4) * 64 + y.val) := by decide +kernel
end PM.B64
