import PasetoModel.B64.Canon2
namespace PM.B64
set_option linter.unusedVariables false

theorem lastBlk4_rem (s : Bytes) (h : rem4 s ≠ []) : lastBlk4 s = rem4 s := by
  fun_induction rem4 s with
  | case1 a b c d rest ih =>
    have hr : rest ≠ [] := by intro hr; subst hr; simp [rem4] at h
    obtain ⟨e, r, rfl⟩ := List.exists_cons_of_ne_nil hr
    simp only [lastBlk4]; exact ih h
  | case2 l hl =>
    match l, hl with
    | [], _ => simp [lastBlk4]
    | [_], _ => simp [lastBlk4]
    | [_, _], _ => simp [lastBlk4]
    | [_, _, _], _ => simp [lastBlk4]
    | a :: b :: c :: d :: r, hl => exact absurd rfl (hl a b c d r)

theorem lastBlk3_app (out t : Bytes) (ho : out.length % 3 = 0) (ht : t ≠ []) (hl : t.length < 3) :
    lastBlk3 (out ++ t) = t := by
  fun_induction body3 out with
  | case1 a b c rest ih =>
    have hr : rest.length % 3 = 0 := by simp at ho; omega
    have := ih hr
    obtain ⟨e, r, he⟩ := List.exists_cons_of_ne_nil (l := rest ++ t) (by simp [ht])
    simp only [List.cons_append, he, lastBlk3]
    rw [← he]; exact this
  | case2 l h =>
    match l, h with
    | [], _ =>
      match t, ht, hl with
      | [_], _, _ => simp [lastBlk3]
      | [_, _], _, _ => simp [lastBlk3]
    | [_], _ => simp at ho
    | [_, _], _ => simp at ho
    | a :: b :: c :: r, h => exact absurd rfl (h a b c r)

theorem zipEq_eq (x y : Bytes) (hl : x.length = y.length) (h : zipEq x y = true) : x = y := by
  induction x generalizing y with
  | nil => cases y <;> simp_all
  | cons a x ih =>
    cases y with
    | nil => simp at hl
    | cons b y =>
      simp only [zipEq, Bool.and_eq_true, beq_iff_eq] at h
      rw [h.1, ih y (by simpa using hl) h.2]

theorem one_ne (x y : I16) : x ||| 1 ||| y ≠ 0 := by
  intro h
  have h1 := (or_eq_zero _ _ h).1
  have h2 := (or_eq_zero _ _ h1).2
  exact absurd h2 (by decide)

theorem encode_decode (s bs : Bytes) (h : decodeVec s = some bs) : encode bs = s := by
  obtain ⟨hrem, hcanon, hlen⟩ := decChunks_canon s
  have hcr := chunks4_rem4 s
  have hlt := rem4_lt s
  unfold decodeVec at h
  generalize hdc : decChunks s = dc at h hrem hcanon hlen
  obtain ⟨out, e, rem⟩ := dc
  simp only at h hrem hcanon hlen
  subst hrem
  match hr : rem4 s, hlt with
  | [], _ =>
    rw [hr] at h hcr
    have hA : dec3 A A A A = (((0:UInt8), (0:UInt8), (0:UInt8)), (0:I16)) := by decide +kernel
    simp only [List.isEmpty_nil, Bool.true_or, if_true, List.length_nil, List.nil_append,
      List.replicate, hA] at h
    simp at h hcr
    obtain ⟨he, _, rfl⟩ := h
    have := hcanon he []
    simpa [encode, hcr] using this
  | [x], _ =>
    rw [hr] at h
    simp only [List.isEmpty_cons, List.length_cons, List.length_nil, Bool.false_or] at h
    simp [List.replicate, one_ne] at h
  | [x, y], _ =>
    rw [hr] at h hcr
    simp only [List.isEmpty_cons, List.length_cons, List.length_nil, Bool.false_or] at h
    simp [List.replicate] at h
    obtain ⟨he, hv, rfl⟩ := h
    have he0 := he.1
    unfold validateLastBlock at hv
    have hne : ¬ (s.isEmpty && (out ++ [(dec3 x y A A).1.1]).isEmpty) = true := by simp
    rw [if_neg hne, drop_lastBlk4, drop_lastBlk3, lastBlk4_rem s (by simp [hr]), hr,
      lastBlk3_app out _ hlen (by simp) (by simp)] at hv
    have := zipEq_eq _ _ (by simp [encLast]) hv
    rw [hcanon he0]
    simp only [encode, encLast] at this ⊢
    rw [this]; exact hcr
  | [x, y, z], _ =>
    rw [hr] at h hcr
    simp only [List.isEmpty_cons, List.length_cons, List.length_nil, Bool.false_or] at h
    simp [List.replicate] at h
    obtain ⟨he, hv, rfl⟩ := h
    have he0 := he.1
    unfold validateLastBlock at hv
    have hne : ¬ (s.isEmpty && (out ++ [(dec3 x y z A).1.1, (dec3 x y z A).1.2.1]).isEmpty) = true := by simp
    rw [if_neg hne, drop_lastBlk4, drop_lastBlk3, lastBlk4_rem s (by simp [hr]), hr,
      lastBlk3_app out _ hlen (by simp) (by simp)] at hv
    have := zipEq_eq _ _ (by simp [encLast]) hv
    rw [hcanon he0]
    simp only [encode, encLast] at this ⊢
    rw [this]; exact hcr

#print axioms encode_decode
end PM.B64
