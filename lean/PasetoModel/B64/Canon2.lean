import PasetoModel.B64.Canon
namespace PM.B64
set_option linter.unusedVariables false

def chunks4 : Bytes → Bytes
  | a :: b :: c :: d :: rest => a :: b :: c :: d :: chunks4 rest
  | _ => []
def rem4 : Bytes → Bytes
  | _ :: _ :: _ :: _ :: rest => rem4 rest
  | l => l

theorem chunks4_rem4 (l : Bytes) : chunks4 l ++ rem4 l = l := by
  fun_induction chunks4 l <;> simp_all [rem4]

theorem rem4_lt (l : Bytes) : (rem4 l).length < 4 := by
  fun_induction rem4 l with
  | case1 _ _ _ _ rest ih => exact ih
  | case2 l h =>
    match l, h with
    | [], _ => simp
    | [_], _ => simp
    | [_, _], _ => simp
    | [_, _, _], _ => simp
    | a :: b :: c :: d :: r, h => exact absurd rfl (h a b c d r)

theorem or_eq_zero (x y : I16) (h : x ||| y = 0) : x = 0 ∧ y = 0 := by
  have := BitVec.or_eq_zero_iff.mp h
  exact this

/-- the chunk loop: if no error was accumulated, the consumed prefix is the encoding of the output -/
theorem decChunks_canon (s : Bytes) :
    (decChunks s).2.2 = rem4 s ∧
    ((decChunks s).2.1 = 0 → ∀ t, encode ((decChunks s).1 ++ t) = chunks4 s ++ encode t) ∧
    (decChunks s).1.length % 3 = 0 := by
  fun_induction decChunks s with
  | case1 s0 s1 s2 s3 rest a b c e hd out e' rem hr ih =>
    obtain ⟨ih1, ih2, ih3⟩ := ih
    rw [hr] at ih1 ih2 ih3
    refine ⟨by simpa [rem4] using ih1, ?_, by simp at ih3 ⊢; omega⟩
    intro he t
    obtain ⟨he1, he2⟩ := or_eq_zero _ _ he
    have hc := dec3_ok s0 s1 s2 s3 a b c (by rw [hd, he1])
    simp only [List.cons_append, encode, hc, chunks4]
    rw [ih2 he2 t]
  | case2 s h =>
    match s, h with
    | [], _ => simp [rem4, chunks4]
    | [_], _ => simp [rem4, chunks4]
    | [_, _], _ => simp [rem4, chunks4]
    | [_, _, _], _ => simp [rem4, chunks4]
    | a :: b :: c :: d :: r, h => exact absurd rfl (h a b c d r)

end PM.B64
