import PasetoModel.B64.RoundTrip
namespace PM.B64
set_option linter.unusedVariables false

theorem errAll : (sar (-1 : I16) 8 &&& 1) = 1 := by decide +kernel

theorem neg1_allOnes : (-1 : I16) = BitVec.allOnes 16 := by decide
theorem or_neg1_l (x : I16) : (-1 : I16) ||| x = -1 := by
  rw [neg1_allOnes]; exact BitVec.allOnes_or
theorem or_neg1_r (x : I16) : x ||| (-1 : I16) = -1 := by
  rw [neg1_allOnes]; exact BitVec.or_allOnes

theorem b_toNat' (n : Nat) (h : n < 256) : (b n).toNat = n := by
  simp [b, UInt8.toNat_ofNat', Nat.mod_eq_of_lt h]

/-- a full 4-character block that decodes without error is the encoding of what it decodes to -/
theorem dec3_ok (s0 s1 s2 s3 a c d : UInt8) (h : dec3 s0 s1 s2 s3 = ((a, c, d), 0)) :
    enc3 a c d = (s0, s1, s2, s3) := by
  have r0 := dec6_range ⟨s0.toNat, s0.toNat_lt⟩
  have r1 := dec6_range ⟨s1.toNat, s1.toNat_lt⟩
  have r2 := dec6_range ⟨s2.toNat, s2.toNat_lt⟩
  have r3 := dec6_range ⟨s3.toNat, s3.toNat_lt⟩
  simp only [b_toNat] at r0 r1 r2 r3
  simp only [dec3, Prod.mk.injEq] at h
  obtain ⟨⟨ha, hc, hd⟩, he⟩ := h
  -- none of the sextets is -1, otherwise the error bit is set
  have hne : dec6 s0 ≠ -1 ∧ dec6 s1 ≠ -1 ∧ dec6 s2 ≠ -1 ∧ dec6 s3 ≠ -1 := by
    refine ⟨?_, ?_, ?_, ?_⟩ <;> intro hx <;> rw [hx] at he <;>
      simp only [or_neg1_l, or_neg1_r, errAll] at he <;> exact absurd he (by decide)
  obtain ⟨n0, n1, n2, n3⟩ := hne
  rcases r0 with r0 | ⟨l0, q0⟩; · exact absurd r0 n0
  rcases r1 with r1 | ⟨l1, q1⟩; · exact absurd r1 n1
  rcases r2 with r2 | ⟨l2, q2⟩; · exact absurd r2 n2
  rcases r3 with r3 | ⟨l3, q3⟩; · exact absurd r3 n3
  have v0 := v_of_lt _ l0; have v1 := v_of_lt _ l1; have v2 := v_of_lt _ l2; have v3 := v_of_lt _ l3
  rw [v0, v1] at ha; rw [v1, v2] at hc; rw [v2, v3] at hd
  rw [j0 ⟨_, l0⟩ ⟨_, l1⟩] at ha
  rw [j1 ⟨_, l1⟩ ⟨_, l2⟩] at hc
  rw [j2 ⟨_, l2⟩ ⟨_, l3⟩] at hd
  -- byte values
  have ta : a.toNat = (dec6 s0).toNat * 4 + (dec6 s1).toNat / 16 := by
    rw [← ha]; exact b_toNat' _ (by omega)
  have tc : c.toNat = (dec6 s1).toNat % 16 * 16 + (dec6 s2).toNat / 4 := by
    rw [← hc]; exact b_toNat' _ (by omega)
  have td : d.toNat = (dec6 s2).toNat % 4 * 64 + (dec6 s3).toNat := by
    rw [← hd]; exact b_toNat' _ (by omega)
  have h1 := e1 ⟨a.toNat, a.toNat_lt⟩
  have h2 := e2 ⟨a.toNat, a.toNat_lt⟩ ⟨c.toNat, c.toNat_lt⟩
  have h3 := e3 ⟨c.toNat, c.toNat_lt⟩ ⟨d.toNat, d.toNat_lt⟩
  have h4 := e4 ⟨d.toNat, d.toNat_lt⟩
  simp only [b_toNat] at h1 h2 h3 h4
  have i0 : a.toNat / 4 = (dec6 s0).toNat := by omega
  have i1 : a.toNat % 4 * 16 + c.toNat / 16 = (dec6 s1).toNat := by omega
  have i2 : c.toNat % 16 * 4 + d.toNat / 64 = (dec6 s2).toNat := by omega
  have i3 : d.toNat % 64 = (dec6 s3).toNat := by omega
  rw [i0] at h1; rw [i1] at h2; rw [i2] at h3; rw [i3] at h4
  simp only [enc3, h1, h2, h3, h4, ← v0, ← v1, ← v2, ← v3, q0, q1, q2, q3]

#print axioms dec3_ok
end PM.B64
