import PasetoModel.B64.Tables
namespace PM.B64

set_option maxRecDepth 100000 in
theorem e2 : ∀ a c : Fin 256, (((i16 (b a.val) <<< 4) ||| (i16 (b c.val) >>> 4)) &&& 63) = v ((a.val % 4) * 16 + c.val / 16) := by decide +kernel
set_option maxRecDepth 100000 in
theorem e3 : ∀ a c : Fin 256, (((i16 (b a.val) <<< 2) ||| (i16 (b c.val) >>> 6)) &&& 63) = v ((a.val % 16) * 4 + c.val / 64) := by decide +kernel
theorem or_lt : ∀ x y : Fin 64, (v x.val ||| v y.val).toNat < 64 := by decide +kernel
theorem err0 : ∀ z : Fin 64, (sar (v z.val) 8 &&& 1) = 0 := by decide +kernel

theorem b_toNat (a : UInt8) : b a.toNat = a := by simp [b]

theorem v_of_lt (w : I16) (h : w.toNat < 64) : w = v w.toNat := by simp [v]

theorem dec3_enc3 (a c d : UInt8) :
    dec3 (enc3 a c d).1 (enc3 a c d).2.1 (enc3 a c d).2.2.1 (enc3 a c d).2.2.2 = ((a, c, d), 0) := by
  have ha := a.toNat_lt; have hc := c.toNat_lt; have hd := d.toNat_lt
  have h1 := e1 ⟨a.toNat, ha⟩
  have h2 := e2 ⟨a.toNat, ha⟩ ⟨c.toNat, hc⟩
  have h3 := e3 ⟨c.toNat, hc⟩ ⟨d.toNat, hd⟩
  have h4 := e4 ⟨d.toNat, hd⟩
  simp only [b_toNat] at h1 h2 h3 h4
  simp only [enc3, dec3, h1, h2, h3, h4]
  have n0 : a.toNat / 4 < 64 := by omega
  have n1 : (a.toNat % 4) * 16 + c.toNat / 16 < 64 := by omega
  have n2 : (c.toNat % 16) * 4 + d.toNat / 64 < 64 := by omega
  have n3 : d.toNat % 64 < 64 := by omega
  rw [dec6_enc6 ⟨_, n0⟩, dec6_enc6 ⟨_, n1⟩, dec6_enc6 ⟨_, n2⟩, dec6_enc6 ⟨_, n3⟩]
  rw [j0 ⟨_, n0⟩ ⟨_, n1⟩, j1 ⟨_, n1⟩ ⟨_, n2⟩, j2 ⟨_, n2⟩ ⟨_, n3⟩]
  have o1 := or_lt ⟨_, n0⟩ ⟨_, n1⟩
  rw [v_of_lt _ o1]
  have o2 := or_lt ⟨_, o1⟩ ⟨_, n2⟩
  rw [v_of_lt _ o2]
  have o3 := or_lt ⟨_, o2⟩ ⟨_, n3⟩
  rw [v_of_lt _ o3, err0 ⟨_, o3⟩]
  have r0 : a.toNat / 4 * 4 + (a.toNat % 4 * 16 + c.toNat / 16) / 16 = a.toNat := by omega
  have r1 : (a.toNat % 4 * 16 + c.toNat / 16) % 16 * 16 + (c.toNat % 16 * 4 + d.toNat / 64) / 4 = c.toNat := by omega
  have r2 : (c.toNat % 16 * 4 + d.toNat / 64) % 4 * 64 + d.toNat % 64 = d.toNat := by omega
  simp only [r0, r1, r2, b_toNat]
end PM.B64
