import PasetoModel.B64.Block
namespace PM.B64

def body3 : Bytes → Bytes
  | a :: b :: c :: rest => a :: b :: c :: body3 rest
  | _ => []
def tail3 : Bytes → Bytes
  | _ :: _ :: _ :: rest => tail3 rest
  | l => l

theorem body3_tail3 (l : Bytes) : body3 l ++ tail3 l = l := by
  fun_induction body3 l <;> simp_all [tail3]

theorem tail3_cases (l : Bytes) : tail3 l = [] ∨ (∃ a, tail3 l = [a]) ∨ (∃ a b, tail3 l = [a, b]) := by
  fun_induction tail3 l
  · assumption
  · rename_i l h
    match l, h with
    | [], _ => simp
    | [a], _ => simp
    | [a, b], _ => simp
    | a :: b :: c :: r, h => exact absurd rfl (h a b c r)

theorem enc6_zero : enc6 0 = A := by decide +kernel

theorem decChunks_encode (bs : Bytes) : decChunks (encode bs) = (body3 bs, 0, encode (tail3 bs)) := by
  fun_induction encode bs with
  | case1 a b c rest w x y z h ih =>
    have := dec3_enc3 a b c
    rw [h] at this
    simp only [decChunks, this, ih, body3, tail3]
    simp
  | case2 a b w x y z h => simp [decChunks, body3, tail3, encode, h]
  | case3 a w x y z h => simp [decChunks, body3, tail3, encode, h]
  | case4 => simp [decChunks, body3, tail3, encode]

end PM.B64

namespace PM.B64

/-- structural "last block" views used to discharge the index arithmetic of `validate_last_block` -/
def lastBlk3 : Bytes → Bytes
  | a :: b :: c :: d :: rest => lastBlk3 (d :: rest)
  | l => l
def lastBlk4 : Bytes → Bytes
  | a :: b :: c :: d :: e :: rest => lastBlk4 (e :: rest)
  | l => l

theorem drop_lastBlk3 (l : Bytes) : l.drop (lastBlockStart l.length 3) = lastBlk3 l := by
  fun_induction lastBlk3 l with
  | case1 a b c d rest ih =>
    have e : lastBlockStart (a :: b :: c :: d :: rest).length 3 = 3 + lastBlockStart (d :: rest).length 3 := by
      simp only [lastBlockStart, List.length_cons]; omega
    rw [e, ← List.drop_drop]
    simpa using ih
  | case2 l h =>
    have : l.length ≤ 3 := by
      match l, h with
      | [], _ => simp
      | [_], _ => simp
      | [_, _], _ => simp
      | [_, _, _], _ => simp
      | a :: b :: c :: d :: r, h => exact absurd rfl (h a b c d r)
    have e : lastBlockStart l.length 3 = 0 := by simp only [lastBlockStart]; omega
    simp [e]

theorem drop_lastBlk4 (l : Bytes) : l.drop (lastBlockStart l.length 4) = lastBlk4 l := by
  fun_induction lastBlk4 l with
  | case1 a b c d e rest ih =>
    have h : lastBlockStart (a :: b :: c :: d :: e :: rest).length 4 = 4 + lastBlockStart (e :: rest).length 4 := by
      simp only [lastBlockStart, List.length_cons]; omega
    rw [h, ← List.drop_drop]
    simpa using ih
  | case2 l h =>
    have : l.length ≤ 4 := by
      match l, h with
      | [], _ => simp
      | [_], _ => simp
      | [_, _], _ => simp
      | [_, _, _], _ => simp
      | [_, _, _, _], _ => simp
      | a :: b :: c :: d :: e :: r, h => exact absurd rfl (h a b c d e r)
    have e : lastBlockStart l.length 4 = 0 := by simp only [lastBlockStart]; omega
    simp [e]

theorem zipEq_self (l : Bytes) : zipEq l l = true := by
  induction l with
  | nil => rfl
  | cons a l ih => simp [zipEq, ih]

theorem lastBlk4_encode (bs : Bytes) : lastBlk4 (encode bs) = encLast (lastBlk3 bs) := by
  fun_induction lastBlk3 bs with
  | case1 a b c d rest ih =>
    -- encode (a::b::c::d::rest) = 4 chars ++ encode (d::rest), and encode (d::rest) is nonempty
    have hne : ∃ e r, encode (d :: rest) = e :: r := by
      match rest with
      | [] => simp [encode]
      | [x] => simp [encode]
      | x :: y :: r => simp [encode]
    obtain ⟨e, r, he⟩ := hne
    simp only [encode, he, lastBlk4]
    rw [← he]; exact ih
  | case2 l h =>
    match l, h with
    | [], _ => simp [encode, lastBlk4, encLast]
    | [a], _ => simp [encode, lastBlk4, encLast]
    | [a, b], _ => simp [encode, lastBlk4, encLast]
    | [a, b, c], _ => simp [encode, lastBlk4, encLast]
    | a :: b :: c :: d :: r, h => exact absurd rfl (h a b c d r)

theorem validate_encode (bs : Bytes) : validateLastBlock (encode bs) bs = true := by
  unfold validateLastBlock
  split
  · rfl
  · rw [drop_lastBlk4, drop_lastBlk3, lastBlk4_encode]; exact zipEq_self _

end PM.B64

namespace PM.B64
set_option linter.unusedVariables false

theorem enc3_a00 (a : UInt8) : (enc3 a 0 0).2.2.1 = A ∧ (enc3 a 0 0).2.2.2 = A := by
  have h3 := e3 ⟨0, by decide⟩ ⟨0, by decide⟩
  have h4 := e4 ⟨0, by decide⟩
  simp only [b] at h3 h4
  have z : UInt8.ofNat 0 = 0 := rfl
  rw [z] at h3 h4
  simp only [enc3, h3, h4]
  exact ⟨enc6_zero, enc6_zero⟩

theorem enc3_ab0 (a c : UInt8) : (enc3 a c 0).2.2.2 = A := by
  have h4 := e4 ⟨0, by decide⟩
  simp only [b] at h4
  have z : UInt8.ofNat 0 = 0 := rfl
  rw [z] at h4
  simp only [enc3, h4]
  exact enc6_zero

theorem decode_encode (bs : Bytes) : decodeVec (encode bs) = some bs := by
  have hv := validate_encode bs
  have hb := body3_tail3 bs
  unfold decodeVec
  rw [decChunks_encode]
  rcases tail3_cases bs with h | ⟨a, h⟩ | ⟨a, c, h⟩
  · -- no remainder
    rw [h] at hb ⊢
    have hA : dec3 A A A A = (((0:UInt8), (0:UInt8), (0:UInt8)), (0:I16)) := by decide +kernel
    simp only [encode, List.isEmpty_nil, Bool.true_or, if_true, List.length_nil, List.nil_append,
      List.replicate, hA]
    simp at hb
    simp [hb, hv]
  · rw [h] at hb ⊢
    have hd := dec3_enc3 a 0 0
    obtain ⟨h1, h2⟩ := enc3_a00 a
    rw [h1, h2] at hd
    simp only [encode]
    simp [List.replicate, hd, hb, hv]
  · rw [h] at hb ⊢
    have hd := dec3_enc3 a c 0
    rw [enc3_ab0 a c] at hd
    simp only [encode]
    simp [List.replicate, hd, hb, hv]

#print axioms decode_encode
end PM.B64
