import PasetoModel.B64.Canon3
/-! Alphabet facts: what `encode` can output and what `decodeVec` can accept. -/
namespace PM.B64

/-- the URL-safe base64 alphabet, `A–Z a–z 0–9 - _` -/
def alphabet : List UInt8 :=
  [65,66,67,68,69,70,71,72,73,74,75,76,77,78,79,80,81,82,83,84,85,86,87,88,89,90,
   97,98,99,100,101,102,103,104,105,106,107,108,109,110,111,112,113,114,115,116,117,118,119,120,121,122,
   48,49,50,51,52,53,54,55,56,57,45,95]

/-- specification of `decode_6bits`: index in the alphabet, or -1 -/
def specDec6 (c : UInt8) : I16 :=
  match alphabet.idxOf? c with
  | some i => BitVec.ofNat 16 i
  | none => -1

theorem alphabet_length : alphabet.length = 64 := by decide

theorem enc6_table : ∀ x : Fin 64, alphabet[x.val]? = some (enc6 (v x.val)) := by decide +kernel
theorem dec6_table : ∀ x : Fin 256, dec6 (b x.val) = specDec6 (b x.val) := by decide +kernel

theorem enc6_mem (n : Nat) (h : n < 64) : enc6 (v n) ∈ alphabet := by
  have := enc6_table ⟨n, h⟩
  exact List.mem_of_getElem? this

theorem enc3_mem (a c d : UInt8) :
    (enc3 a c d).1 ∈ alphabet ∧ (enc3 a c d).2.1 ∈ alphabet ∧ (enc3 a c d).2.2.1 ∈ alphabet ∧
      (enc3 a c d).2.2.2 ∈ alphabet := by
  have ha := a.toNat_lt; have hc := c.toNat_lt; have hd := d.toNat_lt
  have h1 := e1 ⟨a.toNat, ha⟩
  have h2 := e2 ⟨a.toNat, ha⟩ ⟨c.toNat, hc⟩
  have h3 := e3 ⟨c.toNat, hc⟩ ⟨d.toNat, hd⟩
  have h4 := e4 ⟨d.toNat, hd⟩
  simp only [b_toNat] at h1 h2 h3 h4
  simp only [enc3, h1, h2, h3, h4]
  exact ⟨enc6_mem _ (by omega), enc6_mem _ (by omega), enc6_mem _ (by omega), enc6_mem _ (by omega)⟩

/-- everything `encode` outputs is in the alphabet -/
theorem encode_mem (bs : Bytes) : ∀ ch ∈ encode bs, ch ∈ alphabet := by
  fun_induction encode bs with
  | case1 a b c rest w x y z h ih =>
    have := enc3_mem a b c; rw [h] at this
    intro ch hch
    simp only [List.mem_cons] at hch
    rcases hch with rfl | rfl | rfl | rfl | hch
    · exact this.1
    · exact this.2.1
    · exact this.2.2.1
    · exact this.2.2.2
    · exact ih ch hch
  | case2 a b w x y z h =>
    have := enc3_mem a b 0; rw [h] at this
    intro ch hch
    simp only [List.mem_cons, List.not_mem_nil, or_false] at hch
    rcases hch with rfl | rfl | rfl
    · exact this.1
    · exact this.2.1
    · exact this.2.2.1
  | case3 a w x y z h =>
    have := enc3_mem a 0 0; rw [h] at this
    intro ch hch
    simp only [List.mem_cons, List.not_mem_nil, or_false] at hch
    rcases hch with rfl | rfl
    · exact this.1
    · exact this.2.1
  | case4 => simp

theorem dot_not_alpha : (46 : UInt8) ∉ alphabet := by decide
theorem eq_not_alpha : (61 : UInt8) ∉ alphabet := by decide
theorem plus_not_alpha : (43 : UInt8) ∉ alphabet := by decide
theorem slash_not_alpha : (47 : UInt8) ∉ alphabet := by decide
theorem space_not_alpha : (32 : UInt8) ∉ alphabet := by decide

theorem encode_length (bs : Bytes) : (encode bs).length = (4 * bs.length + 2) / 3 := by
  fun_induction encode bs with
  | case1 a b c rest w x y z h ih => simp only [List.length_cons, ih]; omega
  | case2 => simp
  | case3 => simp
  | case4 => simp

theorem decodedLen_encode (bs : Bytes) : decodedLen (encode bs).length = bs.length := by
  rw [encode_length]; simp only [decodedLen]; omega

end PM.B64
