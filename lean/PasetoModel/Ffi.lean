import PasetoModel.Basic
/-! Ownership discipline of the aws-lc pointer wrappers (`paseto-v3-aws-lc/src/lc/{ptr,mod}.rs`).
    Each FFI-using function is transcribed as a straight-line list of actions; a fallible action
    may fail, which is an early return (`?` / `return Err`).  Leaving the function — normally or
    early — drops the RAII wrappers still in scope (`LcPtr`: always frees; `DetachableLcPtr`: frees
    unless detached).  C-side ownership transfer (`ECDSA_SIG_set0`) makes the receiver free the
    given objects when it is freed.  The checker decides, for every possible failure point, that
    nothing is freed twice, nothing is used after being freed and nothing allocated is leaked. -/
namespace PM.Ffi

inductive Act
  /-- `LcPtr::new(ffi_alloc())?` (detachable = `DetachableLcPtr::new`): allocates resource `r` -/
  | alloc (r : Nat) (detachable : Bool)
  /-- FFI call borrowing the resources `uses`; `fallible`: a failure status is turned into `Err` -/
  | call (uses : List Nat) (fallible : Bool)
  /-- C-side ownership transfer on success (e.g. `ECDSA_SIG_set0(into, r, s)`) -/
  | give (rs : List Nat) (into : Nat)
  /-- `DetachableLcPtr::detach`: the wrapper will no longer free `r` (also `mem::forget`, `ManuallyDrop`) -/
  | detach (r : Nat)
  /-- an aws-lc call leaves a new object in a raw pointer (return value or out-parameter): allocated, no wrapper yet -/
  | allocRaw (r : Nat)
  /-- `LcPtr::new(raw)` / `DetachableLcPtr::new(raw)` on an already allocated raw pointer: a wrapper now owns `r` -/
  | adopt (r : Nat) (detachable : Bool)
  /-- a direct call of an aws-lc release function on `r` -/
  | rawFree (r : Nat)
  /-- `drop(x)` of a wrapper before the end of the function -/
  | dropNow (r : Nat)
  deriving Repr

structure Fn where
  name : String
  /-- resources borrowed from `&self` / arguments: live throughout, never freed here -/
  borrowed : List Nat
  body : List Act
  /-- resources owned by the returned value on success -/
  returns : List Nat

structure St where
  live : List Nat := []                 -- allocated, not yet freed
  scope : List (Nat × Bool) := []       -- wrappers in scope, newest first: (resource, still owns it)
  children : List (Nat × Nat) := []     -- (child, parent): parent's free frees child
  frees : List Nat := []                -- every free performed, in order
  bad : List String := []               -- violations found
  deriving Repr

/-- record the release of `r` (a second release of the same object is a violation) -/
def St.release (s : St) (r : Nat) : St :=
  { s with bad := if s.frees.contains r then s!"double free of {r}" :: s.bad else s.bad,
           frees := r :: s.frees, live := s.live.erase r }

def St.free (s : St) (fuel : Nat) (r : Nat) : St :=
  match fuel with
  | 0 => s
  | f + 1 =>
    let s := s.release r
    -- freeing a parent frees the objects whose ownership it took
    (s.children.filter (fun c => c.2 == r)).foldl (fun s c => s.free f c.1) s

/-- drop every wrapper in scope (newest first) except those owning a returned resource -/
def St.dropScope (s : St) (keep : List Nat) : St :=
  s.scope.foldl (fun s (w : Nat × Bool) => if w.2 && !keep.contains w.1 then s.free 8 w.1 else s) s

def step (s : St) (borrowed : List Nat) : Act → St
  | .alloc r d => { s with live := r :: s.live, scope := (r, true) :: s.scope }
  | .call uses _ =>
    uses.foldl (fun s u => if s.live.contains u || borrowed.contains u then s
                           else { s with bad := s!"use of {u} after free / before allocation" :: s.bad }) s
  | .give rs into => { s with children := rs.map (fun r => (r, into)) ++ s.children }
  | .detach r => { s with scope := s.scope.map (fun w => if w.1 == r then (w.1, false) else w) }
  | .allocRaw r => { s with live := r :: s.live }
  | .adopt r _ =>
    if s.live.contains r then { s with scope := (r, true) :: s.scope }
    else { s with bad := s!"wrapper adopts {r}, which is not a live object" :: s.bad }
  | .rawFree r => s.free 8 r
  | .dropNow r =>
    if s.scope.any (fun w => w.1 == r && w.2) then
      let s := s.free 8 r
      { s with scope := s.scope.map (fun w => if w.1 == r then (w.1, false) else w) }
    else s

def fallible : Act → Bool
  | .alloc _ _ => true          -- allocation returning NULL
  | .call _ f => f
  | .give _ _ => true           -- the transferring call can fail, in which case nothing is transferred
  | .detach _ => false
  | .allocRaw _ => true         -- the allocating call can fail, in which case nothing was allocated
  | .adopt _ _ => false         -- `new` fails only on NULL; an allocated object is not NULL
  | .rawFree _ => false
  | .dropNow _ => false

/-- execute the actions; stop *before* the effect of fallible step number `failAt` (`none`: no failure).
    Returns the state and whether the end of the body was reached. -/
def runGo (borrowed : List Nat) (failAt : Option Nat) (acts : List Act) (idx : Nat) (s : St) : St × Bool :=
  match acts with
  | [] => (s, true)
  | a :: rest =>
    if fallible a && failAt == some idx then (s, false)     -- early return before the effect
    else runGo borrowed failAt rest (idx + 1) (step s borrowed a)

/-- leaving the function: drop the wrappers in scope, then check what is left -/
def finish (f : Fn) (s : St) (ok : Bool) : St :=
  let s := s.dropScope (if ok then f.returns else [])
  -- leak check: everything allocated is freed, or (on success) owned by the return value, directly or through a parent
  let owned (r : Nat) : Bool := ok && (f.returns.contains r || s.children.any (fun c => c.1 == r && f.returns.contains c.2))
  let leaks := s.live.filter (fun r => !owned r)
  -- the returned value must not own an object that was already freed (it would be freed again later)
  let dangling := if ok then (s.children.filter (fun c => f.returns.contains c.2 && s.frees.contains c.1)).map (·.1) else []
  -- nor may the returned object itself have been released
  let freedRet := if ok then f.returns.filter (fun r => s.frees.contains r) else []
  { s with bad := leaks.map (fun r => s!"leak of {r}") ++ dangling.map (fun r => s!"returned value owns freed object {r}") ++
                  freedRet.map (fun r => s!"returned object {r} was already freed") ++ s.bad }

/-- run with a failure at fallible step number `failAt` (`none`: no failure) -/
def run (f : Fn) (failAt : Option Nat) : St :=
  finish f (runGo f.borrowed failAt f.body 0 {}).1 (runGo f.borrowed failAt f.body 0 {}).2

def Fn.ok (f : Fn) : Bool :=
  ((none :: (List.range f.body.length).map some).all (fun fa => (run f fa).bad.isEmpty))

/-! ### the functions of lc/mod.rs (resource numbers are local names) -/
-- 0 = self / argument key (borrowed)

def signingKeyFromSec1 : Fn :=
  { name := "SigningKey::from_sec1_bytes", borrowed := [],
    body := [.alloc 1 false,               -- bn  = LcPtr::new(BN_bin2bn(..))
             .alloc 2 false,               -- pk  = LcPtr::new(EC_POINT_new(g))
             .call [2, 1] true,            -- EC_POINT_mul(g, pk, bn, ..)
             .alloc 3 false,               -- key = LcPtr::new(EC_KEY_new())
             .call [3] true,               -- EC_KEY_set_group
             .call [3, 1] true,            -- EC_KEY_set_private_key (copies)
             .call [3, 2] true],           -- EC_KEY_set_public_key (copies)
    returns := [3] }

def signatureFromBytes : Fn :=
  { name := "Signature::from_bytes", borrowed := [],
    body := [.alloc 1 true,                -- r = DetachableLcPtr::new(BN_bin2bn(..))
             .alloc 2 true,                -- s
             .alloc 3 false,               -- sig = LcPtr::new(ECDSA_SIG_new())
             .give [1, 2] 3,               -- ECDSA_SIG_set0(sig, r, s): takes ownership on success
             .detach 1, .detach 2],
    returns := [3] }

def signingKeySign : Fn :=
  { name := "SigningKey::sign", borrowed := [0],
    body := [.call [0] true,               -- ECDSA_size
             .call [0] true,               -- ECDSA_sign into a stack buffer
             .alloc 1 false],              -- sig = LcPtr::new(ECDSA_SIG_from_bytes(..))
    returns := [1] }

def verifyingKeyVerify : Fn :=
  { name := "VerifyingKey::verify", borrowed := [0, 9],   -- self.key, signature.sig
    body := [.call [9] true,               -- ECDSA_SIG_to_bytes (allocates the DER buffer …)
             .alloc 1 false,               -- … adopted by LcPtr::new(sig)
             .call [1, 0] true],           -- ECDSA_verify
    returns := [] }

def verifyingKeyFromSec1 : Fn :=
  { name := "VerifyingKey::from_sec1_bytes", borrowed := [],
    body := [.alloc 1 false,               -- p = LcPtr::new(EC_POINT_new(g))
             .call [1] true,               -- EC_POINT_oct2point
             .call [1] true,               -- EC_POINT_is_at_infinity (reject)
             .alloc 2 false,               -- from_point: key = LcPtr::new(EC_KEY_new())
             .call [2] true,               -- EC_KEY_set_group
             .call [2, 1] true],           -- EC_KEY_set_public_key (copies)
    returns := [2] }

def signingKeyClone : Fn :=
  { name := "SigningKey::clone", borrowed := [0],
    body := [.call [0] false,              -- EC_KEY_get0_public_key / get0_private_key (borrowed views)
             .alloc 1 false,               -- key = LcPtr::new(EC_KEY_new()).unwrap()
             .call [1] false, .call [1, 0] false, .call [1, 0] false],   -- set_group / set_private_key / set_public_key (asserts)
    returns := [1] }

def verifyingKeyClone : Fn :=
  { name := "VerifyingKey::clone", borrowed := [0],
    body := [.call [0] false, .alloc 1 false, .call [1] true, .call [1, 0] true],
    returns := [1] }

def diffieHellman : Fn :=
  { name := "SigningKey::diffie_hellman", borrowed := [0, 9],
    body := [.call [9] false, .call [9, 0] true], returns := [] }

def appendToVec : Fn :=
  { name := "Signature::append_to_vec", borrowed := [9],
    body := [.call [9] false,              -- ECDSA_SIG_get0: borrowed r, s
             .call [9] true,               -- BN_num_bytes checks
             .call [9] true, .call [9] true],   -- BN_bn2bin_padded ×2
    returns := [] }

def allFns : List Fn :=
  [signingKeyFromSec1, signatureFromBytes, signingKeySign, verifyingKeyVerify, verifyingKeyFromSec1,
   signingKeyClone, verifyingKeyClone, diffieHellman, appendToVec]

/-! ### `append_to_vec`: the unsafe `set_len` contract -/

structure VecSt where
  len : Nat
  cap : Nat
  /-- initialised prefix beyond `len` (bytes written into spare capacity) -/
  written : List (Nat × Nat) := []      -- half-open ranges
  deriving Repr

/-- `out.reserve(96)`; two writes of exactly 48 bytes at `len` and `len + 48` (each may fail);
    `set_len(len + 96)` only after both succeeded -/
def appendToVecModel (v : VecSt) (ok1 ok2 : Bool) : Option VecSt × Bool :=
  let v := { v with cap := max v.cap (v.len + 96) }
  if !ok1 then (some v, true) else
  let v := { v with written := (v.len, v.len + 48) :: v.written }
  if !ok2 then (some v, true) else
  let v := { v with written := (v.len + 48, v.len + 96) :: v.written }
  -- set_len: sound iff new_len ≤ cap and [len, new_len) is initialised
  let sound := decide (v.len + 96 ≤ v.cap) &&
    v.written.contains (v.len, v.len + 48) && v.written.contains (v.len + 48, v.len + 96)
  (some { v with len := v.len + 96 }, sound)

end PM.Ffi
