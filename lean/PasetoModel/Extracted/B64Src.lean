import PasetoModel.Base64
/-! GENERATED on every run by tools/b64scan.py from /repo's paseto-core/src/base64.rs. Do not edit. -/
namespace PM.Extracted.B64Src
open PM.B64
class ToI16 (α : Type) where toI16 : α → I16
instance : ToI16 UInt8 := ⟨i16⟩
instance : ToI16 I16 := ⟨id⟩
class ToU8 (α : Type) where toU8 : α → UInt8
instance : ToU8 I16 := ⟨u8⟩
instance : ToU8 UInt8 := ⟨id⟩
open ToI16 ToU8
/-- `decode_6bits`, translated from the source -/
def decode_6bits (src : UInt8) : I16 :=
  let ret : I16 := (-1)
  let ret := ret + (((sar (((((((toI16 (65 : UInt8)) - 1)) - (toI16 src))) &&& (((toI16 src) - (((toI16 (90 : UInt8)) + 1)))))) 8)) &&& (((toI16 src) + (-64))))
  let ret := ret + (((sar (((((((toI16 (97 : UInt8)) - 1)) - (toI16 src))) &&& (((toI16 src) - (((toI16 (122 : UInt8)) + 1)))))) 8)) &&& (((toI16 src) + (-70))))
  let ret := ret + (((sar (((((((toI16 (48 : UInt8)) - 1)) - (toI16 src))) &&& (((toI16 src) - (((toI16 (57 : UInt8)) + 1)))))) 8)) &&& (((toI16 src) + 5)))
  let ret := ret + (((sar (((((((toI16 (45 : UInt8)) - 1)) - (toI16 src))) &&& (((toI16 src) - (((toI16 (45 : UInt8)) + 1)))))) 8)) &&& 63)
  let ret := ret + (((sar (((((((toI16 (95 : UInt8)) - 1)) - (toI16 src))) &&& (((toI16 src) - (((toI16 (95 : UInt8)) + 1)))))) 8)) &&& 64)
  ret
def available_decode_6bits : Bool := true
/-- `encode_6bits`, translated from the source -/
def encode_6bits (src : I16) : UInt8 :=
  let diff := (src + (toI16 (65 : UInt8)))
  let diff := diff + (((sar ((25 - src)) 8)) &&& 6)
  let diff := diff + (((sar ((51 - src)) 8)) &&& (-75))
  let diff := diff + (((sar ((61 - src)) 8)) &&& (-(((toI16 (45 : UInt8)) - 32))))
  let diff := diff + (((sar ((62 - src)) 8)) &&& ((((toI16 (95 : UInt8)) - (toI16 (45 : UInt8))) - 1)))
  (toU8 diff)
def available_encode_6bits : Bool := true
/-- `decoded_len`, translated from the source -/
def decoded_len (input_len : Nat) : Nat :=
  let k := (input_len / 4)
  let l := (input_len - (4 * k))
  ((3 * k) + (((3 * l)) / 4))
def available_decoded_len : Bool := true
end PM.Extracted.B64Src
