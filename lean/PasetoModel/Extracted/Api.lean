/-! GENERATED on every run by tools/apiscan.py from /repo's current working tree. Do not edit. -/
namespace PM.Extracted.Api
/-- public inherent methods of SealedToken / EncryptedToken / SignedToken whose return type hands out the footer type or raw bytes without unsealing -/
def sealedTokenAccessors : List String := ["unverified_footer"]
/-- fields of `SealedToken` declared `pub` (not `pub(crate)`) -/
def sealedTokenPubFields : List String := []
/-- fields of `Key` declared `pub` (not `pub(crate)`) -/
def keyPubFields : List String := []
end PM.Extracted.Api
