import PasetoModel.Names
/-! GENERATED on every run by `pm facts` from /repo's current working tree through the
    public API (associated constants, `nonce()`, Display of sealed keys). Do not edit. -/
namespace PM.Extracted
open PM
def versionHeader : Backend → Bytes
  | .v1 => [118, 49]
  | .v2 => [118, 50]
  | .v3 => [118, 51]
  | .v3lc => [118, 51]
  | .v4 => [118, 52]
  | .v4s => [118, 52]
def paserkHeader : Backend → Bytes
  | .v1 => [107, 49]
  | .v2 => [107, 50]
  | .v3 => [107, 51]
  | .v3lc => [107, 51]
  | .v4 => [107, 52]
  | .v4s => [107, 52]
def kindHeader : Kind → Bytes
  | .localK => [46, 108, 111, 99, 97, 108, 46]
  | .publicK => [46, 112, 117, 98, 108, 105, 99, 46]
  | .secretK => [46, 115, 101, 99, 114, 101, 116, 46]
  | .pkePublic => [46, 112, 117, 98, 108, 105, 99, 46]
  | .pkeSecret => [46, 115, 101, 99, 114, 101, 116, 46]
def idHeader : Kind → Bytes
  | .localK => [46, 108, 105, 100, 46]
  | .publicK => [46, 112, 105, 100, 46]
  | .secretK => [46, 115, 105, 100, 46]
  | .pkePublic => [46, 112, 105, 100, 46]
  | .pkeSecret => [46, 115, 105, 100, 46]
def pieHeader : SKind → Bytes
  | .localK => [46, 108, 111, 99, 97, 108, 45, 119, 114, 97, 112, 46, 112, 105, 101, 46]
  | .secretK => [46, 115, 101, 99, 114, 101, 116, 45, 119, 114, 97, 112, 46, 112, 105, 101, 46]
def pwHeader : SKind → Bytes
  | .localK => [46, 108, 111, 99, 97, 108, 45, 112, 119, 46]
  | .secretK => [46, 115, 101, 99, 114, 101, 116, 45, 112, 119, 46]
def sealHeader : Backend → Bytes
  | .v1 => [46, 115, 101, 97, 108, 46]
  | .v2 => [46, 115, 101, 97, 108, 46]
  | .v3 => [46, 115, 101, 97, 108, 46]
  | .v3lc => [46, 115, 101, 97, 108, 46]
  | .v4 => [46, 115, 101, 97, 108, 46]
  | .v4s => [46, 115, 101, 97, 108, 46]
def nonceDrawLocal : Backend → Nat
  | .v1 => 32
  | .v2 => 24
  | .v3 => 32
  | .v3lc => 32
  | .v4 => 32
  | .v4s => 32
def nonceDrawPublic : Backend → Nat
  | .v1 => 0
  | .v2 => 0
  | .v3 => 0
  | .v3lc => 0
  | .v4 => 0
  | .v4s => 0
def tsMin : Int := -377705023201000000000
def tsMax : Int := 253402207200999999999
end PM.Extracted
