/-! GENERATED on every run by tools/srcscan.py from /repo's current working tree. Do not edit. -/
namespace PM.Extracted.Source
/-- library crates scanned (every `src/**/*.rs`, `#[cfg(test)]` items excluded) -/
def crates : List String := ["paseto-core", "paseto-json", "paseto-v1", "paseto-v2", "paseto-v3", "paseto-v3-aws-lc", "paseto-v4", "paseto-v4-sodium"]
/-- crate ↦ crate-level lint on `unsafe_code` in its lib.rs (`forbid` | `deny` | `none`) -/
def unsafePolicy : List (String × String) := [("paseto-core", "deny"), ("paseto-json", "forbid"), ("paseto-v1", "forbid"), ("paseto-v2", "forbid"), ("paseto-v3", "forbid"), ("paseto-v3-aws-lc", "deny"), ("paseto-v4", "forbid"), ("paseto-v4-sodium", "forbid")]
/-- files that re-allow `unsafe_code` -/
def unsafeAllowed : List String := ["paseto-core/src/base64.rs", "paseto-v3-aws-lc/src/lc/mod.rs"]
/-- files in which the keyword `unsafe` occurs, with the number of occurrences -/
def unsafeFiles : List (String × Nat) := [("paseto-core/src/base64.rs", 2), ("paseto-v3-aws-lc/src/lc/mod.rs", 54), ("paseto-v3-aws-lc/src/lc/ptr.rs", 4)]
/-- (file, construct): interior mutability, `static mut`, thread locals, lazily initialised globals, locks, atomics -/
def sharedState : List (String × String) := []
/-- (file, function called inside an `unsafe { }` block), outside the aws-lc wrapper module (which `ffiscan` translates) -/
def unsafeCalls : List (String × String) := [("paseto-core/src/base64.rs", "from_utf8_unchecked"), ("paseto-core/src/base64.rs", "from_utf8_unchecked")]
end PM.Extracted.Source
