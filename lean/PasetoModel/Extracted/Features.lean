import PasetoModel.Basic
/-! GENERATED on every run by tools/featscan.py from the Cargo.toml feature tables and an item-level scan of the
    `#[cfg(feature = ..)]` gates of /repo's working tree. Do not edit. -/
namespace PM.Extracted.Feat
inductive Cfg | feat (f : Nat) | all (l : List Cfg) | any (l : List Cfg) | not (c : Cfg) | tt | ff
structure Ref where
  ctx : Cfg
  needs : Cfg
structure CrateFacts where
  nFeatures : Nat
  edges : List (Nat × Nat)
  refs : List Ref
  stmtLevelGates : Nat
  innerGates : Nat
def paseto_v1_refs : List Ref := [⟨(.all [(.feat 6)]), (.any [(.feat 3)])⟩,
    ⟨(.all [(.feat 6)]), (.any [(.feat 6)])⟩,
    ⟨(.all [(.feat 6)]), (.any [(.feat 0), (.feat 2), (.feat 6), (.feat 7), (.feat 8)])⟩,
    ⟨(.all [(.feat 3)]), (.any [(.feat 3)])⟩,
    ⟨(.all [(.feat 3)]), (.any [(.all [(.feat 3)])])⟩,
    ⟨(.all [(.feat 2), (.feat 3)]), (.any [(.feat 0), (.feat 2), (.feat 6), (.feat 7), (.feat 8)])⟩,
    ⟨(.all [(.feat 2), (.feat 3)]), (.any [(.feat 3)])⟩,
    ⟨(.all [(.feat 8)]), (.any [(.feat 3)])⟩,
    ⟨(.all [(.feat 8)]), (.any [(.feat 1)])⟩,
    ⟨(.all [(.feat 8)]), (.any [(.all [(.feat 3)])])⟩,
    ⟨(.all [(.feat 8)]), (.any [(.feat 0), (.feat 2), (.feat 6), (.feat 7), (.feat 8)])⟩,
    ⟨(.all [(.feat 0)]), (.any [(.feat 1)])⟩,
    ⟨(.all [(.feat 1)]), (.any [(.feat 1)])⟩,
    ⟨(.all [(.feat 0), (.feat 1)]), (.any [(.feat 1)])⟩,
    ⟨(.all [(.feat 0), (.feat 1)]), (.any [(.all [(.feat 0)])])⟩,
    ⟨(.all [(.feat 1)]), (.any [(.all [(.feat 1)])])⟩,
    ⟨(.all [(.feat 7)]), (.any [(.all [(.feat 3)])])⟩,
    ⟨(.all [(.feat 7)]), (.any [(.feat 3)])⟩,
    ⟨(.all [(.feat 7)]), (.any [(.feat 0), (.feat 2), (.feat 6), (.feat 7), (.feat 8)])⟩]
def paseto_v1 : CrateFacts := { nFeatures := 9, edges := [(0, 1), (2, 3), (4, 6), (4, 7), (4, 8), (4, 5), (6, 2), (7, 2), (8, 2), (8, 0)], stmtLevelGates := 0, innerGates := 0, refs := paseto_v1_refs }
/-- feature names of paseto-v1, by index: 0=signing, 1=verifying, 2=encrypting, 3=decrypting, 4=paserk, 5=id, 6=pbkw, 7=pie-wrap, 8=pke -/
def paseto_v1_names : List String := ["signing", "verifying", "encrypting", "decrypting", "paserk", "id", "pbkw", "pie-wrap", "pke"]
def paseto_v2_refs : List Ref := [⟨(.all [(.feat 6)]), (.any [(.feat 3), (.feat 5)])⟩,
    ⟨(.all [(.feat 6)]), (.any [(.feat 3)])⟩,
    ⟨(.all [(.feat 6)]), (.any [(.feat 6)])⟩,
    ⟨(.all [(.feat 6)]), (.any [(.feat 0), (.feat 2), (.feat 6), (.feat 7), (.feat 8)])⟩,
    ⟨(.all [(.feat 3)]), (.any [(.feat 3)])⟩,
    ⟨(.all [(.feat 3)]), (.any [(.all [(.feat 3)]), (.all [(.feat 3)])])⟩,
    ⟨(.all [(.feat 2), (.feat 3)]), (.any [(.feat 0), (.feat 2), (.feat 6), (.feat 7), (.feat 8)])⟩,
    ⟨(.all [(.feat 2), (.feat 3)]), (.any [(.feat 3), (.feat 5)])⟩,
    ⟨(.all [(.feat 2), (.feat 3)]), (.any [(.feat 3)])⟩,
    ⟨(.all [(.feat 3), (.feat 3)]), (.any [(.feat 3)])⟩,
    ⟨(.all [(.feat 8)]), (.any [(.feat 1)])⟩,
    ⟨(.all [(.feat 8)]), (.any [(.all [(.feat 3)]), (.all [(.feat 3)])])⟩,
    ⟨(.all [(.feat 8)]), (.any [(.all [(.feat 1)]), (.all [(.feat 1)])])⟩,
    ⟨(.all [(.feat 8)]), (.any [(.all [(.feat 0)]), (.all [(.feat 0)])])⟩,
    ⟨(.all [(.feat 8)]), (.any [(.feat 0), (.feat 2), (.feat 6), (.feat 7), (.feat 8)])⟩,
    ⟨(.all [(.feat 8)]), (.any [(.feat 3), (.feat 5)])⟩,
    ⟨(.all [(.feat 8)]), (.any [(.feat 3)])⟩,
    ⟨(.all [(.feat 0)]), (.any [(.feat 1)])⟩,
    ⟨(.all [(.feat 1)]), (.any [(.feat 1)])⟩,
    ⟨(.all [(.feat 5)]), (.any [(.feat 3), (.feat 5)])⟩,
    ⟨(.all [(.feat 0), (.feat 1)]), (.any [(.all [(.feat 0)]), (.all [(.feat 0)])])⟩,
    ⟨(.all [(.feat 1)]), (.any [(.all [(.feat 1)]), (.all [(.feat 1)])])⟩,
    ⟨(.all [(.feat 1), (.feat 1)]), (.any [(.feat 1)])⟩,
    ⟨(.all [(.feat 0), (.feat 1)]), (.any [(.feat 1)])⟩,
    ⟨(.all [(.feat 0), (.feat 1)]), (.any [(.feat 0), (.feat 2), (.feat 6), (.feat 7), (.feat 8)])⟩,
    ⟨(.all [(.feat 0), (.feat 1)]), (.any [(.feat 0)])⟩,
    ⟨(.all [(.feat 7)]), (.any [(.feat 3), (.feat 5)])⟩,
    ⟨(.all [(.feat 7)]), (.any [(.feat 3)])⟩,
    ⟨(.all [(.feat 7)]), (.any [(.all [(.feat 3)]), (.all [(.feat 3)])])⟩,
    ⟨(.all [(.feat 7)]), (.any [(.feat 0), (.feat 2), (.feat 6), (.feat 7), (.feat 8)])⟩]
def paseto_v2 : CrateFacts := { nFeatures := 9, edges := [(0, 1), (2, 3), (4, 6), (4, 7), (4, 8), (4, 5), (6, 2), (7, 2), (8, 2), (8, 0)], stmtLevelGates := 0, innerGates := 0, refs := paseto_v2_refs }
/-- feature names of paseto-v2, by index: 0=signing, 1=verifying, 2=encrypting, 3=decrypting, 4=paserk, 5=id, 6=pbkw, 7=pie-wrap, 8=pke -/
def paseto_v2_names : List String := ["signing", "verifying", "encrypting", "decrypting", "paserk", "id", "pbkw", "pie-wrap", "pke"]
def paseto_v3_refs : List Ref := [⟨(.all [(.feat 6)]), (.any [(.feat 3)])⟩,
    ⟨(.all [(.feat 6)]), (.any [(.feat 6)])⟩,
    ⟨(.all [(.feat 6)]), (.any [(.feat 0), (.feat 2), (.feat 6), (.feat 7), (.feat 8)])⟩,
    ⟨(.all [(.feat 3)]), (.any [(.feat 3)])⟩,
    ⟨(.all [(.feat 3)]), (.any [(.all [(.feat 3)])])⟩,
    ⟨(.all [(.feat 2), (.feat 3)]), (.any [(.feat 0), (.feat 2), (.feat 6), (.feat 7), (.feat 8)])⟩,
    ⟨(.all [(.feat 8)]), (.any [(.feat 3)])⟩,
    ⟨(.all [(.feat 8)]), (.any [(.all [(.feat 0)])])⟩,
    ⟨(.all [(.feat 8)]), (.any [(.all [(.feat 1)])])⟩,
    ⟨(.all [(.feat 8)]), (.any [(.all [(.feat 3)])])⟩,
    ⟨(.all [(.feat 8)]), (.any [(.feat 1)])⟩,
    ⟨(.all [(.feat 0)]), (.any [(.feat 1)])⟩,
    ⟨(.all [(.feat 1)]), (.any [(.feat 1)])⟩,
    ⟨(.all [(.feat 0), (.feat 1)]), (.any [(.all [(.feat 0)])])⟩,
    ⟨(.all [(.feat 1)]), (.any [(.all [(.feat 1)])])⟩,
    ⟨(.all [(.feat 0), (.feat 1)]), (.any [(.feat 1)])⟩,
    ⟨(.all [(.feat 0), (.feat 1)]), (.any [(.feat 0), (.feat 2), (.feat 6), (.feat 7), (.feat 8)])⟩,
    ⟨(.all [(.feat 7)]), (.any [(.all [(.feat 3)])])⟩,
    ⟨(.all [(.feat 7)]), (.any [(.feat 3)])⟩,
    ⟨(.all [(.feat 7)]), (.any [(.feat 0), (.feat 2), (.feat 6), (.feat 7), (.feat 8)])⟩]
def paseto_v3 : CrateFacts := { nFeatures := 9, edges := [(0, 1), (2, 3), (4, 6), (4, 7), (4, 8), (4, 5), (6, 2), (7, 2), (8, 2), (8, 0)], stmtLevelGates := 0, innerGates := 0, refs := paseto_v3_refs }
/-- feature names of paseto-v3, by index: 0=signing, 1=verifying, 2=encrypting, 3=decrypting, 4=paserk, 5=id, 6=pbkw, 7=pie-wrap, 8=pke -/
def paseto_v3_names : List String := ["signing", "verifying", "encrypting", "decrypting", "paserk", "id", "pbkw", "pie-wrap", "pke"]
def paseto_v4_refs : List Ref := [⟨(.all [(.feat 6)]), (.any [(.feat 3), (.feat 5)])⟩,
    ⟨(.all [(.feat 6)]), (.any [(.feat 3)])⟩,
    ⟨(.all [(.feat 6)]), (.any [(.feat 6)])⟩,
    ⟨(.all [(.feat 6)]), (.any [(.feat 0), (.feat 2), (.feat 6), (.feat 7), (.feat 8)])⟩,
    ⟨(.all [(.feat 3)]), (.any [(.feat 3), (.feat 5)])⟩,
    ⟨(.all [(.feat 3)]), (.any [(.feat 3)])⟩,
    ⟨(.all [(.feat 3)]), (.any [(.all [(.feat 3)]), (.all [(.feat 3)])])⟩,
    ⟨(.all [(.feat 3)]), (.any [(.all [(.feat 6)]), (.all [(.feat 3)])])⟩,
    ⟨(.all [(.feat 3)]), (.any [(.all [(.any [(.feat 3), (.feat 0)])])])⟩,
    ⟨(.all [(.feat 2), (.feat 3)]), (.any [(.feat 0), (.feat 2), (.feat 6), (.feat 7), (.feat 8)])⟩,
    ⟨(.all [(.feat 8)]), (.any [(.feat 1)])⟩,
    ⟨(.all [(.feat 8)]), (.any [(.all [(.feat 3)]), (.all [(.feat 3)])])⟩,
    ⟨(.all [(.feat 8)]), (.any [(.all [(.feat 1)]), (.all [(.feat 1)])])⟩,
    ⟨(.all [(.feat 8)]), (.any [(.all [(.feat 0)]), (.all [(.feat 0)])])⟩,
    ⟨(.all [(.feat 8)]), (.any [(.feat 0), (.feat 2), (.feat 6), (.feat 7), (.feat 8)])⟩,
    ⟨(.all [(.feat 8)]), (.any [(.feat 3), (.feat 5)])⟩,
    ⟨(.all [(.feat 8)]), (.any [(.feat 3)])⟩,
    ⟨(.all [(.feat 0)]), (.any [(.feat 1)])⟩,
    ⟨(.all [(.feat 1)]), (.any [(.feat 1)])⟩,
    ⟨(.all [(.feat 5)]), (.any [(.feat 3), (.feat 5)])⟩,
    ⟨(.all [(.feat 0), (.feat 1)]), (.any [(.all [(.feat 0)]), (.all [(.feat 0)])])⟩,
    ⟨(.all [(.feat 0), (.feat 1)]), (.any [(.all [(.any [(.feat 3), (.feat 0)])])])⟩,
    ⟨(.all [(.feat 1)]), (.any [(.all [(.feat 1)]), (.all [(.feat 1)])])⟩,
    ⟨(.all [(.feat 1), (.feat 1)]), (.any [(.feat 1)])⟩,
    ⟨(.all [(.feat 0), (.feat 1)]), (.any [(.feat 1)])⟩,
    ⟨(.all [(.feat 0), (.feat 1)]), (.any [(.feat 0), (.feat 2), (.feat 6), (.feat 7), (.feat 8)])⟩,
    ⟨(.all [(.feat 0), (.feat 1)]), (.any [(.feat 0)])⟩,
    ⟨(.all [(.feat 7)]), (.any [(.feat 3), (.feat 5)])⟩,
    ⟨(.all [(.feat 7)]), (.any [(.feat 3)])⟩,
    ⟨(.all [(.feat 7)]), (.any [(.all [(.feat 3)]), (.all [(.feat 3)])])⟩,
    ⟨(.all [(.feat 7)]), (.any [(.all [(.feat 6)]), (.all [(.feat 3)])])⟩,
    ⟨(.all [(.feat 7)]), (.any [(.feat 0), (.feat 2), (.feat 6), (.feat 7), (.feat 8)])⟩]
def paseto_v4 : CrateFacts := { nFeatures := 9, edges := [(0, 1), (2, 3), (4, 6), (4, 7), (4, 8), (4, 5), (6, 2), (7, 2), (8, 2), (8, 0)], stmtLevelGates := 0, innerGates := 0, refs := paseto_v4_refs }
/-- feature names of paseto-v4, by index: 0=signing, 1=verifying, 2=encrypting, 3=decrypting, 4=paserk, 5=id, 6=pbkw, 7=pie-wrap, 8=pke -/
def paseto_v4_names : List String := ["signing", "verifying", "encrypting", "decrypting", "paserk", "id", "pbkw", "pie-wrap", "pke"]
end PM.Extracted.Feat
