import PasetoModel.Names
/-! GENERATED on every run by `pm impls`: the trait-implementation table as rustc sees it. Do not edit. -/
namespace PM.Extracted.Impls
open PM
def hasKey : Backend → Kind → Bool
  | .v1, .localK => true
  | .v1, .publicK => true
  | .v1, .secretK => true
  | .v1, .pkePublic => true
  | .v1, .pkeSecret => true
  | .v2, .localK => true
  | .v2, .publicK => true
  | .v2, .secretK => true
  | .v2, .pkePublic => true
  | .v2, .pkeSecret => true
  | .v3, .localK => true
  | .v3, .publicK => true
  | .v3, .secretK => true
  | .v3, .pkePublic => true
  | .v3, .pkeSecret => true
  | .v3lc, .localK => true
  | .v3lc, .publicK => true
  | .v3lc, .secretK => true
  | .v3lc, .pkePublic => true
  | .v3lc, .pkeSecret => true
  | .v4, .localK => true
  | .v4, .publicK => true
  | .v4, .secretK => true
  | .v4, .pkePublic => true
  | .v4, .pkeSecret => true
  | .v4s, .localK => true
  | .v4s, .publicK => true
  | .v4s, .secretK => true
  | .v4s, .pkePublic => true
  | .v4s, .pkeSecret => true
def purposeMarker : Kind → Bool
  | .localK => true
  | .publicK => true
  | .secretK => false
  | .pkePublic => false
  | .pkeSecret => false
def sealingKeyMarker : Kind → Bool
  | .localK => true
  | .publicK => false
  | .secretK => true
  | .pkePublic => false
  | .pkeSecret => false
def unsealingLocal : Backend → Bool
  | .v1 => true
  | .v2 => true
  | .v3 => true
  | .v3lc => true
  | .v4 => true
  | .v4s => true
def unsealingPublic : Backend → Bool
  | .v1 => true
  | .v2 => true
  | .v3 => true
  | .v3lc => true
  | .v4 => true
  | .v4s => true
def sealingLocal : Backend → Bool
  | .v1 => true
  | .v2 => true
  | .v3 => true
  | .v3lc => true
  | .v4 => true
  | .v4s => true
def sealingPublic : Backend → Bool
  | .v1 => true
  | .v2 => true
  | .v3 => true
  | .v3lc => true
  | .v4 => true
  | .v4s => true
def pieWrap : Backend → Bool
  | .v1 => true
  | .v2 => true
  | .v3 => true
  | .v3lc => true
  | .v4 => true
  | .v4s => true
def pwWrap : Backend → Bool
  | .v1 => true
  | .v2 => true
  | .v3 => true
  | .v3lc => true
  | .v4 => true
  | .v4s => true
def pkeSealing : Backend → Bool
  | .v1 => true
  | .v2 => true
  | .v3 => true
  | .v3lc => true
  | .v4 => true
  | .v4s => true
def pkeUnsealing : Backend → Bool
  | .v1 => true
  | .v2 => true
  | .v3 => true
  | .v3lc => true
  | .v4 => true
  | .v4s => true
def idVersion : Backend → Bool
  | .v1 => true
  | .v2 => true
  | .v3 => true
  | .v3lc => true
  | .v4 => true
  | .v4s => true
def keyDisplay : Backend → Kind → Bool
  | .v1, .localK => false
  | .v1, .publicK => true
  | .v1, .secretK => false
  | .v1, .pkePublic => false
  | .v1, .pkeSecret => false
  | .v2, .localK => false
  | .v2, .publicK => true
  | .v2, .secretK => false
  | .v2, .pkePublic => false
  | .v2, .pkeSecret => false
  | .v3, .localK => false
  | .v3, .publicK => true
  | .v3, .secretK => false
  | .v3, .pkePublic => false
  | .v3, .pkeSecret => false
  | .v3lc, .localK => false
  | .v3lc, .publicK => true
  | .v3lc, .secretK => false
  | .v3lc, .pkePublic => false
  | .v3lc, .pkeSecret => false
  | .v4, .localK => false
  | .v4, .publicK => true
  | .v4, .secretK => false
  | .v4, .pkePublic => false
  | .v4, .pkeSecret => false
  | .v4s, .localK => false
  | .v4s, .publicK => true
  | .v4s, .secretK => false
  | .v4s, .pkePublic => false
  | .v4s, .pkeSecret => false
def keyDebug : Backend → Kind → Bool
  | .v1, .localK => false
  | .v1, .publicK => false
  | .v1, .secretK => false
  | .v1, .pkePublic => false
  | .v1, .pkeSecret => false
  | .v2, .localK => false
  | .v2, .publicK => false
  | .v2, .secretK => false
  | .v2, .pkePublic => false
  | .v2, .pkeSecret => false
  | .v3, .localK => false
  | .v3, .publicK => false
  | .v3, .secretK => false
  | .v3, .pkePublic => false
  | .v3, .pkeSecret => false
  | .v3lc, .localK => false
  | .v3lc, .publicK => false
  | .v3lc, .secretK => false
  | .v3lc, .pkePublic => false
  | .v3lc, .pkeSecret => false
  | .v4, .localK => false
  | .v4, .publicK => false
  | .v4, .secretK => false
  | .v4, .pkePublic => false
  | .v4, .pkeSecret => false
  | .v4s, .localK => false
  | .v4s, .publicK => false
  | .v4s, .secretK => false
  | .v4s, .pkePublic => false
  | .v4s, .pkeSecret => false
def keyClone : Backend → Kind → Bool
  | .v1, .localK => true
  | .v1, .publicK => true
  | .v1, .secretK => true
  | .v1, .pkePublic => true
  | .v1, .pkeSecret => true
  | .v2, .localK => true
  | .v2, .publicK => true
  | .v2, .secretK => true
  | .v2, .pkePublic => true
  | .v2, .pkeSecret => true
  | .v3, .localK => true
  | .v3, .publicK => true
  | .v3, .secretK => true
  | .v3, .pkePublic => true
  | .v3, .pkeSecret => true
  | .v3lc, .localK => true
  | .v3lc, .publicK => true
  | .v3lc, .secretK => true
  | .v3lc, .pkePublic => true
  | .v3lc, .pkeSecret => true
  | .v4, .localK => true
  | .v4, .publicK => true
  | .v4, .secretK => true
  | .v4, .pkePublic => true
  | .v4, .pkeSecret => true
  | .v4s, .localK => true
  | .v4s, .publicK => true
  | .v4s, .secretK => true
  | .v4s, .pkePublic => true
  | .v4s, .pkeSecret => true
def keySerialize : Backend → Kind → Bool
  | .v1, .localK => false
  | .v1, .publicK => false
  | .v1, .secretK => false
  | .v1, .pkePublic => false
  | .v1, .pkeSecret => false
  | .v2, .localK => false
  | .v2, .publicK => false
  | .v2, .secretK => false
  | .v2, .pkePublic => false
  | .v2, .pkeSecret => false
  | .v3, .localK => false
  | .v3, .publicK => false
  | .v3, .secretK => false
  | .v3, .pkePublic => false
  | .v3, .pkeSecret => false
  | .v3lc, .localK => false
  | .v3lc, .publicK => false
  | .v3lc, .secretK => false
  | .v3lc, .pkePublic => false
  | .v3lc, .pkeSecret => false
  | .v4, .localK => false
  | .v4, .publicK => false
  | .v4, .secretK => false
  | .v4, .pkePublic => false
  | .v4, .pkeSecret => false
  | .v4s, .localK => false
  | .v4s, .publicK => false
  | .v4s, .secretK => false
  | .v4s, .pkePublic => false
  | .v4s, .pkeSecret => false
def keyTextDisplay : Backend → Kind → Bool
  | .v1, .localK => true
  | .v1, .publicK => true
  | .v1, .secretK => true
  | .v1, .pkePublic => true
  | .v1, .pkeSecret => true
  | .v2, .localK => true
  | .v2, .publicK => true
  | .v2, .secretK => true
  | .v2, .pkePublic => true
  | .v2, .pkeSecret => true
  | .v3, .localK => true
  | .v3, .publicK => true
  | .v3, .secretK => true
  | .v3, .pkePublic => true
  | .v3, .pkeSecret => true
  | .v3lc, .localK => true
  | .v3lc, .publicK => true
  | .v3lc, .secretK => true
  | .v3lc, .pkePublic => true
  | .v3lc, .pkeSecret => true
  | .v4, .localK => true
  | .v4, .publicK => true
  | .v4, .secretK => true
  | .v4, .pkePublic => true
  | .v4, .pkeSecret => true
  | .v4s, .localK => true
  | .v4s, .publicK => true
  | .v4s, .secretK => true
  | .v4s, .pkePublic => true
  | .v4s, .pkeSecret => true
def keyTextDebug : Backend → Kind → Bool
  | .v1, .localK => false
  | .v1, .publicK => false
  | .v1, .secretK => false
  | .v1, .pkePublic => false
  | .v1, .pkeSecret => false
  | .v2, .localK => false
  | .v2, .publicK => false
  | .v2, .secretK => false
  | .v2, .pkePublic => false
  | .v2, .pkeSecret => false
  | .v3, .localK => false
  | .v3, .publicK => false
  | .v3, .secretK => false
  | .v3, .pkePublic => false
  | .v3, .pkeSecret => false
  | .v3lc, .localK => false
  | .v3lc, .publicK => false
  | .v3lc, .secretK => false
  | .v3lc, .pkePublic => false
  | .v3lc, .pkeSecret => false
  | .v4, .localK => false
  | .v4, .publicK => false
  | .v4, .secretK => false
  | .v4, .pkePublic => false
  | .v4, .pkeSecret => false
  | .v4s, .localK => false
  | .v4s, .publicK => false
  | .v4s, .secretK => false
  | .v4s, .pkePublic => false
  | .v4s, .pkeSecret => false
def sealedLocalDisplay : Backend → Bool
  | .v1 => true
  | .v2 => true
  | .v3 => true
  | .v3lc => true
  | .v4 => true
  | .v4s => true
def sealedPublicDisplay : Backend → Bool
  | .v1 => true
  | .v2 => true
  | .v3 => true
  | .v3lc => true
  | .v4 => true
  | .v4s => true
def sealedLocalSerialize : Backend → Bool
  | .v1 => true
  | .v2 => true
  | .v3 => true
  | .v3lc => true
  | .v4 => true
  | .v4s => true
def unsealedLocalDisplay : Backend → Bool
  | .v1 => false
  | .v2 => false
  | .v3 => false
  | .v3lc => false
  | .v4 => false
  | .v4s => false
def unsealedPublicDisplay : Backend → Bool
  | .v1 => false
  | .v2 => false
  | .v3 => false
  | .v3lc => false
  | .v4 => false
  | .v4s => false
def unsealedLocalSerialize : Backend → Bool
  | .v1 => false
  | .v2 => false
  | .v3 => false
  | .v3lc => false
  | .v4 => false
  | .v4s => false
def unsealedPublicSerialize : Backend → Bool
  | .v1 => false
  | .v2 => false
  | .v3 => false
  | .v3lc => false
  | .v4 => false
  | .v4s => false
def unsealedLocalDebug : Backend → Bool
  | .v1 => false
  | .v2 => false
  | .v3 => false
  | .v3lc => false
  | .v4 => false
  | .v4s => false
def pieWrappedDisplay : Backend → Bool
  | .v1 => true
  | .v2 => true
  | .v3 => true
  | .v3lc => true
  | .v4 => true
  | .v4s => true
def pwWrappedDisplay : Backend → Bool
  | .v1 => true
  | .v2 => true
  | .v3 => true
  | .v3lc => true
  | .v4 => true
  | .v4s => true
def sealedKeyDisplay : Backend → Bool
  | .v1 => true
  | .v2 => true
  | .v3 => true
  | .v3lc => true
  | .v4 => true
  | .v4s => true
def pieWrappedDebug : Backend → Bool
  | .v1 => false
  | .v2 => false
  | .v3 => false
  | .v3lc => false
  | .v4 => false
  | .v4s => false
def forbiddenImpls : List (String × Bool) := [
  ("Key<v1,Local>: Into<[u8;32]>", false),
  ("Key<v1,Local>: Into<[u8;48]>", false),
  ("Key<v1,Local>: Into<[u8;64]>", false),
  ("Key<v1,Local>: Into<Vec<u8>>", false),
  ("Key<v1,Local>: Into<Box<[u8]>>", false),
  ("Key<v1,Local>: Into<String>", false),
  ("Key<v1,Local>: AsRef<[u8]>", false),
  ("Key<v1,Local>: Borrow<[u8]>", false),
  ("Key<v1,Local>: Deref", false),
  ("Key<v1,Local>: ToString", false),
  ("Key<v1,Local>: Hash", false),
  ("Key<v1,Local>: LowerHex", false),
  ("&Key<v1,Local>: Into<Vec<u8>>", false),
  ("&Key<v1,Local>: IntoIterator", false),
  ("Key<v1,Secret>: Into<[u8;32]>", false),
  ("Key<v1,Secret>: Into<[u8;48]>", false),
  ("Key<v1,Secret>: Into<[u8;64]>", false),
  ("Key<v1,Secret>: Into<Vec<u8>>", false),
  ("Key<v1,Secret>: Into<Box<[u8]>>", false),
  ("Key<v1,Secret>: Into<String>", false),
  ("Key<v1,Secret>: AsRef<[u8]>", false),
  ("Key<v1,Secret>: Borrow<[u8]>", false),
  ("Key<v1,Secret>: Deref", false),
  ("Key<v1,Secret>: ToString", false),
  ("Key<v1,Secret>: Hash", false),
  ("Key<v1,Secret>: LowerHex", false),
  ("&Key<v1,Secret>: Into<Vec<u8>>", false),
  ("&Key<v1,Secret>: IntoIterator", false),
  ("Key<v1,PkeSecret>: Into<[u8;32]>", false),
  ("Key<v1,PkeSecret>: Into<[u8;48]>", false),
  ("Key<v1,PkeSecret>: Into<[u8;64]>", false),
  ("Key<v1,PkeSecret>: Into<Vec<u8>>", false),
  ("Key<v1,PkeSecret>: Into<Box<[u8]>>", false),
  ("Key<v1,PkeSecret>: Into<String>", false),
  ("Key<v1,PkeSecret>: AsRef<[u8]>", false),
  ("Key<v1,PkeSecret>: Borrow<[u8]>", false),
  ("Key<v1,PkeSecret>: Deref", false),
  ("Key<v1,PkeSecret>: ToString", false),
  ("Key<v1,PkeSecret>: Hash", false),
  ("Key<v1,PkeSecret>: LowerHex", false),
  ("&Key<v1,PkeSecret>: Into<Vec<u8>>", false),
  ("&Key<v1,PkeSecret>: IntoIterator", false),
  ("SealedToken<v1,Local>: Deref", false),
  ("SealedToken<v1,Public>: Deref", false),
  ("SealedToken<v1,Local>: AsRef<Rich>", false),
  ("SealedToken<v1,Public>: AsRef<Rich>", false),
  ("SealedToken<v1,Public>: Borrow<Rich>", false),
  ("SealedToken<v1,Public>: Into<Rich>", false),
  ("UnsealedToken<v1,Local>: ToString", false),
  ("UnsealedToken<v1,Public>: Into<String>", false),
  ("UnsealedToken<v1,Local>: Into<Vec<u8>>", false),
  ("Key<v2,Local>: Into<[u8;32]>", false),
  ("Key<v2,Local>: Into<[u8;48]>", false),
  ("Key<v2,Local>: Into<[u8;64]>", false),
  ("Key<v2,Local>: Into<Vec<u8>>", false),
  ("Key<v2,Local>: Into<Box<[u8]>>", false),
  ("Key<v2,Local>: Into<String>", false),
  ("Key<v2,Local>: AsRef<[u8]>", false),
  ("Key<v2,Local>: Borrow<[u8]>", false),
  ("Key<v2,Local>: Deref", false),
  ("Key<v2,Local>: ToString", false),
  ("Key<v2,Local>: Hash", false),
  ("Key<v2,Local>: LowerHex", false),
  ("&Key<v2,Local>: Into<Vec<u8>>", false),
  ("&Key<v2,Local>: IntoIterator", false),
  ("Key<v2,Secret>: Into<[u8;32]>", false),
  ("Key<v2,Secret>: Into<[u8;48]>", false),
  ("Key<v2,Secret>: Into<[u8;64]>", false),
  ("Key<v2,Secret>: Into<Vec<u8>>", false),
  ("Key<v2,Secret>: Into<Box<[u8]>>", false),
  ("Key<v2,Secret>: Into<String>", false),
  ("Key<v2,Secret>: AsRef<[u8]>", false),
  ("Key<v2,Secret>: Borrow<[u8]>", false),
  ("Key<v2,Secret>: Deref", false),
  ("Key<v2,Secret>: ToString", false),
  ("Key<v2,Secret>: Hash", false),
  ("Key<v2,Secret>: LowerHex", false),
  ("&Key<v2,Secret>: Into<Vec<u8>>", false),
  ("&Key<v2,Secret>: IntoIterator", false),
  ("Key<v2,PkeSecret>: Into<[u8;32]>", false),
  ("Key<v2,PkeSecret>: Into<[u8;48]>", false),
  ("Key<v2,PkeSecret>: Into<[u8;64]>", false),
  ("Key<v2,PkeSecret>: Into<Vec<u8>>", false),
  ("Key<v2,PkeSecret>: Into<Box<[u8]>>", false),
  ("Key<v2,PkeSecret>: Into<String>", false),
  ("Key<v2,PkeSecret>: AsRef<[u8]>", false),
  ("Key<v2,PkeSecret>: Borrow<[u8]>", false),
  ("Key<v2,PkeSecret>: Deref", false),
  ("Key<v2,PkeSecret>: ToString", false),
  ("Key<v2,PkeSecret>: Hash", false),
  ("Key<v2,PkeSecret>: LowerHex", false),
  ("&Key<v2,PkeSecret>: Into<Vec<u8>>", false),
  ("&Key<v2,PkeSecret>: IntoIterator", false),
  ("SealedToken<v2,Local>: Deref", false),
  ("SealedToken<v2,Public>: Deref", false),
  ("SealedToken<v2,Local>: AsRef<Rich>", false),
  ("SealedToken<v2,Public>: AsRef<Rich>", false),
  ("SealedToken<v2,Public>: Borrow<Rich>", false),
  ("SealedToken<v2,Public>: Into<Rich>", false),
  ("UnsealedToken<v2,Local>: ToString", false),
  ("UnsealedToken<v2,Public>: Into<String>", false),
  ("UnsealedToken<v2,Local>: Into<Vec<u8>>", false),
  ("Key<v3,Local>: Into<[u8;32]>", false),
  ("Key<v3,Local>: Into<[u8;48]>", false),
  ("Key<v3,Local>: Into<[u8;64]>", false),
  ("Key<v3,Local>: Into<Vec<u8>>", false),
  ("Key<v3,Local>: Into<Box<[u8]>>", false),
  ("Key<v3,Local>: Into<String>", false),
  ("Key<v3,Local>: AsRef<[u8]>", false),
  ("Key<v3,Local>: Borrow<[u8]>", false),
  ("Key<v3,Local>: Deref", false),
  ("Key<v3,Local>: ToString", false),
  ("Key<v3,Local>: Hash", false),
  ("Key<v3,Local>: LowerHex", false),
  ("&Key<v3,Local>: Into<Vec<u8>>", false),
  ("&Key<v3,Local>: IntoIterator", false),
  ("Key<v3,Secret>: Into<[u8;32]>", false),
  ("Key<v3,Secret>: Into<[u8;48]>", false),
  ("Key<v3,Secret>: Into<[u8;64]>", false),
  ("Key<v3,Secret>: Into<Vec<u8>>", false),
  ("Key<v3,Secret>: Into<Box<[u8]>>", false),
  ("Key<v3,Secret>: Into<String>", false),
  ("Key<v3,Secret>: AsRef<[u8]>", false),
  ("Key<v3,Secret>: Borrow<[u8]>", false),
  ("Key<v3,Secret>: Deref", false),
  ("Key<v3,Secret>: ToString", false),
  ("Key<v3,Secret>: Hash", false),
  ("Key<v3,Secret>: LowerHex", false),
  ("&Key<v3,Secret>: Into<Vec<u8>>", false),
  ("&Key<v3,Secret>: IntoIterator", false),
  ("Key<v3,PkeSecret>: Into<[u8;32]>", false),
  ("Key<v3,PkeSecret>: Into<[u8;48]>", false),
  ("Key<v3,PkeSecret>: Into<[u8;64]>", false),
  ("Key<v3,PkeSecret>: Into<Vec<u8>>", false),
  ("Key<v3,PkeSecret>: Into<Box<[u8]>>", false),
  ("Key<v3,PkeSecret>: Into<String>", false),
  ("Key<v3,PkeSecret>: AsRef<[u8]>", false),
  ("Key<v3,PkeSecret>: Borrow<[u8]>", false),
  ("Key<v3,PkeSecret>: Deref", false),
  ("Key<v3,PkeSecret>: ToString", false),
  ("Key<v3,PkeSecret>: Hash", false),
  ("Key<v3,PkeSecret>: LowerHex", false),
  ("&Key<v3,PkeSecret>: Into<Vec<u8>>", false),
  ("&Key<v3,PkeSecret>: IntoIterator", false),
  ("SealedToken<v3,Local>: Deref", false),
  ("SealedToken<v3,Public>: Deref", false),
  ("SealedToken<v3,Local>: AsRef<Rich>", false),
  ("SealedToken<v3,Public>: AsRef<Rich>", false),
  ("SealedToken<v3,Public>: Borrow<Rich>", false),
  ("SealedToken<v3,Public>: Into<Rich>", false),
  ("UnsealedToken<v3,Local>: ToString", false),
  ("UnsealedToken<v3,Public>: Into<String>", false),
  ("UnsealedToken<v3,Local>: Into<Vec<u8>>", false),
  ("Key<v3lc,Local>: Into<[u8;32]>", false),
  ("Key<v3lc,Local>: Into<[u8;48]>", false),
  ("Key<v3lc,Local>: Into<[u8;64]>", false),
  ("Key<v3lc,Local>: Into<Vec<u8>>", false),
  ("Key<v3lc,Local>: Into<Box<[u8]>>", false),
  ("Key<v3lc,Local>: Into<String>", false),
  ("Key<v3lc,Local>: AsRef<[u8]>", false),
  ("Key<v3lc,Local>: Borrow<[u8]>", false),
  ("Key<v3lc,Local>: Deref", false),
  ("Key<v3lc,Local>: ToString", false),
  ("Key<v3lc,Local>: Hash", false),
  ("Key<v3lc,Local>: LowerHex", false),
  ("&Key<v3lc,Local>: Into<Vec<u8>>", false),
  ("&Key<v3lc,Local>: IntoIterator", false),
  ("Key<v3lc,Secret>: Into<[u8;32]>", false),
  ("Key<v3lc,Secret>: Into<[u8;48]>", false),
  ("Key<v3lc,Secret>: Into<[u8;64]>", false),
  ("Key<v3lc,Secret>: Into<Vec<u8>>", false),
  ("Key<v3lc,Secret>: Into<Box<[u8]>>", false),
  ("Key<v3lc,Secret>: Into<String>", false),
  ("Key<v3lc,Secret>: AsRef<[u8]>", false),
  ("Key<v3lc,Secret>: Borrow<[u8]>", false),
  ("Key<v3lc,Secret>: Deref", false),
  ("Key<v3lc,Secret>: ToString", false),
  ("Key<v3lc,Secret>: Hash", false),
  ("Key<v3lc,Secret>: LowerHex", false),
  ("&Key<v3lc,Secret>: Into<Vec<u8>>", false),
  ("&Key<v3lc,Secret>: IntoIterator", false),
  ("Key<v3lc,PkeSecret>: Into<[u8;32]>", false),
  ("Key<v3lc,PkeSecret>: Into<[u8;48]>", false),
  ("Key<v3lc,PkeSecret>: Into<[u8;64]>", false),
  ("Key<v3lc,PkeSecret>: Into<Vec<u8>>", false),
  ("Key<v3lc,PkeSecret>: Into<Box<[u8]>>", false),
  ("Key<v3lc,PkeSecret>: Into<String>", false),
  ("Key<v3lc,PkeSecret>: AsRef<[u8]>", false),
  ("Key<v3lc,PkeSecret>: Borrow<[u8]>", false),
  ("Key<v3lc,PkeSecret>: Deref", false),
  ("Key<v3lc,PkeSecret>: ToString", false),
  ("Key<v3lc,PkeSecret>: Hash", false),
  ("Key<v3lc,PkeSecret>: LowerHex", false),
  ("&Key<v3lc,PkeSecret>: Into<Vec<u8>>", false),
  ("&Key<v3lc,PkeSecret>: IntoIterator", false),
  ("SealedToken<v3lc,Local>: Deref", false),
  ("SealedToken<v3lc,Public>: Deref", false),
  ("SealedToken<v3lc,Local>: AsRef<Rich>", false),
  ("SealedToken<v3lc,Public>: AsRef<Rich>", false),
  ("SealedToken<v3lc,Public>: Borrow<Rich>", false),
  ("SealedToken<v3lc,Public>: Into<Rich>", false),
  ("UnsealedToken<v3lc,Local>: ToString", false),
  ("UnsealedToken<v3lc,Public>: Into<String>", false),
  ("UnsealedToken<v3lc,Local>: Into<Vec<u8>>", false),
  ("Key<v4,Local>: Into<[u8;32]>", false),
  ("Key<v4,Local>: Into<[u8;48]>", false),
  ("Key<v4,Local>: Into<[u8;64]>", false),
  ("Key<v4,Local>: Into<Vec<u8>>", false),
  ("Key<v4,Local>: Into<Box<[u8]>>", false),
  ("Key<v4,Local>: Into<String>", false),
  ("Key<v4,Local>: AsRef<[u8]>", false),
  ("Key<v4,Local>: Borrow<[u8]>", false),
  ("Key<v4,Local>: Deref", false),
  ("Key<v4,Local>: ToString", false),
  ("Key<v4,Local>: Hash", false),
  ("Key<v4,Local>: LowerHex", false),
  ("&Key<v4,Local>: Into<Vec<u8>>", false),
  ("&Key<v4,Local>: IntoIterator", false),
  ("Key<v4,Secret>: Into<[u8;32]>", false),
  ("Key<v4,Secret>: Into<[u8;48]>", false),
  ("Key<v4,Secret>: Into<[u8;64]>", false),
  ("Key<v4,Secret>: Into<Vec<u8>>", false),
  ("Key<v4,Secret>: Into<Box<[u8]>>", false),
  ("Key<v4,Secret>: Into<String>", false),
  ("Key<v4,Secret>: AsRef<[u8]>", false),
  ("Key<v4,Secret>: Borrow<[u8]>", false),
  ("Key<v4,Secret>: Deref", false),
  ("Key<v4,Secret>: ToString", false),
  ("Key<v4,Secret>: Hash", false),
  ("Key<v4,Secret>: LowerHex", false),
  ("&Key<v4,Secret>: Into<Vec<u8>>", false),
  ("&Key<v4,Secret>: IntoIterator", false),
  ("Key<v4,PkeSecret>: Into<[u8;32]>", false),
  ("Key<v4,PkeSecret>: Into<[u8;48]>", false),
  ("Key<v4,PkeSecret>: Into<[u8;64]>", false),
  ("Key<v4,PkeSecret>: Into<Vec<u8>>", false),
  ("Key<v4,PkeSecret>: Into<Box<[u8]>>", false),
  ("Key<v4,PkeSecret>: Into<String>", false),
  ("Key<v4,PkeSecret>: AsRef<[u8]>", false),
  ("Key<v4,PkeSecret>: Borrow<[u8]>", false),
  ("Key<v4,PkeSecret>: Deref", false),
  ("Key<v4,PkeSecret>: ToString", false),
  ("Key<v4,PkeSecret>: Hash", false),
  ("Key<v4,PkeSecret>: LowerHex", false),
  ("&Key<v4,PkeSecret>: Into<Vec<u8>>", false),
  ("&Key<v4,PkeSecret>: IntoIterator", false),
  ("SealedToken<v4,Local>: Deref", false),
  ("SealedToken<v4,Public>: Deref", false),
  ("SealedToken<v4,Local>: AsRef<Rich>", false),
  ("SealedToken<v4,Public>: AsRef<Rich>", false),
  ("SealedToken<v4,Public>: Borrow<Rich>", false),
  ("SealedToken<v4,Public>: Into<Rich>", false),
  ("UnsealedToken<v4,Local>: ToString", false),
  ("UnsealedToken<v4,Public>: Into<String>", false),
  ("UnsealedToken<v4,Local>: Into<Vec<u8>>", false),
  ("Key<v4s,Local>: Into<[u8;32]>", false),
  ("Key<v4s,Local>: Into<[u8;48]>", false),
  ("Key<v4s,Local>: Into<[u8;64]>", false),
  ("Key<v4s,Local>: Into<Vec<u8>>", false),
  ("Key<v4s,Local>: Into<Box<[u8]>>", false),
  ("Key<v4s,Local>: Into<String>", false),
  ("Key<v4s,Local>: AsRef<[u8]>", false),
  ("Key<v4s,Local>: Borrow<[u8]>", false),
  ("Key<v4s,Local>: Deref", false),
  ("Key<v4s,Local>: ToString", false),
  ("Key<v4s,Local>: Hash", false),
  ("Key<v4s,Local>: LowerHex", false),
  ("&Key<v4s,Local>: Into<Vec<u8>>", false),
  ("&Key<v4s,Local>: IntoIterator", false),
  ("Key<v4s,Secret>: Into<[u8;32]>", false),
  ("Key<v4s,Secret>: Into<[u8;48]>", false),
  ("Key<v4s,Secret>: Into<[u8;64]>", false),
  ("Key<v4s,Secret>: Into<Vec<u8>>", false),
  ("Key<v4s,Secret>: Into<Box<[u8]>>", false),
  ("Key<v4s,Secret>: Into<String>", false),
  ("Key<v4s,Secret>: AsRef<[u8]>", false),
  ("Key<v4s,Secret>: Borrow<[u8]>", false),
  ("Key<v4s,Secret>: Deref", false),
  ("Key<v4s,Secret>: ToString", false),
  ("Key<v4s,Secret>: Hash", false),
  ("Key<v4s,Secret>: LowerHex", false),
  ("&Key<v4s,Secret>: Into<Vec<u8>>", false),
  ("&Key<v4s,Secret>: IntoIterator", false),
  ("Key<v4s,PkeSecret>: Into<[u8;32]>", false),
  ("Key<v4s,PkeSecret>: Into<[u8;48]>", false),
  ("Key<v4s,PkeSecret>: Into<[u8;64]>", false),
  ("Key<v4s,PkeSecret>: Into<Vec<u8>>", false),
  ("Key<v4s,PkeSecret>: Into<Box<[u8]>>", false),
  ("Key<v4s,PkeSecret>: Into<String>", false),
  ("Key<v4s,PkeSecret>: AsRef<[u8]>", false),
  ("Key<v4s,PkeSecret>: Borrow<[u8]>", false),
  ("Key<v4s,PkeSecret>: Deref", false),
  ("Key<v4s,PkeSecret>: ToString", false),
  ("Key<v4s,PkeSecret>: Hash", false),
  ("Key<v4s,PkeSecret>: LowerHex", false),
  ("&Key<v4s,PkeSecret>: Into<Vec<u8>>", false),
  ("&Key<v4s,PkeSecret>: IntoIterator", false),
  ("SealedToken<v4s,Local>: Deref", false),
  ("SealedToken<v4s,Public>: Deref", false),
  ("SealedToken<v4s,Local>: AsRef<Rich>", false),
  ("SealedToken<v4s,Public>: AsRef<Rich>", false),
  ("SealedToken<v4s,Public>: Borrow<Rich>", false),
  ("SealedToken<v4s,Public>: Into<Rich>", false),
  ("UnsealedToken<v4s,Local>: ToString", false),
  ("UnsealedToken<v4s,Public>: Into<String>", false),
  ("UnsealedToken<v4s,Local>: Into<Vec<u8>>", false)
]
end PM.Extracted.Impls
