import PasetoModel.Ffi
/-! GENERATED on every run by tools/ffiscan.py from /repo's paseto-v3-aws-lc/src/lc/{mod,ptr}.rs. Do not edit. -/
namespace PM.Extracted.Ffi
open PM.Ffi
/-- ownership-relevant action lists, one per function of lc/mod.rs that touches aws-lc (helpers inlined) -/
def fns : List Fn := [
  { name := "<SigningKey as Clone>::clone", borrowed := [0],
    body := [.call [] true, .call [0] true, .call [0] true, .alloc 1 false, .call [1] true, .call [1, 0] true, .call [1, 0] true],
    returns := [1] },
  { name := "SigningKey::from_sec1_bytes", borrowed := [0],
    body := [.call [] true, .call [0] true, .alloc 1 false, .alloc 2 false, .call [2, 1] true, .alloc 3 false, .call [3] true, .call [3, 1] true, .call [3, 2] true],
    returns := [3] },
  { name := "SigningKey::encode", borrowed := [0],
    body := [.call [0] true, .call [0] true, .call [0] true],
    returns := [] },
  { name := "SigningKey::compressed_pub_key", borrowed := [0],
    body := [.call [0] true, .call [0] true],
    returns := [] },
  { name := "SigningKey::verifying_key", borrowed := [0],
    body := [.call [0] true, .call [] true, .alloc 1 false, .call [1] true, .call [1, 0] true],
    returns := [1] },
  { name := "SigningKey::sign", borrowed := [0, 1],
    body := [.call [0] true, .call [1, 0] true, .alloc 2 false],
    returns := [2] },
  { name := "SigningKey::diffie_hellman", borrowed := [0, 1],
    body := [.call [1] true, .call [1, 0] true],
    returns := [] },
  { name := "Signature::from_bytes", borrowed := [0],
    body := [.call [0] true, .alloc 1 true, .call [0] true, .alloc 2 true, .alloc 3 false, .call [3, 1, 2] true, .give [1, 2] 3, .detach 1, .detach 2],
    returns := [3] },
  { name := "Signature::append_to_vec", borrowed := [0, 1],
    body := [.call [0] true, .call [0] true, .call [0] true, .call [1, 0] true, .call [1, 0] true],
    returns := [] },
  { name := "<VerifyingKey as Clone>::clone", borrowed := [0],
    body := [.call [] true, .call [0] true, .alloc 1 false, .call [1] true, .call [1, 0] true],
    returns := [1] },
  { name := "VerifyingKey::from_sec1_bytes", borrowed := [0],
    body := [.call [] true, .alloc 1 false, .call [1, 0] true, .call [1] true, .alloc 2 false, .call [2] true, .call [2, 1] true],
    returns := [2] },
  { name := "VerifyingKey::from_point", borrowed := [0, 1],
    body := [.alloc 2 false, .call [2, 0] true, .call [2, 1] true],
    returns := [2] },
  { name := "VerifyingKey::compressed_pub_key", borrowed := [0],
    body := [.call [0] true, .call [0] true],
    returns := [] },
  { name := "VerifyingKey::verify", borrowed := [0, 1, 2],
    body := [.call [2] true, .allocRaw 3, .adopt 3 false, .call [1, 3, 0] true],
    returns := [] },
  { name := "compressed_pub_key", borrowed := [0],
    body := [.call [] true, .call [0] true],
    returns := [] }
]
/-- aws-lc functions called by lc/mod.rs that the translator's classification table does not know -/
def unclassified : List String := []
/-- (function, aws-lc call): calls that write through (or release) an object the function only holds by shared reference -/
def sharedMutations : List (String × String) := []
/-- (function, aws-lc call): calls that consult or change per-thread / process-wide library state (error queue, RNG seeding, global configuration) -/
def threadStateCalls : List (String × String) := []
/-- aws-lc functions imported by lc/mod.rs -/
def ffiImports : List String := ["BN_bin2bn", "BN_bn2bin", "BN_bn2bin_padded", "BN_num_bytes", "ECDH_compute_key", "ECDSA_SIG_from_bytes", "ECDSA_SIG_get0", "ECDSA_SIG_new", "ECDSA_SIG_set0", "ECDSA_SIG_to_bytes", "ECDSA_sign", "ECDSA_size", "ECDSA_verify", "EC_KEY_get0_private_key", "EC_KEY_get0_public_key", "EC_KEY_new", "EC_KEY_set_group", "EC_KEY_set_private_key", "EC_KEY_set_public_key", "EC_POINT_is_at_infinity", "EC_POINT_mul", "EC_POINT_new", "EC_POINT_oct2point", "EC_POINT_point2oct", "EC_group_p384"]
/-- `impl Drop for ManagedPointer` is exactly `self.pointer.free();` -/
def managedDropFrees : Bool := true
/-- `impl Drop for DetachablePointer` frees iff the pointer is still present (`if let Some(..) = self.pointer.take() { .free() }`) -/
def detachableDropFreesIffPresent : Bool := true
/-- `detach` takes the pointer out of the wrapper and frees nothing -/
def detachTakes : Bool := true
/-- `LcPtr<T> = ManagedPointer<*mut T>` and `DetachableLcPtr<T> = DetachablePointer<*mut T>` -/
def aliasesAsModelled : Bool := true
/-- the `create_pointer!` macro's `free` calls exactly the given function on the pointer -/
def macroFreeCallsGiven : Bool := true
/-- pointee type ↦ release function, from the `create_pointer!` invocations -/
def freeTable : List (String × String) := [("u8", "OPENSSL_free"), ("EC_GROUP", "EC_GROUP_free"), ("EC_POINT", "EC_POINT_free"), ("EC_KEY", "EC_KEY_free"), ("ECDSA_SIG", "ECDSA_SIG_free"), ("BIGNUM", "BN_free")]
/-- `unsafe impl <trait> for <type>` in lc/mod.rs -/
def unsafeImpls : List (String × String) := [("Send", "SigningKey"), ("Send", "VerifyingKey"), ("Sync", "SigningKey"), ("Sync", "VerifyingKey")]
/-- (type with an `unsafe impl Send / Sync`, offending field component): `Rc`, `Weak`, `Cell`, `RefCell`, `UnsafeCell`, … reachable through its fields -/
def sendSyncFieldViolations : List (String × String) := []
/-- structs of lc/mod.rs with their field types -/
def structs : List (String × List String) := [("SigningKey", ["LcPtr<EC_KEY>"]), ("Signature", ["LcPtr<ECDSA_SIG>"]), ("VerifyingKey", ["LcPtr<EC_KEY>"])]
end PM.Extracted.Ffi
