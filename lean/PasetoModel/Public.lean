import PasetoModel.Pae
/-! Public (signed) tokens: one skeleton for `*/src/core/public.rs` of all six back ends. -/
namespace PM

/-- outcome of signature parsing + verification -/
inductive SigCheck | valid | malformed | invalid
  deriving DecidableEq, Repr

structure PublicScheme where
  sigLen : Nat
  hasAad : Bool
  /-- PAE pieces: v3 puts the compressed public key first; v1/v2 have no assertion piece -/
  pieces : Bytes → List Bytes → Bytes → Bytes → Bytes → List (List Bytes)   -- pk hdr msg footer aad
  /-- public key of a secret key (canonical encodings) -/
  pubOf : Bytes → Bytes
  /-- signature over the pre-authentication encoding; `rnd` = per-signature randomness (if any);
      may fail (`CryptoError`) -/
  sign : Bytes → Bytes → Bytes → Res Bytes          -- sk, authenticated bytes, rnd
  check : Bytes → Bytes → Bytes → SigCheck          -- pk, authenticated bytes, signature

structure PublicLaws (S : PublicScheme) : Prop where
  /-- a produced signature has the fixed length -/
  sign_len : ∀ sk m r s, S.sign sk m r = .ok s → s.length = S.sigLen
  /-- what a key signs, its public key verifies -/
  sign_check : ∀ sk m r s, S.sign sk m r = .ok s → S.check (S.pubOf sk) m s = .valid

/-- `SealingVersion<Public>::dangerous_seal_with_nonce`: payload = encoded claims (the nonce is empty) -/
def sealPublic (S : PublicScheme) (hdr : List Bytes) (sk msg f a rnd : Bytes) : Res Bytes :=
  if !S.hasAad && !a.isEmpty then .err .claims else
  (S.sign sk (pae (S.pieces (S.pubOf sk) hdr msg f a)) rnd).map (fun sig => msg ++ sig)

/-- `UnsealingVersion<Public>::unseal` -/
def unsealPublic (S : PublicScheme) (hdr : List Bytes) (pk payload f a : Bytes) : Res Bytes :=
  if !S.hasAad && !a.isEmpty then .err .claims else
  match splitLast S.sigLen payload with
  | none => .err .invalidToken
  | some (msg, sig) =>
    match S.check pk (pae (S.pieces pk hdr msg f a)) sig with
    | .valid => .ok msg
    | .malformed => .err .invalidToken
    | .invalid => .err .crypto

def piecesNoPk (hasAad : Bool) (_pk : Bytes) (hdr : List Bytes) (m f a : Bytes) : List (List Bytes) :=
  if hasAad then [hdr, [m], [f], [a]] else [hdr, [m], [f]]
def piecesPk (pk : Bytes) (hdr : List Bytes) (m f a : Bytes) : List (List Bytes) :=
  [[pk], hdr, [m], [f], [a]]

theorem public_roundtrip (S : PublicScheme) (L : PublicLaws S) (hdr : List Bytes) (sk msg f a rnd tok : Bytes)
    (h : sealPublic S hdr sk msg f a rnd = .ok tok) :
    unsealPublic S hdr (S.pubOf sk) tok f a = .ok msg := by
  unfold sealPublic at h
  unfold unsealPublic
  split at h
  · cases h
  · rename_i hg
    simp only [hg, Bool.false_eq_true, if_false]
    cases hs : S.sign sk (pae (S.pieces (S.pubOf sk) hdr msg f a)) rnd with
    | err e => simp [hs, Res.map, Res.bind] at h
    | panic s => simp [hs, Res.map, Res.bind] at h
    | ok sig =>
      simp only [hs, Res.map, Res.bind] at h
      injection h with h; subst h
      rw [splitLast_append _ _ _ (L.sign_len _ _ _ _ hs)]
      simp only []
      rw [L.sign_check _ _ _ _ hs]

/-- sealing succeeds whenever the assertion policy allows it and the signer succeeds -/
theorem sealPublic_ok (S : PublicScheme) (hdr : List Bytes) (sk msg f a rnd sig : Bytes)
    (ha : S.hasAad = true ∨ a = [])
    (hs : S.sign sk (pae (S.pieces (S.pubOf sk) hdr msg f a)) rnd = .ok sig) :
    sealPublic S hdr sk msg f a rnd = .ok (msg ++ sig) := by
  have hg : (!S.hasAad && !a.isEmpty) = false := by
    rcases ha with h | h <;> simp [h]
  simp [sealPublic, hg, hs, Res.map, Res.bind]

/-- exact acceptance characterisation -/
theorem unsealPublic_ok_iff (S : PublicScheme) (hdr : List Bytes) (pk payload f a m : Bytes) :
    unsealPublic S hdr pk payload f a = .ok m ↔
      (S.hasAad = true ∨ a = []) ∧
      ∃ sig, payload = m ++ sig ∧ sig.length = S.sigLen ∧
        S.check pk (pae (S.pieces pk hdr m f a)) sig = .valid := by
  unfold unsealPublic
  by_cases hg : (!S.hasAad && !a.isEmpty) = true
  · simp only [hg, if_true]
    constructor
    · intro h; cases h
    · rintro ⟨h, _⟩
      rcases h with h | h <;> simp [h] at hg
  · have hg' : S.hasAad = true ∨ a = [] := by
      cases hh : S.hasAad <;> cases a <;> simp_all
    simp only [hg, Bool.false_eq_true, if_false]
    constructor
    · intro h
      refine ⟨hg', ?_⟩
      cases hs : splitLast S.sigLen payload with
      | none => simp [hs] at h
      | some p =>
        obtain ⟨msg, sig⟩ := p
        simp only [hs] at h
        obtain ⟨e1, l1⟩ := splitLast_some hs
        cases hc : S.check pk (pae (S.pieces pk hdr msg f a)) sig with
        | valid => simp only [hc] at h; injection h with h; subst h; exact ⟨sig, e1, l1, hc⟩
        | malformed => simp [hc] at h
        | invalid => simp [hc] at h
    · rintro ⟨_, sig, rfl, hl, hc⟩
      rw [splitLast_append _ _ _ hl]
      simp [hc]

theorem unsealPublic_total (S : PublicScheme) (hdr : List Bytes) (pk payload f a : Bytes) :
    (∃ m, unsealPublic S hdr pk payload f a = .ok m) ∨
    unsealPublic S hdr pk payload f a = .err .claims ∨
    unsealPublic S hdr pk payload f a = .err .invalidToken ∨
    unsealPublic S hdr pk payload f a = .err .crypto := by
  unfold unsealPublic
  split
  · right; left; rfl
  · split
    · right; right; left; rfl
    · split
      · left; exact ⟨_, rfl⟩
      · right; right; left; rfl
      · right; right; right; rfl

end PM
