import PasetoModel.CivilLemmas
import PasetoModel.JsonLemmas
/-! # Reading the RFC 3339 text back: both year shapes, jiff's whole range -/
namespace PM.Json

theorem len6 (l : Bytes) (h : l.length = 6) : ∃ a b c d e f, l = [a, b, c, d, e, f] := by
  match l, h with
  | [a, b, c, d, e, f], _ => exact ⟨a, b, c, d, e, f, rfl⟩

theorem body6_reads_back (y m d hh mm ss : Nat) (tail : Bytes)
    (hy : y < 10 ^ 6) (hm : m < 10 ^ 2) (hd : d < 10 ^ 2) (hh' : hh < 10 ^ 2) (hmm : mm < 10 ^ 2) (hss : ss < 10 ^ 2) :
    let t := pad 6 y ++ [45] ++ pad 2 m ++ [45] ++ pad 2 d ++ [84] ++ pad 2 hh ++ [58] ++ pad 2 mm ++ [58] ++ pad 2 ss ++ tail
    digitsVal (t.take 6) = y ∧ digitsVal ((t.drop 7).take 2) = m ∧ digitsVal ((t.drop 10).take 2) = d ∧
      digitsVal ((t.drop 13).take 2) = hh ∧ digitsVal ((t.drop 16).take 2) = mm ∧ digitsVal ((t.drop 19).take 2) = ss ∧
      t.drop 21 = tail := by
  have ey := digitsVal_pad 6 y hy
  have em := digitsVal_pad 2 m hm
  have ed := digitsVal_pad 2 d hd
  have eh := digitsVal_pad 2 hh hh'
  have emi := digitsVal_pad 2 mm hmm
  have es := digitsVal_pad 2 ss hss
  obtain ⟨y1, y2, y3, y4, y5, y6, hY⟩ := len6 _ (pad_length 6 y)
  obtain ⟨m1, m2, hM⟩ := len2 _ (pad_length 2 m)
  obtain ⟨d1, d2, hD⟩ := len2 _ (pad_length 2 d)
  obtain ⟨h1, h2, hH⟩ := len2 _ (pad_length 2 hh)
  obtain ⟨i1, i2, hI⟩ := len2 _ (pad_length 2 mm)
  obtain ⟨s1, s2, hS⟩ := len2 _ (pad_length 2 ss)
  rw [hY] at ey; rw [hM] at em; rw [hD] at ed; rw [hH] at eh; rw [hI] at emi; rw [hS] at es
  intro t
  simp only [t, hY, hM, hD, hH, hI, hS]
  simp only [List.cons_append, List.nil_append, List.take_succ_cons, List.take_zero, List.drop_succ_cons, List.drop_zero]
  exact ⟨ey, em, ed, eh, emi, es, trivial⟩

/-- the reader for a year below 0: the text after the leading `-` -/
def readTsNeg (t : Bytes) : Int :=
  let y := digitsVal (t.take 6)
  let m := digitsVal ((t.drop 7).take 2)
  let d := digitsVal ((t.drop 10).take 2)
  let hh := digitsVal ((t.drop 13).take 2)
  let mm := digitsVal ((t.drop 16).take 2)
  let ss := digitsVal ((t.drop 19).take 2)
  let frac := readFrac (t.drop 21)
  (daysFromCivil (-(y : Int)) m d * 86400 + ((hh * 3600 + mm * 60 + ss : Nat) : Int)) * 1000000000 + (frac : Int)

/-- the reader for both shapes: a leading `-` selects the six-digit year -/
def readTsAny : Bytes → Int
  | 45 :: r => readTsNeg r
  | t => readTs t

theorem readFrac_tail (frac : Nat) (hfrlt : frac < 10 ^ 9) : readFrac (fracDigits frac ++ [90]) = frac := by
  by_cases h0 : frac = 0
  · subst h0; rfl
  · obtain ⟨ds, e1, _, e3⟩ := frac_reads_back frac (by omega) hfrlt
    rw [e1]
    show digitsVal ((ds ++ [90]).dropLast ++ List.replicate (9 - (ds ++ [90]).dropLast.length) 48) = frac
    rw [List.dropLast_concat]
    exact e3

theorem readTsNeg_fmtTs (ns : Int)
    (hy0 : (civil ((ns.fdiv 1000000000).fdiv 86400)).1 < 0) (hy1 : -1000000 < (civil ((ns.fdiv 1000000000).fdiv 86400)).1) :
    ∃ r, fmtTs ns = 45 :: r ∧ readTsNeg r = ns := by
  have hrange := civil_in_range ((ns.fdiv 1000000000).fdiv 86400)
  have hinv := daysFromCivil_civil ((ns.fdiv 1000000000).fdiv 86400)
  generalize hc : civil ((ns.fdiv 1000000000).fdiv 86400) = c at *
  obtain ⟨y, m, d⟩ := c
  simp only at hy0 hy1 hrange hinv
  generalize hsod : ((ns.fdiv 1000000000).fmod 86400).toNat = sod
  have hsodlt : sod < 86400 := by
    rw [Int.fmod_eq_emod_of_nonneg _ (by omega)] at hsod; omega
  have hsf := sod_fields sod hsodlt
  generalize hfr : (ns.fmod 1000000000).toNat = frac
  have hfrlt : frac < 10 ^ 9 := by
    rw [Int.fmod_eq_emod_of_nonneg _ (by omega)] at hfr; omega
  refine ⟨pad 6 (-y).toNat ++ [45] ++ pad 2 m ++ [45] ++ pad 2 d ++ [84] ++ pad 2 (sod / 3600) ++ [58] ++
      pad 2 (sod % 3600 / 60) ++ [58] ++ pad 2 (sod % 60) ++ (fracDigits frac ++ [90]), ?_, ?_⟩
  · simp only [fmtTs, hc, hsod, hfr, hy0, if_true, List.append_assoc, List.cons_append]
  · have hb := body6_reads_back (-y).toNat m d (sod / 3600) (sod % 3600 / 60) (sod % 60) (fracDigits frac ++ [90])
      (by omega) (by omega) (by omega) (by omega) (by omega) (by omega)
    simp only at hb
    obtain ⟨b1, b2, b3, b4, b5, b6, b7⟩ := hb
    have hfrac := readFrac_tail frac hfrlt
    unfold readTsNeg
    simp only [b1, b2, b3, b4, b5, b6, b7, hfrac]
    rw [show -(((-y).toNat : Nat) : Int) = y by omega, hinv]
    rw [Int.fmod_eq_emod_of_nonneg _ (by omega)] at hsod hfr
    rw [Int.fdiv_eq_ediv_of_nonneg _ (by omega), Int.fdiv_eq_ediv_of_nonneg _ (by omega)]
    rw [Int.fdiv_eq_ediv_of_nonneg _ (by omega)] at hsod
    omega

theorem readTsAny_of_digit (a : UInt8) (r : Bytes) (h : isDigit a) : readTsAny (a :: r) = readTs (a :: r) := by
  have : a ≠ 45 := by
    intro e; subst e; exact absurd h.1 (by decide)
  unfold readTsAny
  split
  · rename_i r' heq
    injection heq with h1 _
    exact absurd h1 this
  · rfl

/-- the timestamp text reads back to the instant written, for every year −999999 … 9999 (jiff's range is −9999 … 9999) -/
theorem readTsAny_fmtTs (ns : Int)
    (hy0 : -1000000 < (civil ((ns.fdiv 1000000000).fdiv 86400)).1) (hy1 : (civil ((ns.fdiv 1000000000).fdiv 86400)).1 < 10000) :
    readTsAny (fmtTs ns) = ns := by
  by_cases hneg : (civil ((ns.fdiv 1000000000).fdiv 86400)).1 < 0
  · obtain ⟨r, e1, e2⟩ := readTsNeg_fmtTs ns hneg hy0
    rw [e1]; exact e2
  · have hpos : 0 ≤ (civil ((ns.fdiv 1000000000).fdiv 86400)).1 := by omega
    have hmain := readTs_fmtTs ns hpos hy1
    have hshape : ∃ a r, fmtTs ns = a :: r ∧ isDigit a := by
      obtain ⟨y1, y2, y3, y4, hY⟩ := len4 _ (pad_length 4 (civil ((ns.fdiv 1000000000).fdiv 86400)).1.toNat)
      have hd := pad_digits 4 (civil ((ns.fdiv 1000000000).fdiv 86400)).1.toNat y1 (by rw [hY]; simp)
      refine ⟨y1, ?_, ?_, hd⟩
      rotate_left
      · rw [fmtTs_eq_render]
        simp only [tsFields, renderFields, hneg, if_false, hY, List.cons_append]
        rfl
    obtain ⟨a, r, e, hd⟩ := hshape
    rw [e, readTsAny_of_digit a r hd, ← e]
    exact hmain
end PM.Json
