import PasetoModel.Basic
/-! Shared keys under concurrency (C17).  On the Rust side a key is an owned, immutable value:
    every public operation takes `&Key` (or consumes a clone) and returns a fresh value.  The
    system model: one shared key, several threads each running a list of operations; a step runs
    the next operation of one thread *atomically on the key* (the operations are pure functions of
    the key and their own arguments/randomness).  Failing operations are ordinary results. -/
namespace PM.Conc

/-- an operation: a function of the shared key (arguments and per-call randomness are baked in) -/
abbrev Op (K O : Type) := K → O

structure Sys (K O : Type) where
  key : K
  pending : List (List (Op K O))      -- per thread: operations still to run
  outputs : List (List O)             -- per thread: results so far

/-- thread `i` runs its next operation; no-op if it has none -/
def step {K O} (s : Sys K O) (i : Nat) : Sys K O :=
  match s.pending[i]? with
  | some (op :: rest) =>
    { s with pending := s.pending.set i rest,
             outputs := s.outputs.set i ((s.outputs[i]?.getD []) ++ [op s.key]) }
  | _ => s

def run {K O} (s : Sys K O) (sched : List Nat) : Sys K O := sched.foldl step s

/-- sequential oracle: each thread's results computed alone on the same key -/
def sequential {K O} (key : K) (progs : List (List (Op K O))) : List (List O) :=
  progs.map (fun p => p.map (fun op => op key))

def init {K O} (key : K) (progs : List (List (Op K O))) : Sys K O :=
  { key, pending := progs, outputs := progs.map (fun _ => []) }

/-- invariant of every reachable state: the key is the initial key, and for each thread the results
    so far followed by the results still to come are the sequential results -/
def Inv {K O} (key : K) (progs : List (List (Op K O))) (s : Sys K O) : Prop :=
  s.key = key ∧ s.pending.length = progs.length ∧ s.outputs.length = progs.length ∧
  ∀ i, i < progs.length →
    (s.outputs[i]?.getD []) ++ ((s.pending[i]?.getD []).map (fun op => op key)) =
      (progs[i]?.getD []).map (fun op => op key)

theorem inv_init {K O} (key : K) (progs : List (List (Op K O))) : Inv key progs (init key progs) := by
  refine ⟨rfl, rfl, by simp [init], ?_⟩
  intro i hi
  simp [init, hi]

theorem inv_step {K O} (key : K) (progs : List (List (Op K O))) (s : Sys K O) (i : Nat)
    (h : Inv key progs s) : Inv key progs (step s i) := by
  obtain ⟨hk, hp, ho, hi⟩ := h
  unfold step
  split
  · rename_i op rest hpi
    refine ⟨hk, by simp [hp], by simp [ho], ?_⟩
    intro j hj
    by_cases hji : j = i
    · subst hji
      have := hi j hj
      have hlt : j < s.pending.length := by omega
      have hlo : j < s.outputs.length := by omega
      simp only [List.getElem?_set_self hlt, List.getElem?_set_self hlo, Option.getD_some]
      rw [hpi] at this
      simp only [Option.getD_some, List.map_cons] at this
      rw [List.append_assoc, hk]
      simpa using this
    · have := hi j hj
      simp only [List.getElem?_set_ne (Ne.symm hji)]
      exact this
  · exact ⟨hk, hp, ho, hi⟩

theorem inv_run {K O} (key : K) (progs : List (List (Op K O))) (sched : List Nat) :
    Inv key progs (run (init key progs) sched) := by
  unfold run
  generalize hs : init key progs = s0
  have h0 : Inv key progs s0 := hs ▸ inv_init key progs
  clear hs
  induction sched generalizing s0 with
  | nil => exact h0
  | cons i rest ih => exact ih (step s0 i) (inv_step key progs s0 i h0)

end PM.Conc
