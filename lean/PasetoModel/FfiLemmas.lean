import PasetoModel.Ffi
/-! Soundness of the ownership checker of `Ffi.lean`: what `Fn.ok = true` *means*.

`run` records every release in `frees` and every violation in `bad`.  These lemmas show that an empty `bad` is not
just the checker's say-so: it implies that no object was released twice (`frees.Nodup`) and that every object still
allocated when the function is left is owned by the returned value. -/
namespace PM.Ffi

/-- the invariant carried through a run: as long as no violation has been recorded, no object was released twice -/
def St.Inv (s : St) : Prop := s.bad = [] → s.frees.Nodup

theorem St.release_inv (s : St) (r : Nat) (h : s.Inv) : (s.release r).Inv := by
  intro hb
  simp only [St.release] at hb ⊢
  by_cases hc : s.frees.contains r = true
  · have hm : r ∈ s.frees := by simpa using hc
    simp [hm] at hb
  · have hr : r ∉ s.frees := by simpa using hc
    simp only [List.contains_eq_mem, hr, decide_false, Bool.false_eq_true, if_false] at hb
    exact List.nodup_cons.mpr ⟨hr, h hb⟩

theorem St.free_inv (fuel : Nat) : ∀ (s : St) (r : Nat), s.Inv → (s.free fuel r).Inv := by
  induction fuel with
  | zero => intro s r h; simpa [St.free] using h
  | succ f ih =>
    intro s r h
    unfold St.free
    simp only
    have : ∀ (l : List (Nat × Nat)) (t : St), t.Inv → (l.foldl (fun s c => s.free f c.1) t).Inv := by
      intro l
      induction l with
      | nil => intro t ht; simpa using ht
      | cons c l ihl => intro t ht; simp only [List.foldl_cons]; exact ihl _ (ih t c.1 ht)
    exact this _ _ (St.release_inv s r h)

theorem St.dropScope_inv (s : St) (keep : List Nat) (h : s.Inv) : (s.dropScope keep).Inv := by
  unfold St.dropScope
  have : ∀ (l : List (Nat × Bool)) (t : St), t.Inv →
      (l.foldl (fun s (w : Nat × Bool) => if w.2 && !keep.contains w.1 then s.free 8 w.1 else s) t).Inv := by
    intro l
    induction l with
    | nil => intro t ht; simpa using ht
    | cons w l ihl =>
      intro t ht
      simp only [List.foldl_cons]
      apply ihl
      split
      · exact St.free_inv 8 t w.1 ht
      · exact ht
  exact this s.scope s h

/-- recording a use never touches `frees`, and can only add to `bad` -/
theorem callFold_inv (borrowed uses : List Nat) (s : St) (h : s.Inv) :
    (uses.foldl (fun s u => if s.live.contains u || borrowed.contains u then s
                           else { s with bad := s!"use of {u} after free / before allocation" :: s.bad }) s).Inv := by
  induction uses generalizing s with
  | nil => simpa using h
  | cons u us ih =>
    simp only [List.foldl_cons]
    apply ih
    split
    · exact h
    · intro hb; simp at hb

theorem step_inv (s : St) (borrowed : List Nat) (a : Act) (h : s.Inv) : (step s borrowed a).Inv := by
  cases a with
  | alloc r d => exact h
  | call uses f => exact callFold_inv borrowed uses s h
  | give rs into => exact h
  | detach r => exact h
  | allocRaw r => exact h
  | adopt r d =>
    simp only [step]
    split
    · exact h
    · intro hb; simp at hb
  | rawFree r => exact St.free_inv 8 s r h
  | dropNow r =>
    simp only [step]
    split
    · have := St.free_inv 8 s r h
      intro hb
      exact this hb
    · exact h

theorem runGo_inv (borrowed : List Nat) (failAt : Option Nat) (acts : List Act) (idx : Nat) (s : St) (h : s.Inv) :
    (runGo borrowed failAt acts idx s).1.Inv := by
  induction acts generalizing idx s with
  | nil => simpa [runGo] using h
  | cons a rest ih =>
    unfold runGo
    split
    · exact h
    · exact ih _ _ (step_inv s borrowed a h)

theorem finish_bad_nil (f : Fn) (s : St) (ok : Bool) (h : (finish f s ok).bad = []) :
    (s.dropScope (if ok then f.returns else [])).bad = [] ∧
    ∀ r ∈ (s.dropScope (if ok then f.returns else [])).live,
      ok = true ∧ (f.returns.contains r = true ∨
        (s.dropScope (if ok then f.returns else [])).children.any (fun c => c.1 == r && f.returns.contains c.2) = true) := by
  simp only [finish, List.append_eq_nil_iff, List.map_eq_nil_iff, List.filter_eq_nil_iff] at h
  refine ⟨h.2, ?_⟩
  intro r hr
  have := h.1.1.1 r hr
  simp only [Bool.not_eq_true', Bool.not_eq_false, Bool.and_eq_true, Bool.or_eq_true] at this
  exact this

/-- **No double free.**  If a run records no violation, no object was released twice during it. -/
theorem run_no_double_free (f : Fn) (failAt : Option Nat) (h : (run f failAt).bad = []) :
    (run f failAt).frees.Nodup := by
  have h0 : ({} : St).Inv := by intro _; simp
  have h1 := runGo_inv f.borrowed failAt f.body 0 {} h0
  have h2 := St.dropScope_inv _ (if (runGo f.borrowed failAt f.body 0 {}).2 then f.returns else []) h1
  exact h2 (finish_bad_nil f _ _ h).1

/-- **No leak.**  If a run records no violation, every object still allocated when the function is left belongs to
    the returned value (directly, or through an object whose ownership the returned value took) — and nothing is
    left allocated on a failing exit. -/
theorem run_no_leak (f : Fn) (failAt : Option Nat) (h : (run f failAt).bad = []) :
    ∀ r ∈ (run f failAt).live,
      (runGo f.borrowed failAt f.body 0 {}).2 = true ∧
      (f.returns.contains r = true ∨ (run f failAt).children.any (fun c => c.1 == r && f.returns.contains c.2) = true) :=
  (finish_bad_nil f _ _ h).2

/-- what `Fn.ok` gives for every exit the checker enumerates -/
theorem ok_sound (f : Fn) (h : f.ok = true) (failAt : Option Nat)
    (hfa : failAt ∈ none :: (List.range f.body.length).map some) :
    (run f failAt).frees.Nodup ∧
    ∀ r ∈ (run f failAt).live, f.returns.contains r = true ∨
      (run f failAt).children.any (fun c => c.1 == r && f.returns.contains c.2) = true := by
  unfold Fn.ok at h
  rw [List.all_eq_true] at h
  have hb : (run f failAt).bad = [] := by simpa using h failAt hfa
  exact ⟨run_no_double_free f failAt hb, fun r hr => (run_no_leak f failAt hb r hr).2⟩

/-- a failure index beyond the last action is the same as no failure -/
theorem runGo_far (borrowed : List Nat) (i : Nat) (acts : List Act) (idx : Nat) (s : St) (h : idx + acts.length ≤ i) :
    runGo borrowed (some i) acts idx s = runGo borrowed none acts idx s := by
  induction acts generalizing idx s with
  | nil => simp [runGo]
  | cons a rest ih =>
    simp only [List.length_cons] at h
    have hne : (some i == some idx) = false := by
      simp only [beq_eq_false_iff_ne, ne_eq, Option.some.injEq]; omega
    unfold runGo
    simp only [hne, Bool.and_false, Bool.false_eq_true, if_false]
    have hn : (none == some idx) = false := by rfl
    simp only [hn, Bool.and_false, Bool.false_eq_true, if_false]
    exact ih (idx + 1) _ (by omega)

/-- `Fn.ok` covers *every* exit: any failure index, not only the enumerated ones -/
theorem ok_sound_all (f : Fn) (h : f.ok = true) (failAt : Option Nat) :
    (run f failAt).frees.Nodup ∧
    ∀ r ∈ (run f failAt).live, f.returns.contains r = true ∨
      (run f failAt).children.any (fun c => c.1 == r && f.returns.contains c.2) = true := by
  cases failAt with
  | none => exact ok_sound f h none (by simp)
  | some i =>
    by_cases hi : i < f.body.length
    · exact ok_sound f h (some i) (by simp; exact hi)
    · have : run f (some i) = run f none := by
        unfold run
        rw [runGo_far f.borrowed i f.body 0 {} (by omega)]
      rw [this]
      exact ok_sound f h none (by simp)

end PM.Ffi
