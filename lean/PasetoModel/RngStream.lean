import PasetoModel.Rng
/-! The random source as a *byte stream with failure points* — what the scripted source of the harness is since the
    chunking of requests stopped being part of the tie (DESIGN §12.4).  `Src` answers whole requests; `flat` forgets the
    request boundaries.  The lemmas show that the request-level model (`draw`) and the stream-level one (`takeS`) agree
    on every well-formed script, and that at stream level only the *bytes* matter, not how requests are cut. -/
namespace PM

/-- one element of the flattened source: a byte, or a failure point -/
abbrev SByte := Option UInt8

/-- forget request boundaries: an answer of `k` bytes is `k` stream bytes, a failing answer is one failure point -/
def flat : Src → List SByte
  | [] => []
  | some b :: rest => b.map some ++ flat rest
  | none :: rest => none :: flat rest

/-- serve a request of `n` bytes from the stream; reaching a failure point (or the end) fails the request -/
def takeS : Nat → List SByte → Res (Bytes × List SByte)
  | 0, s => .ok ([], s)
  | _ + 1, [] => .err .crypto
  | _ + 1, none :: _ => .err .crypto
  | n + 1, some x :: s => (takeS n s).map (fun (b, r) => (x :: b, r))

theorem takeS_prefix (b : Bytes) (t : List SByte) : takeS b.length (b.map some ++ t) = .ok (b, t) := by
  induction b with
  | nil => rfl
  | cons x xs ih => simp [takeS, ih, Res.map, Res.bind]

/-- **chunking independence**: one request of `m + n` bytes gives exactly what a request of `m` followed by a request
    of `n` gives (bytes, remaining stream, and failure) -/
theorem takeS_add (m n : Nat) (s : List SByte) :
    takeS (m + n) s = (takeS m s).bind (fun (x, s') => (takeS n s').map (fun (y, s'') => (x ++ y, s''))) := by
  induction m generalizing s with
  | zero =>
    simp only [Nat.zero_add, takeS, Res.bind]
    cases takeS n s with
    | ok p => cases p; simp [Res.map, Res.bind]
    | err e => rfl
    | panic x => rfl
  | succ m ih =>
    rw [Nat.succ_add]
    cases s with
    | nil => rfl
    | cons h t =>
      cases h with
      | none => rfl
      | some x =>
        simp only [takeS]
        rw [ih t]
        cases takeS m t with
        | ok p =>
          obtain ⟨a, s'⟩ := p
          simp only [Res.bind, Res.map]
          cases takeS n s' with
          | ok q => cases q; rfl
          | err e => rfl
          | panic x => rfl
        | err e => rfl
        | panic x => rfl

/-- the request-level model refines the stream-level one: a successful `draw` is the same bytes taken from the stream -/
theorem draw_refines_stream (n : Nat) (s s' : Src) (b : Bytes) (h : draw n s = .ok (b, s')) :
    takeS n (flat s) = .ok (b, flat s') := by
  cases s with
  | nil => simp [draw] at h
  | cons a rest =>
    cases a with
    | none => simp [draw] at h
    | some c =>
      simp only [draw] at h
      split at h
      · rename_i hl
        simp only [Res.ok.injEq, Prod.mk.injEq] at h
        obtain ⟨hb, hs⟩ := h
        subst hb; subst hs
        rw [← hl]
        exact takeS_prefix c (flat rest)
      · simp at h

/-- a failing answer fails the request at both levels -/
theorem stream_fail (n : Nat) (rest : Src) : takeS (n + 1) (flat (none :: rest)) = .err .crypto := rfl

end PM
