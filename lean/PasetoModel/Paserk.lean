import PasetoModel.Local
/-! PASERK operations: PIE (symmetric wrap), PBKW (password wrap), PKE (seal to a public key), key ids.
    Generic skeletons + laws + theorems; concrete instances in `PaserkInst.lean`. -/
namespace PM

/-! ## PIE: `*/src/core/pie_wrap.rs` -/

/-- `pie_wrap_key`: tag ‖ nonce ‖ ciphertext; MAC over version ‖ header ‖ nonce ‖ ciphertext -/
def pieWrap (P : SymPrims) (ver hdr wk nonce key : Bytes) : Bytes :=
  let c := symEnc P wk nonce key
  P.mac (P.ak wk nonce) (ver ++ hdr ++ nonce ++ c) ++ nonce ++ c

/-- `pie_unwrap_key` -/
def pieUnwrap (P : SymPrims) (tagLen : Nat) (ver hdr wk blob : Bytes) : Res Bytes :=
  match splitFirst tagLen blob with
  | none => .err .invalidKey
  | some (t, rest) =>
    match splitFirst 32 rest with
    | none => .err .invalidKey
    | some (n, c) =>
      if tagEq (P.mac (P.ak wk n) (ver ++ hdr ++ n ++ c)) t then .ok (symEnc P wk n c) else .err .crypto

theorem pie_roundtrip (P : SymPrims) (tagLen : Nat) (L : SymLaws P tagLen) (ver hdr wk nonce key : Bytes)
    (hn : nonce.length = 32) : pieUnwrap P tagLen ver hdr wk (pieWrap P ver hdr wk nonce key) = .ok key := by
  unfold pieUnwrap pieWrap
  simp only [List.append_assoc]
  rw [splitFirst_append _ _ _ (L.mac_len _ _)]
  simp only []
  rw [splitFirst_append _ _ _ hn]
  simp [tagEq, symEnc_symEnc P L]

theorem pie_len (P : SymPrims) (tagLen : Nat) (L : SymLaws P tagLen) (ver hdr wk nonce key : Bytes)
    (hn : nonce.length = 32) : (pieWrap P ver hdr wk nonce key).length = tagLen + 32 + key.length := by
  unfold pieWrap symEnc
  simp [L.mac_len, hn, xor_length _ _ (show key.length = (P.stream (P.ek wk nonce) (P.n2 wk nonce) key.length).length by rw [L.stream_len])]
  omega

theorem pieUnwrap_ok_iff (P : SymPrims) (tagLen : Nat) (ver hdr wk blob key : Bytes) :
    pieUnwrap P tagLen ver hdr wk blob = .ok key ↔
      ∃ t n c, blob = t ++ n ++ c ∧ t.length = tagLen ∧ n.length = 32 ∧
        t = P.mac (P.ak wk n) (ver ++ hdr ++ n ++ c) ∧ key = symEnc P wk n c := by
  unfold pieUnwrap
  constructor
  · intro h
    cases hs : splitFirst tagLen blob with
    | none => simp [hs] at h
    | some p =>
      obtain ⟨t, rest⟩ := p
      simp only [hs] at h
      cases hf : splitFirst 32 rest with
      | none => simp [hf] at h
      | some q =>
        obtain ⟨n, c⟩ := q
        simp only [hf] at h
        split at h
        · rename_i ht
          injection h with h
          obtain ⟨e1, l1⟩ := splitFirst_some hs
          obtain ⟨e2, l2⟩ := splitFirst_some hf
          exact ⟨t, n, c, by rw [e1, e2, List.append_assoc], l1, l2, ((tagEq_iff _ _).mp ht).symm, h.symm⟩
        · cases h
  · rintro ⟨t, n, c, rfl, ht, hn, rfl, rfl⟩
    rw [List.append_assoc, splitFirst_append _ _ _ ht]
    simp only []
    rw [splitFirst_append _ _ _ hn]
    simp [tagEq]

/-! ## PBKW: `*/src/core/pw_wrap.rs` -/

structure PbkwScheme where
  saltLen : Nat
  paramLen : Nat
  nonceLen : Nat
  tagLen : Nat
  /-- password KDF with the parameter block as found in the blob; may reject parameters -/
  kdf : Bytes → Bytes → Bytes → Res Bytes           -- pass salt params
  ek : Bytes → Bytes
  ak : Bytes → Bytes
  stream : Bytes → Bytes → Nat → Bytes
  mac : Bytes → Bytes → Bytes

def PbkwScheme.prefixLen (S : PbkwScheme) : Nat := S.saltLen + S.paramLen + S.nonceLen

structure PbkwLaws (S : PbkwScheme) : Prop where
  mac_len : ∀ k m, (S.mac k m).length = S.tagLen
  stream_len : ∀ k iv n, (S.stream k iv n).length = n

def pbkwEnc (S : PbkwScheme) (k nonce data : Bytes) : Bytes := xor data (S.stream (S.ek k) nonce data.length)

/-- `pw_wrap_key`: prefix (salt ‖ params ‖ nonce) ‖ ciphertext ‖ tag -/
def pbkwWrap (S : PbkwScheme) (ver hdr pass salt params nonce key : Bytes) : Res Bytes :=
  let pre := salt ++ params ++ nonce
  (S.kdf pass salt params).map fun k =>
    let c := pbkwEnc S k nonce key
    pre ++ c ++ S.mac (S.ak k) (ver ++ hdr ++ pre ++ c)

/-- `pw_unwrap_key` -/
def pbkwUnwrap (S : PbkwScheme) (ver hdr pass blob : Bytes) : Res Bytes :=
  match splitFirst S.prefixLen blob with
  | none => .err .invalidKey
  | some (pre, rest) =>
    match splitLast S.tagLen rest with
    | none => .err .invalidKey
    | some (c, t) =>
      let salt := pre.take S.saltLen
      let params := (pre.drop S.saltLen).take S.paramLen
      let nonce := pre.drop (S.saltLen + S.paramLen)
      (S.kdf pass salt params).bind fun k =>
        if tagEq (S.mac (S.ak k) (ver ++ hdr ++ pre ++ c)) t then .ok (pbkwEnc S k nonce c) else .err .crypto

theorem pbkwEnc_pbkwEnc (S : PbkwScheme) (L : PbkwLaws S) (k n d : Bytes) : pbkwEnc S k n (pbkwEnc S k n d) = d := by
  unfold pbkwEnc
  have hl : (xor d (S.stream (S.ek k) n d.length)).length = d.length := xor_length _ _ (by rw [L.stream_len])
  rw [hl]; exact xor_xor _ _ (by rw [L.stream_len])

theorem pbkw_roundtrip (S : PbkwScheme) (L : PbkwLaws S) (ver hdr pass salt params nonce key blob : Bytes)
    (hs : salt.length = S.saltLen) (hp : params.length = S.paramLen) (hn : nonce.length = S.nonceLen)
    (h : pbkwWrap S ver hdr pass salt params nonce key = .ok blob) :
    pbkwUnwrap S ver hdr pass blob = .ok key := by
  unfold pbkwWrap at h
  cases hk : S.kdf pass salt params with
  | err e => simp [hk, Res.map, Res.bind] at h
  | panic s => simp [hk, Res.map, Res.bind] at h
  | ok k =>
    simp only [hk, Res.map, Res.bind] at h
    injection h with h; subst h
    unfold pbkwUnwrap
    have hpre : (salt ++ params ++ nonce).length = S.prefixLen := by simp [PbkwScheme.prefixLen, hs, hp, hn]; omega
    rw [List.append_assoc (salt ++ params ++ nonce), splitFirst_append _ _ _ hpre]
    simp only []
    rw [splitLast_append _ _ _ (L.mac_len _ _)]
    simp only []
    have e1 : (salt ++ params ++ nonce).take S.saltLen = salt := by
      rw [List.append_assoc, List.take_left' hs]
    have e2 : ((salt ++ params ++ nonce).drop S.saltLen).take S.paramLen = params := by
      rw [List.append_assoc, List.drop_left' hs, List.take_left' hp]
    have e3 : (salt ++ params ++ nonce).drop (S.saltLen + S.paramLen) = nonce := by
      rw [List.drop_left' (by simp [hs, hp])]
    rw [e1, e2, e3, hk]
    simp [Res.bind, tagEq, pbkwEnc_pbkwEnc S L]

theorem pbkw_len (S : PbkwScheme) (L : PbkwLaws S) (ver hdr pass salt params nonce key blob : Bytes)
    (hs : salt.length = S.saltLen) (hp : params.length = S.paramLen) (hn : nonce.length = S.nonceLen)
    (h : pbkwWrap S ver hdr pass salt params nonce key = .ok blob) :
    blob.length = S.prefixLen + key.length + S.tagLen := by
  unfold pbkwWrap at h
  cases hk : S.kdf pass salt params with
  | err e => simp [hk, Res.map, Res.bind] at h
  | panic s => simp [hk, Res.map, Res.bind] at h
  | ok k =>
    simp only [hk, Res.map, Res.bind] at h
    injection h with h; subst h
    have : (pbkwEnc S k nonce key).length = key.length := by
      unfold pbkwEnc; exact xor_length _ _ (by rw [L.stream_len])
    simp [PbkwScheme.prefixLen, hs, hp, hn, L.mac_len, this]; omega

theorem pbkwUnwrap_ok_iff (S : PbkwScheme) (ver hdr pass blob key : Bytes) :
    pbkwUnwrap S ver hdr pass blob = .ok key ↔
      ∃ pre c t k, blob = pre ++ c ++ t ∧ pre.length = S.prefixLen ∧ t.length = S.tagLen ∧
        S.kdf pass (pre.take S.saltLen) ((pre.drop S.saltLen).take S.paramLen) = .ok k ∧
        t = S.mac (S.ak k) (ver ++ hdr ++ pre ++ c) ∧
        key = pbkwEnc S k (pre.drop (S.saltLen + S.paramLen)) c := by
  unfold pbkwUnwrap
  constructor
  · intro h
    cases hs : splitFirst S.prefixLen blob with
    | none => simp [hs] at h
    | some p =>
      obtain ⟨pre, rest⟩ := p
      simp only [hs] at h
      cases hf : splitLast S.tagLen rest with
      | none => simp [hf] at h
      | some q =>
        obtain ⟨c, t⟩ := q
        simp only [hf] at h
        cases hk : S.kdf pass (pre.take S.saltLen) ((pre.drop S.saltLen).take S.paramLen) with
        | err e => simp [hk, Res.bind] at h
        | panic s => simp [hk, Res.bind] at h
        | ok k =>
          simp only [hk, Res.bind] at h
          split at h
          · rename_i ht
            injection h with h
            obtain ⟨e1, l1⟩ := splitFirst_some hs
            obtain ⟨e2, l2⟩ := splitLast_some hf
            exact ⟨pre, c, t, k, by rw [e1, e2, List.append_assoc], l1, l2, hk, ((tagEq_iff _ _).mp ht).symm, h.symm⟩
          · cases h
  · rintro ⟨pre, c, t, k, rfl, hp, ht, hk, rfl, rfl⟩
    rw [List.append_assoc, splitFirst_append _ _ _ hp]
    simp only []
    rw [splitLast_append _ _ _ ht]
    simp [hk, Res.bind, tagEq]

/-! ## PKE: `*/src/core/pke.rs` -/

structure PkeScheme where
  tagLen : Nat
  /-- length of the encapsulation (ephemeral public key, or RSA-KEM ciphertext) in a valid blob -/
  encLen : Nat
  /-- v1 layout: tag ‖ edk ‖ c ; others: tag ‖ epk ‖ edk -/
  encLast : Bool
  hdr : Bytes                                       -- "kN.seal."
  /-- encapsulate to a public key with randomness: (encapsulation bytes, key-derivation context) -/
  encap : Bytes → Bytes → Res (Bytes × Bytes)
  /-- recover the context from the recipient secret key and the encapsulation -/
  decap : Bytes → Bytes → Res Bytes
  ek : Bytes → Bytes
  nonce : Bytes → Bytes
  ak : Bytes → Bytes
  stream : Bytes → Bytes → Nat → Bytes
  mac : Bytes → Bytes → Bytes

structure PkeLaws (S : PkeScheme) (pubOf : Bytes → Bytes) : Prop where
  mac_len : ∀ k m, (S.mac k m).length = S.tagLen
  stream_len : ∀ k iv n, (S.stream k iv n).length = n
  /-- the encapsulation has the fixed length the format prescribes -/
  enc_len : ∀ pk r e ctx, S.encap pk r = .ok (e, ctx) → e.length = S.encLen
  /-- the recipient derives the same context (Diffie–Hellman / RSA correctness) -/
  decap_encap : ∀ sk r e ctx, S.encap (pubOf sk) r = .ok (e, ctx) → S.decap sk e = .ok ctx

def pkeEnc (S : PkeScheme) (ctx d : Bytes) : Bytes := xor d (S.stream (S.ek ctx) (S.nonce ctx) d.length)

/-- `seal_key` -/
def pkeSeal (S : PkeScheme) (pk key rnd : Bytes) : Res Bytes :=
  (S.encap pk rnd).map fun (e, ctx) =>
    let edk := pkeEnc S ctx key
    let tag := S.mac (S.ak ctx) (S.hdr ++ e ++ edk)
    if S.encLast then tag ++ edk ++ e else tag ++ e ++ edk

/-- `unseal_key`; the encrypted data key must be exactly 32 bytes -/
def pkeUnseal (S : PkeScheme) (sk blob : Bytes) : Res Bytes :=
  match splitFirst S.tagLen blob with
  | none => .err .invalidKey
  | some (tag, rest) =>
    let parts : Option (Bytes × Bytes) :=            -- (encapsulation, edk)
      if S.encLast then (splitLast S.encLen rest).map (fun (edk, e) => (e, edk))
      else splitFirst S.encLen rest
    match parts with
    | none => .err .invalidKey
    | some (e, edk) =>
      if edk.length ≠ 32 then .err .invalidKey else
      (S.decap sk e).bind fun ctx =>
        if tagEq (S.mac (S.ak ctx) (S.hdr ++ e ++ edk)) tag then .ok (pkeEnc S ctx edk) else .err .crypto

theorem pkeEnc_pkeEnc (S : PkeScheme) {p : Bytes → Bytes} (L : PkeLaws S p) (ctx d : Bytes) :
    pkeEnc S ctx (pkeEnc S ctx d) = d := by
  unfold pkeEnc
  have hl : (xor d (S.stream (S.ek ctx) (S.nonce ctx) d.length)).length = d.length :=
    xor_length _ _ (by rw [L.stream_len])
  rw [hl]; exact xor_xor _ _ (by rw [L.stream_len])

theorem pke_roundtrip (S : PkeScheme) (pubOf : Bytes → Bytes) (L : PkeLaws S pubOf) (sk key rnd blob : Bytes)
    (hk : key.length = 32) (h : pkeSeal S (pubOf sk) key rnd = .ok blob) :
    pkeUnseal S sk blob = .ok key ∧ blob.length = S.tagLen + S.encLen + 32 := by
  unfold pkeSeal at h
  cases he : S.encap (pubOf sk) rnd with
  | err e => simp [he, Res.map, Res.bind] at h
  | panic s => simp [he, Res.map, Res.bind] at h
  | ok p =>
    obtain ⟨e, ctx⟩ := p
    simp only [he, Res.map, Res.bind] at h
    have hel := L.enc_len _ _ _ _ he
    have hd := L.decap_encap _ _ _ _ he
    have hedk : (pkeEnc S ctx key).length = 32 := by
      unfold pkeEnc; rw [xor_length _ _ (by rw [L.stream_len])]; exact hk
    unfold pkeUnseal
    cases hl : S.encLast with
    | true =>
      simp only [hl, if_true] at h ⊢
      injection h with h; subst h
      refine ⟨?_, by simp [L.mac_len, hel, hedk]; omega⟩
      rw [List.append_assoc, splitFirst_append _ _ _ (L.mac_len _ _)]
      simp only []
      rw [splitLast_append _ _ _ hel]
      simp [hedk, hd, Res.bind, tagEq, pkeEnc_pkeEnc S L]
    | false =>
      simp only [hl, Bool.false_eq_true, if_false] at h ⊢
      injection h with h; subst h
      refine ⟨?_, by simp [L.mac_len, hel, hedk]; omega⟩
      rw [List.append_assoc, splitFirst_append _ _ _ (L.mac_len _ _)]
      simp only []
      rw [splitFirst_append _ _ _ hel]
      simp [hedk, hd, Res.bind, tagEq, pkeEnc_pkeEnc S L]

theorem pkeUnseal_ok_iff (S : PkeScheme) (sk blob key : Bytes) :
    pkeUnseal S sk blob = .ok key ↔
      ∃ tag e edk ctx, blob = (if S.encLast then tag ++ edk ++ e else tag ++ e ++ edk) ∧
        tag.length = S.tagLen ∧ e.length = S.encLen ∧ edk.length = 32 ∧
        S.decap sk e = .ok ctx ∧ tag = S.mac (S.ak ctx) (S.hdr ++ e ++ edk) ∧ key = pkeEnc S ctx edk := by
  unfold pkeUnseal
  constructor
  · intro h
    cases hs : splitFirst S.tagLen blob with
    | none => simp [hs] at h
    | some p =>
      obtain ⟨tag, rest⟩ := p
      simp only [hs] at h
      obtain ⟨e1, l1⟩ := splitFirst_some hs
      cases hl : S.encLast with
      | true =>
        simp only [hl, if_true] at h ⊢
        cases hp : splitLast S.encLen rest with
        | none => simp [hp] at h
        | some q =>
          obtain ⟨edk, e⟩ := q
          simp only [hp, Option.map_some] at h
          obtain ⟨e2, l2⟩ := splitLast_some hp
          split at h
          · cases h
          · rename_i hlen
            cases hd : S.decap sk e with
            | err x => simp [hd, Res.bind] at h
            | panic x => simp [hd, Res.bind] at h
            | ok ctx =>
              simp only [hd, Res.bind] at h
              split at h
              · rename_i ht
                injection h with h
                exact ⟨tag, e, edk, ctx, by rw [e1, e2, List.append_assoc], l1, l2, by simpa using hlen, hd,
                  ((tagEq_iff _ _).mp ht).symm, h.symm⟩
              · cases h
      | false =>
        simp only [hl, Bool.false_eq_true, if_false] at h ⊢
        cases hp : splitFirst S.encLen rest with
        | none => simp [hp] at h
        | some q =>
          obtain ⟨e, edk⟩ := q
          simp only [hp] at h
          obtain ⟨e2, l2⟩ := splitFirst_some hp
          split at h
          · cases h
          · rename_i hlen
            cases hd : S.decap sk e with
            | err x => simp [hd, Res.bind] at h
            | panic x => simp [hd, Res.bind] at h
            | ok ctx =>
              simp only [hd, Res.bind] at h
              split at h
              · rename_i ht
                injection h with h
                exact ⟨tag, e, edk, ctx, by rw [e1, e2, List.append_assoc], l1, l2, by simpa using hlen, hd,
                  ((tagEq_iff _ _).mp ht).symm, h.symm⟩
              · cases h
  · rintro ⟨tag, e, edk, ctx, hb, ht, he, hk, hd, rfl, rfl⟩
    cases hl : S.encLast with
    | true =>
      simp only [hl, if_true] at hb ⊢
      subst hb
      rw [List.append_assoc, splitFirst_append _ _ _ ht]
      simp only []
      rw [splitLast_append _ _ _ he]
      simp [hk, hd, Res.bind, tagEq]
    | false =>
      simp only [hl, Bool.false_eq_true, if_false] at hb ⊢
      subst hb
      rw [List.append_assoc, splitFirst_append _ _ _ ht]
      simp only []
      rw [splitFirst_append _ _ _ he]
      simp [hk, hd, Res.bind, tagEq]

/-! ## key ids: `paserk/id.rs` + `IdVersion::hash_key` -/

/-- `KeyId::from(&KeyText)`: hash of PASERK version ‖ id header ‖ the key's PASERK text, 33 bytes -/
def keyIdOf (hash33 : Bytes → Bytes) (ver idHdr keyText : Bytes) : Bytes := hash33 (ver ++ idHdr ++ keyText)

end PM
