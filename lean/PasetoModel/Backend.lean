import PasetoModel.Local
import PasetoModel.Names
import PasetoModel.Prim.Wrap
import PasetoModel.Extracted.Headers
/-! Per-back-end code choices (`BackendCfg`) and the concrete executable schemes.
    `cfgOf` is written from reading the code of each back end; `specCfg` from the PASETO / PASERK
    documents.  `Conforms` is the only bridge between the two. -/
namespace PM

structure BackendCfg where
  /-- width of the AES-CTR counter actually used (`ctr::Ctr64BE` = 64; aws-lc / OpenSSL = 128) -/
  ctrBits : Nat := 128
  /-- length of the vector returned by `V::nonce()` for local tokens (from `Extracted`) -/
  nonceDraw : Nat := 32
  /-- `dangerous_seal_with_nonce` on a payload shorter than the nonce: panics (`split_at_mut`)? -/
  sealShortPanics : Bool := false
  /-- error returned instead, where it does not panic -/
  sealShortErr : Err := .invalidToken
  /-- ECDSA r‖s written fixed-width (left-padded) -/
  sigPadded : Bool := true
  /-- v1 PKE: RSA-KEM ciphertext written as exactly 512 bytes -/
  kemCtPadded : Bool := true
  /-- public-key decoder rejects the point at infinity -/
  pkRejectsInfinity : Bool := true
  /-- public-key decoder checks the point is on the curve / decompressible -/
  pkOnCurve : Bool := true
  /-- public-key decoder rejects small-order (weak) Ed25519 points, incl. the identity -/
  pkRejectsWeak : Bool := true
  /-- secret-key decoder checks that the embedded public half matches the seed -/
  skChecksPubHalf : Bool := true
  /-- PBKW (Argon2): memory (a byte count) not a multiple of 1024 is rejected (true) or rounded down to
      whole KiB like libsodium's crypto_pwhash, the reference (false) -/
  argonMemMod1024 : Bool := false
  /-- PBKW (Argon2): parallelism other than 1 is supported -/
  argonParallel : Bool := true
  /-- PBKW (PBKDF2): zero iterations rejected with an error (false: treated as one iteration) -/
  pbkwRejectsZeroIter : Bool := false
  /-- P-384 public-key decoder also accepts the SEC1 "compact" form (tag 05, x only; RustCrypto) -/
  pkCompact : Bool := false
  /-- P-384 public-key decoder also accepts the X9.62 "hybrid" form (tag 06/07; aws-lc) -/
  pkHybrid : Bool := false
  deriving Repr, DecidableEq

/-- what the specification prescribes (and what siblings must share) -/
def specCfg : BackendCfg := {}

/-- the components a back end must share with the specification for bit-exactness and round trips -/
def BackendCfg.ConformsLocal (c : BackendCfg) (nonceLen : Nat) : Prop :=
  c.ctrBits = 128 ∧ c.nonceDraw = nonceLen

instance (c : BackendCfg) (n : Nat) : Decidable (c.ConformsLocal n) := by
  unfold BackendCfg.ConformsLocal; exact inferInstance

/-- the code as it is today -/
def cfgOf : Backend → BackendCfg
  | .v1 => { nonceDraw := Extracted.nonceDrawLocal .v1, pbkwRejectsZeroIter := false }
  | .v2 => { nonceDraw := Extracted.nonceDrawLocal .v2, sealShortErr := .crypto, pkRejectsWeak := false }
  | .v3 => { nonceDraw := Extracted.nonceDrawLocal .v3, pkCompact := true }
  | .v3lc => { nonceDraw := Extracted.nonceDrawLocal .v3lc, sealShortPanics := true,
               pbkwRejectsZeroIter := true, pkHybrid := true }
  | .v4 => { nonceDraw := Extracted.nonceDrawLocal .v4, sealShortPanics := true, pkRejectsWeak := false }
  | .v4s => { nonceDraw := Extracted.nonceDrawLocal .v4s, pkRejectsWeak := false, argonParallel := false }

def BackendCfg.short (c : BackendCfg) : Res Bytes :=
  if c.sealShortPanics then .panic "local.rs: split_at_mut(32) on a payload shorter than the nonce"
  else .err c.sealShortErr

/-! ### concrete primitives per version -/
open W

def v1Sym (ctrBits : Nat) : SymPrims :=
  { ek := fun k n => hkdf384 (n.take 16) k (str "paseto-encryption-key") 32,
    n2 := fun _ n => n.drop 16,
    ak := fun k n => hkdf384 (n.take 16) k (str "paseto-auth-key-for-aead") 32,
    stream := aesCtr ctrBits,
    mac := hmac384 }

def v3Sym (ctrBits : Nat) : SymPrims :=
  { ek := fun k n => (hkdf384 [] k (str "paseto-encryption-key" ++ n) 48).take 32,
    n2 := fun k n => (hkdf384 [] k (str "paseto-encryption-key" ++ n) 48).drop 32,
    ak := fun k n => hkdf384 [] k (str "paseto-auth-key-for-aead" ++ n) 48,
    stream := aesCtr ctrBits,
    mac := hmac384 }

def v4Sym : SymPrims :=
  { ek := fun k n => (blake2b k 56 (str "paseto-encryption-key" ++ n)).take 32,
    n2 := fun k n => (blake2b k 56 (str "paseto-encryption-key" ++ n)).drop 32,
    ak := fun k n => blake2b k 32 (str "paseto-auth-key-for-aead" ++ n),
    stream := xchacha,
    mac := fun k m => blake2b k 32 m }

def v2Aead : AeadPrims := { stream := xcpStream, atag := xcpTag }

/-- v1: nonce = first 32 bytes of HMAC-SHA384(key = random bytes, message) -/
def v1Synth (r m : Bytes) : Bytes := (hmac384 r m).take 32
/-- v2: nonce = BLAKE2b-MAC(key = random bytes, 24 bytes, message) -/
def v2Synth (r m : Bytes) : Bytes := blake2b r 24 m
def noSynth (r _m : Bytes) : Bytes := r

/-- the local-token scheme of a version under the code choices `c` -/
def localSchemeOf (version : Nat) (c : BackendCfg) : LocalScheme :=
  match version with
  | 1 => symScheme (v1Sym c.ctrBits) 32 48 false c.short v1Synth
  | 2 => aeadScheme v2Aead 24 16 c.short v2Synth
  | 3 => symScheme (v3Sym c.ctrBits) 32 48 true c.short noSynth
  | _ => symScheme v4Sym 32 32 true c.short noSynth

/-- implementation model of a back end -/
def localScheme (b : Backend) : LocalScheme := localSchemeOf b.version (cfgOf b)
/-- specification model of a version (short-payload behaviour is not specified; taken from `c`) -/
def specLocalScheme (version : Nat) (short : BackendCfg) : LocalScheme :=
  localSchemeOf version { specCfg with sealShortPanics := short.sealShortPanics, sealShortErr := short.sealShortErr }

/-- token header fragments exactly as the code passes them: `["vN", encoding, ".local."]` -/
def tokHdr (b : Backend) (p : Purpose) : List Bytes :=
  [Extracted.versionHeader b, [], Extracted.kindHeader p.toKind]

theorem v1Sym_laws (bits : Nat) : SymLaws (v1Sym bits) 48 :=
  { mac_len := fun _ _ => fixLen_length _ _, stream_len := fun _ _ _ => fixLen_length _ _ }
theorem v3Sym_laws (bits : Nat) : SymLaws (v3Sym bits) 48 :=
  { mac_len := fun _ _ => fixLen_length _ _, stream_len := fun _ _ _ => fixLen_length _ _ }
theorem v4Sym_laws : SymLaws v4Sym 32 :=
  { mac_len := fun _ _ => fixLen_length _ _, stream_len := fun _ _ _ => fixLen_length _ _ }
theorem v2Aead_laws : AeadLaws v2Aead 16 :=
  { tag_len := fun _ _ _ _ => fixLen_length _ _, stream_len := fun _ _ _ => fixLen_length _ _ }

theorem localSchemeOf_laws (version : Nat) (c : BackendCfg) : LocalLaws (localSchemeOf version c) := by
  unfold localSchemeOf
  split
  · exact symScheme_laws _ _ _ _ _ _ (v1Sym_laws _) (by intro r m _; simp [v1Synth, hmac384, fixLen])
  · exact aeadScheme_laws _ _ _ _ _ v2Aead_laws (by intro r m _; simp [v2Synth, blake2b, fixLen])
  · exact symScheme_laws _ _ _ _ _ _ (v3Sym_laws _) (by intro r m h; simpa [noSynth] using h)
  · exact symScheme_laws _ _ _ _ _ _ v4Sym_laws (by intro r m h; simpa [noSynth] using h)

end PM
