import PasetoModel.Props.C09
import PasetoModel.Props.C10
import PasetoModel.Props.C15
