import PasetoModel.Props.C09
import PasetoModel.Props.C10
import PasetoModel.Props.C11
import PasetoModel.Props.C12
import PasetoModel.Props.C14
import PasetoModel.Props.C15
