import PasetoModel.Forms
import PasetoModel.Pae
/-! Line-protocol driver: executes the model's definitions (the ones the theorems are about) on
    the operation lines produced by the harness.  One result line per operation line. -/
open PM

def hexDigit (n : Nat) : Char := if n < 10 then Char.ofNat (48 + n) else Char.ofNat (87 + n)
def toHex (b : Bytes) : String :=
  if b.isEmpty then "-" else
  String.ofList (b.foldr (fun x acc => hexDigit (x.toNat / 16) :: hexDigit (x.toNat % 16) :: acc) [])

def hexVal (c : Char) : Option Nat :=
  if '0' ≤ c ∧ c ≤ '9' then some (c.toNat - 48)
  else if 'a' ≤ c ∧ c ≤ 'f' then some (c.toNat - 87)
  else none

def ofHex (s : String) : Option Bytes :=
  if s == "-" then some [] else
  let rec go : List Char → Array UInt8 → Option Bytes
    | [], acc => some acc.toList
    | [_], _ => none
    | a :: b :: rest, acc =>
      match hexVal a, hexVal b with
      | some x, some y => go rest (acc.push (UInt8.ofNat (16 * x + y)))
      | _, _ => none
  go s.toList #[]

def errName : Err → String
  | .base64 => "base64" | .invalidKey => "invalidKey" | .invalidToken => "invalidToken"
  | .crypto => "crypto" | .claims => "claims" | .payload => "payload"

def showRes (r : Res String) : String :=
  match r with
  | .ok s => "ok " ++ s
  | .err e => "err " ++ errName e
  | .panic _ => "panic"

def parsePieces (s : String) : Option (List (List Bytes)) :=
  if s == "." then some [] else
  (s.splitOn "/").mapM (fun p =>
    if p == "_" then some [] else (p.splitOn ",").mapM ofHex)

def parseForm (form : String) (k : Kind) : Option Form :=
  match form with
  | "tok" => k.toPurpose?.map .tok
  | "key" => some (.key k)
  | "id" => some (.id k)
  | "pie" => k.toSKind?.map .pie
  | "pw" => k.toSKind?.map .pw
  | "seal" => some .sealK
  | _ => none

def optRes {α} (o : Option α) : Except Unit α := match o with | some a => .ok a | none => .error ()

/-- `none` = the line is not an operation the model knows (`bad-op`, never a default) -/
def step (line : String) : Option String :=
  let t := line.splitOn " "
  match t with
  | ["pae", ps] => do
      let ps ← parsePieces ps
      some ("ok " ++ toHex (pae ps))
  | ["b64.enc", d] => do
      let d ← ofHex d
      some ("ok " ++ toHex (B64.encode d))
  | ["b64.dec", s] => do
      let s ← ofHex s
      some (match B64.decodeVec s with | some d => "ok " ++ toHex d | none => "err base64")
  | [op, be, p, fk, s] =>
      if op == "tok.rt" || op == "sd.tok.rt" then do
        let be ← Backend.ofString? be
        let p ← (← Kind.ofString? p).toPurpose?
        let fk ← (match fk with | "unit" => some FooterKind.unit | "vec" => some FooterKind.vec | _ => none)
        let s ← ofHex s
        some (showRes ((tokRt be p fk s).map (fun (sh, f) => toHex sh ++ " " ++ toHex f)))
      else if op == "txt.rt" || op == "sd.txt.rt" then do
        let be ← Backend.ofString? be
        let k ← Kind.ofString? fk
        let f ← parseForm p k
        let s ← ofHex s
        match f with
        | .tok _ => none
        | .key _ | .id _ => some (showRes ((txtRt be f s).map (fun (sh, d) => toHex sh ++ " " ++ toHex d)))
        | _ => some (showRes ((txtRt be f s).map (fun (sh, _) => toHex sh)))
      else none
  | ["key.show", be, k, raw] => do
      let be ← Backend.ofString? be
      let k ← Kind.ofString? k
      let raw ← ofHex raw
      some ("ok " ++ toHex (showSimple (Extracted.paserkHeader be) (Extracted.kindHeader k) raw))
  | ["x.rt", sbe, sform, skind, pbe, pform, pkind, s] => do
      let sbe ← Backend.ofString? sbe
      let sf ← parseForm sform (← Kind.ofString? skind)
      let pbe ← Backend.ofString? pbe
      let pf ← parseForm pform (← Kind.ofString? pkind)
      let s ← ofHex s
      let acc := (pf.parse pbe s).isOk
      let same := decide (sf.header sbe = pf.header pbe)
      some s!"ok acc={if acc then 1 else 0} same={if same then 1 else 0}"
  | _ => none

partial def loop (h : IO.FS.Stream) (out : IO.FS.Stream) : IO Unit := do
  let line ← h.getLine
  if line.isEmpty then return ()
  let l := (line.dropEndWhile (fun c => c == '\n' || c == '\r')).toString
  if l.isEmpty || l.startsWith "#" then
    out.putStrLn l
  else
    out.putStrLn ((step l).getD "bad-op")
  loop h out

def main : IO Unit := do
  let out ← IO.getStdout
  loop (← IO.getStdin) out
