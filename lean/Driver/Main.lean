import PasetoModel.Json
import PasetoModel.Forms
import PasetoModel.Pae
import Driver.Parse
import PasetoModel.Backend
import PasetoModel.Asym
import PasetoModel.PaserkInst
import PasetoModel.Rng
import PasetoModel.Types
import PasetoModel.Features
/-! Line-protocol driver: executes the model's definitions (the ones the theorems are about) on
    the operation lines produced by the harness.  One result line per operation line. -/
open PM


/-- key decode for local keys: exactly 32 bytes -/
def localKey (raw : Bytes) : Res Bytes := if raw.length = 32 then .ok raw else .err .invalidKey

def locSeal (S : LocalScheme) (be : Backend) (key nonce msg f a : Bytes) : Res String :=
  (localKey key).bind fun k =>
  (sealLocal S (tokHdr be .localP) k (nonce ++ msg) f a).map fun payload =>
    toHex (showToken (Extracted.versionHeader be) jsonSuffix (Extracted.kindHeader .localK) ⟨payload, f⟩)

/-- header fragments for a payload type with encoding suffix `sfx` (`M::SUFFIX`) -/
def tokHdrS (b : Backend) (p : Purpose) (sfx : Bytes) : List Bytes :=
  [Extracted.versionHeader b, sfx, Extracted.kindHeader p.toKind]
def sfxC : Bytes := [99]   -- "c"

/-- parse, unseal, decode (raw payload), no validation; reports which caller code ran -/
def locOpenS (S : LocalScheme) (be : Backend) (sfx key tok a : Bytes) : String :=
  match localKey key with
  | .err e => "err " ++ errName e ++ " dec=0 val=0"
  | .panic _ => "panic"
  | .ok k =>
  match parseToken (Extracted.versionHeader be) sfx (Extracted.kindHeader .localK) FooterKind.vec.ok tok with
  | .err e => "err " ++ errName e ++ " dec=0 val=0"
  | .panic _ => "panic"
  | .ok t =>
    let (r, tr) := tokenUnseal (unsealLocal S (tokHdrS be .localP sfx) k t.payload t.footer a) (fun ct => some ct) (fun _ => .ok ())
    let d := (tr.filter (fun e => match e with | .decode _ => true | _ => false)).length
    let v := (tr.filter (fun e => match e with | .validate => true | _ => false)).length
    match r with
    | .ok m => s!"ok {toHex m} {toHex t.footer} dec={d} val={v}"
    | .err e => s!"err {errName e} dec={d} val={v}"
    | .panic _ => "panic"

def pubOpenS (be : Backend) (sfx key tok a : Bytes) : String :=
  match keyDecode be .publicK key with
  | .err e => "err " ++ errName e ++ " dec=0 val=0"
  | .panic _ => "panic"
  | .ok k =>
  match parseToken (Extracted.versionHeader be) sfx (Extracted.kindHeader .publicK) FooterKind.vec.ok tok with
  | .err e => "err " ++ errName e ++ " dec=0 val=0"
  | .panic _ => "panic"
  | .ok t =>
    let (r, tr) := tokenUnseal (unsealPublic (publicScheme be) (tokHdrS be .publicP sfx) k t.payload t.footer a) (fun ct => some ct) (fun _ => .ok ())
    let d := (tr.filter (fun e => match e with | .decode _ => true | _ => false)).length
    let v := (tr.filter (fun e => match e with | .validate => true | _ => false)).length
    match r with
    | .ok m => s!"ok {toHex m} {toHex t.footer} dec={d} val={v}"
    | .err e => s!"err {errName e} dec={d} val={v}"
    | .panic _ => "panic"

def sk? (k : Kind) : Option SKind := k.toSKind?

/-- unwrap a PIE-wrapped key string with a local wrapping key -/
def pieOpen (be : Backend) (kind : SKind) (wk s : Bytes) : Res Bytes :=
  (keyDecode be .localK wk).bind fun wk =>
  ((Form.pie kind).parse be s).bind fun blob =>
  (pieUnwrap (pieOf be) (pieTagLen be.version) (Extracted.paserkHeader be) (Extracted.pieHeader kind) wk blob).bind fun raw =>
  keyDecode be kind.toKind raw

def pieWrapStr (be : Backend) (kind : SKind) (wk nonce key : Bytes) : Bytes :=
  showSimple (Extracted.paserkHeader be) (Extracted.pieHeader kind)
    (pieWrap (pieOf be) (Extracted.paserkHeader be) (Extracted.pieHeader kind) wk nonce key)

def pwOpen (be : Backend) (kind : SKind) (pass s : Bytes) : Res Bytes :=
  ((Form.pw kind).parse be s).bind fun blob =>
  (pbkwUnwrap (pbkwOf be) (Extracted.paserkHeader be) (Extracted.pwHeader kind) pass blob).bind fun raw =>
  keyDecode be kind.toKind raw

def pwWrapStr (be : Backend) (kind : SKind) (pass salt params nonce key : Bytes) : Res Bytes :=
  (pbkwWrap (pbkwOf be) (Extracted.paserkHeader be) (Extracted.pwHeader kind) pass salt params nonce key).map
    (showSimple (Extracted.paserkHeader be) (Extracted.pwHeader kind))

def sealOpen (be : Backend) (sk s : Bytes) : Res Bytes :=
  (keyDecode be .pkeSecret sk).bind fun sk =>
  (Form.sealK.parse be s).bind fun blob =>
  (pkeUnseal (pkeOf be) sk blob).bind fun raw => keyDecode be .localK raw

def sealStr (be : Backend) (pk key rnd : Bytes) : Res Bytes :=
  (keyDecode be .pkePublic pk).bind fun pk =>
  (keyDecode be .localK key).bind fun key =>
  (pkeSeal (pkeOf be) pk key rnd).map (showSimple (Extracted.paserkHeader be) (Extracted.sealHeader be))

/-- id of a key given as raw bytes: decode, canonical PASERK text, hash -/
def keyIdStr (be : Backend) (k : Kind) (raw : Bytes) : Res Bytes :=
  (keyDecode be k raw).bind fun key =>
  (keyEncode be k key).map fun enc =>
    let text := showSimple (Extracted.paserkHeader be) (Extracted.kindHeader k) enc
    showSimple (Extracted.paserkHeader be) (Extracted.idHeader k)
      (keyIdOf (hash33 be.version) (Extracted.paserkHeader be) (Extracted.idHeader k) text)

def hexRes (r : Res Bytes) : String := showRes (r.map toHex)

def parseSrc (s : String) : Option Src :=
  if s == "." then some [] else
  (s.splitOn ",").mapM (fun a => if a == "!" then some none else (ofHex a).map some)

/-- parameter block of a (donor) password-wrapped string -/
def donorParams (be : Backend) (kind : SKind) (donor : Bytes) : Res Bytes :=
  ((Form.pw kind).parse be donor).bind fun blob =>
    let S := pbkwOf be
    if blob.length < S.prefixLen then .err .invalidKey
    else .ok ((blob.drop S.saltLen).take S.paramLen)

def purposeOf? (s : String) : Option Purpose := (Kind.ofString? s).bind Kind.toPurpose?

/-- the typing model's verdict for one catalogue entry -/
def tyOp (name : String) (a : List String) : Option Types.TOp :=
  match name, a with
  | "seal", [tv, p, kv, kk] => do some (.sealTok (← Backend.ofString? tv) (← purposeOf? p) (← Backend.ofString? kv) (← Kind.ofString? kk))
  | "unseal", [tv, p, kv, kk] => do some (.unsealTok (← Backend.ofString? tv) (← purposeOf? p) (← Backend.ofString? kv) (← Kind.ofString? kk))
  | "encrypt", [tv, p, kv, kk] => do some (.encrypt (← Backend.ofString? tv) (← purposeOf? p) (← Backend.ofString? kv) (← Kind.ofString? kk))
  | "decrypt", [tv, p, kv, kk] => do some (.decrypt (← Backend.ofString? tv) (← purposeOf? p) (← Backend.ofString? kv) (← Kind.ofString? kk))
  | "sign", [tv, p, kv, kk] => do some (.sign (← Backend.ofString? tv) (← purposeOf? p) (← Backend.ofString? kv) (← Kind.ofString? kk))
  | "verify", [tv, p, kv, kk] => do some (.verify (← Backend.ofString? tv) (← purposeOf? p) (← Backend.ofString? kv) (← Kind.ofString? kk))
  | "wrapPie", [v, k, wv, wk] => do some (.wrapPie (← Backend.ofString? v) (← Kind.ofString? k) (← Backend.ofString? wv) (← Kind.ofString? wk))
  | "sealKey", [v, k, wv, wk] => do some (.sealKey (← Backend.ofString? v) (← Kind.ofString? k) (← Backend.ofString? wv) (← Kind.ofString? wk))
  | "pwWrap", [v, k] => do some (.pwWrap (← Backend.ofString? v) (← Kind.ofString? k))
  | "displayKey", [v, k] => do some (.displayKey (← Backend.ofString? v) (← Kind.ofString? k))
  | "debugKey", [v, k] => do some (.debugKey (← Backend.ofString? v) (← Kind.ofString? k))
  | "serializeKey", [v, k] => do some (.serializeKey (← Backend.ofString? v) (← Kind.ofString? k))
  | "exposeKey", [v, k] => do some (.exposeKey (← Backend.ofString? v) (← Kind.ofString? k))
  | "publicKey", [v, k] => do some (.publicKey (← Backend.ofString? v) (← Kind.ofString? k))
  | "keyId", [v, k] => do some (.keyId (← Backend.ofString? v) (← Kind.ofString? k))
  | "displaySealed", [v, p] => do some (.displaySealed (← Backend.ofString? v) (← purposeOf? p))
  | "displayUnsealed", [v, p] => do some (.displayUnsealed (← Backend.ofString? v) (← purposeOf? p))
  | "serializeUnsealed", [v, p] => do some (.serializeUnsealed (← Backend.ofString? v) (← purposeOf? p))
  | "fieldFooter", [_] => some .fieldFooter
  | "fieldPayload", [_] => some .fieldPayload
  | "unverifiedFooter", [_] => some .unverifiedFooter
  | _, _ => none

def locSealS (be : Backend) (sfx key nonce msg f a : Bytes) : Res String :=
  (localKey key).bind fun k =>
  (sealLocal (localScheme be) (tokHdrS be .localP sfx) k (nonce ++ msg) f a).map fun payload =>
    toHex (showToken (Extracted.versionHeader be) sfx (Extracted.kindHeader .localK) ⟨payload, f⟩)

def pubSignS (be : Backend) (sfx sk msg f a rnd : Bytes) : Res String :=
  (keyDecode be .secretK sk).bind fun k =>
  (sealPublic (publicScheme be) (tokHdrS be .publicP sfx) k msg f a rnd).map fun payload =>
    toHex (showToken (Extracted.versionHeader be) sfx (Extracted.kindHeader .publicK) ⟨payload, f⟩)

def parsePieces (s : String) : Option (List (List Bytes)) :=
  if s == "." then some [] else
  (s.splitOn "/").mapM (fun p =>
    if p == "_" then some [] else (p.splitOn ",").mapM ofHex)

def parseForm (form : String) (k : Kind) : Option Form :=
  match form with
  | "tok" => k.toPurpose?.map .tok
  | "key" => some (.key k)
  | "id" => some (.id k)
  | "pie" => k.toSKind?.map .pie
  | "pw" => k.toSKind?.map .pw
  | "seal" => some .sealK
  | _ => none

def optRes {α} (o : Option α) : Except Unit α := match o with | some a => .ok a | none => .error ()

/-- `none` = the line is not an operation the model knows (`bad-op`, never a default) -/
def step (line : String) : Option String :=
  let t := line.splitOn " "
  match t with
  | ["feat", crate, mask] => do
      let m ← mask.toNat?
      let F ← (match crate with
        | "paseto-v1" => some Extracted.Feat.paseto_v1 | "paseto-v2" => some Extracted.Feat.paseto_v2
        | "paseto-v3" => some Extracted.Feat.paseto_v3 | "paseto-v4" => some Extracted.Feat.paseto_v4 | _ => none)
      some s!"ok builds={if Feat.consistent F m then 1 else 0}"
  | "ty" :: name :: args => (tyOp name args).map fun op =>
      s!"ok {if Types.typechecks op then "accept" else "reject"} policy={if Types.allowed op then "accept" else "reject"}"
  | ["pae", ps] => do
      let ps ← parsePieces ps
      some ("ok " ++ toHex (pae ps))
  | ["b64.enc", d] => do
      let d ← ofHex d
      some ("ok " ++ toHex (B64.encode d))
  | ["b64.dec", s] => do
      let s ← ofHex s
      some (match B64.decodeVec s with | some d => "ok " ++ toHex d | none => "err base64")
  | ["loc.open", be, key, tok, a, _want] => do
      let be ← Backend.ofString? be
      let key ← ofHex key; let tok ← ofHex tok; let a ← ofHex a
      some (locOpenS (localScheme be) be jsonSuffix key tok a)
  | ["pub.open", be, key, tok, a, _want] => do
      let be ← Backend.ofString? be
      let key ← ofHex key; let tok ← ofHex tok; let a ← ofHex a
      some (pubOpenS be jsonSuffix key tok a)
  | ["locc.open", be, key, tok, a, _want] => do
      let be ← Backend.ofString? be
      let key ← ofHex key; let tok ← ofHex tok; let a ← ofHex a
      some (locOpenS (localScheme be) be [99] key tok a)
  | ["pubc.open", be, key, tok, a, _want] => do
      let be ← Backend.ofString? be
      let key ← ofHex key; let tok ← ofHex tok; let a ← ofHex a
      some (pubOpenS be [99] key tok a)
  | [op, be, sk, msg, f, a, rnd] =>
      if op == "pub.sign" || op == "m.pub.sign" then do
        let be ← Backend.ofString? be
        let sk ← ofHex sk; let msg ← ofHex msg; let f ← ofHex f; let a ← ofHex a; let rnd ← ofHex rnd
        some (showRes ((keyDecode be .secretK sk).bind fun k =>
          (sealPublic (publicScheme be) (tokHdr be .publicP) k msg f a rnd).map fun payload =>
            toHex (showToken (Extracted.versionHeader be) jsonSuffix (Extracted.kindHeader .publicK) ⟨payload, f⟩)))
      else if op == "loc.seal" then do
        let be ← Backend.ofString? be
        let key ← ofHex sk; let nonce ← ofHex msg; let msg ← ofHex f; let f ← ofHex a; let a ← ofHex rnd
        some (showRes (locSeal (localScheme be) be key nonce msg f a))
      else if op == "m.spec.loc.seal" then do
        let be ← Backend.ofString? be
        let key ← ofHex sk; let nonce ← ofHex msg; let msg ← ofHex f; let f ← ofHex a; let a ← ofHex rnd
        let S := specLocalScheme be.version (cfgOf be)
        let S' : LocalScheme := { S with synth := noSynth }
        some (showRes (locSeal S' be key nonce msg f a))
      else if op == "rng.encrypt" then do
        let be ← Backend.ofString? be; let src ← parseSrc sk
        let key ← ofHex msg; let msg ← ofHex f; let f ← ofHex a; let a ← ofHex rnd
        some (showRes ((localKey key).bind fun k => (rngEncrypt be k msg f a src).map fun payload =>
          toHex (showToken (Extracted.versionHeader be) jsonSuffix (Extracted.kindHeader .localK) ⟨payload, f⟩)))
      else if op == "rng.pw" then do
        let be ← Backend.ofString? be; let src ← parseSrc sk; let kind ← sk? (← Kind.ofString? msg)
        let pass ← ofHex f; let donor ← ofHex a; let key ← ofHex rnd
        some (showRes ((donorParams be kind donor).bind fun params => (keyDecode be kind.toKind key).bind fun key =>
          (rngPbkwWrap be (Extracted.paserkHeader be) (Extracted.pwHeader kind) pass params key src).map fun blob =>
            toHex (showSimple (Extracted.paserkHeader be) (Extracted.pwHeader kind) blob)))
      else if op == "locc.seal" then do
        let be ← Backend.ofString? be
        let key ← ofHex sk; let nonce ← ofHex msg; let msg ← ofHex f; let f ← ofHex a; let a ← ofHex rnd
        some (showRes (locSealS be sfxC key nonce msg f a))
      else if op == "pubc.sign" then do
        let be ← Backend.ofString? be
        let sk ← ofHex sk; let msg ← ofHex msg; let f ← ofHex f; let a ← ofHex a; let rnd ← ofHex rnd
        some (showRes (pubSignS be sfxC sk msg f a rnd))
      else none
  | ["pie.open", be, kind, wk, str, _want] => do
      let be ← Backend.ofString? be; let kind ← sk? (← Kind.ofString? kind)
      some (hexRes (pieOpen be kind (← ofHex wk) (← ofHex str)))
  | ["m.pie.wrap", be, kind, wk, nonce, key] => do
      let be ← Backend.ofString? be; let kind ← sk? (← Kind.ofString? kind)
      some ("ok " ++ toHex (pieWrapStr be kind (← ofHex wk) (← ofHex nonce) (← ofHex key)))
  | ["pie.re", be, kind, wk, str] => do
      -- bit-exactness: re-wrap the unwrapped key with the nonce embedded in the blob; must reproduce the string
      let be ← Backend.ofString? be; let kind ← sk? (← Kind.ofString? kind)
      let wk ← ofHex wk; let str ← ofHex str
      some (showRes (((Form.pie kind).parse be str).bind fun blob =>
        (pieUnwrap (pieOf be) (pieTagLen be.version) (Extracted.paserkHeader be) (Extracted.pieHeader kind) wk blob).map fun raw =>
          let nonce := (blob.drop (pieTagLen be.version)).take 32
          if pieWrapStr be kind wk nonce raw = str then "same=1" else "same=0"))
  | ["pw.open", be, kind, pass, str, _want] => do
      let be ← Backend.ofString? be; let kind ← sk? (← Kind.ofString? kind)
      some (hexRes (pwOpen be kind (← ofHex pass) (← ofHex str)))
  | ["m.pw.wrap", be, kind, pass, salt, params, nonce, key] => do
      let be ← Backend.ofString? be; let kind ← sk? (← Kind.ofString? kind)
      some (hexRes (pwWrapStr be kind (← ofHex pass) (← ofHex salt) (← ofHex params) (← ofHex nonce) (← ofHex key)))
  | ["pw.re", be, kind, pass, str] => do
      let be ← Backend.ofString? be; let kind ← sk? (← Kind.ofString? kind)
      let pass ← ofHex pass; let str ← ofHex str
      let S := pbkwOf be
      some (showRes (((Form.pw kind).parse be str).bind fun blob =>
        (pbkwUnwrap S (Extracted.paserkHeader be) (Extracted.pwHeader kind) pass blob).bind fun raw =>
          let salt := blob.take S.saltLen
          let params := (blob.drop S.saltLen).take S.paramLen
          let nonce := (blob.drop (S.saltLen + S.paramLen)).take S.nonceLen
          (pwWrapStr be kind pass salt params nonce raw).map fun s2 => if s2 = str then "same=1" else "same=0"))
  | ["seal.open", be, sk, str, _want] => do
      let be ← Backend.ofString? be
      some (hexRes (sealOpen be (← ofHex sk) (← ofHex str)))
  | ["m.seal", be, pk, key, rnd] => do
      let be ← Backend.ofString? be
      some (hexRes (sealStr be (← ofHex pk) (← ofHex key) (← ofHex rnd)))
  | ["key.dec", be, kind, raw] => do
      let be ← Backend.ofString? be; let kind ← Kind.ofString? kind
      some (hexRes ((keyDecode be kind (← ofHex raw)).bind (keyEncode be kind)))
  | ["key.pub", be, sk] => do
      let be ← Backend.ofString? be
      some (hexRes ((keyDecode be .secretK (← ofHex sk)).map (pubOfWith (cfgOf be) be.version)))
  | ["id", be, kind, raw] => do
      let be ← Backend.ofString? be; let kind ← Kind.ofString? kind
      some (hexRes (keyIdStr be kind (← ofHex raw)))
  | ["rng.pie", be, src, kind, wk, key] => do
      let be ← Backend.ofString? be; let src ← parseSrc src; let kind ← sk? (← Kind.ofString? kind)
      let wk ← ofHex wk; let key ← ofHex key
      some (showRes ((keyDecode be .localK wk).bind fun wk => (keyDecode be kind.toKind key).bind fun key =>
        (rngPieWrap be (Extracted.paserkHeader be) (Extracted.pieHeader kind) wk key src).map fun blob =>
          toHex (showSimple (Extracted.paserkHeader be) (Extracted.pieHeader kind) blob)))
  | ["rng.seal", be, src, pk, key] => do
      let be ← Backend.ofString? be; let src ← parseSrc src
      let pk ← ofHex pk; let key ← ofHex key
      some (showRes ((keyDecode be .pkePublic pk).bind fun pk => (keyDecode be .localK key).bind fun key =>
        (rngSeal be pk key src).map fun blob =>
          toHex (showSimple (Extracted.paserkHeader be) (Extracted.sealHeader be) blob)))
  | ["rng.lkey", _be, src] => do
      let src ← parseSrc src
      some (hexRes (rngLocalKey src))
  | ["rng.skey", be, src] => do
      let be ← Backend.ofString? be; let src ← parseSrc src
      some (hexRes (rngSecretKey be src))
  | ["val", v, c] => do
      let v ← parseV v
      let c ← parseClaims c
      some (showRes ((v.eval ⟨Extracted.tsMin, Extracted.tsMax⟩ c).map (fun _ => "-")))
  | ["unseal.val", _be, v, c] => do
      -- seal then unseal with a validator: claims survive the wire form (C14), the validator decides
      let v ← parseV v
      let c ← parseClaims c
      let wire := claimsEncode (fun _ => []) c
      let r := tokenUnseal (.ok []) (fun _ => match claimsDecode (some wire) with | .ok c => some c | _ => none)
                 (v.eval ⟨Extracted.tsMin, Extracted.tsMax⟩)
      some (showRes (r.1.map showClaims))
  | ["claims.dec", _esc, top] =>
      if top.startsWith "O:" then do
        let ms ← parseMembers (top.drop 2).toString
        some (showRes ((claimsDecode (some ms)).map (fun c => showClaims c ++ " gen=1")))
      else if top.startsWith "X:" then some (showRes ((claimsDecode none).map showClaims))
      else none
  | ["claims.json", c] => do
      let c ← parseClaims c
      some ("ok " ++ toHex (PM.Json.claimsJson c))
  | ["claims.enc", c] => do
      let c ← parseClaims c
      some ("ok " ++ showMembers (claimsEncode (fun _ => []) c) ++ " rfc3339=1 rt=1")
  | ["pipe", p] => do
      let p ← ofHex p
      let errOf : UInt8 → Err := fun c => match c with
        | 1 => .invalidToken | 2 => .crypto | 3 => .claims | 4 => .base64 | _ => .invalidKey
      let vU : Res Bytes := match p with
        | [] => .err .invalidToken
        | 0 :: ct => .ok ct
        | c :: _ => .err (errOf c)
      let dec : Bytes → Option Bytes := fun ct => if ct.head? = some 1 then none else some ct
      let val : Bytes → Res Unit := fun m => match (m[1]? : Option UInt8) with
        | some 1 => .err .claims | some 2 => .err .crypto | _ => .ok ()
      let (r, tr) := tokenUnseal vU dec val
      let res := match r with | .ok m => "ok:" ++ toHex m | .err e => "err:" ++ errName e | .panic _ => "panic"
      let trs := if tr.isEmpty then "-" else "+".intercalate (tr.map (fun e => match e with
        | .decode ct => "dec:" ++ toHex ct | .validate => "val"))
      some s!"ok res={res} trace={trs}"
  | ["pipe.seal", n, sc, c, f] => do
      let n ← n.toNat?
      let sc ← sc.toNat?
      let c ← ofHex c
      let f ← ofHex f
      let errOf : Nat → Err := fun c => match c with
        | 1 => .invalidToken | 2 => .crypto | 3 => .claims | 4 => .base64 | _ => .invalidKey
      let nonce : Res Bytes := if n == 0 then .ok (str "NONCE") else .err (errOf n)
      let encF : Option Bytes := if f.head? = some 9 then none else some f
      let encC : Option Bytes := if c.head? = some 9 then none else some c
      let vSeal : Bytes → Bytes → Res Bytes := fun p _ => if sc == 0 then .ok p else .err (errOf sc)
      let r := tokenSeal nonce encF encC vSeal
      -- which caller/ version code ran, in order (mirrors the evaluation order of the pipeline)
      let tr := ["nonce"] ++ (if n != 0 then [] else ["fenc"] ++ (if encF.isNone then [] else ["enc"] ++
                  (if encC.isNone then [] else ["vseal"])))
      let res := match r with
        | .ok (p, ft) => "ok:" ++ toHex (showToken (str "fv") [] (str ".local.") ⟨p, ft⟩)
        | .err e => "err:" ++ errName e | .panic _ => "panic"
      some s!"ok res={res} trace={"+".intercalate tr}"
  | [op, be, p, fk, s] =>
      if op == "tok.rt" || op == "sd.tok.rt" then do
        let be ← Backend.ofString? be
        let p ← (← Kind.ofString? p).toPurpose?
        let fk ← (match fk with | "unit" => some FooterKind.unit | "vec" => some FooterKind.vec | _ => none)
        let s ← ofHex s
        some (showRes ((tokRt be p fk s).map (fun (sh, f) => toHex sh ++ " " ++ toHex f)))
      else if op == "tokc.rt" then do
        let be ← Backend.ofString? be
        let p ← (← Kind.ofString? p).toPurpose?
        let fk ← (match fk with | "unit" => some FooterKind.unit | "vec" => some FooterKind.vec | _ => none)
        let s ← ofHex s
        some (showRes ((tokRtSuf be p fk [99] s).map (fun (sh, f) => toHex sh ++ " " ++ toHex f)))
      else if op == "txt.rt" || op == "sd.txt.rt" then do
        let be ← Backend.ofString? be
        let k ← Kind.ofString? fk
        let f ← parseForm p k
        let s ← ofHex s
        match f with
        | .tok _ => none
        | .key _ | .id _ => some (showRes ((txtRt be f s).map (fun (sh, d) => toHex sh ++ " " ++ toHex d)))
        | _ => some (showRes ((txtRt be f s).map (fun (sh, _) => toHex sh)))
      else none
  | ["key.show", be, k, raw] => do
      let be ← Backend.ofString? be
      let k ← Kind.ofString? k
      let raw ← ofHex raw
      some ("ok " ++ toHex (showSimple (Extracted.paserkHeader be) (Extracted.kindHeader k) raw))
  | ["x.rt", sbe, sform, skind, pbe, pform, pkind, s] => do
      let sbe ← Backend.ofString? sbe
      let sf ← parseForm sform (← Kind.ofString? skind)
      let pbe ← Backend.ofString? pbe
      let pf ← parseForm pform (← Kind.ofString? pkind)
      let s ← ofHex s
      let acc := (pf.parse pbe s).isOk
      let same := decide (sf.header sbe = pf.header pbe)
      some s!"ok acc={if acc then 1 else 0} same={if same then 1 else 0}"
  | _ => none

partial def loop (h : IO.FS.Stream) (out : IO.FS.Stream) : IO Unit := do
  let line ← h.getLine
  if line.isEmpty then return ()
  let l := (line.dropEndWhile (fun c => c == '\n' || c == '\r')).toString
  if l.isEmpty || l.startsWith "#" then
    out.putStrLn l
  else
    if l.startsWith "o." then out.putStrLn "skip"
    else out.putStrLn ((step l).getD "bad-op")
  loop h out

def main : IO Unit := do
  let out ← IO.getStdout
  loop (← IO.getStdin) out
