import PasetoModel.Claims
import PasetoModel.Token
/-! parsers of the line protocol (validators, claims, member lists) -/
open PM

def hexDigit (n : Nat) : Char := if n < 10 then Char.ofNat (48 + n) else Char.ofNat (87 + n)
def toHex (b : Bytes) : String :=
  if b.isEmpty then "-" else
  String.ofList (b.foldr (fun x acc => hexDigit (x.toNat / 16) :: hexDigit (x.toNat % 16) :: acc) [])

def hexVal (c : Char) : Option Nat :=
  if '0' ≤ c ∧ c ≤ '9' then some (c.toNat - 48)
  else if 'a' ≤ c ∧ c ≤ 'f' then some (c.toNat - 87)
  else none

def ofHexChars : List Char → Array UInt8 → Option Bytes
  | [], acc => some acc.toList
  | [_], _ => none
  | a :: b :: rest, acc =>
    match hexVal a, hexVal b with
    | some x, some y => ofHexChars rest (acc.push (UInt8.ofNat (16 * x + y)))
    | _, _ => none

def ofHex (s : String) : Option Bytes :=
  if s == "-" then some [] else ofHexChars s.toList #[]

def errName : Err → String
  | .base64 => "base64" | .invalidKey => "invalidKey" | .invalidToken => "invalidToken"
  | .crypto => "crypto" | .claims => "claims" | .payload => "payload"

def showRes (r : Res String) : String :=
  match r with
  | .ok s => "ok " ++ s
  | .err e => "err " ++ errName e
  | .panic _ => "panic"

/-! validator expressions -/
abbrev PS := List Char

def eat (lit : String) (s : PS) : Option PS :=
  let l := lit.toList
  if l.isPrefixOf s then some (s.drop l.length) else none

def takeWhileP (p : Char → Bool) : PS → (List Char × PS)
  | [] => ([], [])
  | c :: cs => if p c then let (a, b) := takeWhileP p cs; (c :: a, b) else ([], c :: cs)

def pInt (s : PS) : Option (Int × PS) :=
  match s with
  | '-' :: rest => let (d, r) := takeWhileP Char.isDigit rest
                   if d.isEmpty then none else (String.ofList d).toNat?.map (fun n => (-(n : Int), r))
  | _ => let (d, r) := takeWhileP Char.isDigit s
         if d.isEmpty then none else (String.ofList d).toNat?.map (fun n => ((n : Int), r))

def pHex (s : PS) : Option (Bytes × PS) :=
  let (d, r) := takeWhileP (fun c => c.isDigit || ('a' ≤ c && c ≤ 'f') || c == '-') s
  (ofHex (String.ofList d)).map (fun b => (b, r))

mutual
partial def pV (s : PS) : Option (V × PS) :=
  match eat "and(" s with
  | some s => do
      let (a, s) ← pV s
      let s ← eat "," s
      let (b, s) ← pV s
      let s ← eat ")" s
      some (.andThen a b, s)
  | none =>
  match eat "all(" s with
  | some s => (pList s).map (fun (l, s) => (.all l, s))
  | none =>
  match eat "sl(" s with
  | some s => (pList s).map (fun (l, s) => (.all l, s))
  | none =>
  match eat "box(" s with
  | some s => do let (a, s) ← pV s; let s ← eat ")" s; some (.boxed a, s)
  | none =>
  match eat "rc(" s with
  | some s => do let (a, s) ← pV s; let s ← eat ")" s; some (.rc a, s)
  | none =>
  match eat "arc(" s with
  | some s => do let (a, s) ← pV s; let s ← eat ")" s; some (.arc a, s)
  | none =>
  match eat "map(" s with
  | some s => do let (a, s) ← pV s; let s ← eat ")" s; some (.mapped a, s)
  | none =>
  match s with
  | 'T' :: s => (pInt s).map (fun (n, s) => (.time n, s))
  | 'L' :: s => do
      let (n, s) ← pInt s
      let s ← eat ":" s
      let (l, s) ← pInt s
      if l < 0 then none else some (.leeway n l.toNat, s)
  | 'E' :: s => some (.hasExp, s)
  | 'S' :: s => (pHex s).map (fun (b, s) => (.sub b, s))
  | 'I' :: s => (pHex s).map (fun (b, s) => (.iss b, s))
  | 'A' :: s => (pHex s).map (fun (b, s) => (.aud b, s))
  | 'N' :: s => some (.noValidation, s)
  | _ => none
partial def pList (s : PS) : Option (List V × PS) :=
  match eat ")" s with
  | some s => some ([], s)
  | none => do
      let (a, s) ← pV s
      match eat ")" s with
      | some s => some ([a], s)
      | none => do
          let s ← eat ";" s
          let (l, s) ← pList s
          some (a :: l, s)
end

def parseV (s : String) : Option V :=
  match pV s.toList with
  | some (v, []) => some v
  | _ => none

def parseClaims (s : String) : Option Claims := do
  match s.splitOn "," with
  | [iss, sub, aud, exp, nbf, iat, jti] =>
    let st := fun (x : String) => if x == "~" then some (none : Option Bytes) else (ofHex x).map some
    let t := fun (x : String) => if x == "~" then some (none : Option Int) else (x.toInt?).map some
    some { iss := ← st iss, sub := ← st sub, aud := ← st aud, exp := ← t exp, nbf := ← t nbf, iat := ← t iat, jti := ← st jti }
  | _ => none

def showClaims (c : Claims) : String :=
  let st := fun (x : Option Bytes) => match x with | some b => toHex b | none => "~"
  let t := fun (x : Option Int) => match x with | some n => toString n | none => "~"
  s!"{st c.iss},{st c.sub},{st c.aud},{t c.exp},{t c.nbf},{t c.iat},{st c.jti}"

def parseMember (m : String) : Option (Bytes × JVal) := do
  match m.splitOn "=" with
  | [k, v] =>
    let k ← ofHex k
    match v.toList with
    | ['n'] => some (k, .null)
    | ['i'] => some (k, .num)
    | ['b'] => some (k, .bool)
    | ['a'] => some (k, .arr)
    | ['o'] => some (k, .obj)
    | 's' :: rest =>
      match (String.ofList rest).splitOn ":" with
      | [h, a] =>
        let s ← ofHex h
        if a == "!" then some (k, .str s none) else (a.toInt?).map (fun n => (k, .str s (some n)))
      | _ => none
    | _ => none
  | _ => none

def parseMembers (s : String) : Option Members :=
  if s.isEmpty then some [] else (s.splitOn ";").mapM parseMember

/-- canonical output of `claims.enc`: time members as `t<ns>`, string members as `s<hex>` -/
def showMembers (ms : Members) : String :=
  if ms.isEmpty then "." else
  ";".intercalate (ms.map (fun (k, v) => toHex k ++ "=" ++ match v with
    | .str _ (some n) => "t" ++ toString n
    | .str s none => "s" ++ toHex s
    | .null => "n" | _ => "other"))
