#!/usr/bin/env python3
"""Sensitivity test of the lc/mod.rs translator (tools/ffiscan.py) + the Lean ownership checker: builds defective
variants of the *current* lc/{mod,ptr}.rs in a scratch directory, translates each, and asks Lean whether the variant is
rejected (some function not `ok`, an unclassified call, or a wrapper fact false).  A variant whose edit no longer applies
to the current source is reported `n/a`.  Prints one JSON object; exit 0 iff the clean source passes and every applicable
variant is rejected.  Supporting evidence only (it validates the translator, it proves nothing about the code)."""
import os, sys, shutil, subprocess, json
sys.path.insert(0, os.path.dirname(os.path.abspath(__file__)))
import ffiscan
VERIF = os.path.dirname(os.path.dirname(os.path.abspath(__file__)))
LEAN = os.path.join(VERIF, "lean")
WORK = os.path.join(VERIF, ".build", "run", "ffiscan_selftest")
SRC = "/repo/paseto-v3-aws-lc/src/lc"
RET = "            return Err(PasetoError::CryptoError);\n        }\n"

VARIANTS = {
 # name: (mod.rs edit, ptr.rs edit)   each edit = list of (old, new)
 "forget-on-error-path": ([("        if res != 1 {\n" + RET + "\n        Ok(())", "        if res != 1 {\n            std::mem::forget(sig);\n" + RET + "\n        Ok(())")], []),
 "missing-detach": ([("        r.detach();\n", "")], []),
 "detach-before-transfer": ([("        r.detach();\n        s.detach();\n", ""), ("        if unsafe { ECDSA_SIG_set0", "        let r = r.detach();\n        let s = s.detach();\n        if unsafe { ECDSA_SIG_set0")], []),
 "exit-between-transfer-and-detach": ([("        r.detach();\n        s.detach();\n", "        if unsafe { BN_num_bytes(*r) } == 0 {\n" + RET + "        r.detach();\n        s.detach();\n")], []),
 "raw-free-of-wrapped-key": ([("use aws_lc::{", "use aws_lc::{EC_KEY_free, "), ("        if unsafe { EC_KEY_set_public_key(*key.as_mut(), *p) } != 1 {\n", "        if unsafe { EC_KEY_set_public_key(*key.as_mut(), *p) } != 1 {\n            unsafe { EC_KEY_free(*key.as_mut()) };\n")], []),
 "unwrapped-allocation": ([("        let mut p = LcPtr::new(unsafe { EC_POINT_new(*g) })?;\n        if unsafe { EC_POINT_oct2point(*g, *p.as_mut(),", "        let p = unsafe { EC_POINT_new(*g) };\n        if unsafe { EC_POINT_oct2point(*g, p,")], []),
 "exit-before-adoption": ([("        let sig = LcPtr::new(sig)?;\n", "        if unsafe { ECDSA_size(*self.key.as_const()) } != 104 {\n" + RET + "        let sig = LcPtr::new(sig)?;\n")], []),
 "early-drop-then-use": ([("        if unsafe { EC_KEY_set_private_key(*key.as_mut(), *bn.as_const()) }", "        let bnp = *bn.as_const();\n        drop(bn);\n        if unsafe { EC_KEY_set_private_key(*key.as_mut(), bnp) }")], []),
 "write-through-shared-key": ([("        compressed_pub_key(key)\n    }\n\n    pub fn verifying_key", "        unsafe { EC_KEY_set_group(*self.key.as_const() as *mut _, *key) };\n        compressed_pub_key(key)\n    }\n\n    pub fn verifying_key")], []),
 "unknown-ffi-call": ([("use aws_lc::{", "use aws_lc::{EC_KEY_up_ref, "), ("        Ok(Self { key })\n    }\n\n    pub fn encode", "        unsafe { EC_KEY_up_ref(*key.as_mut()) };\n        Ok(Self { key })\n    }\n\n    pub fn encode")], []),
 "thread-state-read": ([("use aws_lc::{", "use aws_lc::{ERR_peek_error, "), ("        if res != 1 {\n" + RET + "\n        let sig = LcPtr::new(unsafe { ECDSA_SIG_from_bytes", "        if res != 1 || unsafe { ERR_peek_error() } != 0 {\n" + RET + "\n        let sig = LcPtr::new(unsafe { ECDSA_SIG_from_bytes")], []),
 "rc-behind-unsafe-send": ([("pub struct SigningKey {\n    key: LcPtr<EC_KEY>,\n}", "pub struct SigningKey {\n    key: std::rc::Rc<LcPtr<EC_KEY>>,\n}")], []),
 "wrong-release-function": ([], [("create_pointer!(EC_POINT, EC_POINT_free);", "create_pointer!(EC_POINT, EC_GROUP_free);")]),
 "drop-frees-without-take": ([], [("        if let Some(mut pointer) = self.pointer.take() {\n            pointer.free();\n        }", "        if let Some(pointer) = self.pointer.as_mut() {\n            pointer.free();\n        }")]),
 "managed-drop-does-not-free": ([], [("        self.pointer.free();\n    }\n}\n\nimpl<'a, P: Pointer> From", "    }\n}\n\nimpl<'a, P: Pointer> From")]),
}


def build(name, medits, pedits):
    d = os.path.join(WORK, name, "paseto-v3-aws-lc", "src", "lc")
    os.makedirs(d, exist_ok=True)
    m = open(os.path.join(SRC, "mod.rs")).read()
    p = open(os.path.join(SRC, "ptr.rs")).read()
    for old, new in medits:
        if old not in m:
            return None
        m = m.replace(old, new, 1)
    for old, new in pedits:
        if old not in p:
            return None
        p = p.replace(old, new, 1)
    open(os.path.join(d, "mod.rs"), "w").write(m)
    open(os.path.join(d, "ptr.rs"), "w").write(p)
    return ffiscan.emit(os.path.join(WORK, name))[0]


def main():
    shutil.rmtree(WORK, ignore_errors=True)
    os.makedirs(WORK)
    texts = {"clean": build("clean", [], [])}
    na = []
    for k, (me, pe) in VARIANTS.items():
        t = build(k, me, pe)
        if t is None:
            na.append(k)
        else:
            texts[k] = t
    lines = ["import PasetoModel.Ffi", "open PM.Ffi", 'def expectedFree : List (String × String) := [("u8", "OPENSSL_free"), ("EC_GROUP", "EC_GROUP_free"), ("EC_POINT", "EC_POINT_free"), ("EC_KEY", "EC_KEY_free"), ("ECDSA_SIG", "ECDSA_SIG_free"), ("BIGNUM", "BN_free")]']
    for k, t in texts.items():
        ns = "V_" + k.replace("-", "_")
        t = t.replace("import PasetoModel.Ffi\n", "").replace("namespace PM.Extracted.Ffi", "namespace " + ns).replace("end PM.Extracted.Ffi", "end " + ns)
        lines.append(t)
        lines.append('#eval IO.println s!"RESULT %s {%s.fns.all Fn.ok && %s.unclassified.isEmpty && %s.sharedMutations.isEmpty && %s.threadStateCalls.isEmpty && %s.sendSyncFieldViolations.isEmpty && %s.managedDropFrees && %s.detachableDropFreesIffPresent && %s.detachTakes && %s.macroFreeCallsGiven && (%s.freeTable == expectedFree)} {(%s.fns.filter (fun f => !f.ok)).map (fun f => (f.name, ((none :: (List.range f.body.length).map some).flatMap (fun fa => (run f fa).bad)).eraseDups))}"' % ((k,) + (ns,) * 11))
    f = os.path.join(WORK, "selftest.lean")
    open(f, "w").write("\n".join(lines) + "\n")
    r = subprocess.run(["lake", "env", "lean", f], cwd=LEAN, capture_output=True, text=True, timeout=900)
    res = {}
    for l in r.stdout.splitlines():
        if l.startswith("RESULT "):
            _, k, ok, why = l.split(" ", 3)
            res[k] = {"accepted": ok == "true", "why": why[:300]}
    out = {"clean_accepted": res.get("clean", {}).get("accepted"), "not_applicable": na,
           "variants": {k: v for k, v in res.items() if k != "clean"},
           "rejected": sorted(k for k, v in res.items() if k != "clean" and not v["accepted"]),
           "missed": sorted(k for k, v in res.items() if k != "clean" and v["accepted"])}
    if r.returncode != 0 and not res:
        out["error"] = (r.stdout + r.stderr)[-1500:]
    print(json.dumps(out, indent=1))
    shutil.rmtree(WORK, ignore_errors=True)
    return 0 if out["clean_accepted"] and not out["missed"] and "error" not in out else 1


if __name__ == "__main__":
    sys.exit(main())
