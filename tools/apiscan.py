#!/usr/bin/env python3
"""syntactic scan of paseto-core's public surface around *unverified* tokens and keys (C12 accessor clause, C18 expose clause):
which public inherent methods / public fields of SealedToken (and its aliases) hand out the footer or the payload, and which
public fields Key has.  Emits lean/PasetoModel/Extracted/Api.lean.  A scan, not a parser: it is a fact generator for a
decidable obligation; the behavioural ties are the compile probes."""
import os, re, sys

def strip_comments(src):
    src = re.sub(r"//[^\n]*", "", src)
    return re.sub(r"/\*.*?\*/", "", src, flags=re.S)

def blocks(src, header_re):
    """yield (header, body) of brace blocks whose header matches"""
    for m in re.finditer(header_re, src):
        i = src.find("{", m.end() - 1)
        if i < 0:
            continue
        k, depth = i + 1, 1
        while k < len(src) and depth:
            depth += src[k] == "{"
            depth -= src[k] == "}"
            k += 1
        yield src[m.start():i], src[i + 1:k - 1]

def scan(repo="/repo"):
    core = os.path.join(repo, "paseto-core", "src")
    acc, fields, keyfields = [], [], []
    for root, _, files in os.walk(core):
        for fn in files:
            if not fn.endswith(".rs"):
                continue
            src = strip_comments(open(os.path.join(root, fn)).read())
            # inherent impls of the sealed token types (no ` for ` in the header)
            for head, body in blocks(src, r"\bimpl\b[^{;]*\b(SealedToken|EncryptedToken|SignedToken)\b[^{;]*\{"):
                if re.search(r"\bfor\b", head):
                    continue
                for fm in re.finditer(r"\bpub\s+(?:const\s+)?fn\s+(\w+)\s*(?:<[^>]*>)?\s*\(([^)]*)\)\s*(?:->\s*([^{;]+?))?\s*(?:where[^{]*)?\{", body):
                    name, args, ret = fm.group(1), fm.group(2), (fm.group(3) or "").strip()
                    hands_out = re.search(r"(?<![\w<])&?\s*(?:'\w+\s+)?(?:mut\s+)?F\b", ret) or re.search(r"\[u8\]|Vec<u8>|Box<\[u8\]>", ret)
                    verified = re.search(r"Unsealed|Unencrypted|Unsigned", ret)
                    if hands_out and not verified:
                        acc.append(name)
            for head, body in blocks(src, r"\bpub\s+struct\s+SealedToken\b[^{;(]*\{"):
                for fm in re.finditer(r"(?m)^\s*pub\s+(\w+)\s*:", body):
                    fields.append(fm.group(1))
            m = re.search(r"\bpub\s+struct\s+Key\s*<[^>]*>\s*\(([^;]*)\)\s*;", src)
            if m:
                keyfields += [str(i) for i, f in enumerate(m.group(1).split(",")) if re.match(r"\s*pub\s+(?!\()", f)]
            for head, body in blocks(src, r"\bpub\s+struct\s+Key\b[^{;(]*\{"):
                keyfields += [fm.group(1) for fm in re.finditer(r"(?m)^\s*pub\s+(\w+)\s*:", body)]
    return sorted(set(acc)), sorted(set(fields)), sorted(set(keyfields))

def emit(repo="/repo"):
    acc, fields, keyfields = scan(repo)
    q = lambda l: "[" + ", ".join('"%s"' % x for x in l) + "]"
    text = "\n".join([
        "/-! GENERATED on every run by tools/apiscan.py from /repo's current working tree. Do not edit. -/",
        "namespace PM.Extracted.Api",
        "/-- public inherent methods of SealedToken / EncryptedToken / SignedToken whose return type hands out the footer type or raw bytes without unsealing -/",
        "def sealedTokenAccessors : List String := " + q(acc),
        "/-- fields of `SealedToken` declared `pub` (not `pub(crate)`) -/",
        "def sealedTokenPubFields : List String := " + q(fields),
        "/-- fields of `Key` declared `pub` (not `pub(crate)`) -/",
        "def keyPubFields : List String := " + q(keyfields),
        "end PM.Extracted.Api", ""])
    return text

if __name__ == "__main__":
    sys.stdout.write(emit())
