#!/usr/bin/env python3
"""Where can the library's own code panic?  Token-level inventory (comments, strings, `#[cfg(test)]` items excluded) of
the panic-capable constructs in every `src/**/*.rs` of the library crates: `.unwrap()`, `.expect(..)`, `assert!`-family
and `unreachable!` / `panic!` / `todo!` macros, `split_at(_mut)`, `copy_from_slice`, and index expressions `x[..]`.
Emits lean/PasetoModel/Extracted/Panics.lean.  The C04 theorems are about explicit panic branches of the *model*; this
fact file ties the model's coverage to the source at file granularity: every file that contains such a construct must be
one whose panic sites the model carries (theorem `panic_sites_only_in_modelled_files`), and the generic text / token /
PASERK layer and paseto-json contain none at all."""
import os, sys
sys.path.insert(0, os.path.dirname(os.path.abspath(__file__)))
from rustlex import lex, tree, Tok, Group, is_tok, drop_test_modules
from srcscan import LIB_CRATES

PANIC_CALLS = {"unwrap", "expect", "unwrap_err", "expect_err", "split_at", "split_at_mut", "copy_from_slice", "clone_from_slice",
               "swap_with_slice", "unwrap_unchecked"}
PANIC_MACROS = {"assert", "assert_eq", "assert_ne", "unreachable", "panic", "todo", "unimplemented"}
NOT_INDEXABLE = {"mut", "in", "return", "let", "if", "match", "else", "for", "impl", "as", "dyn", "where", "const", "static", "ref", "box", "break", "type"}


def walk(g, out):
    its = g.items
    for i, x in enumerate(its):
        if isinstance(x, Group):
            if x.open == "[" and i > 0:
                p = its[i - 1]
                idx = False
                if isinstance(p, Tok):
                    if p.kind == "ident" and p.text not in NOT_INDEXABLE:
                        idx = True
                    elif p.text == "?":
                        idx = True
                elif isinstance(p, Group) and p.open in "([":
                    idx = True
                # `name![..]` macro invocations and `#[..]` attributes are not index expressions
                if idx and i > 1 and is_tok(its[i - 1], "!"):
                    idx = False
                if idx:
                    out.append("index")
            walk(x, out)
        elif x.kind == "ident":
            nxt = its[i + 1] if i + 1 < len(its) else None
            if x.text in PANIC_CALLS and isinstance(nxt, Group) and nxt.open == "(" and i > 0 and is_tok(its[i - 1], "."):
                out.append(x.text)
            if x.text in PANIC_MACROS and is_tok(nxt, "!"):
                out.append(x.text + "!")


def scan(repo="/repo"):
    res = []
    for c in LIB_CRATES:
        for dp, _, fs in sorted(os.walk(os.path.join(repo, c, "src"))):
            for f in sorted(fs):
                if f.endswith(".rs"):
                    p = os.path.join(dp, f)
                    out = []
                    walk(drop_test_modules(tree(lex(open(p).read()))), out)
                    if out:
                        res.append((os.path.relpath(p, repo), len(out)))
    return res


def emit(repo="/repo"):
    res = scan(repo)
    q = lambda s: '"' + s + '"'
    text = "\n".join([
        "/-! GENERATED on every run by tools/panicscan.py from /repo's current working tree. Do not edit. -/",
        "namespace PM.Extracted.Panics",
        "/-- (file, number of panic-capable constructs): unwrap / expect / assert-family / unreachable / split_at / copy_from_slice / index expressions -/",
        "def panicFiles : List (String × Nat) := [%s]" % ", ".join("(%s, %d)" % (q(a), n) for a, n in res),
        "end PM.Extracted.Panics", ""])
    return text, res


if __name__ == "__main__":
    sys.stdout.write(emit(sys.argv[1] if len(sys.argv) > 1 else "/repo")[0])
