"""compile probes for C18 (and the accessor clause of C12): one tiny program per catalogue entry,
compiled by rustc against /repo's working tree; the verdict (accept / reject + error codes) is the
implementation side of the correspondence with the Lean typing model"""
import json, os, shutil, subprocess

VERIF = os.path.dirname(os.path.dirname(os.path.abspath(__file__)))
PROBES = os.path.join(VERIF, "probes")
BACKENDS = ["v1", "v2", "v3", "v3lc", "v4", "v4s"]
TY = {"v1": "V1", "v2": "V2", "v3": "V3", "v3lc": "V3lc", "v4": "V4", "v4s": "V4s"}
KIND = {"local": "Local", "public": "Public", "secret": "Secret", "pkepublic": "PkePublic", "pkesecret": "PkeSecret"}
PURP = {"local": "Local", "public": "Public"}


def program(op, a):
    """Rust source for one catalogue entry"""
    if op in ("seal", "encrypt", "sign"):
        tv, p, kv, kk = a
        call = {"seal": "t.seal(k, &[])", "encrypt": "t.encrypt(k)", "sign": "t.sign(k)"}[op]
        return "pub fn f(t: UnsealedToken<%s, %s, Raw>, k: &Key<%s, %s>) { let _ = %s; }" % (TY[tv], PURP[p], TY[kv], KIND[kk], call)
    if op in ("unseal", "decrypt", "verify"):
        tv, p, kv, kk = a
        call = {"unseal": "t.unseal(k, &[], &nv())", "decrypt": "t.decrypt(k, &nv())", "verify": "t.verify(k, &nv())"}[op]
        return "pub fn f(t: SealedToken<%s, %s, Raw>, k: &Key<%s, %s>) { let _ = %s; }" % (TY[tv], PURP[p], TY[kv], KIND[kk], call)
    if op == "wrapPie":
        v, k, wv, wk = a
        return "pub fn f(k: Key<%s, %s>, w: &Key<%s, %s>) { let _ = k.wrap_pie(w); }" % (TY[v], KIND[k], TY[wv], KIND[wk])
    if op == "sealKey":
        v, k, pv, pk = a
        return "pub fn f(k: Key<%s, %s>, p: &Key<%s, %s>) { let _ = k.seal(p); }" % (TY[v], KIND[k], TY[pv], KIND[pk])
    if op == "pwWrap":
        v, k = a
        return "pub fn f(k: Key<%s, %s>) { let _ = k.password_wrap(b\"pw\"); }" % (TY[v], KIND[k])
    if op == "displayKey":
        v, k = a
        return "pub fn f(k: &Key<%s, %s>) -> String { format!(\"{}\", k) }" % (TY[v], KIND[k])
    if op == "debugKey":
        v, k = a
        return "pub fn f(k: &Key<%s, %s>) -> String { format!(\"{:?}\", k) }" % (TY[v], KIND[k])
    if op == "serializeKey":
        v, k = a
        return "pub fn f(k: &Key<%s, %s>) -> String { serde_json::to_string(k).unwrap() }" % (TY[v], KIND[k])
    if op == "exposeKey":
        v, k = a
        return "pub fn f(k: &Key<%s, %s>) -> Vec<u8> { k.expose_key().as_raw_bytes().to_vec() }" % (TY[v], KIND[k])
    if op == "publicKey":
        v, k = a
        return "pub fn f(k: &Key<%s, %s>) { let _ = k.public_key(); }" % (TY[v], KIND[k])
    if op == "keyId":
        v, k = a
        return "pub fn f(k: &Key<%s, %s>) -> String { k.id().to_string() }" % (TY[v], KIND[k])
    if op == "displaySealed":
        v, p = a
        return "pub fn f(t: &SealedToken<%s, %s, Raw>) -> String { format!(\"{}\", t) }" % (TY[v], PURP[p])
    if op == "displayUnsealed":
        v, p = a
        return "pub fn f(t: &UnsealedToken<%s, %s, Raw, Raw>) -> String { format!(\"{}\", t) }" % (TY[v], PURP[p])
    if op == "serializeUnsealed":
        v, p = a
        return "pub fn f(t: &UnsealedToken<%s, %s, Raw, Raw>) -> String { serde_json::to_string(t).unwrap() }" % (TY[v], PURP[p])
    if op == "fieldKey":
        v, k = a
        return "pub fn f(k: &Key<%s, %s>) -> usize { let _x = &k.0; 0 }" % (TY[v], KIND[k])
    if op == "ctorKey":
        (v,) = a
        return "pub fn f(k: Key<%s, PkeSecret>) -> Key<%s, Secret> { Key(k.0) }" % (TY[v], TY[v])
    if op == "keyInto":
        v, k, n = a
        return "pub fn f(k: Key<%s, %s>) -> [u8; %s] { k.into() }" % (TY[v], KIND[k], n)
    if op == "hashKey":
        # feeding a key to a caller-supplied hasher hands the caller the key bytes without `expose_key()`
        v, k = a
        return "pub fn f<H: std::hash::Hasher>(k: &Key<%s, %s>, h: &mut H) { std::hash::Hash::hash(k, h) }" % (TY[v], KIND[k])
    if op == "sealedMethod":
        v, name = a
        return "pub fn f(t: &SealedToken<%s, Local, Raw, Raw>) { let _ = t.%s(); }" % (TY[v], name)
    if op == "sealedMethodPub":
        v, name = a
        return "pub fn f(t: &SealedToken<%s, Public, Raw, Raw>) { let _ = t.%s(); }" % (TY[v], name)
    if op == "fieldFooter":
        (v,) = a
        return "pub fn f(t: &SealedToken<%s, Local, Raw, Vec<u8>>) -> &Vec<u8> { &t.footer }" % TY[v]
    if op == "fieldPayload":
        (v,) = a
        return "pub fn f(t: &SealedToken<%s, Local, Raw, Vec<u8>>) -> usize { t.payload.len() }" % TY[v]
    if op == "unverifiedFooter":
        (v,) = a
        return "pub fn f(t: &SealedToken<%s, Local, Raw, Vec<u8>>) -> &Vec<u8> { t.unverified_footer() }" % TY[v]
    raise ValueError(op)


def catalogue(thorough=False):
    """(op, args) entries: each forbidden combination and its well-typed counterpart, per back end"""
    cat = []
    n = len(BACKENDS)
    for i, v in enumerate(BACKENDS):
        o = BACKENDS[(i + 1) % n]          # another version / back end
        o2 = BACKENDS[(i + 3) % n]
        for p, good_seal, good_unseal in (("local", "local", "local"), ("public", "secret", "public")):
            cat += [("seal", (v, p, v, good_seal)), ("unseal", (v, p, v, good_unseal)),
                    ("seal", (v, p, o, good_seal)), ("unseal", (v, p, o, good_unseal)),
                    ("seal", (v, p, o2, good_seal))]
        cat += [("seal", (v, "local", v, "secret")), ("seal", (v, "public", v, "public")), ("seal", (v, "public", v, "local")),
                ("seal", (v, "public", v, "pkesecret")), ("unseal", (v, "local", v, "public")), ("unseal", (v, "public", v, "local")),
                ("unseal", (v, "public", v, "pkepublic")), ("unseal", (v, "public", v, "secret")),
                ("encrypt", (v, "local", v, "local")), ("encrypt", (v, "public", v, "local")), ("encrypt", (v, "local", v, "secret")),
                ("decrypt", (v, "local", v, "local")), ("decrypt", (v, "public", v, "public")), ("decrypt", (v, "public", v, "local")),
                ("sign", (v, "public", v, "secret")), ("sign", (v, "local", v, "secret")), ("sign", (v, "public", v, "public")),
                ("sign", (v, "public", v, "pkesecret")), ("sign", (v, "public", o, "secret")),
                ("verify", (v, "public", v, "public")), ("verify", (v, "local", v, "public")), ("verify", (v, "local", v, "local")),
                ("verify", (v, "public", v, "pkepublic")), ("verify", (v, "public", o, "public")),
                ("wrapPie", (v, "local", v, "local")), ("wrapPie", (v, "secret", v, "local")), ("wrapPie", (v, "public", v, "local")),
                ("wrapPie", (v, "pkesecret", v, "local")), ("wrapPie", (v, "local", o, "local")), ("wrapPie", (v, "local", v, "secret")),
                ("pwWrap", (v, "local")), ("pwWrap", (v, "secret")), ("pwWrap", (v, "public")), ("pwWrap", (v, "pkepublic")),
                ("sealKey", (v, "local", v, "pkepublic")), ("sealKey", (v, "local", v, "public")), ("sealKey", (v, "secret", v, "pkepublic")),
                ("sealKey", (v, "local", o, "pkepublic")), ("sealKey", (v, "local", v, "pkesecret")),
                ("displayKey", (v, "public")), ("displayKey", (v, "local")), ("displayKey", (v, "secret")), ("displayKey", (v, "pkesecret")),
                ("displayKey", (v, "pkepublic")),
                ("debugKey", (v, "local")), ("debugKey", (v, "secret")), ("debugKey", (v, "public")), ("debugKey", (v, "pkesecret")),
                ("serializeKey", (v, "secret")), ("serializeKey", (v, "local")),
                ("exposeKey", (v, "secret")), ("exposeKey", (v, "local")), ("publicKey", (v, "secret")), ("publicKey", (v, "public")),
                ("publicKey", (v, "pkesecret")), ("keyId", (v, "secret")), ("keyId", (v, "local")),
                ("displaySealed", (v, "local")), ("displaySealed", (v, "public")),
                ("displayUnsealed", (v, "local")), ("displayUnsealed", (v, "public")),
                ("serializeUnsealed", (v, "local")), ("serializeUnsealed", (v, "public")),
                ("fieldFooter", (v,)), ("fieldPayload", (v,)), ("unverifiedFooter", (v,))]
    # oracle-only probes (no counterpart in the Lean typing model; tied to the theorems over the extracted impl / API tables):
    # private representation of keys, conversions out of secret keys, accessor names on not-yet-verified tokens
    for v in BACKENDS:
        for k in ("local", "secret", "pkesecret", "public"):
            cat.append(("fieldKey", (v, k)))
        cat.append(("ctorKey", (v,)))
        for k in ("local", "secret", "pkesecret"):
            cat.append(("hashKey", (v, k)))
        for k, n in (("local", "32"), ("secret", "64"), ("secret", "48"), ("pkesecret", "32")):
            cat.append(("keyInto", (v, k, n)))
        for name in ("footer", "get_footer", "footer_ref", "as_footer", "into_footer", "raw_footer", "encoded_footer", "footer_bytes",
                     "claims", "payload", "message", "body", "get_claims", "unverified_claims", "unverified_payload", "into_inner", "inner"):
            cat.append(("sealedMethod", (v, name)))
            if name in ("footer", "claims", "payload"):
                cat.append(("sealedMethodPub", (v, name)))
    # dedupe, keep order
    seen, out = set(), []
    for e in cat:
        if e not in seen:
            seen.add(e); out.append(e)
    return out


ORACLE_ONLY = {"fieldKey", "ctorKey", "keyInto", "hashKey", "sealedMethod", "sealedMethodPub"}


def op_line(op, a):
    return "%s %s %s" % ("o.ty" if op in ORACLE_ONLY else "ty", op, " ".join(a))


def run(entries, env=None):
    """write the examples, run cargo check, return {index: (accepted, [error codes])}"""
    ex = os.path.join(PROBES, "examples")
    shutil.rmtree(ex, ignore_errors=True)
    os.makedirs(ex)
    lock = os.path.join(PROBES, "Cargo.lock")
    if not os.path.exists(lock):
        shutil.copy("/repo/Cargo.lock", lock)
    for i, (op, a) in enumerate(entries):
        with open(os.path.join(ex, "p%04d.rs" % i), "w") as f:
            f.write("#![allow(dead_code, unused)]\nuse pm_probes::*;\n%s\nfn main() {}\n" % program(op, a))
    e = dict(os.environ)
    e["CARGO_NET_OFFLINE"] = "true"
    if env:
        e.update(env)
    p = subprocess.run(["cargo", "check", "--examples", "--keep-going", "--message-format=json", "--offline", "-q"],
                       cwd=PROBES, env=e, stdout=subprocess.PIPE, stderr=subprocess.PIPE)
    failed, codes, lib_ok = set(), {}, True
    for line in p.stdout.decode("utf-8", "replace").splitlines():
        try:
            m = json.loads(line)
        except ValueError:
            continue
        if m.get("reason") == "compiler-message":
            tgt = m.get("target", {})
            msg = m.get("message", {})
            if msg.get("level") == "error":
                name = tgt.get("name", "")
                if "example" in tgt.get("kind", []):
                    failed.add(name)
                    c = (msg.get("code") or {}).get("code")
                    if c:
                        codes.setdefault(name, set()).add(c)
                elif tgt.get("name") == "pm-probes" or tgt.get("name") == "pm_probes":
                    lib_ok = False
    res = {}
    for i in range(len(entries)):
        n = "p%04d" % i
        res[i] = (n not in failed, sorted(codes.get(n, [])))
    return res, lib_ok, p.stderr.decode("utf-8", "replace")[-2000:]
