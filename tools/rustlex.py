#!/usr/bin/env python3
"""A small Rust lexer + bracket tree, enough for the source translators (ffiscan, srcscan).  Not a Rust parser: it
tokenises (comments, strings, chars, lifetimes, raw strings handled), builds a tree of (), [], {} groups and finds
`fn` items with their enclosing `impl` header.  Everything else is left to the callers."""
import re

TOKEN_RE = re.compile(r"""
    (?P<ws>\s+)
  | (?P<lcomment>//[^\n]*)
  | (?P<rawstr>b?r(?P<hashes>\#*)"(?:.|\n)*?"(?P=hashes))
  | (?P<str>b?"(?:\\.|[^"\\])*")
  | (?P<char>b?'(?:\\(?:x[0-9a-fA-F]{2}|u\{[0-9a-fA-F_]+\}|.)|[^'\\])')
  | (?P<lifetime>'[A-Za-z_][A-Za-z0-9_]*)
  | (?P<num>\d[\d_]*(?:\.\d[\d_]*)?(?:[eE][+-]?\d+)?[A-Za-z0-9_]*)
  | (?P<ident>(?:r\#)?[A-Za-z_][A-Za-z0-9_]*)
  | (?P<punct>::|->|=>|==|!=|<=|>=|&&|\|\||\.\.=|\.\.\.|\.\.|<<=|>>=|[-+*/%^&|]=|[{}()\[\];,.:<>=!&|+\-*/%^?@#$~])
""", re.X)


class Tok:
    __slots__ = ("kind", "text", "line")

    def __init__(self, kind, text, line):
        self.kind, self.text, self.line = kind, text, line

    def __repr__(self):
        return "%s:%r" % (self.kind, self.text)


def strip_block_comments(src):
    """remove /* */ (nested) keeping newlines"""
    out, i, depth, n = [], 0, 0, len(src)
    in_str = False
    while i < n:
        if not depth and not in_str and src[i] == '"':
            in_str = True; out.append(src[i]); i += 1; continue
        if in_str:
            if src[i] == "\\" and i + 1 < n:
                out.append(src[i:i + 2]); i += 2; continue
            if src[i] == '"':
                in_str = False
            out.append(src[i]); i += 1; continue
        if src.startswith("//", i) and not depth:
            j = src.find("\n", i)
            j = n if j < 0 else j
            i = j; continue
        if src.startswith("/*", i):
            depth += 1; i += 2; continue
        if depth and src.startswith("*/", i):
            depth -= 1; i += 2; continue
        if depth:
            if src[i] == "\n":
                out.append("\n")
            i += 1; continue
        out.append(src[i]); i += 1
    return "".join(out)


def lex(src):
    src = strip_block_comments(src)
    toks, i, line = [], 0, 1
    n = len(src)
    while i < n:
        m = TOKEN_RE.match(src, i)
        if not m:
            # unknown character: skip it (keeps the scan total)
            i += 1; continue
        kind = m.lastgroup
        if kind == "hashes":
            kind = "rawstr"
        text = m.group(0)
        if kind not in ("ws", "lcomment"):
            if kind in ("rawstr",):
                kind = "str"
            toks.append(Tok(kind, text, line))
        line += text.count("\n")
        i = m.end()
    return toks


class Group:
    """a bracketed group: open in '([{', items = list of Tok | Group"""
    __slots__ = ("open", "items", "line")

    def __init__(self, open_, line):
        self.open, self.items, self.line = open_, [], line

    def __repr__(self):
        return "G%s%r" % (self.open, self.items)


CLOSE = {"(": ")", "[": "]", "{": "}"}


def tree(toks):
    root = Group("", 0)
    stack = [root]
    for t in toks:
        if t.kind == "punct" and t.text in "([{":
            g = Group(t.text, t.line)
            stack[-1].items.append(g)
            stack.append(g)
        elif t.kind == "punct" and t.text in ")]}":
            if len(stack) > 1 and CLOSE[stack[-1].open] == t.text:
                stack.pop()
            # unbalanced closers are ignored (scan stays total)
        else:
            stack[-1].items.append(t)
    return root


def is_tok(x, text=None, kind=None):
    return isinstance(x, Tok) and (text is None or x.text == text) and (kind is None or x.kind == kind)


def flat_text(items):
    out = []
    for x in items:
        if isinstance(x, Tok):
            out.append(x.text)
        else:
            out.append(x.open + " " + flat_text(x.items) + " " + CLOSE[x.open])
    return " ".join(out)


def idents(items, deep=True):
    for x in items:
        if isinstance(x, Tok):
            if x.kind == "ident":
                yield x.text
        elif deep:
            yield from idents(x.items, True)


class FnItem:
    def __init__(self, name, impl_head, params, ret, body, line, attrs):
        self.name, self.impl_head, self.params, self.ret, self.body, self.line, self.attrs = name, impl_head, params, ret, body, line, attrs

    def _head_parts(self):
        """(trait idents, type idents) of the impl header, generic parameter list after `impl` skipped"""
        h = [t for t in (self.impl_head or []) if isinstance(t, Tok)]
        i = 0
        while i < len(h) and h[i].text in ("unsafe", "impl", "trait"):
            i += 1
        if i < len(h) and h[i].text == "<":
            d = 0
            while i < len(h):
                if h[i].text == "<":
                    d += 1
                elif h[i].text == ">":
                    d -= 1
                    if d == 0:
                        i += 1
                        break
                i += 1
        rest = h[i:]
        # cut a trailing where clause
        for k, t in enumerate(rest):
            if t.text == "where":
                rest = rest[:k]
                break
        # split at a top-level `for`
        d = 0
        for k, t in enumerate(rest):
            if t.text == "<":
                d += 1
            elif t.text == ">":
                d -= 1
            elif t.text == "for" and d == 0:
                return ([x.text for x in rest[:k] if x.kind == "ident"], [x.text for x in rest[k + 1:] if x.kind == "ident"])
        return ([], [x.text for x in rest if x.kind == "ident"])

    @property
    def self_type(self):
        """type name an inherent/trait impl is for ('' at top level)"""
        if not self.impl_head:
            return ""
        ty = self._head_parts()[1]
        return ty[0] if ty else ""

    @property
    def trait(self):
        if not self.impl_head:
            return ""
        tr = self._head_parts()[0]
        return tr[0] if tr else ""


def find_fns(group, impl_head=None, out=None):
    """all `fn name (params) [-> ret] { body }` items, with the header tokens of the enclosing impl/trait block"""
    if out is None:
        out = []
    items = group.items
    i = 0
    attrs = []
    while i < len(items):
        x = items[i]
        if is_tok(x, "#") and i + 1 < len(items) and isinstance(items[i + 1], Group) and items[i + 1].open == "[":
            attrs.append(flat_text(items[i + 1].items)); i += 2; continue
        if is_tok(x, "#") and i + 2 < len(items) and is_tok(items[i + 1], "!") and isinstance(items[i + 2], Group):
            i += 3; continue
        if is_tok(x, "fn") and i + 1 < len(items) and is_tok(items[i + 1], kind="ident"):
            name = items[i + 1].text
            j = i + 2
            while j < len(items) and not (isinstance(items[j], Group) and items[j].open == "("):
                j += 1
            if j >= len(items):
                i += 1; continue
            params = items[j]
            k = j + 1
            ret = []
            while k < len(items) and not (isinstance(items[k], Group) and items[k].open == "{") and not is_tok(items[k], ";"):
                ret.append(items[k]); k += 1
            if k < len(items) and isinstance(items[k], Group):
                out.append(FnItem(name, impl_head, params, ret, items[k], x.line, attrs))
                find_fns(items[k], impl_head, out)     # nested fns
                i = k + 1
            else:
                i = k + 1
            attrs = []
            continue
        if (is_tok(x, "impl") or is_tok(x, "trait")) :
            j = i
            head = []
            while j < len(items) and not (isinstance(items[j], Group) and items[j].open == "{") and not is_tok(items[j], ";"):
                head.append(items[j]); j += 1
            if j < len(items) and isinstance(items[j], Group):
                find_fns(items[j], head, out)
            i = j + 1
            attrs = []
            continue
        if is_tok(x, "mod") and i + 2 < len(items) and isinstance(items[i + 2], Group) and items[i + 2].open == "{":
            is_test = any("cfg" in a and "test" in a for a in attrs)
            if not is_test:
                find_fns(items[i + 2], impl_head, out)
            i += 3; attrs = []
            continue
        if isinstance(x, Group) and x.open == "{" :
            # macro bodies etc.
            find_fns(x, impl_head, out)
        if not is_tok(x, "pub") and not (isinstance(x, Group) and x.open == "(") and not is_tok(x, "unsafe") and not is_tok(x, "const") and not is_tok(x, "async") and not is_tok(x, "extern") and not is_tok(x, kind="str"):
            attrs = []
        i += 1
    return out


def drop_test_modules(group):
    """remove `#[cfg(test)] mod x { .. }` (and `#[cfg(test)]`-gated items' bodies) from a tree, in place"""
    items = group.items
    out, i = [], 0
    while i < len(items):
        x = items[i]
        if is_tok(x, "#") and i + 1 < len(items) and isinstance(items[i + 1], Group) and items[i + 1].open == "[":
            a = flat_text(items[i + 1].items).replace(" ", "")
            if a.startswith("cfg(test)") or a.startswith("cfg(all(test"):
                # skip attribute and the item that follows, up to and including its `{}` body or `;`
                j = i + 2
                while j < len(items) and not (isinstance(items[j], Group) and items[j].open == "{") and not is_tok(items[j], ";"):
                    j += 1
                i = j + 1
                continue
        if isinstance(x, Group):
            drop_test_modules(x)
        out.append(x)
        i += 1
    group.items = out
    return group
