#!/usr/bin/env python3
"""Translator: the constant-time arithmetic kernels of paseto-core/src/base64.rs -> lean/PasetoModel/Extracted/B64Src.lean.

`decode_6bits`, `encode_6bits` (branch-free i16 arithmetic) and `decoded_len` are straight-line integer code.  They are
translated expression by expression (Rust operator precedence, `as` casts, byte / integer / hex literals, `let [mut]`,
compound assignment) into Lean terms over `BitVec 16` / `UInt8` / `Nat`; the theorems in Props/C09.lean then state, about
the *translated source*, that `decode_6bits` is the alphabet lookup on all 256 bytes, that `encode_6bits` is the alphabet
on all 64 values, and that `decoded_len n = 3·(n/4) + 3·(n mod 4)/4` for every n — proved by `decide +kernel` / `omega`,
i.e. semantically, so any rewrite of these functions inside the supported subset that keeps their meaning still checks.

If a function is no longer inside the supported subset (loops, calls, new syntax) the translator says so
(`available_* := false`) and the theorem holds vacuously; the exhaustive correspondence on the same finite domains (C09's
`b64.enc` / `b64.dec` stream) is then the only tie, as it was before this translator existed.  Trusted: this translator."""
import os, sys
sys.path.insert(0, os.path.dirname(os.path.abspath(__file__)))
from rustlex import lex, tree, Tok, Group, is_tok, find_fns, flat_text, drop_test_modules


class Unsupported(Exception):
    pass


BIN = [  # (rust op, precedence, lean emitter)
    ("*", 10), ("/", 10), ("%", 10), ("+", 9), ("-", 9), ("<<", 8), (">>", 8), ("&", 7), ("^", 6), ("|", 5)]
PREC = dict(BIN)
TYPES = {"i16": "I16", "u8": "UInt8", "usize": "Nat"}


def join_shifts(items):
    """the lexer leaves `<<` / `>>` as two tokens (generics); join them here, where only expressions occur"""
    out = []
    for x in items:
        if out and isinstance(x, Tok) and x.text in ("<", ">") and isinstance(out[-1], Tok) and out[-1].text == x.text and out[-1].kind == "punct":
            out[-1] = Tok("punct", x.text * 2, x.line)
        else:
            out.append(x)
    return out


class P:
    def __init__(self, items, nat):
        self.items, self.i, self.nat = join_shifts(items), 0, nat

    def peek(self):
        return self.items[self.i] if self.i < len(self.items) else None

    def next(self):
        x = self.peek()
        self.i += 1
        return x

    def atom(self):
        x = self.next()
        if x is None:
            raise Unsupported("unexpected end of expression")
        if isinstance(x, Group):
            if x.open == "(":
                sub = P(x.items, self.nat)
                e = sub.expr(0)
                if sub.peek() is not None:
                    raise Unsupported("trailing tokens in parentheses")
                return "(" + e + ")"
            raise Unsupported("group " + x.open)
        if x.kind == "punct" and x.text == "-":
            return "(-" + self.unary() + ")"
        if x.kind == "num":
            t = x.text.replace("_", "")
            for suf in ("i16", "u8", "usize", "i32", "u32"):
                if t.endswith(suf):
                    t = t[:-len(suf)]
            v = int(t, 16) if t.startswith("0x") else int(t)
            return str(v)
        if x.kind == "char":
            s = x.text
            if s.startswith("b'") and len(s) == 4:
                return "(%d : UInt8)" % ord(s[2])
            raise Unsupported("char literal " + s)
        if x.kind == "ident":
            nxt = self.peek()
            if isinstance(nxt, Group):
                raise Unsupported("call / index of " + x.text)
            if is_tok(nxt, ".") or is_tok(nxt, "::"):
                raise Unsupported("path / method on " + x.text)
            return x.text
        raise Unsupported("token " + x.text)

    def unary(self):
        e = self.atom()
        # `as` binds tighter than any binary operator
        while is_tok(self.peek(), "as"):
            self.next()
            t = self.next()
            if not is_tok(t, kind="ident") or t.text not in TYPES:
                raise Unsupported("cast target")
            e = {"i16": "(toI16 %s)", "u8": "(toU8 %s)", "usize": "(%s)"}[t.text] % e
        return e

    def expr(self, minp):
        lhs = self.unary()
        while True:
            x = self.peek()
            if not (isinstance(x, Tok) and x.kind == "punct" and x.text in PREC and PREC[x.text] >= minp):
                return lhs
            op = self.next().text
            rhs = self.expr(PREC[op] + 1)
            if op == ">>":
                if not rhs.isdigit():
                    raise Unsupported("shift by a non-literal")
                lhs = "(%s / %d)" % (lhs, 2 ** int(rhs)) if self.nat else "(sar %s %s)" % (lhs, rhs)
            elif op == "<<":
                if not rhs.isdigit():
                    raise Unsupported("shift by a non-literal")
                lhs = "(%s * %d)" % (lhs, 2 ** int(rhs)) if self.nat else "(%s <<< %s)" % (lhs, rhs)
            else:
                lean = {"&": "&&&", "|": "|||", "^": "^^^"}.get(op, op)
                if self.nat and op in ("&", "|", "^"):
                    raise Unsupported("bit operation on usize")
                lhs = "(%s %s %s)" % (lhs, lean, rhs)


def split_stmts(body):
    out, cur = [], []
    for x in body.items:
        if is_tok(x, ";"):
            out.append((cur, True)); cur = []
        else:
            cur.append(x)
    if cur:
        out.append((cur, False))
    return out


def translate_fn(fn, nat=False):
    """-> (params [(name, leantype)], return lean type, body lines)"""
    params = []
    cur = []
    for x in fn.params.items + [Tok("punct", ",", 0)]:
        if is_tok(x, ","):
            if cur:
                ids = [t for t in cur if isinstance(t, Tok)]
                if len(ids) != 3 or ids[1].text != ":" or ids[2].text not in TYPES:
                    raise Unsupported("parameter " + flat_text(cur))
                params.append((ids[0].text, TYPES[ids[2].text]))
            cur = []
        else:
            cur.append(x)
    ret = [t for t in fn.ret if isinstance(t, Tok) and t.kind == "ident"]
    if len(ret) != 1 or ret[0].text not in TYPES:
        raise Unsupported("return type")
    lines = []
    stmts = split_stmts(fn.body)
    if not stmts or stmts[-1][1]:
        raise Unsupported("no tail expression")
    for st, _ in stmts[:-1]:
        if is_tok(st[0], "let"):
            k = 1
            if is_tok(st[k], "mut"):
                k += 1
            name = st[k]
            if not is_tok(name, kind="ident"):
                raise Unsupported("let pattern")
            k += 1
            ty = None
            if is_tok(st[k], ":"):
                if not (is_tok(st[k + 1], kind="ident") and st[k + 1].text in TYPES):
                    raise Unsupported("let type")
                ty = TYPES[st[k + 1].text]
                k += 2
            if not is_tok(st[k], "="):
                raise Unsupported("let without initialiser")
            p = P(st[k + 1:], nat)
            e = p.expr(0)
            if p.peek() is not None:
                raise Unsupported("trailing tokens in let")
            lines.append("let %s%s := %s" % (name.text, (" : " + ty) if ty else "", e))
        elif is_tok(st[0], kind="ident") and len(st) > 2 and isinstance(st[1], Tok) and st[1].text in ("+=", "-=", "|=", "&=", "^=", "="):
            op = st[1].text
            p = P(st[2:], nat)
            e = p.expr(0)
            if p.peek() is not None:
                raise Unsupported("trailing tokens in assignment")
            v = st[0].text
            if op == "=":
                lines.append("let %s := %s" % (v, e))
            else:
                lean = {"+=": "+", "-=": "-", "|=": "|||", "&=": "&&&", "^=": "^^^"}[op]
                lines.append("let %s := %s %s %s" % (v, v, lean, e))
        else:
            raise Unsupported("statement " + flat_text(st)[:60])
    p = P(stmts[-1][0], nat)
    e = p.expr(0)
    if p.peek() is not None:
        raise Unsupported("trailing tokens in tail expression")
    lines.append(e)
    return params, TYPES[ret[0].text], lines


FALLBACK = {"decode_6bits": ("(src : UInt8) : I16", "0"), "encode_6bits": ("(src : I16) : UInt8", "0"), "decoded_len": ("(input_len : Nat) : Nat", "0")}
EXPECT_SIG = {"decode_6bits": ([("UInt8")], "I16"), "encode_6bits": (["I16"], "UInt8"), "decoded_len": (["Nat"], "Nat")}


def emit(repo="/repo"):
    src = open(os.path.join(repo, "paseto-core", "src", "base64.rs")).read()
    fns = {f.name: f for f in find_fns(drop_test_modules(tree(lex(src))))}
    L = ["import PasetoModel.Base64",
         "/-! GENERATED on every run by tools/b64scan.py from /repo's paseto-core/src/base64.rs. Do not edit. -/",
         "namespace PM.Extracted.B64Src",
         "open PM.B64",
         "class ToI16 (α : Type) where toI16 : α → I16",
         "instance : ToI16 UInt8 := ⟨i16⟩",
         "instance : ToI16 I16 := ⟨id⟩",
         "class ToU8 (α : Type) where toU8 : α → UInt8",
         "instance : ToU8 I16 := ⟨u8⟩",
         "instance : ToU8 UInt8 := ⟨id⟩",
         "open ToI16 ToU8"]
    info = {}
    for name in ("decode_6bits", "encode_6bits", "decoded_len"):
        ok, why = False, ""
        try:
            if name not in fns:
                raise Unsupported("function not found")
            params, ret, lines = translate_fn(fns[name], nat=(name == "decoded_len"))
            if [t for _, t in params] != list(EXPECT_SIG[name][0]) or ret != EXPECT_SIG[name][1]:
                raise Unsupported("signature changed: %s -> %s" % (params, ret))
            L.append("/-- `%s`, translated from the source -/" % name)
            L.append("def %s %s : %s :=" % (name, " ".join("(%s : %s)" % p for p in params), ret))
            L += ["  " + l for l in lines]
            ok = True
        except Unsupported as e:
            why = str(e)
            L.append("/-- `%s` is outside the translator's subset (%s): placeholder -/" % (name, why.replace("-/", "")))
            L.append("def %s %s := %s" % (name, FALLBACK[name][0], FALLBACK[name][1]))
        L.append("def available_%s : Bool := %s" % (name, "true" if ok else "false"))
        info[name] = {"available": ok, "why": why}
    L.append("end PM.Extracted.B64Src")
    return "\n".join(L) + "\n", info


if __name__ == "__main__":
    text, info = emit(sys.argv[1] if len(sys.argv) > 1 else "/repo")
    sys.stdout.write(text)
    sys.stderr.write(repr(info) + "\n")
