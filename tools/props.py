"""per-property stream lists, oracles (the property evaluated on the implementation's own outputs)
and non-triviality rules"""
import struct, sys, os, json
from checklib import run_stream


def unhex(s):
    return b"" if s == "-" else bytes.fromhex(s)


# ------------------------------------------------------------------ C15
def py_pae_spec(pieces):
    out = struct.pack("<Q", len(pieces))
    for p in pieces:
        out += struct.pack("<Q", len(p)) + p
    return out


def parse_pieces(s):
    if s == ".":
        return []
    res = []
    for p in s.split("/"):
        res.append([] if p == "_" else [unhex(f) for f in p.split(",")])
    return res


def c15_oracle(op, impl):
    t = op.split(" ")
    if t[0] != "pae":
        return None
    ps = parse_pieces(t[1])
    want = py_pae_spec([b"".join(fr) for fr in ps])
    if not impl.startswith("ok ") or unhex(impl[3:]) != want:
        return ("pre_auth_encode output differs from the specification's PAE of the concatenated fragments", "core/pae/spec")
    return None


def c15_nontrivial(op, impl):
    ps = parse_pieces(op.split(" ")[1])
    # distinct = (piece count, per-piece fragment count, per-piece length class)
    cls = lambda n: 0 if n == 0 else 1 if n < 8 else 2 if n < 256 else 3
    if not ps:
        return None
    return (len(ps), tuple(len(p) for p in ps), tuple(cls(sum(len(f) for f in p)) for p in ps))


def run_c15(ctx):
    run_stream(ctx, "pae", ["c15"], policy="okerr", oracle=c15_oracle, nontrivial=c15_nontrivial)
    # the private digest / MAC writer adapters of the back ends: observable only through tokens
    run_stream(ctx, "writers", ["c15w"], policy="okerr", oracle=open_oracle("C15"), nontrivial=tok_nontrivial)
    ctx.cov["rule"] = ("piece counts 0..10 x fragment counts 0..4 x fragment lengths 0..600 (random/zero/ones/ascii), boundary-shift families and the "
                       "header-as-three-fragments shapes of every back end; non-trivial = at least one piece; distinct = (piece count, fragments per piece, length class per piece); "
                       "stream `writers`: the back ends' digest / MAC writer adapters, observed through tokens whose message / footer / assertion lengths straddle 16 / 64 / 128-byte blocks: injected-nonce tokens byte-compared with the model, "
                       "specification-built tokens offered to every back end, siblings compared")


# ------------------------------------------------------------------ C09
def c09_oracle(op, impl):
    t = op.split(" ")
    name = t[0][3:] if t[0].startswith("sd.") else t[0]
    if not impl.startswith("ok "):
        return None
    r = impl[3:].split(" ")
    if name == "tok.rt":
        s, shown = unhex(t[4]), unhex(r[0])
        if not (shown == s or shown + b"." == s):
            return ("accepted token string does not re-serialise to itself (up to one trailing '.')", "core/tok/canonical")
    elif name == "tokc.rt":
        # payload type with `SUFFIX = "c"`: the header is version ‖ suffix ‖ purpose (PASETO: `vN` + suffix + `.purpose.`)
        s, shown = unhex(t[4]), unhex(r[0])
        ver = {"v1": b"v1", "v2": b"v2", "v3": b"v3", "v3lc": b"v3", "v4": b"v4", "v4s": b"v4"}.get(t[1])
        want = (ver or b"?") + b"c." + t[2].encode() + b"."
        if not s.startswith(want):
            return ("a token string whose header is not version+suffix+purpose was accepted for a payload type with a suffix", "core/tok/suffix-header")
        if not (shown == s or shown + b"." == s):
            return ("accepted token string (suffixed payload type) does not re-serialise to itself", "core/tok/canonical")
    elif name == "txt.rt":
        s, shown = unhex(t[4]), unhex(r[0])
        if shown != s:
            return ("accepted PASERK string does not re-serialise to itself", "core/txt/canonical")
        if t[2] == "id" and len(unhex(r[1])) != 33:
            return ("key id does not decode to 33 bytes", "core/id/33")
    elif name == "b64.dec":
        s = unhex(t[1])
        import base64
        al = set(b"ABCDEFGHIJKLMNOPQRSTUVWXYZabcdefghijklmnopqrstuvwxyz0123456789-_")
        if any(c not in al for c in s) or len(s) % 4 == 1:
            return ("non-alphabet character or impossible length accepted", "core/b64/strict")
        want = base64.urlsafe_b64encode(unhex(r[0])).rstrip(b"=")
        if want != s:
            return ("accepted base64 string is not the canonical encoding of its value", "core/b64/canonical")
    elif name == "b64.enc":
        import base64
        if base64.urlsafe_b64encode(unhex(t[1])).rstrip(b"=") != unhex(r[0]):
            return ("encoding differs from unpadded base64url", "core/b64/encode")
    elif name == "key.show":
        pass
    return None


def c09_nontrivial(op, impl):
    t = op.split(" ")
    if t[0] in ("b64.dec",):
        s = unhex(t[1])
        return ("b64.dec", len(s) % 4, impl[:3], s[-1:].hex(), len(s) > 4)
    if t[0] == "b64.enc":
        return ("b64.enc", len(unhex(t[1])))
    if t[0] == "key.show":
        return None
    # form ops: distinct by (op, backend, form/purpose, kind, outcome, length class)
    s = unhex(t[4])
    return (t[0], t[1], t[2], t[3], impl.split(" ")[0:2][-1] if impl.startswith("err") else "ok", min(len(s) // 16, 8))


def run_c09(ctx):
    run_stream(ctx, "text", ["c09"], policy="okerr", oracle=c09_oracle, nontrivial=c09_nontrivial)
    # tokens parsed with a footer *type* (non-injective decoder): the accepted string still re-serialises to itself
    import checklib
    rc, out, _ = checklib.sh([checklib.PM, "gen", "c01", "quick"], env={"VERIF_SEED": str(ctx.seed)}, timeout=600)
    fl = [l for l in out.splitlines() if l.startswith("o.fcanon ")]
    if fl:
        run_stream(ctx, "typed-footers", [], policy="okerr", oracle=open_oracle("C09"), ops="\n".join(fl) + "\n",
                   nontrivial=lambda o, i: tuple(o.split(" ")[1:3]) + (i[:20],))
    ctx.cov["exhaustive"] = True
    ctx.cov["exhaustive_part"] = ("every ASCII byte value at each of the 4 block positions for every tail length (with and without a preceding block), "
                                  "every pair of alphabet characters as 2- and 3-character tails, all strings of length <= 3 (v4; <= 2 other back ends) over the 14-symbol class alphabet after the header of every form")
    ctx.cov["rule"] = ("exhaustive finite cores as above + byte sequences of every length 0..300 + mutated valid strings for every FromStr/Display pair x back end (plain and serde); "
                       "distinct = (op, back end, form, kind, outcome/err kind, length class) resp. (length mod 4, outcome, last char) for raw base64")
    ctx.cov["unreachable_through_api"] = "byte values 0xC0,0xC1,0xF5..0xFF cannot occur in a &str; the model's table theorem covers them, the tie cannot"


# ------------------------------------------------------------------ C10
def c10_oracle(op, impl):
    t = op.split(" ")
    if t[0] != "x.rt":
        return None
    # a key id is exactly 33 bytes: a body of any other length under an id header (e.g. the 32 bytes of a key) is no id
    body_len = None
    if t[2] == "id":
        import base64
        body = unhex(t[7]).rsplit(b".", 1)[-1]
        try:
            body_len = len(base64.urlsafe_b64decode(body + b"=" * (-len(body) % 4)))
        except Exception:
            body_len = -1
        if body_len != 33:
            if "acc=1" in impl:
                return ("a %d-byte body under the %s id header was accepted by the %s/%s/%s parser" % (body_len, t[3], t[4], t[5], t[6]), "core/cross/id-length")
            return None
    if "acc=1" in impl and "same=0" in impl:
        return ("a %s/%s/%s value was accepted by the %s/%s/%s parser" % (t[1], t[2], t[3], t[4], t[5], t[6]), "core/cross/%s-%s" % (t[2], t[5]))
    # intended aliases, stated independently of the code's header constants: same protocol version, same form, and the
    # same key class (Public ~ PkePublic, Secret ~ PkeSecret share their PASERK text form)
    cls = {"pkepublic": "public", "pkesecret": "secret"}
    intended = (ver_of(t[1]) == ver_of(t[4]) and t[2] == t[5] and cls.get(t[3], t[3]) == cls.get(t[6], t[6]))
    if "acc=1" in impl and not intended:
        return ("a %s/%s/%s value was accepted by the %s/%s/%s parser (not an intended alias)" % (t[1], t[2], t[3], t[4], t[5], t[6]), "core/cross/%s-%s" % (t[2], t[5]))
    if "acc=0" in impl and intended and t[2] != "tok":
        return ("a %s/%s/%s value (canonical text form, correct length) was rejected by its own %s/%s/%s parser" % (t[1], t[2], t[3], t[4], t[5], t[6]), "core/self-reject/%s" % t[2])
    return None


def c10_nontrivial(op, impl):
    t = op.split(" ")
    return tuple(t[1:7])


def run_c10(ctx):
    run_stream(ctx, "cross", ["c10"], policy="okerr", oracle=c10_oracle, nontrivial=c10_nontrivial)
    # key bytes of every length offered to every kind of every back end: only the kind's own length(s) may pass
    def keylen_oracle(o, i):
        r = c08_oracle(o, i)
        if r and ("length" in r[1] or "scalar" in r[1] or "modulus" in r[1]):
            return r
        return None
    run_stream(ctx, "keylen", ["c08"], policy="okerr", oracle=keylen_oracle, nontrivial=c08_nontrivial)
    ctx.cov["exhaustive"] = True
    ctx.cov["rule"] = ("exhaustive cross product: every (back end, form, kind) serialised value (6 x 17 sources, several lengths) offered to every "
                       "(back end, form, kind) parser (6 x 17); distinct = ordered (source, parser) pair")


# ------------------------------------------------------------------ C11
TS_MIN, TS_MAX = -377705023201000000000, 253402207200999999999


def parse_claims(s):
    f = s.split(",")
    st = lambda x: None if x == "~" else unhex(x)
    t = lambda x: None if x == "~" else int(x)
    return {"iss": st(f[0]), "sub": st(f[1]), "aud": st(f[2]), "exp": t(f[3]), "nbf": t(f[4]), "iat": t(f[5]), "jti": st(f[6])}


class VP:
    """independent evaluator of the property's wording for validator expressions; returns (accepts, in_range)"""
    def __init__(self, s):
        self.s, self.i = s, 0

    def eat(self, lit):
        if self.s.startswith(lit, self.i):
            self.i += len(lit)
            return True
        return False

    def num(self):
        j = self.i
        if self.s[j] == "-":
            j += 1
        while j < len(self.s) and self.s[j].isdigit():
            j += 1
        v = int(self.s[self.i:j])
        self.i = j
        return v

    def hx(self):
        j = self.i
        while j < len(self.s) and self.s[j] in "0123456789abcdef-":
            j += 1
        v = unhex(self.s[self.i:j])
        self.i = j
        return v

    def lst(self, c):
        res = []
        if self.eat(")"):
            return res
        while True:
            res.append(self.v(c))
            if self.eat(")"):
                return res
            assert self.eat(";")

    def v(self, c):
        if self.eat("and("):
            a = self.v(c); assert self.eat(","); b = self.v(c); assert self.eat(")")
            return (a[0] and b[0], a[1] and b[1])
        if self.eat("all(") or self.eat("sl("):
            l = self.lst(c)
            return (all(x[0] for x in l), all(x[1] for x in l))
        for w in ("box(", "rc(", "arc(", "map("):
            if self.eat(w):
                a = self.v(c); assert self.eat(")")
                return a
        if self.eat("T"):
            now = self.num()
            return ((c["exp"] is None or c["exp"] >= now) and (c["nbf"] is None or c["nbf"] <= now), True)
        if self.eat("L"):
            now = self.num(); assert self.eat(":"); l = self.num()
            return ((c["exp"] is None or c["exp"] >= now - l) and (c["nbf"] is None or c["nbf"] <= now + l),
                    TS_MIN <= now - l and now + l <= TS_MAX)
        if self.eat("E"):
            return (c["exp"] is not None, True)
        if self.eat("S"):
            return (c["sub"] == self.hx(), True)
        if self.eat("I"):
            return (c["iss"] == self.hx(), True)
        if self.eat("A"):
            return (c["aud"] == self.hx(), True)
        if self.eat("N"):
            return (True, True)
        raise ValueError(self.s[self.i:])


def c11_oracle(op, impl):
    t = op.split(" ")
    if t[0] == "val":
        vexpr, cl = t[1], t[2]
    elif t[0] == "unseal.val":
        vexpr, cl = t[2], t[3]
    elif t[0] == "o.zst":
        # validators given as values of the library's own (partly zero-sized) types
        if impl == "panic" or not impl.startswith("ok "):
            return ("unsealing with a built-in validator value failed outright: " + impl[:80], "core/unseal/validator-value")
        f = dict(x.split("=") for x in impl[3:].split(" "))
        has = f["exp"] == "1"
        want = {"hasexp": has, "and": has, "novand": has, "boxed": has, "slice": has, "reject": False, "accept": True, "accrej": False}
        bad = [k for k, w in want.items() if f.get(k) != ("ok" if w else "claims")]
        if bad:
            return ("claims released although the validator rejects them (or withheld although it accepts), for validator value(s) %s: %s" % (",".join(bad), impl), "core/unseal/validator-value")
        return None
    else:
        return None
    c = parse_claims(cl)
    acc, inr = VP(vexpr).v(c)
    if not inr:
        return None  # outside the property's guard (now +- leeway not representable)
    if impl == "panic":
        return ("validator panicked inside the guard", "json/validate/panic")
    ok = impl.startswith("ok")
    if ok != acc:
        return ("validator %s claims the specification %s" % ("accepted" if ok else "rejected", "rejects" if ok else "accepts"), "json/validate/exact")
    if not ok and impl != "err claims":
        return ("rejection is not a claims error: " + impl, "json/validate/errkind")
    if t[0] == "unseal.val" and ok and impl[3:] != cl:
        return ("unseal released different claims than were sealed", "core/unseal/claims")
    return None


def c11_nontrivial(op, impl):
    t = op.split(" ")
    if t[0] == "o.zst":
        return ("o.zst", t[1], impl[-5:])
    v = t[1] if t[0] == "val" else t[2]
    import re
    shape = re.sub(r"-?[0-9a-f]+|-", "", v)
    c = (t[2] if t[0] == "val" else t[3]).split(",")
    pres = tuple(x != "~" for x in c)
    return (t[0], shape, pres, impl[:4])


def run_c11(ctx):
    run_stream(ctx, "validators", ["c11"], policy="full", oracle=c11_oracle, nontrivial=c11_nontrivial)
    ctx.cov["rule"] = ("every built-in validator x every boundary timestamp (now, now+-1ns, now+-leeway, now+-leeway+-1ns, range ends) x field presence; issuer/subject/audience over a string set "
                       "incl. empty/NUL/astral; random combinator expressions to depth 3 built as real Rust values (and_then, Vec, slice, Box, Rc, Arc, map); unseal with validators on all six back ends; "
                       "distinct = (op, expression shape, field-presence pattern, outcome)")


# ------------------------------------------------------------------ C12 (generic pipeline part)
def c12pipe_oracle(op, impl):
    t = op.split(" ")
    if t[0] != "pipe":
        return None
    p = unhex(t[1])
    res = dict(x.split("=", 1) for x in impl[3:].split(" "))
    tr = res["trace"]
    if len(p) == 0 or p[0] != 0:
        if tr != "-":
            return ("decoder/validator invoked although the version's unseal failed (trace %s)" % tr, "core/pipeline/order")
        want = {1: "invalidToken", 2: "crypto", 3: "claims", 4: "base64"}.get(p[0] if p else 1, "invalidKey")
        if res["res"] != "err:" + want:
            return ("error of a failing unseal not passed through unchanged", "core/pipeline/error")
    else:
        ct = p[1:]
        parts = tr.split("+")
        if parts[0] != "dec:" + (ct.hex() or "-"):
            return ("decoder not invoked on the unsealed cleartext first", "core/pipeline/order")
        dec_fails = len(ct) > 0 and ct[0] == 1
        if dec_fails and (len(parts) != 1 or res["res"] != "err:payload"):
            return ("validator ran or wrong error after a decode failure", "core/pipeline/order")
        if not dec_fails:
            if parts != ["dec:" + (ct.hex() or "-"), "val"]:
                return ("validator not invoked exactly once after decode", "core/pipeline/order")
            vcode = ct[1] if len(ct) > 1 else 0
            want = {1: "err:claims", 2: "err:crypto"}.get(vcode, "ok:" + (ct.hex() or "-"))
            if res["res"] != want:
                return ("claims released although the validator rejected, or validator result not returned", "core/pipeline/validate")
    return None


def run_c12(ctx):
    run_stream(ctx, "pipeline", ["c12pipe"], policy="full", oracle=c12pipe_oracle,
               nontrivial=lambda o, i: (o.split(" ")[0], i[:40]))
    # every corruption class of C02 on the real back ends with a recording decoder and validator:
    # invocation counts must stay 0 and the error class must be an authentication/format class
    run_stream(ctx, "mutations", ["c02"], policy="class", oracle=open_oracle("C12"), nontrivial=tok_nontrivial)
    # accessor clause: compile probes - the footer / payload of a not-yet-verified token is reachable through `unverified_footer` only
    import probes
    cat = [e for e in probes.catalogue(False) if e[0] in ("sealedMethod", "sealedMethodPub", "fieldFooter", "fieldPayload", "unverifiedFooter")]
    res, lib_ok, err = probes.run(cat)
    if not lib_ok:
        ctx.k_broken.append({"kind": "probe-support-crate", "detail": err})
    else:
        ops = [probes.op_line(op, a).replace("ty ", "o.ty ", 1) if not probes.op_line(op, a).startswith("o.") else probes.op_line(op, a) for op, a in cat]
        impl_lines = ["ok %s" % ("accept" if res[i][0] else "reject") for i in range(len(cat))]
        want = {ops[i]: (cat[i][0] == "unverifiedFooter") for i in range(len(cat))}
        def acc_oracle(o, i):
            acc = i.startswith("ok accept")
            if acc and not want[o]:
                return ("the footer / payload of a token that has not been verified is reachable without the accessor named `unverified`: this program compiles: " + o, "core/accessor/%s" % o.split(" ")[-1])
            if want[o] and not acc:
                return ("`unverified_footer()` is not available: " + o, "core/accessor/missing")
            return None
        run_stream(ctx, "accessors", [], policy="full", oracle=acc_oracle, ops="\n".join(ops) + "\n", impl_lines=impl_lines, nontrivial=lambda o, i: tuple(o.split(" ")[1:]))
    ctx.cov["rule"] = ("(c) accessor clause: compile probes over accessor names and fields of SealedToken + the scanned API surface theorem; (b) all C02 mutants on the six real back ends with recording Payload::decode / Validate (counts must be 0, error class auth); (a) scripted Version/Payload/Validate implementations drive the real SealedToken::unseal and UnsealedToken::seal through every combination of "
                       "unseal outcome x decode outcome x validator outcome (and nonce/encode/seal outcome); trace of invoked caller code compared with the model; distinct = (op, result, trace)")


# ------------------------------------------------------------------ C14
def c14_oracle(op, impl):
    t = op.split(" ")
    if t[0] == "claims.enc":
        if not impl.startswith("ok "):
            return ("encoding registered claims failed", "json/claims/encode")
        if "rfc3339=1" not in impl:
            return ("timestamp not written as RFC 3339", "json/claims/rfc3339")
        if "rt=1" not in impl:
            return ("decode(encode(c)) != c", "json/claims/roundtrip")
        c = t[1].split(",")
        names = ["iss", "sub", "aud", "exp", "nbf", "iat", "jti"]
        ms = [] if impl.split(" ")[1] == "." else impl.split(" ")[1].split(";")
        keys = [unhex(m.split("=")[0]).decode() for m in ms]
        want = [n for n, x in zip(names, c) if x != "~"]
        if keys != want:
            return ("wire form has members %s, expected %s (absent claims omitted, fixed order)" % (keys, want), "json/claims/members")
        for m, n in zip(ms, want):
            v = m.split("=")[1]
            x = c[names.index(n)]
            if n in ("exp", "nbf", "iat"):
                if v != "t" + x:
                    return ("timestamp member does not carry the claim's value to the nanosecond", "json/claims/ts")
            elif v != "s" + x:
                return ("string member differs from the claim", "json/claims/string")
    elif t[0] == "claims.json":
        if not impl.startswith("ok "):
            return ("encoding registered claims failed", "json/claims/encode")
        import json
        text = unhex(impl[3:])
        try:
            pairs = json.loads(text.decode("utf-8"), object_pairs_hook=list)
        except Exception:
            return ("the encoded claims are not a JSON document", "json/claims/not-json")
        names = ["iss", "sub", "aud", "exp", "nbf", "iat", "jti"]
        cl = t[1].split(",")
        present = [n for n, x in zip(names, cl) if x != "~"]
        if not isinstance(pairs, list) or [k for k, _ in pairs] != present:
            return ("the encoded object does not consist of exactly the present claims in the order iss sub aud exp nbf iat jti", "json/claims/members")
        for (k, v), x in zip(pairs, [x for x in cl if x != "~"]):
            if k in ("iss", "sub", "aud", "jti"):
                if not isinstance(v, str) or v.encode("utf-8", "surrogatepass") != unhex(x):
                    return ("string member %s does not read back byte for byte" % k, "json/claims/string")
            elif not isinstance(v, str) or not v.endswith("Z") or "T" not in v:
                return ("timestamp member %s is not an RFC 3339 UTC string" % k, "json/claims/ts")
    elif t[0] == "claims.dec":
        if impl.startswith("ok ") and "gen=1" not in impl:
            return ("decoded claims disagree with what a generic JSON parser reads for the members", "json/claims/generic")
    return None


def c14_nontrivial(op, impl):
    t = op.split(" ")
    if t[0] == "claims.enc":
        return ("enc", tuple(x != "~" for x in t[1].split(",")))
    if t[0] == "o.json":
        return ("json", t[1][:40], impl[:30])
    if t[0] == "claims.json":
        return ("text", tuple(x != "~" for x in t[1].split(",")), min(len(impl) // 256, 8))
    top = t[2]
    if top.startswith("X:"):
        return ("dec-raw", top)
    ms = top[2:].split(";") if len(top) > 2 else []
    sig = tuple((unhex(m.split("=")[0]), m.split("=")[1][0]) for m in ms)
    return ("dec", t[1], sig, impl[:3])


def make_c14_oracle():
    """c14_oracle plus order independence: the generator emits a permutation of a member list right after the original;
    without duplicated registered members both must decode to the same result"""
    prev = {}
    REG = {b"iss", b"sub", b"aud", b"exp", b"nbf", b"iat", b"jti"}

    def f(op, impl):
        r = c14_oracle(op, impl)
        t = op.split(" ")
        if t[0] == "o.json" and impl.startswith("ok "):
            kv = dict(x.split("=") for x in impl[3:].split(" "))
            if kv["payload"] != kv["generic"] or (kv["footer"] != kv["generic"] and kv["empty"] == "0") or kv["same"] != "1":
                return ("Json<T> as payload / footer is not transparent over serde_json on these bytes (serde_json accepts=%s, payload=%s, footer=%s)" % (kv["generic"], kv["payload"], kv["footer"]), "json/wrapper/transparent")
            if kv["empty"] == "1" and kv["footer"] == "1":
                return ("an empty footer was accepted by Json<T>", "json/wrapper/empty-footer")
            if kv["claims"] != kv["claims_generic"]:
                return ("RegisteredClaims as payload accepts / rejects other bytes than serde_json::from_slice::<RegisteredClaims> (payload=%s, serde_json=%s)" % (kv["claims"], kv["claims_generic"]), "json/claims/transparent")
            if kv["enc_same"] != "1":
                return ("Json<T> does not write what serde_json writes", "json/wrapper/encode")
            return None
        if t[0] == "claims.dec" and t[2].startswith("O:"):
            ms = t[2][2:].split(";") if len(t[2]) > 2 else []
            keys = [unhex(m.split("=")[0]) for m in ms]
            regs = [k for k in keys if k in REG]
            sig = (t[1], tuple(sorted(ms)))
            if len(regs) == len(set(regs)) and prev.get("sig") == sig and prev.get("ops") != ms:
                a = prev["impl"].split(" gen=")[0]
                b = impl.split(" gen=")[0]
                if a.startswith("err"):
                    a = "err"
                if b.startswith("err"):
                    b = "err"
                if a != b and r is None:
                    r = ("decoding depends on member order: the same members in another order give %s vs %s" % (a[:40], b[:40]), "json/claims/order")
            prev.update({"sig": sig, "impl": impl, "ops": ms})
        return r
    return f


def run_c14(ctx):
    run_stream(ctx, "claims", ["c14"], policy="okerr", oracle=make_c14_oracle(), nontrivial=c14_nontrivial)
    st = ctx.cov["streams"].get("claims", {})
    ctx.cov["rule"] = ("claims.enc: all 128 absent/present combinations, strings with escapes/NUL/astral characters, timestamps over jiff's full range at ns resolution; "
                       "claims.dec: JSON text built from generated member lists (registered/unknown/near-miss keys, every JSON value type, nulls, duplicates, permutations, three escape styles), "
                       "compared with the model and with serde_json::Value; distinct = (member key/type signature, escape style, outcome)")


# ------------------------------------------------------------------ tokens: C01, C02, C03, C12
def want_of(op):
    w = [x for x in op.split(" ") if x.startswith("want=")]
    return w[0][5:] if w else None


def open_oracle(prop):
    def f(op, impl):
        t = op.split(" ")
        be = t[1] if len(t) > 1 else "?"
        if t[0] in ("loc.open", "pub.open", "locc.open", "pubc.open"):
            want = want_of(op)
            purpose = "local" if t[0].startswith("loc") else "public"
            if impl == "panic":
                return ("panic while opening a token", "%s/%s/open-panic" % (be, purpose))
            if want == "err":
                if impl.startswith("ok"):
                    return ("a mutated / foreign token was accepted", "%s/%s/mutant-accepted" % (be, purpose))
                if "dec=0 val=0" not in impl:
                    return ("decoder or validator ran on an unauthenticated token", "%s/%s/decode-before-auth" % (be, purpose))
                v = impl.split(" ")[1]
                aad = t[4]
                if v not in ("crypto", "invalidToken", "base64") and not (v == "claims" and be in ("v1", "v2") and aad != "-") and not (v == "invalidKey"):
                    return ("unexpected error kind %s for an unauthenticated token" % v, "%s/%s/error-kind" % (be, purpose))
            elif want and want.startswith("ok:"):
                if not impl.startswith("ok ") or impl.split(" ")[1] != want[3:]:
                    return ("a valid (spec-conforming) token was not accepted with the same claims", "%s/%s/valid-rejected" % (be, purpose))
        elif t[0] == "o.rtc":
            if not impl.startswith("ok rt=1"):
                return ("round trip of a payload type with a non-empty encoding suffix failed: " + impl[:80], "%s/%s/suffix-roundtrip" % (be, t[2]))
        elif t[0] == "o.rt":
            if not impl.startswith("ok rt=1"):
                return ("seal -> to_string -> parse -> unseal with the library's own randomness did not return the input: " + impl[:80],
                        "%s/%s/own-roundtrip" % (be, t[2]))
        elif t[0] == "o.fcanon":
            if impl.startswith("ok ") and "genuine=1" not in impl:
                return ("a token with a footer of a custom footer type did not round-trip: " + impl[:80], "%s/%s/footer-roundtrip" % (be, t[2]))
            if "noncanon_ok=0" in impl:
                return ("a genuine token whose footer bytes are not the footer type's own spelling (as another implementation writes them) was rejected "
                        "or rewritten (the footer is authenticated as received): " + impl[:100], "%s/%s/footer-noncanonical-rejected" % (be, t[2]))
            if "alt_reser=0" in impl:
                return ("a token string accepted with a custom footer type does not re-serialise to itself (the footer text is rewritten): " + impl[:90], "%s/%s/footer-text-rewritten" % (be, t[2]))
            if "altered_accepted=1" in impl or (impl.startswith("ok ") and "dec=0 val=0" not in impl):
                return ("a token whose footer bytes were replaced by a different encoding of the same footer value was accepted / decoded "
                        "(the footer is authenticated as received, not as re-encoded): " + impl[:80], "%s/%s/footer-reencoded" % (be, t[2]))
        elif t[0] == "o.rtj":
            if impl != "ok claims_same=1 footer_same=1":
                return ("registered claims / JSON footer did not come back unchanged through seal -> text -> parse -> unseal: " + impl[:80], "%s/%s/claims-roundtrip" % (be, t[2]))
        elif t[0] == "o.keypair":
            if impl.startswith("ok half=") and ("clone_same=0" in impl or "reparse_same=0" in impl):
                return ("a cloned / re-parsed secret key signs differently from the key it came from (deterministic signature scheme): " + impl, "%s/public/clone-signs-differently" % be)
        elif t[0] == "o.aadbind" and impl.startswith("ok "):
            kv = dict(x.split("=") for x in impl[3:].split(" "))
            has_aad = be not in ("v1", "v2")
            if kv.get("plain_none") != "1":
                return ("encrypt()/sign() then decrypt()/verify() (no assertion) failed", "%s/%s/wrapper-roundtrip" % (be, t[2]))
            if kv.get("plain_a") == "1":
                return ("a token sealed without an implicit assertion was accepted under a non-empty one", "%s/%s/wrapper-aad-ignored" % (be, t[2]))
            if has_aad:
                if kv["sealed"] != "1" or kv["same"] != "1":
                    return ("*_with_aad(a) then *_with_aad(a) did not round-trip: " + impl[:80], "%s/%s/wrapper-aad-roundtrip" % (be, t[2]))
                if kv["none"] == "1" or kv["empty"] == "1" or kv["other"] == "1":
                    return ("a token sealed under an implicit assertion opens without it / under another one (the wrapper does not bind the assertion): " + impl[:80], "%s/%s/wrapper-aad-unbound" % (be, t[2]))
            elif kv["sealed"] == "1":
                return ("a version without implicit assertions sealed a token under a non-empty assertion instead of refusing", "%s/%s/wrapper-aad-accepted" % (be, t[2]))
        elif t[0] == "o.sibc":
            if impl != "ok same=1 cross12=1 cross21=1":
                return ("sibling back ends disagree for a payload type with a non-empty encoding suffix: " + impl, "v%s/local/siblings-suffix" % t[1])
        elif t[0] == "o.sib":
            if impl != "ok same=1 cross12=1 cross21=1":
                return ("sibling back ends disagree: " + impl, "v%s/local/siblings" % t[1])
        elif t[0] in ("loc.seal",):
            aad = t[6]
            if be in ("v1", "v2") and aad != "-":
                if impl != "err claims":
                    return ("non-empty assertion not refused on a version without assertions", "%s/local/aad-ignored" % be)
            elif len(unhex(t[3])) >= (24 if be == "v2" else 32) and len(unhex(t[2])) == 32 and not impl.startswith("ok "):
                return ("sealing failed", "%s/local/seal-failed" % be)
        return None
    return f


def tok_nontrivial(op, impl):
    t = op.split(" ")
    if t[0] in ("loc.open", "pub.open"):
        tok = unhex(t[3])
        return (t[0], t[1], (want_of(op) or "")[:3], impl.split(" ")[0:2][-1] if impl.startswith("err") else "ok", min(len(tok) // 32, 12), t[4] != "-")
    if t[0] == "o.rt":
        return (t[0], t[1], t[2], t[3] == "-", min(len(unhex(t[4])) // 16, 10), t[5] != "-", t[6] != "-")
    if t[0] in ("loc.seal",):
        n = unhex(t[3])
        cls = "zero" if set(n) <= {0} else "ones" if set(n) == {255} else "carry" if n[-8:] == b"\xff" * 8 else "rnd"
        return (t[0], t[1], cls, min(len(unhex(t[4])) // 16, 10), t[5] != "-", t[6] != "-")
    return (t[0], t[1])


def run_c01(ctx):
    run_stream(ctx, "roundtrip", ["c01"], policy="okerr", oracle=open_oracle("C01"), nontrivial=tok_nontrivial)
    ctx.cov["rule"] = ("all six back ends x {local, public} x payload lengths (block boundaries +-1, up to 64 KiB quick / 1 MiB thorough) x footers x assertions; o.rt = encrypt()/sign() with the library's "
                       "own randomness -> to_string -> parse -> decrypt/verify; tokens made by the own-nonce path are opened by the model; thousands of randomised signatures; distinct = (op, back end, purpose, key source, length class, footer?, aad?)")


def run_c02(ctx):
    run_stream(ctx, "mutations", ["c02"], policy="okerr", oracle=open_oracle("C02"), nontrivial=tok_nontrivial)
    # the acceptance characterisation rests on the injectivity of the authenticated encoding: the PAE tie is part of this check
    run_stream(ctx, "pae", ["c15"], policy="okerr", oracle=c15_oracle, nontrivial=c15_nontrivial)
    ctx.cov["rule"] = ("per back end and purpose: sealed tokens x {every bit of nonce/tag/signature and boundary bytes (stride elsewhere; thorough: every bit), every truncation, 1..3-byte extensions, footer/assertion change-add-remove-swap, "
                       "message/footer/assertion boundary shifts, single-bit key neighbours, header relabel to every other version and purpose}; all must be rejected by the implementation and the model; distinct = (op, back end, outcome, size class, aad?)")


def run_c03(ctx):
    run_stream(ctx, "bitexact", ["c03"], policy="okerr", oracle=open_oracle("C03"), nontrivial=tok_nontrivial)
    ctx.cov["rule"] = ("loc.seal with injected nonces (random, zero, ones, low-64-bit carry) compared byte-for-byte with the implementation model; specification-built tokens (two-stage: the spec instance of the model seals, "
                       "the implementation opens) incl. v1 tokens whose embedded counter block wraps its low 64 bits; sibling back ends compared directly; signatures verified by the independent verifier")


# ------------------------------------------------------------------ PASERK: C05, C06, C07, C08, C13
FIXED_LEN = {("pie", 1): 80, ("pie", 3): 80, ("pie", 2): 64, ("pie", 4): 64,
             ("pw", 1): 100, ("pw", 3): 100, ("pw", 2): 88, ("pw", 4): 88,
             ("seal", 1): 592, ("seal", 2): 96, ("seal", 3): 129, ("seal", 4): 96}


def ver_of(be):
    return int(be[1])


def paserk_oracle(op, impl):
    t = op.split(" ")
    be = t[1] if len(t) > 1 else "?"
    name = t[0]
    if name in ("pie.open", "pw.open", "seal.open"):
        want = want_of(op)
        fam = name.split(".")[0]
        if impl == "panic":
            return ("panic while unwrapping", "%s/%s/panic" % (be, fam))
        if want == "err" and impl.startswith("ok"):
            if fam == "pw" and ver_of(be) in (1, 3) and t[3].endswith("00"):
                # HMAC zero-pads keys shorter than its block: PBKDF2-HMAC-SHA384 maps `pw` and `pw || 00..` to one key
                return ("a password differing only by trailing zero bytes unwraps a k1/k3 password-wrapped key", "k1,k3/pw/password-trailing-zero-bytes")
            return ("a mutated / relabelled / foreign blob was unwrapped", "%s/%s/mutant-accepted" % (be, fam))
        if want and want.startswith("ok:") and impl != "ok " + want[3:]:
            return ("a valid (library- or specification-built) blob did not unwrap to the original key: " + impl[:60], "%s/%s/valid-rejected" % (be, fam))
    elif name in ("o.pie.rt", "o.pw.rt", "o.seal.rt"):
        fam = name.split(".")[1]
        if not impl.startswith("ok rt=1"):
            return ("wrap -> to_string -> parse -> unwrap did not return the key: " + impl[:100], "%s/%s/roundtrip" % (be, fam))
        f = dict(x.split("=", 1) for x in impl[3:].split(" "))
        base = FIXED_LEN[(fam, ver_of(be))]
        want_len = base + int(f["keylen"]) if fam in ("pie", "pw") else base
        if int(f["len"]) != want_len:
            return ("serialised form has %s bytes, the format prescribes %d" % (f["len"], want_len), "%s/%s/length" % (be, fam))
    elif name == "o.pw.cross":
        if impl.startswith("ok wrapped") and "cross=1" not in impl:
            fails = impl.split(" ")[3]
            key = "%s/pw/cross-unwrap" % be
            try:
                import base64
                body = unhex(t[4]).decode().split(".")[-1]
                blob = base64.urlsafe_b64decode(body + "=" * (-len(body) % 4))
                if ver_of(be) in (2, 4) and int.from_bytes(blob[28:32], "big") != 1 and fails == "v4s:invalidKey":
                    key = "v4s/pw/parallelism-not-1"
            except Exception:
                pass
            return ("%s emitted a password-wrapped key that a back end of the same version cannot unwrap: %s" % (be, impl[11:80]), key)
    elif name in ("pie.re", "pw.re"):
        pass  # bit-exactness is decided by the model side (compared by K)
    elif name == "o.sibling":
        pass
    return None


def paserk_nontrivial(op, impl):
    t = op.split(" ")
    if t[0].endswith(".open"):
        s = unhex(t[-2])
        return (t[0], t[1], t[2] if t[0] != "seal.open" else "-", (want_of(op) or "")[:3], impl[:6], len(s) // 16)
    return (t[0], t[1], t[2][:8], impl[:8])


def run_c05(ctx):
    run_stream(ctx, "wraprt", ["c05"], policy="okerr", oracle=paserk_oracle, nontrivial=paserk_nontrivial)
    ctx.cov["rule"] = ("all back ends x {PIE, PBKW, PKE} x {local, secret}: library wrap (own randomness) -> to_string -> parse -> unwrap == key and fixed serialised length; passwords empty/1 byte/1 KiB/non-UTF-8; "
                       "small and default cost parameters; thousands of RSA-KEM seals (leading-zero ciphertexts); library-made blobs unwrapped by the model")


def run_c06(ctx):
    run_stream(ctx, "wrapmut", ["c06"], policy="okerr", oracle=paserk_oracle, nontrivial=paserk_nontrivial)
    ctx.cov["rule"] = ("per back end x {PIE, PBKW, PKE} x kind: bit flips in tag/nonce/salt/params(within the cost budget)/epk/ciphertext, truncations, extensions, other key/password/recipient, "
                       "header relabel to every other version and local<->secret; all rejected by library and model")


def run_c07(ctx):
    run_stream(ctx, "wrapexact", ["c07"], policy="okerr", oracle=paserk_oracle, nontrivial=paserk_nontrivial)
    ctx.cov["rule"] = ("pie.re / pw.re: the model re-wraps with the nonce/salt/params embedded in the library's blob and must reproduce it byte-for-byte; specification-built blobs (two-stage) with random, all-zero, "
                       "all-ones and ff..fe nonces (counter carry) unwrapped by every back end of the version; library blobs unwrapped by the sibling back end; model-sealed keys unsealed by the library")


def c08_oracle(op, impl):
    t = op.split(" ")
    be = t[1] if len(t) > 1 else "?"
    if impl == "panic":
        return ("panic on a key operation", "%s/key/panic" % be)
    if t[0] == "o.key":
        if impl.startswith("ok idem=") and impl[3:].split(" ")[:4] != ["idem=1", "clone=1", "text=1", "ids=1"]:
            return ("decode/encode not idempotent, or clone / text round trip / id differs: " + impl, "%s/key/roundtrip" % be)
        if impl.startswith("err"):
            return ("an accepted key could not be re-decoded / re-parsed: " + impl, "%s/key/roundtrip" % be)
    elif t[0] == "o.keypair":
        if impl.startswith("ok half=") and not impl.startswith("ok half=1 verifies=1 clone_verifies=1"):
            return ("public key derived from an accepted secret key does not match / verify: " + impl, "%s/key/keypair" % be)
        if impl.startswith("ok half=") and ("clone_same=0" in impl or "reparse_same=0" in impl):
            return ("a cloned / re-parsed secret key signs differently from the key it came from (deterministic signature scheme): " + impl, "%s/key/clone-signs-differently" % be)
        if impl.startswith("err"):
            return ("signing with an accepted secret key failed: " + impl, "%s/key/keypair" % be)
    elif t[0] == "o.pkforms":
        if impl.startswith("ok forms="):
            f = dict(x.split("=") for x in impl[3:].split(" "))
            if not (f["forms"] == f["verifies"] == f["seals"] == f["clone"]):
                return ("a public key accepted in another encoding of the same point does not behave like the derived public key "
                        "(verify what the secret key signs / unseal what is sealed to it): " + impl, "%s/key/alt-form-behaviour" % be)
        elif impl.startswith("err"):
            return ("alternative public key forms: " + impl, "%s/key/alt-form-behaviour" % be)
    elif t[0] == "key.dec" and impl.startswith("ok"):
        raw = unhex(t[3])
        kind = t[2]
        v = ver_of(be)
        if kind == "local" and len(raw) != 32:
            return ("wrong-length local key accepted", "%s/key/length" % be)
        if v in (2, 4):
            if kind in ("public", "pkepublic"):
                if len(raw) != 32:
                    return ("wrong-length public key accepted", "%s/key/length" % be)
                if ed_small_order(raw):
                    return ("small-order / identity Ed25519 point accepted as public key", "v2,v4,v4s/key.dec/ed25519-small-order")
                if not ed_on_curve(raw):
                    return ("off-curve bytes accepted as public key", "%s/key/off-curve" % be)
            elif kind in ("secret", "pkesecret") and len(raw) != 64:
                return ("wrong-length secret key accepted", "%s/key/length" % be)
        if v == 1:
            # whatever form the key was offered in (DER, PEM), the canonical re-encoding the library returns tells its size
            out = unhex(impl.split(" ")[1]) if len(impl.split(" ")) > 1 else b""
            bits = None
            if kind in ("public", "pkepublic"):
                bits = rsa_spki_bits(out) if out[:1] == b"\x30" else (rsa_spki_bits(raw) if raw[:1] == b"\x30" else None)
            else:
                bits = rsa_priv_bits(out) if out[:1] == b"\x30" else None
            want = 2048 if kind in ("public", "secret") else 4096
            if bits is not None and bits != want:
                return ("RSA modulus of %d bits accepted as a %s key (must be %d)" % (bits, kind, want), "%s/key/modulus-size" % be)
        if v == 3:
            if kind in ("secret", "pkesecret"):
                d = int.from_bytes(raw, "big")
                if len(raw) != 48 or d == 0 or d >= P384_N:
                    return ("out-of-range or wrong-length P-384 scalar accepted", "%s/key/scalar" % be)
            elif raw == b"\x00":
                return ("point at infinity accepted", "%s/key/infinity" % be)
    return None


def der_tlv(b, i):
    tag = b[i]; l = b[i + 1]; i += 2
    if l & 0x80:
        k = l & 0x7f
        l = int.from_bytes(b[i:i + k], "big"); i += k
    return tag, b[i:i + l], i + l


def rsa_spki_bits(raw):
    """modulus bit length of an RSA SubjectPublicKeyInfo (DER), or None"""
    try:
        t, seq, _ = der_tlv(raw, 0)
        t, alg, j = der_tlv(seq, 0)
        t, bits, _ = der_tlv(seq, j)
        t, key, _ = der_tlv(bits[1:], 0)
        t, n, _ = der_tlv(key, 0)
        return int.from_bytes(n, "big").bit_length() if t == 2 else None
    except Exception:
        return None


def rsa_priv_bits(raw):
    """modulus bit length of a PKCS#1 RSAPrivateKey (DER), or None"""
    try:
        t, seq, _ = der_tlv(raw, 0)
        t, ver, j = der_tlv(seq, 0)
        t, n, _ = der_tlv(seq, j)
        return int.from_bytes(n, "big").bit_length() if t == 2 else None
    except Exception:
        return None


P384_N = 0xffffffffffffffffffffffffffffffffffffffffffffffffc7634d81f4372ddf581a0db248b0a77aecec196accc52973
ED_P = 2 ** 255 - 19
ED_D = (-121665 * pow(121666, ED_P - 2, ED_P)) % ED_P


def ed_decompress(b):
    n = int.from_bytes(b, "little")
    sign, y = n >> 255, (n & ((1 << 255) - 1)) % ED_P
    u, v = (y * y - 1) % ED_P, (ED_D * y * y + 1) % ED_P
    x = (u * pow(v, 3, ED_P) * pow(u * pow(v, 7, ED_P), (ED_P - 5) // 8, ED_P)) % ED_P
    if (v * x * x - u) % ED_P != 0:
        if (v * x * x + u) % ED_P != 0:
            return None
        x = x * pow(2, (ED_P - 1) // 4, ED_P) % ED_P
    if x % 2 != sign:
        x = (-x) % ED_P
    return (x, y)


def ed_add(P, Q):
    (x1, y1), (x2, y2) = P, Q
    k = ED_D * x1 * x2 * y1 * y2 % ED_P
    x3 = (x1 * y2 + x2 * y1) * pow(1 + k, ED_P - 2, ED_P) % ED_P
    y3 = (y1 * y2 + x1 * x2) * pow(1 - k, ED_P - 2, ED_P) % ED_P
    return (x3, y3)


def ed_on_curve(b):
    return ed_decompress(b) is not None


def ed_small_order(b):
    P = ed_decompress(b)
    if P is None:
        return False
    for _ in range(3):
        P = ed_add(P, P)
    return P == (0, 1)


def c08_nontrivial(op, impl):
    t = op.split(" ")
    raw = unhex(t[3]) if len(t) > 3 else unhex(t[2])
    return (t[0], t[1], t[2] if len(t) > 3 else "-", len(raw), impl[:6])


def run_c08(ctx):
    run_stream(ctx, "keys", ["c08"], policy="okerr", oracle=c08_oracle, nontrivial=c08_nontrivial)
    ctx.cov["rule"] = ("every back end x 5 kinds x byte strings of every length 0..128 (random, zeros, ones), generated keys, boundary scalars 0,1,2,n-1,n,n+1,2^384-1 and leading-zero scalars, "
                       "compressed/uncompressed/compact/hybrid/infinity/off-curve SEC1 points, Ed25519 identity/small-order/non-canonical/off-curve encodings, seeds with foreign or corrupted public halves, "
                       "v1 keys as PEM and DER, wrong modulus size, truncated DER; o.key/o.keypair = idempotence, clone, text round trip, derived public key verifies")


def c13_oracle(op, impl):
    t = op.split(" ")
    be = t[1]
    if impl == "panic":
        return ("panic computing an id", "%s/id/panic" % be)
    if t[0] == "o.id.spec" and impl.startswith("ok "):
        import hashlib, base64
        kv = dict(x.split("=") for x in impl[3:].split(" "))
        ids, text = unhex(kv["id"]), unhex(kv["text"])
        v = ver_of(be)
        hdr = ("k%d." % v).encode() + {"local": b"lid.", "secret": b"sid.", "public": b"pid.", "pkesecret": b"sid.", "pkepublic": b"pid."}[t[2]]
        want_text_hdr = ("k%d.%s." % (v, {"pkesecret": "secret", "pkepublic": "public"}.get(t[2], t[2]))).encode()
        if not text.startswith(want_text_hdr):
            return ("PASERK text of the key does not start with %s" % want_text_hdr.decode(), "%s/id/text-header" % be)
        # a key offered in its canonical raw form has that very form as the body of its PASERK text (fixed-length keys, and
        # RSA keys given as canonical DER): the id is then the digest of a string fixed by the key alone
        raw_in = unhex(t[3])
        fixed = (v in (2, 4)) or (v == 3 and t[2] in ("local", "secret", "pkesecret")) or (v == 3 and len(raw_in) == 49 and raw_in[0] in (2, 3)) \
            or (v == 1 and (t[2] == "local" or raw_in[:1] == b"\x30"))
        if fixed and text != want_text_hdr + base64.urlsafe_b64encode(raw_in).rstrip(b"="):
            return ("the PASERK text of a key offered in canonical form is not that form (text of %d characters for %d key bytes)" % (len(text), len(raw_in)), "%s/id/text-canonical" % be)
        if v in (1, 3):
            d = hashlib.sha384(hdr + text).digest()[:33]
        else:
            d = hashlib.blake2b(hdr + text, digest_size=33).digest()
        want = hdr + base64.urlsafe_b64encode(d).rstrip(b"=")
        if ids != want:
            return ("key id is not the PASERK digest of the id header and the key's PASERK text (text of %d characters)" % len(text), "%s/id/digest" % be)
        return None
    if t[0] == "o.id.sib" and impl.startswith("ok ") and "agree=0" in impl:
        return ("the two back ends of v%s accept the same key bytes but give it different ids / PASERK texts" % t[1], "v%s/id/siblings" % t[1])
    if t[0] == "o.id.eq" and impl != "ok same=1":
        return ("two encodings of one key give different ids", "%s/id/encoding" % be)
    if t[0] == "o.id.rel" and impl != "ok distinct=1":
        return ("related local/secret/public keys share an id", "%s/id/domain-separation" % be)
    if t[0] == "o.id.ord" and impl != "ok agree=1":
        return ("Eq/Ord/Hash of KeyId disagree with its bytes", "%s/id/ord" % be)
    if t[0] == "o.key" and impl.startswith("ok idem=") and "ids=1" not in impl:
        return ("id changes across clone / serialise / parse", "%s/id/stable" % be)
    if t[0] == "txt.rt" and impl.startswith("ok"):
        src = unhex(t[4]) if t[4] != "-" else b""
        body = src.split(b".", 2)[2] if src.count(b".") >= 2 else b""
        if len(body) != 44:
            return ("id string with a decoded length other than 33 bytes accepted (payload of %d characters)" % len(body), "%s/id/33" % be)
        if unhex(impl.split(" ")[1]) != src:
            return ("accepted id string does not re-serialise to itself", "%s/id/text-roundtrip" % be)
    if t[0] == "id" and impl.startswith("ok"):
        # independent recomputation of the PASERK id
        import hashlib, base64
        s = unhex(impl[3:]).decode()
        v = ver_of(be)
        return None
    return None


def run_c13(ctx):
    run_stream(ctx, "ids", ["c13"], policy="okerr", oracle=c13_oracle, nontrivial=lambda o, i: (o.split(" ")[0], o.split(" ")[1], o.split(" ")[2][:6], i[:6]))
    ctx.cov["rule"] = ("id of local/secret/public/pke keys on every back end compared with the model's hash of the canonical PASERK text (siblings share the model function); PEM vs DER and compressed vs uncompressed give one id; "
                       "related keys get distinct ids; id strings of decoded length != 33 rejected; Eq/Ord/Hash agree with bytes on random id pairs")


# ------------------------------------------------------------------ C04
def c04_oracle(op, impl):
    t = op.split(" ")
    be = t[1] if len(t) > 1 else "?"
    if impl == "panic" or impl.startswith("panic"):
        return ("panic on input: " + t[0], "%s/%s/panic" % (be, t[0]))
    return None


def run_c04(ctx):
    nt = lambda o, i: (o.split(" ")[0], o.split(" ")[1], len(o) // 64, i[:10])
    # informational (never a verdict: counts move under harmless refactors): where the library's own code *can* panic
    try:
        import panicscan
        ps = panicscan.scan()
        ctx.cov["panic_capable_constructs"] = {"files": len(ps), "sites": sum(n for _, n in ps), "per_file": dict(ps),
                                               "note": "unwrap / expect / assert-family / unreachable / split_at / copy_from_slice / index expressions, token scan of the library crates; the streams below drive every parser and every operation on parsed values through them under catch_unwind"}
    except Exception as e:
        ctx.note("panicscan failed: %r" % (e,))
    # thorough tier: sensitivity of the lc/mod.rs translator + ownership checker on defective variants of the current source
    if ctx.tier == "thorough":
        import checklib
        rc, out, err = checklib.sh([sys.executable, os.path.join(os.path.dirname(os.path.abspath(__file__)), "ffiscan_selftest.py")], timeout=1200)
        try:
            st = json.loads(out)
            ctx.cov["ffi_translator_selftest"] = {"clean_accepted": st.get("clean_accepted"), "rejected": st.get("rejected"), "missed": st.get("missed"), "not_applicable": st.get("not_applicable")}
            ctx.note("ffiscan self-test: %d defective variants rejected, %d missed, %d n/a" % (len(st.get("rejected", [])), len(st.get("missed", [])), len(st.get("not_applicable", []))))
        except Exception:
            ctx.note("ffiscan self-test did not produce a result: %s" % (out + err)[-300:])
    run_stream(ctx, "malformed", ["c04"], policy="okerr", oracle=c04_oracle, nontrivial=nt)
    def keys_oracle(o, i):
        r = c04_oracle(o, i)
        if r:
            return r
        if o.startswith("o.key") and i.startswith("err"):
            return ("an accepted key could not be used again: " + i[:80], "%s/key/unusable" % o.split(" ")[1])
        return None
    run_stream(ctx, "keys", ["c08"], policy="okerr", oracle=keys_oracle, nontrivial=nt)
    run_stream(ctx, "text", ["c09"], policy="okerr", oracle=c04_oracle, nontrivial=nt)
    # supporting run: the C-backed back ends (aws-lc, libsodium) and a sample of the others under valgrind memcheck
    import checklib, random
    rnd = random.Random(ctx.seed)
    sel = []
    for nm in ("malformed", "keys"):
        for l in ctx.last_ops.get(nm, "").splitlines():
            t = l.split(" ")
            if len(t) < 2 or l.startswith("#"):
                continue
            cbacked = t[1] in ("v3lc", "v4s")
            keep = (1.0 if cbacked else 0.05) if ctx.tier == "thorough" else (0.12 if cbacked else 0.01)
            if rnd.random() < keep:
                sel.append(l)
    rc, valid, _ = checklib.sh([checklib.PM, "gen", "c01", "quick"], env={"VERIF_SEED": str(ctx.seed)}, timeout=600)
    for l in valid.splitlines():
        t = l.split(" ")
        if len(t) > 1 and t[1] in ("v3lc", "v4s") and (ctx.tier == "thorough" or rnd.random() < 0.2):
            sel.append(l)
    checklib.memcheck(ctx, "c-backends", sel)
    ctx.cov["rule"] = ("every FromStr of every back end on the C09 string stream; tokens with every decoded payload length 0..700 (random / zeros / ones) for both purposes; PIE/PBKW/PKE blobs of every length 0..300 "
                       "(PBKW cost parameters inside the stated budget); every key byte string of the C08 stream and every accepted key then displayed, identified, cloned, re-parsed and used; each case under catch_unwind, "
                       "process death bisected to the offending line; distinct = (op, back end, size class, outcome)")
    ctx.cov["partial"] = "aborts inside aws-lc/libsodium, allocator failure and memory safety of the C libraries are outside what the Lean model can exhibit; a valgrind memcheck run of the real library on a sample (thorough: all) of the aws-lc / libsodium inputs is supporting evidence only"


# ------------------------------------------------------------------ C16
def c16_oracle(op, impl):
    t = op.split(" ")
    be = t[1]
    if impl == "panic":
        return ("panic in a randomised operation", "%s/rng/panic" % be)
    if t[0] == "o.rngf":
        if impl.startswith("ok "):
            kv = dict(x.split("=", 1) for x in impl[3:].split(" ") if "=" in x)
            if kv.get("produced") == "1" and int(kv.get("failed", "0")) > 0:
                return ("%s produced an artefact although the random source reported failure at %s draw(s) it made (script %s)" % (t[1], kv["failed"], t[3][:40]), "%s/%s/fail-open" % (t[2], t[1]))
            if kv.get("produced") == "0" and int(kv.get("failed", "0")) == 0 and "*" in t[3] and "!" not in t[3] and "~" not in t[3]:
                return ("%s failed with a working random source: %s" % (t[1], impl[:80]), "%s/%s/failed" % (t[2], t[1]))
        return None
    if t[0] == "o.fresh":
        if impl != "ok distinct=1 n=" + t[3]:
            return ("two of %s consecutive %s operations share a nonce/salt/ephemeral key/generated key: %s" % (t[3], t[2], impl), "%s/%s/repeated-randomness" % (be, t[2]))
    elif t[0].startswith("rng."):
        src = t[2]
        answers = [] if src == "." else src.split(",")
        # a failing draw that the operation reaches must give an error and no artefact
        if "!" in answers and impl.startswith("ok"):
            # rejection sampling may legitimately stop before a later failing answer is drawn; in the generated
            # scripts the failure always precedes the accepted candidate
            return ("operation produced an artefact although the random source reported failure", "%s/%s/fail-open" % (be, t[0]))
        if "!" in answers and not impl.startswith("err"):
            return ("RNG failure did not make the operation return an error: " + impl, "%s/%s/fail-kind" % (be, t[0]))
        if "!" not in answers and not impl.startswith("ok"):
            return ("randomised operation failed with a working random source: " + impl, "%s/%s/failed" % (be, t[0]))
    return None


def run_c16(ctx):
    import checklib
    nt = lambda o, i: ((o.split(" ")[0], o.split(" ")[1], o.split(" ")[2], o.split(" ")[3][:24], i[:14]) if o.startswith("o.rngf") else
                       (o.split(" ")[0], o.split(" ")[1], o.split(" ")[2].count(","), "!" in o.split(" ")[2], i[:6]))
    ok = checklib.build_harness(ctx, cfg_rng=True)
    if ok:
        run_stream(ctx, "scripted-rng", ["c16rng"], policy="okerr", oracle=c16_oracle, nontrivial=nt, pm=checklib.PM_RNG, timeout=240 if ctx.tier != "thorough" else 1800)
    run_stream(ctx, "freshness", ["c16"], policy="okerr", oracle=c16_oracle,
               nontrivial=lambda o, i: (o.split(" ")[1], o.split(" ")[2]), heavy=True)
    ctx.cov["rule"] = ("(a) harness rebuilt with the getrandom custom backend: encrypt, PIE, PBKW, key sealing, key generation of v1-v4 under a scripted random source - output compared bit-for-bit with the model for the same answers, "
                       "and a failure injected at EVERY draw index of every operation (incl. after rejected P-384 scalar candidates) must give CryptoError and no artefact; (b) normal build, all six back ends: 10^4 (thorough 10^5) consecutive "
                       "operations per kind, all nonces/salts/ephemeral keys/generated keys pairwise distinct (statistical support)")
    ctx.cov["partial"] = "aws-lc's and libsodium's RNGs and rsa's OsRng (getrandom 0.2) cannot be failed from outside; for those only the success path and freshness are observed"


# ------------------------------------------------------------------ C17
def c17_oracle(op, impl):
    t = op.split(" ")
    be = t[1]
    if not impl.startswith("ok mismatches=0 panicked=0 same_after=1 same_fresh=1"):
        return ("concurrent use of a shared key gave a result sequential use could not, crashed, or the key changed: " + impl[:120], "%s/conc" % be)
    return None


def run_c17(ctx):
    run_stream(ctx, "threads", ["c17"], policy="okerr", oracle=c17_oracle, nontrivial=lambda o, i: tuple(o.split(" ")[0:3]), heavy=True,
               timeout=600 if ctx.tier != "thorough" else 3600)
    ctx.cov["rule"] = ("per back end: 2, 4, 8 and 16 threads share one local, one secret and one public key (Arc) and run mixed operations - encrypt/decrypt, sign/verify (also through clones), failing decrypt/verify, "
                       "PIE wrap/unwrap, PKE seal/unseal, clone and drop, ids, wrong-password unwrap, key rotation (different keys parsed afresh, used, dropped), deterministic results vs sequential reference values; "
                       "o.burst: brand-new key objects used for the first time by 8 threads released together by a barrier (lazy initialisation inside a key must not race); o.hist: a history of failures of every kind "
                       "(bad tokens, wrong passwords, PBKW parameter blocks the KDF rejects, garbage sealed keys, bad key bytes) followed by the reference operations, under a time-out (a blocked later operation is reported as non-terminating); "
                       "every result checked against the sequential oracle (decrypts / verifies / equals), then deterministic fingerprints of the keys "
                       "(injected-nonce token, raw bytes, ids) compared before / after the history and against a fresh re-parsed copy")
    ctx.cov["partial"] = "data races inside aws-lc / libsodium and the validity of `unsafe impl Send/Sync` cannot be exhibited by the Lean model; no ThreadSanitizer / helgrind run is made (the C libraries are not instrumented and helgrind does not understand Rust atomics)"


# ------------------------------------------------------------------ C18
def run_c18(ctx):
    import probes, checklib
    cat = probes.catalogue(ctx.tier == "thorough")
    # Extracted/Impls.lean is regenerated by checklib.regen_facts before the obligations are built
    res, lib_ok, err = probes.run(cat)
    if not lib_ok:
        ctx.k_broken.append({"kind": "probe-support-crate", "detail": err})
        return
    ops = [probes.op_line(op, a) for op, a in cat]
    # policy oracle computed independently in Python from the property's wording
    def policy(op, a):
        if op in ("seal", "unseal", "encrypt", "decrypt", "sign", "verify"):
            tv, p, kv, kk = a
            want_k = {"seal": {"local": "local", "public": "secret"}[p], "unseal": p,
                      "encrypt": "local", "decrypt": "local", "sign": "secret", "verify": "public"}[op]
            want_p = {"encrypt": "local", "decrypt": "local", "sign": "public", "verify": "public"}.get(op, p)
            return tv == kv and kk == want_k and p == want_p
        if op == "wrapPie":
            v, k, wv, wk = a
            return k in ("local", "secret") and v == wv and wk == "local"
        if op == "pwWrap":
            return a[1] in ("local", "secret")
        if op == "sealKey":
            v, k, pv, pk = a
            return k == "local" and v == pv and pk == "pkepublic"
        if op == "displayKey":
            return a[1] == "public"
        if op in ("debugKey", "serializeKey", "displayUnsealed", "serializeUnsealed", "fieldFooter", "fieldPayload",
                  "fieldKey", "ctorKey", "keyInto", "hashKey", "sealedMethod", "sealedMethodPub"):
            return False
        if op == "publicKey":
            return a[1] == "secret"
        return True   # exposeKey, keyId, displaySealed, unverifiedFooter
    impl_lines, want = [], {}
    for i, (op, a) in enumerate(cat):
        acc, codes = res[i]
        pol = policy(op, a)
        impl_lines.append("ok %s policy=%s" % ("accept" if acc else "reject", "accept" if pol else "reject"))
        want[ops[i]] = (pol, codes)

    def oracle(o, i):
        pol, codes = want[o]
        acc = i.startswith("ok accept")
        t = o.split(" ")
        if acc and not pol:
            return ("a misuse program compiles: " + o, "%s/%s/compiles" % (t[2], t[1]))
        if pol and not acc:
            return ("a correct program is rejected by the compiler: " + o + " " + ",".join(codes), "%s/%s/rejected" % (t[2], t[1]))
        # a misuse program must be rejected by the *type system* (any typing error will do: which one is the compiler's choice);
        # a probe rejected only because a name does not resolve proves nothing and is a broken tie, not a violation
        typing = {"E0277", "E0599", "E0308", "E0616", "E0271", "E0282", "E0283", "E0061", "E0603", "E0624", "E0107", "E0053"}
        if not acc and not (set(codes) & typing):
            ctx.k_broken.append({"kind": "probe-vacuous", "stream": "probes", "op": o, "detail": "rejected only with " + ",".join(codes)})
        return None
    run_stream(ctx, "probes", [], policy="full", oracle=oracle, ops="\n".join(ops) + "\n", impl_lines=impl_lines,
               nontrivial=lambda o, i: tuple(o.split(" ")[1:]))
    codes = {}
    for i in res:
        for c in res[i][1]:
            codes[c] = codes.get(c, 0) + 1
    ctx.cov["programs"] = len(cat)
    ctx.cov["error_codes"] = codes
    ctx.cov["rule"] = ("one program per catalogue entry (each forbidden combination of version x purpose x key kind x operation and its well-typed counterpart, per back end) compiled by rustc against /repo; verdict compared with the Lean typing "
                       "model over the impl table re-read from rustc (K) and with the property's policy computed independently (O); error code families E0277/E0599/E0308/E0616")
    ctx.cov["partial"] = "rustc is the implementation of the type system; the model covers the bounds of the catalogued operations"


# ------------------------------------------------------------------ C19
def c19_smoke(ctx, info, featscan):
    """reduced builds behave like the full one: build /verif/smoke per crate x feature set, run the same operation lines, compare"""
    import subprocess, os, threading, shutil, checklib
    SMOKE = os.path.join(checklib.VERIF, "smoke")
    lock = os.path.join(SMOKE, "Cargo.lock")
    if not os.path.exists(lock):
        shutil.copy("/repo/Cargo.lock", lock)
    rc, ops, err = checklib.sh([checklib.PM, "gen", "c19smoke", ctx.tier], env={"VERIF_SEED": str(ctx.seed)}, timeout=1200)
    if rc != 0:
        ctx.k_broken.append({"kind": "generator", "stream": "smoke", "detail": err[-800:]})
        return
    need = {"lopen": "decrypting", "lseal": "encrypting", "lrt": "encrypting", "popen": "verifying", "psign": "signing", "prt": "signing", "kpub": "signing",
            "id": "id", "idparse": "id", "pieopen": "pie-wrap", "piert": "pie-wrap", "pwopen": "pbkw", "pwrt": "pbkw", "sealopen": "pke", "sealrt": "pke"}
    fails, stats = [], {"builds": 0, "lines": 0, "available": 0, "compared": 0}
    lockm = threading.Lock()

    def worker(crate):
        v = crate[-2:]                      # v1..v4
        names, feats = info[crate]["names"], info[crate]["features"]
        lines = [l for l in ops.splitlines() if l.split(" ")[1:2] == [v]]
        text = ("\n".join(lines) + "\n").encode()
        env = dict(os.environ, CARGO_NET_OFFLINE="true", CARGO_TARGET_DIR=os.path.join(checklib.BUILD, "target-smoke-" + v))
        def build_run(fl):
            cmd = ["cargo", "build", "--release", "--offline", "-q", "--features", ",".join([v] + fl)]
            p = subprocess.run(cmd, cwd=SMOKE, env=env, stdout=subprocess.PIPE, stderr=subprocess.PIPE)
            if p.returncode != 0:
                return None, [l for l in p.stderr.decode("utf-8", "replace").splitlines() if l.startswith("error")][:3]
            q = subprocess.run([os.path.join(env["CARGO_TARGET_DIR"], "release", "pm-smoke")], input=text, stdout=subprocess.PIPE, stderr=subprocess.PIPE)
            return q.stdout.decode("utf-8", "replace").splitlines(), []
        full = sorted(featscan.closure(feats, names))
        ref, errs = build_run(full)
        with lockm:
            stats["builds"] += 1
        if ref is None or len(ref) != len(lines):
            with lockm:
                fails.append(("feat-smoke %s full" % crate, "the smoke binary does not build / run against %s with all features: %s" % (crate, " | ".join(errs)[:300]), "%s/smoke/full" % crate))
            return
        if ctx.tier == "thorough":
            seen = {}
            for mask in range(1 << len(names)):
                C = frozenset(featscan.closure(feats, [names[i] for i in range(len(names)) if mask >> i & 1]))
                seen.setdefault(C, None)
            sets = sorted((sorted(c) for c in seen), key=lambda c: (len(c), c))
        else:
            sets = [[]] + [sorted(featscan.closure(feats, [f])) for f in ("verifying", "decrypting", "id", "pie-wrap", "pke") if f in names]
        for fl in sets:
            if fl == full:
                continue
            out, errs = build_run(fl)
            with lockm:
                stats["builds"] += 1
            tag = "+".join(fl) or "none"
            if out is None:
                # "does not build" is reported by the cargo-check stream; here only note it
                with lockm:
                    fails.append(("feat-smoke %s %s" % (crate, tag), "the smoke binary does not build against %s with features [%s]: %s" % (crate, ",".join(fl), " | ".join(errs)[:300]), "%s/smoke-build/%s" % (crate, tag)))
                continue
            if len(out) != len(lines):
                with lockm:
                    fails.append(("feat-smoke %s %s" % (crate, tag), "smoke binary died on the op stream (reduced build)", "%s/smoke-crash/%s" % (crate, tag)))
                continue
            for l, a, b in zip(lines, ref, out):
                with lockm:
                    stats["lines"] += 1
                opn = l.split(" ")[0]
                if b == "n/a":
                    # availability is demanded only when the operation's own feature AND the feature that brings the key kind are enabled
                    kindneed = {"local": "decrypting", "public": "verifying", "secret": "signing", "pkesecret": "pke", "pkepublic": "pke"}
                    kn = l.split(" ")[2] if opn in ("id", "idparse", "pieopen", "piert", "pwopen", "pwrt") else None
                    kind_ok = kn is None or opn == "idparse" or kindneed.get(kn) in fl
                    if opn in need and need[opn] in fl and kind_ok and a != "n/a":
                        with lockm:
                            fails.append((l, "operation `%s` is not available in the %s build with features [%s] although `%s` is enabled" % (opn, crate, ",".join(fl), need[opn]), "%s/smoke-missing/%s/%s" % (crate, tag, opn)))
                    continue
                with lockm:
                    stats["available"] += 1
                    ctx.distinct.add(("smoke", crate, tag, opn, a[:6]))
                if a != b:
                    with lockm:
                        fails.append((l, "the %s build with features [%s] answers `%s` where the full build answers `%s`" % (crate, ",".join(fl), b[:120], a[:120]), "%s/smoke-differs/%s/%s" % (crate, tag, opn)))
                else:
                    with lockm:
                        stats["compared"] += 1
    th = [threading.Thread(target=worker, args=(c,)) for c in featscan.CRATES]
    for t in th:
        t.start()
    for t in th:
        t.join()
    for op, clause, key in fails[:50]:
        ctx.o_fail.append({"stream": "smoke", "op": op, "impl": "-", "model": "-", "clause": clause, "key": key})
    ctx.cov["evaluations"] += stats["lines"]
    ctx.cov["streams"]["smoke"] = dict(stats, failures=len(fails))
    print("  smoke builds=%d lines=%d available=%d equal=%d failures=%d" % (stats["builds"], stats["lines"], stats["available"], stats["compared"], len(fails)), flush=True)


def run_c19(ctx):
    import featscan, subprocess, os, threading, checklib
    info = getattr(ctx, "feat_info", None) or featscan.emit()[1]
    md = featscan.cargo_metadata_features()
    jobs = []   # (crate, feature list, mask or None)
    for crate in featscan.CRATES:
        names = info[crate]["names"]
        feats = info[crate]["features"]
        if md is not None and sorted(md.get(crate, {})) != sorted(feats):
            ctx.k_broken.append({"kind": "feature-table", "detail": "Cargo.toml features of %s differ from cargo metadata" % crate})
        # distinct closures
        seen = {}
        for mask in range(1 << len(names)):
            S = [names[i] for i in range(len(names)) if mask >> i & 1]
            C = frozenset(featscan.closure(feats, S))
            seen.setdefault(C, mask)
        closures = sorted(seen.items(), key=lambda kv: (len(kv[0]), sorted(kv[0])))
        ctx.cov.setdefault("distinct_closures", {})[crate] = len(closures)
        if ctx.tier == "thorough":
            chosen = closures
        else:
            # cover the empty set, every single feature, the full set and a few pairs
            want = [frozenset(featscan.closure(feats, [f])) for f in names] + [frozenset(), frozenset(featscan.closure(feats, names))]
            want += [frozenset(featscan.closure(feats, [a, b])) for a, b in (("verifying", "decrypting"), ("signing", "id"), ("pie-wrap", "verifying"), ("pbkw", "signing"))]
            chosen = [(c, m) for c, m in closures if c in set(want)]
        for c, m in chosen:
            jobs.append((crate, sorted(c), m))
    extra = [("paseto-core", [], None), ("paseto-core", ["serde"], None), ("paseto-json", [], None), ("paseto-json", ["claims"], None)]
    results = {}

    def worker(k, crate_jobs):
        env = dict(os.environ, CARGO_NET_OFFLINE="true", CARGO_TARGET_DIR=os.path.join(checklib.BUILD, "target-feat-%d" % k))
        for crate, fl, m in crate_jobs:
            cmd = ["cargo", "check", "--offline", "-q", "-p", crate, "--no-default-features"]
            if fl:
                cmd += ["--features", ",".join(fl)]
            p = subprocess.run(cmd, cwd="/repo", env=env, stdout=subprocess.PIPE, stderr=subprocess.PIPE)
            errs = [l for l in p.stderr.decode("utf-8", "replace").splitlines() if l.startswith("error")]
            results[(crate, tuple(fl))] = (p.returncode == 0, errs[:3])
    groups = {}
    for j in jobs + extra:
        groups.setdefault(j[0], []).append(j)
    th = [threading.Thread(target=worker, args=(k, g)) for k, g in enumerate(groups.values())]
    for t in th:
        t.start()
    for t in th:
        t.join()
    ops, impl_lines, detail = [], [], {}
    for crate, fl, m in jobs:
        ok, errs = results[(crate, tuple(fl))]
        op = "feat %s %d" % (crate, m)
        ops.append(op)
        impl_lines.append("ok builds=%d" % (1 if ok else 0))
        detail[op] = (fl, errs)
    for crate, fl, m in extra:
        ok, errs = results[(crate, tuple(fl))]
        op = "o.feat %s %s" % (crate, ",".join(fl) or "-")
        ops.append(op)
        impl_lines.append("ok builds=%d" % (1 if ok else 0))
        detail[op] = (fl, errs)

    def oracle(o, i):
        if "builds=1" not in i:
            fl, errs = detail[o]
            return ("%s does not build with features [%s]: %s" % (o.split(" ")[1], ",".join(fl), " | ".join(errs)[:300]), "%s/features/%s" % (o.split(" ")[1], "+".join(fl) or "none"))
        return None
    run_stream(ctx, "feature-sets", [], policy="full", oracle=oracle, ops="\n".join(ops) + "\n", impl_lines=impl_lines,
               nontrivial=lambda o, i: tuple(o.split(" ")[1:]))
    c19_smoke(ctx, info, featscan)
    ctx.cov["rule"] = ("reduced-build smoke binaries: /verif/smoke built per crate with all features (reference) and with reduced feature sets (quick: none, verify-only, decrypt-only, each single PASERK operation; thorough: every distinct closure); "
                       "every operation available in the reduced build (availability decided by the trait bound, not by cfg) must print exactly what the full build prints on tokens, key texts, ids and wrapped keys made by the full library; "
                       "an operation whose feature is enabled must be available. "
                       "cargo check --no-default-features --features S for distinct feature closures of paseto-v1..v4 (quick: empty set, every single feature, the full set and cross pairs; thorough: all distinct closures), "
                       "plus paseto-core with/without serde and paseto-json with/without claims; the Lean consistency predicate over the scanned cfg gates must predict 'builds' for each")
    ctx.cov["partial"] = "cargo / rustc decide what builds; the gate scan is syntactic (explicit paths to optional crates and gated sibling items)"


PROPS = {
    "C15": {"run": run_c15},
    "C09": {"run": run_c09},
    "C10": {"run": run_c10},
    "C01": {"run": run_c01},
    "C02": {"run": run_c02},
    "C03": {"run": run_c03},
    "C04": {"run": run_c04},
    "C16": {"run": run_c16},
    "C18": {"run": run_c18, "search": False},
    "C19": {"run": run_c19},
    "C17": {"run": run_c17},
    "C05": {"run": run_c05},
    "C06": {"run": run_c06},
    "C07": {"run": run_c07},
    "C08": {"run": run_c08},
    "C13": {"run": run_c13},
    "C11": {"run": run_c11},
    "C12": {"run": run_c12},
    "C14": {"run": run_c14},
}
