"""per-property stream lists, oracles (the property evaluated on the implementation's own outputs)
and non-triviality rules"""
import struct
from checklib import run_stream


def unhex(s):
    return b"" if s == "-" else bytes.fromhex(s)


# ------------------------------------------------------------------ C15
def py_pae_spec(pieces):
    out = struct.pack("<Q", len(pieces))
    for p in pieces:
        out += struct.pack("<Q", len(p)) + p
    return out


def parse_pieces(s):
    if s == ".":
        return []
    res = []
    for p in s.split("/"):
        res.append([] if p == "_" else [unhex(f) for f in p.split(",")])
    return res


def c15_oracle(op, impl):
    t = op.split(" ")
    if t[0] != "pae":
        return None
    ps = parse_pieces(t[1])
    want = py_pae_spec([b"".join(fr) for fr in ps])
    if not impl.startswith("ok ") or unhex(impl[3:]) != want:
        return ("pre_auth_encode output differs from the specification's PAE of the concatenated fragments", "core/pae/spec")
    return None


def c15_nontrivial(op, impl):
    ps = parse_pieces(op.split(" ")[1])
    # distinct = (piece count, per-piece fragment count, per-piece length class)
    cls = lambda n: 0 if n == 0 else 1 if n < 8 else 2 if n < 256 else 3
    if not ps:
        return None
    return (len(ps), tuple(len(p) for p in ps), tuple(cls(sum(len(f) for f in p)) for p in ps))


def run_c15(ctx):
    run_stream(ctx, "pae", ["c15"], policy="okerr", oracle=c15_oracle, nontrivial=c15_nontrivial)
    ctx.cov["rule"] = ("piece counts 0..10 x fragment counts 0..4 x fragment lengths 0..600 (random/zero/ones/ascii), boundary-shift families and the "
                       "header-as-three-fragments shapes of every back end; non-trivial = at least one piece; distinct = (piece count, fragments per piece, length class per piece)")


# ------------------------------------------------------------------ C09
def c09_oracle(op, impl):
    t = op.split(" ")
    name = t[0][3:] if t[0].startswith("sd.") else t[0]
    if not impl.startswith("ok "):
        return None
    r = impl[3:].split(" ")
    if name == "tok.rt":
        s, shown = unhex(t[4]), unhex(r[0])
        if not (shown == s or shown + b"." == s):
            return ("accepted token string does not re-serialise to itself (up to one trailing '.')", "core/tok/canonical")
    elif name == "txt.rt":
        s, shown = unhex(t[4]), unhex(r[0])
        if shown != s:
            return ("accepted PASERK string does not re-serialise to itself", "core/txt/canonical")
        if t[2] == "id" and len(unhex(r[1])) != 33:
            return ("key id does not decode to 33 bytes", "core/id/33")
    elif name == "b64.dec":
        s = unhex(t[1])
        import base64
        al = set(b"ABCDEFGHIJKLMNOPQRSTUVWXYZabcdefghijklmnopqrstuvwxyz0123456789-_")
        if any(c not in al for c in s) or len(s) % 4 == 1:
            return ("non-alphabet character or impossible length accepted", "core/b64/strict")
        want = base64.urlsafe_b64encode(unhex(r[0])).rstrip(b"=")
        if want != s:
            return ("accepted base64 string is not the canonical encoding of its value", "core/b64/canonical")
    elif name == "b64.enc":
        import base64
        if base64.urlsafe_b64encode(unhex(t[1])).rstrip(b"=") != unhex(r[0]):
            return ("encoding differs from unpadded base64url", "core/b64/encode")
    elif name == "key.show":
        pass
    return None


def c09_nontrivial(op, impl):
    t = op.split(" ")
    if t[0] in ("b64.dec",):
        s = unhex(t[1])
        return ("b64.dec", len(s) % 4, impl[:3], s[-1:].hex(), len(s) > 4)
    if t[0] == "b64.enc":
        return ("b64.enc", len(unhex(t[1])))
    if t[0] == "key.show":
        return None
    # form ops: distinct by (op, backend, form/purpose, kind, outcome, length class)
    s = unhex(t[4])
    return (t[0], t[1], t[2], t[3], impl.split(" ")[0:2][-1] if impl.startswith("err") else "ok", min(len(s) // 16, 8))


def run_c09(ctx):
    run_stream(ctx, "text", ["c09"], policy="okerr", oracle=c09_oracle, nontrivial=c09_nontrivial)
    ctx.cov["exhaustive"] = True
    ctx.cov["exhaustive_part"] = ("every ASCII byte value at each of the 4 block positions for every tail length (with and without a preceding block), "
                                  "every pair of alphabet characters as 2- and 3-character tails, all strings of length <= 3 (v4; <= 2 other back ends) over the 14-symbol class alphabet after the header of every form")
    ctx.cov["rule"] = ("exhaustive finite cores as above + byte sequences of every length 0..300 + mutated valid strings for every FromStr/Display pair x back end (plain and serde); "
                       "distinct = (op, back end, form, kind, outcome/err kind, length class) resp. (length mod 4, outcome, last char) for raw base64")
    ctx.cov["unreachable_through_api"] = "byte values 0xC0,0xC1,0xF5..0xFF cannot occur in a &str; the model's table theorem covers them, the tie cannot"


# ------------------------------------------------------------------ C10
def c10_oracle(op, impl):
    t = op.split(" ")
    if t[0] != "x.rt":
        return None
    if "acc=1" in impl and "same=0" in impl:
        return ("a %s/%s/%s value was accepted by the %s/%s/%s parser" % (t[1], t[2], t[3], t[4], t[5], t[6]), "core/cross/%s-%s" % (t[2], t[5]))
    return None


def c10_nontrivial(op, impl):
    t = op.split(" ")
    return tuple(t[1:7])


def run_c10(ctx):
    run_stream(ctx, "cross", ["c10"], policy="okerr", oracle=c10_oracle, nontrivial=c10_nontrivial)
    ctx.cov["exhaustive"] = True
    ctx.cov["rule"] = ("exhaustive cross product: every (back end, form, kind) serialised value (6 x 17 sources, several lengths) offered to every "
                       "(back end, form, kind) parser (6 x 17); distinct = ordered (source, parser) pair")


PROPS = {
    "C15": {"run": run_c15},
    "C09": {"run": run_c09},
    "C10": {"run": run_c10},
}
