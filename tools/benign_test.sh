#!/bin/bash
# apply a behaviour-preserving change to /repo, run every quick check, undo; any VIOLATION here is a false alarm of the machinery
# usage: tools/benign_test.sh <patch.diff>
set -u
P=$(readlink -f "$1"); cd "$(dirname "$0")/.."
[ -z "$(git -C /repo status --porcelain --untracked-files=no)" ] || { echo "refusing: /repo dirty"; exit 2; }
git -C /repo apply "$P" || { echo "patch does not apply"; exit 2; }
bad=0
for p in C01 C02 C03 C04 C05 C06 C07 C08 C09 C10 C11 C12 C13 C14 C15 C16 C17 C18 C19; do
  out=$(./check $p 2>&1); rc=$?
  v=$(echo "$out" | grep "^VIOLATION" | head -n 2 | tr '\n' ' ')
  echo "$p rc=$rc $v"
  [ $rc -ne 0 ] && bad=$((bad+1))
done
git -C /repo checkout -- .
./setup.sh > /dev/null 2>&1
git checkout -- evidence 2>/dev/null
echo "false alarms: $bad"
