#!/bin/bash
# regenerate every evidence file from the unchanged tree (quick tier); to be run before committing evidence
cd "$(dirname "$0")/.."
[ -z "$(git -C /repo status --porcelain --untracked-files=no)" ] || { echo "refusing: /repo has uncommitted changes"; exit 2; }
./setup.sh > /dev/null 2>&1
bad=0
for p in C01 C02 C03 C04 C05 C06 C07 C08 C09 C10 C11 C12 C13 C14 C15 C16 C17 C18 C19; do
  out=$(./check $p 2>&1); rc=$?
  echo "$p rc=$rc $(echo "$out" | tail -n 1 | cut -c1-110)"
  [ $rc -ne 0 ] && bad=$((bad+1))
done
python3 - <<'PY'
import json,glob
for f in sorted(glob.glob('/verif/evidence/C*.json')):
    d=json.load(open(f)); c=d['coverage']
    if d['violations'] or c.get('discharged')!=c.get('obligations') or not c.get('obligations'):
        print("BAD EVIDENCE", f, d['violations'], c.get('discharged'), c.get('obligations'))
PY
echo "non-zero exits: $bad"
