#!/bin/bash
# verify a sub-agent's seeded change in its scratch worktree: suite passes with the change, demo fails with it and passes without
# usage: verify_seed.sh <worktree> <id>
set -u
WT=$1; ID=$2
export CARGO_NET_OFFLINE=true
cd $WT || exit 2
OUT=/verif/seeded/$ID; mkdir -p $OUT
cp SEEDED_patch.diff $OUT/patch.diff; cp SEEDED_demo.rs $OUT/demo.rs; cp SEEDED_meta.json $OUT/agent_meta.json 2>/dev/null
DEMO=paseto-test/tests/seeded_demo.rs
[ -f $DEMO ] || cp SEEDED_demo.rs $DEMO
mv $DEMO /tmp/seeded_demo_$ID.rs
suite=$(cargo test --workspace --no-fail-fast --offline 2>&1 | grep -E "^test result" | awk '{f+=$6} END {print f+0}')
mv /tmp/seeded_demo_$ID.rs $DEMO
with=$(cargo test -p paseto-test --test seeded_demo --offline 2>&1 | grep -E "^test result" | tail -1)
# (no `git stash`: the stash is shared by all worktrees of a repository)
git diff -- $(git diff --name-only | grep -v seeded_demo) > /tmp/verify_seed_$ID.diff
git apply -R /tmp/verify_seed_$ID.diff
without=$(cargo test -p paseto-test --test seeded_demo --offline 2>&1 | grep -E "^test result" | tail -1)
git apply /tmp/verify_seed_$ID.diff; rm -f /tmp/verify_seed_$ID.diff
echo "suite_failures_with_change=$suite"
echo "demo_with_change: $with"
echo "demo_without_change: $without"
