#!/usr/bin/env python3
"""regression over the kept seeded changes: apply each to /repo, run the checks its meta.json says must catch it (quick tier,
or thorough where the meta says so), undo; prints a table and exits 1 if a change that used to be caught is now missed.
usage: tools/seed_regress.py [<seed dir name> ...]"""
import json, os, subprocess, sys, time
VERIF = os.path.dirname(os.path.dirname(os.path.abspath(__file__)))
SEEDED = os.path.join(VERIF, "seeded")


def expected(meta):
    """checks whose recorded outcome is a VIOLATION (first-run misses count once strengthened)"""
    out = []
    for pid, txt in (meta.get("checks") or {}).items():
        t = txt.lower()
        if "violation" in t and not t.startswith("pass"):
            out.append((pid, "thorough" if t.startswith("quick: pass") else "quick"))
    return out


def run(cmd, **kw):
    return subprocess.run(cmd, capture_output=True, text=True, **kw)


def main():
    names = sys.argv[1:] or sorted(os.listdir(SEEDED))
    st = run(["git", "-C", "/repo", "status", "--porcelain", "--untracked-files=no"]).stdout.strip()
    if st:
        print("refusing: /repo has uncommitted changes"); return 2
    rows, missed = [], 0
    for n in names:
        d = os.path.join(SEEDED, n)
        mp = os.path.join(d, "meta.json")
        if not os.path.isdir(d):
            continue
        meta = json.load(open(mp)) if os.path.exists(mp) else {}
        patch, rev = os.path.join(d, "patch.diff"), False
        if not os.path.exists(patch):
            patch, rev = os.path.join(d, "fix.diff"), True
        exp = expected(meta)
        if not exp:
            exp = [(meta.get("property", n[:3]), "quick")] if meta else []
        if not exp or not os.path.exists(patch):
            rows.append((n, "-", "skipped (no expectation)")); continue
        r = run(["git", "-C", "/repo", "apply"] + (["-R"] if rev else []) + [patch])
        if r.returncode != 0:
            rows.append((n, "-", "patch does not apply: " + r.stderr.strip()[:80])); continue
        try:
            for pid, tier in exp:
                t0 = time.time()
                r = run([os.path.join(VERIF, "check"), pid, "--tier", tier], cwd=VERIF)
                v = [l for l in r.stdout.splitlines() if l.startswith("VIOLATION")]
                ok = r.returncode == 1 and bool(v)
                nfi = any("no-failing-input-found" in l for l in v)
                rows.append((n, pid, ("caught" + (" (NFI)" if nfi else " (FI)") if ok else "MISSED") + " %.0fs" % (time.time() - t0)))
                if not ok:
                    missed += 1
                print(rows[-1], flush=True)
        finally:
            run(["git", "-C", "/repo", "checkout", "--", "."])
    run([os.path.join(VERIF, "setup.sh")], cwd=VERIF)
    run(["git", "-C", VERIF, "checkout", "--", "evidence"])
    print("\n%-28s %-5s %s" % ("seed", "check", "result"))
    for r in rows:
        print("%-28s %-5s %s" % r)
    print("missed: %d" % missed)
    return 1 if missed else 0


if __name__ == "__main__":
    sys.exit(main())
