#!/usr/bin/env python3
"""apply a seeded change to /repo, run the given checks, undo it; prints which checks raised a violation
usage: tools/seedtest.py <patch.diff> <Cxx> [<Cxx> ...] [--reverse]"""
import subprocess, sys, os, json, time
VERIF = os.path.dirname(os.path.dirname(os.path.abspath(__file__)))
args = [a for a in sys.argv[1:] if not a.startswith("--")]
reverse = "--reverse" in sys.argv
patch, props = args[0], args[1:]
st = subprocess.run(["git", "-C", "/repo", "status", "--porcelain", "--untracked-files=no"], capture_output=True, text=True).stdout.strip()
if st:
    print("refusing: /repo has uncommitted changes:\n" + st); sys.exit(2)
cmd = ["git", "-C", "/repo", "apply"] + (["-R"] if reverse else []) + [os.path.abspath(patch)]
r = subprocess.run(cmd, capture_output=True, text=True)
if r.returncode != 0:
    print("patch does not apply:", r.stderr); sys.exit(2)
res = {}
try:
    for p in props:
        t0 = time.time()
        r = subprocess.run([os.path.join(VERIF, "check"), p, "--tier", "quick"], capture_output=True, text=True, cwd=VERIF)
        lines = [l for l in r.stdout.splitlines() if l.startswith("VIOLATION") or l.startswith("KNOWN-FINDING")]
        res[p] = {"rc": r.returncode, "lines": lines, "wall_s": round(time.time() - t0, 1)}
        rp = None
        for l in lines:
            if l.startswith("VIOLATION"):
                rp = l.split("replay=")[1].split(" ")[0]
        if rp and os.path.exists(rp):
            d = json.load(open(rp))
            res[p]["replay_kind"] = d.get("kind")
            res[p]["oracle"] = d.get("oracle")
            res[p]["op"] = (d.get("op_lines") or [""])[0][:160]
            res[p]["theorem"] = d.get("theorem")
        print(p, "rc=%d" % r.returncode, [l[:140] for l in lines], res[p].get("replay_kind"), (res[p].get("oracle") or "")[:100], res[p].get("theorem"))
finally:
    subprocess.run(["git", "-C", "/repo", "checkout", "--", "."], check=True)
    subprocess.run(["git", "-C", "/repo", "clean", "-fdq"], check=True)     # files a patch added (ignored build output stays)
    # restore generated facts to the clean tree's values
    subprocess.run([os.path.join(VERIF, "setup.sh")], capture_output=True, cwd=VERIF)
    # evidence files written while the change was applied describe a modified tree: put the committed ones back
    subprocess.run(["git", "-C", VERIF, "checkout", "--", "evidence"], capture_output=True)
print(json.dumps(res))
