#!/usr/bin/env python3
"""Source facts for C17 / C04: where `unsafe` occurs, which crates forbid it, and whether the library crates contain
any construct through which state could be shared or kept between calls (interior mutability, statics, thread
locals, lazily initialised globals).  Token-level scan (comments, strings and `#[cfg(test)]` items excluded) of
every `src/**/*.rs` of the library crates.  Emits lean/PasetoModel/Extracted/Source.lean.

Why this is a tie and not a lint: the concurrency model (`Conc.lean`) takes an operation to be a *function* of the
shared key and its own arguments.  In safe Rust a value reachable only through `&T` can be mutated, and state can
outlive a call, only through `UnsafeCell` (and the std types built on it), a `static`, a thread local, or `unsafe`
code.  The theorems over these facts say: none of the former exists in the library crates, and `unsafe` is confined
(by `forbid` / `deny` + explicit `allow`) to the three files whose contents are modelled separately."""
import os, re, sys
sys.path.insert(0, os.path.dirname(os.path.abspath(__file__)))
from rustlex import lex, tree, Tok, Group, is_tok, flat_text, drop_test_modules

LIB_CRATES = ["paseto-core", "paseto-json", "paseto-v1", "paseto-v2", "paseto-v3", "paseto-v3-aws-lc", "paseto-v4", "paseto-v4-sodium"]

INTERIOR = {"UnsafeCell", "Cell", "RefCell", "OnceCell", "OnceLock", "LazyLock", "LazyCell", "Lazy", "Mutex", "RwLock", "Condvar",
            "Once", "thread_local", "lazy_static", "once_cell", "SyncUnsafeCell", "ReentrantLock", "Barrier", "mpsc",
            "Semaphore", "parking_lot", "ArcSwap", "DashMap", "ThreadLocal", "LocalKey"}


def walk_tokens(group):
    for x in group.items:
        if isinstance(x, Tok):
            yield x
        else:
            yield from walk_tokens(x)


def calls_in_unsafe(group):
    """names of the functions / methods called directly inside `unsafe { .. }` blocks (anywhere below `group`), in order"""
    out = []
    items = group.items
    for i, x in enumerate(items):
        if isinstance(x, Group):
            if x.open == "{" and i > 0 and is_tok(items[i - 1], "unsafe"):
                def calls(g):
                    its = g.items
                    for j, y in enumerate(its):
                        if isinstance(y, Group):
                            if y.open == "(" and j > 0 and is_tok(its[j - 1], kind="ident"):
                                out.append(its[j - 1].text)
                            calls(y)
                calls(x)
            else:
                out.extend(calls_in_unsafe(x))
    return out


def scan(repo="/repo"):
    crates = [c for c in LIB_CRATES if os.path.isdir(os.path.join(repo, c, "src"))]
    # any other workspace member with a src/ that is not test / bench tooling is scanned too
    for d in sorted(os.listdir(repo)):
        if d.startswith("paseto-") and d not in crates and d not in ("paseto-test", "paseto-bench") and os.path.isdir(os.path.join(repo, d, "src")):
            crates.append(d)
    policy, allowed, unsafe_files, shared, unsafe_calls = [], [], [], [], []
    for c in crates:
        root = os.path.join(repo, c, "src")
        pol = "none"
        for dp, _, files in sorted(os.walk(root)):
            for fn in sorted(files):
                if not fn.endswith(".rs"):
                    continue
                path = os.path.join(dp, fn)
                rel = os.path.relpath(path, repo)
                t = drop_test_modules(tree(lex(open(path).read())))
                toks = list(walk_tokens(t))
                txt = flat_text(t.items).replace(" ", "")
                if rel == os.path.join(c, "src", "lib.rs"):
                    if "#![forbid(unsafe_code)]" in txt:
                        pol = "forbid"
                    elif "#![deny(unsafe_code)]" in txt:
                        pol = "deny"
                if re.search(r"#!?\[allow\([^\]]*unsafe_code", txt):
                    allowed.append(rel)
                n_unsafe = sum(1 for k in toks if k.kind == "ident" and k.text == "unsafe")
                if n_unsafe:
                    unsafe_files.append((rel, n_unsafe))
                if n_unsafe and "/lc/" not in rel.replace(os.sep, "/"):
                    unsafe_calls += [(rel, nm) for nm in calls_in_unsafe(t)]
                for i, k in enumerate(toks):
                    if k.kind != "ident":
                        continue
                    if k.text in INTERIOR or k.text.startswith("Atomic"):
                        # the local-key type of this library is `LocalKey`-named in places: only std::thread::LocalKey matters
                        if k.text == "LocalKey" and not (i >= 2 and toks[i - 1].text == "::" and toks[i - 2].text == "thread"):
                            continue
                        if k.text == "Once" and i + 1 < len(toks) and toks[i + 1].text != "::":
                            continue
                        shared.append((rel, k.text))
                    elif k.text == "static":
                        nxt = toks[i + 1].text if i + 1 < len(toks) else ""
                        if nxt == "mut":
                            shared.append((rel, "static mut"))
                        elif nxt not in ("", ):
                            # an immutable `static NAME: T = ..`: state only if T has interior mutability, which the
                            # token rule above reports on its own; record the item for the evidence, not as shared state
                            pass
        policy.append((c, pol))
    shared = sorted(set(shared))
    return dict(unsafe_calls=unsafe_calls, crates=crates, policy=policy, allowed=sorted(set(allowed)), unsafe_files=sorted(unsafe_files), shared=shared)


def q(s):
    return '"' + s.replace("\\", "\\\\").replace('"', '\\"') + '"'


def emit(repo="/repo"):
    d = scan(repo)
    L = ["/-! GENERATED on every run by tools/srcscan.py from /repo's current working tree. Do not edit. -/",
         "namespace PM.Extracted.Source",
         "/-- library crates scanned (every `src/**/*.rs`, `#[cfg(test)]` items excluded) -/",
         "def crates : List String := [%s]" % ", ".join(q(c) for c in d["crates"]),
         "/-- crate ↦ crate-level lint on `unsafe_code` in its lib.rs (`forbid` | `deny` | `none`) -/",
         "def unsafePolicy : List (String × String) := [%s]" % ", ".join("(%s, %s)" % (q(a), q(b)) for a, b in d["policy"]),
         "/-- files that re-allow `unsafe_code` -/",
         "def unsafeAllowed : List String := [%s]" % ", ".join(q(c) for c in d["allowed"]),
         "/-- files in which the keyword `unsafe` occurs, with the number of occurrences -/",
         "def unsafeFiles : List (String × Nat) := [%s]" % ", ".join("(%s, %d)" % (q(a), b) for a, b in d["unsafe_files"]),
         "/-- (file, construct): interior mutability, `static mut`, thread locals, lazily initialised globals, locks, atomics -/",
         "def sharedState : List (String × String) := [%s]" % ", ".join("(%s, %s)" % (q(a), q(b)) for a, b in d["shared"]),
         "/-- (file, function called inside an `unsafe { }` block), outside the aws-lc wrapper module (which `ffiscan` translates) -/",
         "def unsafeCalls : List (String × String) := [%s]" % ", ".join("(%s, %s)" % (q(a), q(b)) for a, b in d["unsafe_calls"]),
         "end PM.Extracted.Source", ""]
    return "\n".join(L), d


if __name__ == "__main__":
    sys.stdout.write(emit(sys.argv[1] if len(sys.argv) > 1 else "/repo")[0])
