#!/bin/bash
# verify the two changes (A, B) of a round-4 sub-agent in its scratch worktree; each: suite passes with the change, demo fails with it, passes without
# usage: verify_seed2.sh <worktree> <property id> <suffix>     -> seeded/<id><suffix>A, seeded/<id><suffix>B
set -u
WT=$1; ID=$2; SUF=$3
export CARGO_NET_OFFLINE=true
cd $WT || exit 2
git checkout -q -- . ; rm -f paseto-test/tests/seeded_demo.rs
for X in A B; do
  [ -f SEEDED_${X}_patch.diff ] || { echo "$X: no patch"; continue; }
  OUT=/verif/seeded/${ID}${SUF}${X}; mkdir -p $OUT
  cp SEEDED_${X}_patch.diff $OUT/patch.diff; cp SEEDED_${X}_demo.rs $OUT/demo.rs 2>/dev/null
  python3 - "$X" "$OUT" <<'PY'
import json,sys
try:
    m=json.load(open('SEEDED_meta.json')); json.dump({"property":m.get("property"), **(m.get(sys.argv[1]) or {})}, open(sys.argv[2]+"/agent_meta.json","w"), indent=1)
except Exception as e: print("meta:",e)
PY
  git apply SEEDED_${X}_patch.diff || { echo "$X: patch does not apply"; continue; }
  suite=$(cargo test --workspace --no-fail-fast --offline 2>&1 | grep -E "^test result" | awk '{f+=$6} END {print f+0}')
  cp SEEDED_${X}_demo.rs paseto-test/tests/seeded_demo.rs
  with=$(cargo test -p paseto-test --test seeded_demo --offline 2>&1 | grep -E "^test result" | tail -1)
  git checkout -q -- .
  without=$(cargo test -p paseto-test --test seeded_demo --offline 2>&1 | grep -E "^test result" | tail -1)
  rm -f paseto-test/tests/seeded_demo.rs
  echo "$X suite_failures_with_change=$suite | demo_with: $with | demo_without: $without"
done
