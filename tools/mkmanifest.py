#!/usr/bin/env python3
"""writes /verif/MANIFEST.json from the table below (kept next to the code so it stays current)"""
import json, os
VERIF = os.path.dirname(os.path.dirname(os.path.abspath(__file__)))
ALL = ["C%02d" % i for i in range(1, 20)]

BASE_NOTE = ("Trusted base: Lean 4.33 kernel (axioms audited per theorem on every run: propext, Classical.choice, Quot.sound only; no sorry/"
             "native_decide/bv_decide/implemented_by); the hand-written Lean model of the function bodies, tied to /repo's working tree on every run by "
             "(1) constants regenerated from the code through its public API into lean/PasetoModel/Extracted/*.lean and (2) the correspondence harness "
             "(/verif/harness) that runs the real library and the compiled model on the same operation lines; the harness generators and this driver. ")

CLAIMS = {
    "C15": dict(
        text=("Theorems over all piece lists, fragmentations and sizes: what pre_auth_encode writes equals the spec's PAE of the concatenated fragments "
              "(pae_eq_spec), PAE is decodable hence injective (unpae_pae, paeSpec_injective, pae_eq_iff, shift_changes), streaming writers receive the same bytes "
              "(writer_trace). Tie: the real pre_auth_encode is run for piece counts 0..10, 0..4 fragments, lengths 0..600 and compared byte-for-byte with the model "
              "and with an independent Python PAE."),
        note=BASE_NOTE + "Assumes lengths < 2^64 (explicit hypotheses). The digest/MAC writer adapters of the back ends are private; they are tied through the token streams of C02/C03.",
        technique="Lean 4 proof (induction over piece lists; decoder as injectivity witness) + differential correspondence with the real pre_auth_encode",
        design="§6 C15"),
    "C09": dict(
        text=("Bit-exact Lean mirror of base64.rs (i16 arithmetic as BitVec 16): decode(encode bs) = bs and decode s = bs -> encode bs = s for ALL byte lists/strings "
              "(finite 6-bit cores by kernel-checked tables over all 256/64/65536 cases, lifted by induction), strictness corollaries (alphabet only, no padding, "
              "length != 1 mod 4), and show/parse canonicity of tokens (up to one trailing '.'), KeyText, KeyId (33 bytes), PIE, PBKW, SEAL for every back end's header "
              "constants, also for a payload type with any encoding suffix (token_header_order: version ‖ suffix ‖ purpose). The arithmetic kernels decode_6bits / encode_6bits / decoded_len are additionally TRANSLATED FROM THE SOURCE on every run (tools/b64scan.py -> Extracted/B64Src.lean) and proved, about the translated source, to be the alphabet lookup on all 256 bytes, the alphabet on all 64 values and floor(3n/4) (vacuous, with a note in the evidence, if a kernel leaves the translator's subset). Tie: exhaustive over the finite decoder core through the real FromStr, plus ~90k strings through every FromStr/Display pair and serde, incl. a suffixed payload type."),
        note=BASE_NOTE + "Byte values 0xC0,0xC1,0xF5..0xFF cannot be fed through &str (covered by the table theorem only). serde_json's string codec is a dependency.",
        technique="Lean 4 proof (decide +kernel tables lifted by structural induction; arithmetic kernels translated from the source and decided over their whole domain) + exhaustive correspondence on the finite core",
        design="§6 C09"),
    "C10": dict(
        text=("The header table is re-extracted from the code each run; the kernel re-decides that the 102 full headers are pairwise prefix-free and equal exactly for "
              "the intended aliases (aliases_exactly_intended: same version and same form class, stated independently of the code's constants); cross_reject proves for ALL bodies that a value shown under one header is rejected by every parser with a different header. "
              "Tie: exhaustive 102 x 102 cross product of serialised values x parsers on the real library."),
        note=BASE_NOTE + "Key-length exactness and header binding of authenticated blobs are carried by C08/C06 theorems.",
        technique="Lean 4 proof (generic prefix argument + decide over the extracted header table) + exhaustive cross-product correspondence",
        design="§6 C10"),
    "C11": dict(
        text=("Validator expressions are an inductive type covering every public combinator (and_then, slices/Vec, Box, Rc, Arc, map, NoValidation) and built-in validator; "
              "eval mirrors each validate body incl. early returns and jiff's panicking Timestamp +- Duration. eval_exact (mutual induction, any depth): inside the property's guard evaluation "
              "never panics and returns Ok exactly when the specification's accepts holds, else ClaimsError; per-validator exactness corollaries; unseal releases claims only if the validator "
              "returned Ok (unseal_releases_only_validated, unseal_rejects). Tie: ~11k validator expressions built as real Rust values at every boundary timestamp, compared with the model and "
              "with an independent Python evaluator; unseal with validators on all six back ends."),
        note=BASE_NOTE + "jiff's Timestamp ordering/arithmetic enter as integer nanoseconds with the representable range re-read from jiff each run.",
        technique="Lean 4 proof (mutual structural induction over validator expressions) + differential correspondence",
        design="§6 C11"),
    "C14": dict(
        text=("Model of the hand-written Serialize/Deserialize visitor at serde's data model (member lists in document order, duplicates allowed). Theorems for ALL claims / member lists: "
              "claims_roundtrip, wire_form/absent_stays_absent/wire_order, ignores_unknown, order_irrelevant (any permutation, via commuting adjacent steps), agrees_with_generic "
              "(last-duplicate-wins reading, incl. the null-then-value corner), Json wrapper transparency and empty-footer error. Tie: JSON text built from generated member lists "
              "(3 escape styles) fed to the real decoder and to serde_json::Value; encode checked for RFC 3339 and ns-exact round trip over jiff's full range. The JSON TEXT itself is modelled too (Json.lean: serde_json's compact string escaping, jiff's RFC 3339 Display, object layout) and compared with RegisteredClaims::encode BYTE FOR BYTE on every run (claims.json), with theorems wire_is_compact_object, wire_strings_decodable (unescape ∘ escape = id), wire_strings_no_control, wire_timestamps_rfc3339_shape."),
        note=BASE_NOTE + "serde_json's tokenizer and jiff's RFC 3339 codec are dependencies: a string value carries what jiff's parser makes of it, supplied by the implementation and re-checked at exec time.",
        technique="Lean 4 proof (induction over member lists, permutation induction; escape codec round trip) + differential correspondence incl. byte-exact JSON text and generic-parser oracle",
        design="§6 C14"),
    "C01": dict(
        text=("One skeleton for local tokens (6 back ends) and one for public tokens, parametric in a scheme; local_roundtrip holds for every scheme with the length/inverse laws and the concrete "
              "executable instances satisfy them by construction; nonce_draw_is_consumed is re-decided against V::nonce()?.len() re-read from the running code; pipeline_roundtrip_local covers "
              "seal(own nonce)->Display->FromStr->unseal->decode->validate; public_roundtrip for every scheme whose signatures verify (PublicLaws, hypothesis); fixed-width signature serialisation. "
              "Tie: encrypt()/sign() with the library's own randomness round-tripped on all back ends (thousands of randomised signatures), own-nonce tokens opened by the model, injected-nonce tokens byte-compared."),
        note=BASE_NOTE + "Correctness of the signature primitives (sign then verify) is a hypothesis (PublicLaws); the Lean primitives are validated against three implementations, not proved.",
        technique="Lean 4 proof (generic over scheme records; concrete instance by fixLen construction; decide over extracted facts) + differential correspondence + own-RNG round-trip oracle",
        design="§6 C01"),
    "C02": dict(
        text=("Exact acceptance characterisations for every back end (unsealLocal_ok_iff, unsealPublic_ok_iff: accepted IFF the payload splits into exactly-sized nonce/ciphertext/tag resp. message/signature and the "
              "tag EQUALS the MAC of the PAE of exactly these components / the signature verifies), full-length tag comparison, uniqueness of the split, injectivity of the authenticated input in every component "
              "(from C15), assertion refusal on v1/v2, and an explicit reduction of any accepted non-issued token to a MAC forgery (Unforgeable is a hypothesis of the corollary only). "
              "Tie: ~38k mutants (bit flips, truncations, extensions, boundary shifts, footer/assertion edits, relabels, neighbour keys) must be rejected by the library and by the model."),
        note=BASE_NOTE + "The final step 'no forged tag verifies' is MAC/signature unforgeability: a stated hypothesis, not claimed. A second valid ECDSA signature (r, n-s) is outside the property's mutation list.",
        technique="Lean 4 proof (iff characterisation + PAE injectivity + reduction) + mutation correspondence",
        design="§6 C02"),
    "C03": dict(
        text=("specCfg instance = specification model (written from the PASETO documents; all 36 local vectors reproduce), cfgOf instance = implementation model; impl_eq_spec proved generically, "
              "counters_full_width decided on cfgOf; ctr64_eq_ctr128 / ctr64_ne_ctr128 characterise exactly when a 64-bit counter deviates; siblings_agree_v3/v4. Tie: injected-nonce tokens byte-identical to the model "
              "(incl. zero/ones/carry nonces), specification-built tokens (two-stage) opened by every back end incl. v1 tokens whose embedded counter wraps, siblings compared directly, Ed25519 and RFC 6979 ECDSA signatures "
              "byte-identical, randomised signatures verified by the independent Lean verifier and model-built ones by the library."),
        note=BASE_NOTE + "The hand-written cfgOf fields (counter width, padding) are kept honest by the correspondence on the inputs where they matter (carry nonces, spec-built tokens).",
        technique="Lean 4 proof (generic impl = spec under decidable conformance; omega for counter arithmetic) + three-way differential correspondence",
        design="§6 C03"),
    "C12": dict(
        text=("tokenUnseal mirrors SealedToken::unseal with a trace of invoked caller code: auth_fail_no_events, auth_fail_independent, decode_only_after_unseal_ok, validate_only_after_decode, trace_order; "
              "per back end decode_implies_authentic_local/public (decoder invoked only if the tag equals the MAC of exactly these components / the signature verified) and the possible error kinds. "
              "Tie: (a) scripted Version/Payload/Validate drive the real pipeline through every outcome combination, traces compared; (b) all C02 mutants on six back ends with recording decoder/validator: counts stay 0."),
        note=BASE_NOTE + "The accessor clause (unverified_footer only) is a compile-time fact covered with C18's probes.",
        technique="Lean 4 proof (trace semantics of the pipeline + acceptance iff) + recording-decoder correspondence",
        design="§6 C12"),
    "C05": dict(
        text=("Generic PIE / PBKW / PKE skeletons with round-trip and length theorems (pie_roundtrip, pie_len, pbkw_roundtrip, pbkw_len, pke_roundtrip incl. blob length) for every instantiation with the laws; "
              "PIE and PBKW concrete instances need no hypothesis; PKE needs decap(encap) = context (DH / RSA correctness, PkeLaws) and the fixed encapsulation length, proved for the concrete X25519 and padded RSA-KEM instances; "
              "kem_ct_padded decided on cfgOf. Tie: library wraps (own randomness) round-tripped with length check on all back ends incl. thousands of RSA-KEM seals; library blobs unwrapped by the model."),
        note=BASE_NOTE + "DH / RSA correctness of the primitives is a hypothesis (PkeLaws.decap_encap), validated by two-way correspondence (model seals -> library unseals, library seals -> model unseals).",
        technique="Lean 4 proof (generic skeleton + laws) + own-RNG round-trip oracle + differential correspondence",
        design="§6 C05"),
    "C06": dict(
        text=("Exact acceptance characterisations pieUnwrap_ok_iff / pbkwUnwrap_ok_iff / pkeUnseal_ok_iff for every back end (accepted IFF exact widths and tag = MAC under the derived key of version||header||nonce-or-prefix||ciphertext "
              "resp. header||encapsulation||encrypted key), injectivity of the concatenated MAC input from fixed widths + prefix-free headers (auth_input_injective, wrap_headers_prefix_free from C10), reduction to MAC forgery. "
              "Tie: ~2.8k mutants / relabels / foreign secrets per run rejected by library and model."),
        note=BASE_NOTE + "Unforgeability is a hypothesis. Known finding (recorded): k1/k3 PBKW accepts a password differing only by trailing zero bytes (HMAC key padding of the prescribed PBKDF2) - a KDF collision in the theorem's terms.",
        technique="Lean 4 proof (iff characterisations + injectivity + reduction) + mutation correspondence",
        design="§6 C06"),
    "C07": dict(
        text=("pie/pbkw/pke_impl_eq_spec under a decidable Conforms predicate on cfgOf; counters_full_width, kem_padded decided; sibling theorems (pie_siblings; PBKW siblings agree on the common parameter domain, and exactly where they differ is stated). "
              "Tie: pie.re / pw.re (model re-wraps with the embedded nonce/salt/params and must reproduce the library's bytes), specification-built blobs incl. all-ones / ff..fe counter blocks unwrapped by every back end, "
              "siblings unwrap each other's output, model-sealed keys unsealed by the library (X25519, P-384 ECDH, RSA-KEM)."),
        note=BASE_NOTE + "v4 vs v4-sodium differ on Argon2 parameters outside the common domain (p != 1, memory not a multiple of 1024): recorded in DESIGN as a back-end restriction, both are modelled (argonParallel, argonMemMod1024).",
        technique="Lean 4 proof (impl = spec under decidable conformance) + re-wrap bit-exactness correspondence + two-stage spec-built blobs",
        design="§6 C07"),
    "C08": dict(
        text=("keyDecodeWith mirrors every back end's acceptance checks on canonical encodings: decode_returns_input / decode_idempotent for all kinds whose decoder keeps the bytes, decode_idempotent_p384 under the point-compression law, "
              "exact lengths, scalar range, ed_public_half_consistent, off-curve / infinity rejection under cfg flags with the flags decided on cfgOf (all_check_on_curve, all_reject_infinity, all_check_public_half). "
              "Tie: 5.5k key byte strings per run (every length 0..128 x 5 kinds x 6 back ends, boundary scalars, every point-encoding class, PEM/DER) compared with the model; o.key / o.keypair oracles for idempotence, clone, text, derived public key."),
        note=BASE_NOTE + "Known finding (recorded): Ed25519 small-order points incl. the identity are accepted (required by the official PASERK vectors). RSA key validation and DER are modelled from the rsa crate's rules.",
        technique="Lean 4 proof (case analysis of decoders; decide over cfgOf) + exhaustive-length correspondence",
        design="§6 C08"),
    "C13": dict(
        text=("keyId = hash33(version || id header || canonical PASERK text) by definition of the model tied to the code; id_len, id_sibling_eq, id_stable_text, id_of_equal_canonical, id_inputs_distinct (domain separation from prefix-free id headers), "
              "keyid_text_roundtrip, keyid_33, keyid_eq_iff_text_eq. Tie: ids of all key classes on all back ends byte-compared with the model (SHA-384 / BLAKE2b in Lean), PEM vs DER, compressed vs uncompressed, related keys distinct, Eq/Ord/Hash vs bytes."),
        note=BASE_NOTE + "Distinctness of ids of different kinds reduces to hash collision resistance (stated, not claimed).",
        technique="Lean 4 proof + differential correspondence on real hashes",
        design="§6 C13"),
    "C04": dict(
        text=("Panic sites are explicit Res.panic branches of the model. Theorems: a literal transcription of base64 decode_inner with every slice index / copy_from_slice as a potential panic equals the total mirror (decodeVecLit_eq) and never panics; "
              "no-panic theorems for every FromStr, unseal (local/public), PIE/PBKW unwrap, PKE unseal and key decoder of every back end; accepted_key_usable (the assert in compressed_pub_key is unreachable after the infinity fix); "
              "seal_no_panic_from_nonce; the aws-lc wrapper functions as ownership action lists, BOTH hand-transcribed (ffi_paths_balanced) AND regenerated from lc/mod.rs on every run by a translator (tools/ffiscan.py -> Extracted/Ffi.lean: extracted_ffi_paths_balanced, every aws-lc call treated as a possible exit), with the checker's verdict proved sound (run_no_double_free, run_no_leak, ok_sound_all: frees.Nodup and everything still allocated at exit is owned by the returned value, for every failure index); wrapper semantics of lc/ptr.rs re-read (ffi_wrappers_as_modelled); the only unsafe operation outside lc/ is from_utf8_unchecked on encoder output (unsafe_calls_outside_ffi + write_to_fmt_utf8_safe); the set_len contract of append_to_vec. "
              "Tie: ~100k malformed inputs per run under catch_unwind (all FromStr, every payload length 0..700, every blob length 0..300, all key strings, accepted keys re-used), process death bisected; supporting run of the aws-lc / libsodium inputs under valgrind memcheck."),
        note=BASE_NOTE + "PARTIAL: aborts inside aws-lc/libsodium, allocator failure, stack overflow in dependencies and memory safety of the C libraries cannot be exhibited; the FFI ownership model is regenerated from lc/mod.rs by a syntactic translator with a trusted classification table of the aws-lc API and linearised control flow (DESIGN 12.9).",
        technique="Lean 4 proof (explicit panic branches shown unreachable; FFI ownership model regenerated from the source by a translator, exhaustive path check by decide with a soundness theorem for the checker) + malformed-input correspondence under catch_unwind + valgrind memcheck (supporting)",
        design="§6 C04"),
    "C16": dict(
        text=("Randomised operations of the getrandom-based back ends written against an explicit random source (list of answers, each bytes or failure). Theorems: fail-closed for encrypt, PIE, PBKW (both draw indices), key sealing, key generation and "
              "rejection sampling after any number of rejected candidates; the drawn bytes ARE the embedded nonce/salt/seed (token_nonce_is_draw, pie_nonce_is_draw, pie_draws_distinct, pbkw_salt_nonce_are_draws, *_is_draw); the request-level source refines a byte stream with failure points and requests are chunking independent (draw_is_stream_take, requests_are_chunking_independent). "
              "Tie: harness rebuilt with the getrandom custom backend; outputs for scripted answers compared bit-for-bit with the model for v1-v4, failure injected at every draw index; 10^4..10^5 consecutive operations per kind on all six back ends checked for distinct nonces."),
        note=BASE_NOTE + "PARTIAL: aws-lc, libsodium and rsa's OsRng cannot be failed from outside (success path and freshness only); distinctness of OS randomness is statistical; v1/v2 synthetic nonces reduce to a MAC collision (stated).",
        technique="Lean 4 proof over an explicit random-source oracle + scripted-RNG correspondence with failure injection at every draw",
        design="§6 C16"),
    "C17": dict(
        text=("System model: one shared immutable key, threads running operations atomically on it. Invariant by induction over schedules (inv_run): key_never_modified, interleaving_independent (every complete schedule gives each thread its sequential results), "
              "partial_results_are_sequential_prefix, schedules_agree, after_failures_same; clone paths of the aws-lc wrappers balanced (hand model and the action lists regenerated from lc/mod.rs). The model's premise (an operation is a function of the key) is re-read from the source on every run: no_shared_mutable_state (token scan of all eight library crates for UnsafeCell-based types, static mut, thread locals, lazily initialised globals, locks, atomics: tools/srcscan.py -> Extracted/Source.lean), unsafe_confined (forbid/deny(unsafe_code) in every crate, re-allowed only in base64.rs and lc/mod.rs), send_sync_keys_are_read_only (the only unsafe impls are Send/Sync for the two EC_KEY wrappers and no function writes through or releases an aws-lc object it holds by shared reference). "
              "Tie: 2/4/8/16 threads sharing Arc'd keys on every back end running mixed succeeding and failing operations, each result checked against the sequential oracle, key fingerprints compared before/after and against a fresh copy."),
        note=BASE_NOTE + "PARTIAL: data races inside aws-lc/libsodium and the soundness of `unsafe impl Send/Sync` cannot be exhibited by the model; it shows the Rust side keeps no shared mutable state and ownership is unique.",
        technique="Lean 4 proof (invariant over all schedules by induction; premise decided over facts regenerated from the source by translators) + threaded oracle runs",
        design="§6 C17"),
    "C18": dict(
        text=("The trait-implementation table is re-read from rustc on every run (inherent-const-shadows-trait-const probes) into Extracted/Impls.lean; Types.lean transcribes the bounds of every catalogued operation; types_match_policy: for EVERY operation at EVERY "
              "type-argument combination typechecks = allowed (kernel-checked case analysis), with corollaries (cross-version, wrong purpose, PKE key as signing key, public key not wrappable, secrets not printable, unsealed tokens not serialisable, private fields). "
              "Tie: 456 programs (each forbidden combination and its well-typed counterpart, per back end) compiled by rustc; verdict equals the model's and the independently computed policy; error code families recorded."),
        note=BASE_NOTE + "PARTIAL: rustc is the implementation of the type system; only the catalogued operations are modelled.",
        technique="Lean 4 proof (decision table over the extracted impl table = policy) + compile-probe correspondence",
        design="§6 C18"),
    "C19": dict(
        text=("Feature tables (Cargo.toml, cross-checked with cargo metadata) and an item-level scan of #[cfg(feature)] gates with the optional crates / gated items each gated context references are regenerated each run; closure / evalCfg / consistent in Lean; "
              "all_subsets_consistent for all 2^9 subsets of each of paseto-v1..v4; gates_item_level (no cfg!, no statement-level gates, no gated associated items inside impl/trait bodies, so an included item's source is feature-independent). "
              "Tie: (a) cargo check --no-default-features --features S for feature closures (quick: covering set; thorough: all distinct closures) plus paseto-core +-serde and paseto-json +-claims; the model's verdict must equal cargo's; "
              "(b) reduced-build smoke binaries (/verif/smoke): one binary per crate and feature set, availability of each operation decided by its trait bound, outputs on tokens / key texts / ids / wrapped keys made by the full library must equal the all-features build's."),
        note=BASE_NOTE + "PARTIAL: cargo/rustc decide what builds; the gate scan is syntactic (explicit paths). Behavioural equality of reduced builds is shown by gates_item_level (same source) and observed by the smoke binaries on generated inputs.",
        technique="Lean 4 proof (decide over all feature subsets of the scanned gate table) + cargo check correspondence + reduced-build differential runs",
        design="§6 C19, §12"),
}

def main():
    checks = []
    for pid in ALL:
        if pid in CLAIMS:
            c = CLAIMS[pid]
            checks.append({
                "property_id": pid,
                "quick_cmd": "./check %s --tier quick" % pid,
                "thorough_cmd": "./check %s --tier thorough" % pid,
                "evidence_file": "evidence/%s.json" % pid,
                "replay_cmd_template": "./check %s --replay {path}" % pid,
                "engine": "lean-model+harness",
                "level_claimed": {"category": "proof", "text": c["text"], "design_ref": c["design"]},
                "level_note": c["note"],
                "technique": c["technique"],
            })
    na = [{"property_id": p, "reason": "not yet claimed: model/theorems for this property are still under construction (see DESIGN.md §9 for the order)"}
          for p in ALL if p not in CLAIMS]
    m = {
        "version": 1,
        "setup_cmd": "./setup.sh",
        "hooks": {"guard": "none (no source hooks in /repo; the harness uses only public API, open traits and the getrandom custom-backend cfg of a dependency)",
                  "enable": "n/a", "baseline_off_cmd": "cd /repo && cargo test --workspace --no-fail-fast --offline",
                  "source_commits": [], "add_only": True},
        "engines": [{"name": "lean-model+harness", "path": "lean/ harness/ tools/ check",
                     "serves_properties": sorted(CLAIMS), "kind_free_text": "Lean 4 model + property theorems; Rust correspondence harness; Python check driver"}],
        "checks": checks,
        "not_applicable": na,
        "notes": "All checks rebuild the harness from /repo's working tree, regenerate the extracted facts, rebuild the Lean obligations and run the correspondence streams.",
    }
    json.dump(m, open(os.path.join(VERIF, "MANIFEST.json"), "w"), indent=1)
    print("claimed:", sorted(CLAIMS))

if __name__ == "__main__":
    main()
